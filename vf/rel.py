"""Transport of floating-point tensors to TLC as exact two-limb fixed-point numbers (spec/rel/Fx.tla) and
the assertion language of spec/rel/Check_Rel.tla."""
import itertools

import numpy as np

from . import tlc, worlds

UNIT = 10 ** 10     # observations are shipped in units of 1e-10 * scale
BASE = 10 ** 5


def fx(x, scale):
    n = int(round(float(x) / scale * UNIT))
    a = int(n / BASE) if n >= 0 else -int((-n) / BASE)
    return [a, n - a * BASE]


def fxmat(T, scale):
    return [[fx(v, scale) for v in row] for row in np.asarray(T, dtype=float)]


def to_latt(crys, T):
    """Contravariant components of a Cartesian rank-2 tensor in lattice coordinates."""
    return np.dot(crys.invlatt, np.dot(np.asarray(T, dtype=float), crys.invlatt.T))


def tol_units(rel):
    return max(1, int(round(rel * UNIT)))


def a_sym(name, t, rel=1e-8):
    return {"name": name, "kind": "sym", "t": t, "terms": [], "tol": tol_units(rel), "e": []}


def a_inv(name, t, rel=1e-8):
    return {"name": name, "kind": "inv", "t": t, "terms": [], "tol": tol_units(rel), "e": []}


def a_zero(name, terms, rel=1e-8):
    return {"name": name, "kind": "zero", "t": "", "terms": [[int(c), t] for c, t in terms], "tol": tol_units(rel),
            "e": []}


def a_bits(name, x, y):
    """Bit-for-bit equality of two float arrays, decided by TLC on the hex strings of their bytes."""
    hx = lambda v: np.ascontiguousarray(np.asarray(v, dtype=float)).tobytes().hex()
    return {"name": name, "kind": "bits", "t": "", "terms": [], "tol": 0, "e": [], "s1": hx(x), "s2": hx(y)}


def a_inv4(name, grid, rel=1e-8):
    return {"name": name, "kind": "inv4", "t": "", "terms": grid, "tol": tol_units(rel), "e": []}


def to_latt4(crys, T4):
    """All-contravariant lattice components of a Cartesian rank-4 tensor."""
    Ai = crys.invlatt
    return np.einsum("ai,bj,ck,dl,ijkl->abcd", Ai, Ai, Ai, Ai, np.asarray(T4, dtype=float))


def a_psd(name, terms, rel=1e-8, tensors=None):
    e = []
    if tensors is not None:
        M = sum(c * np.asarray(tensors[t], dtype=float) for c, t in terms)
        M = 0.5 * (M + M.T)
        wv, V = np.linalg.eigh(M)
        v = V[:, 0]
        if np.max(np.abs(v)) > 0:
            e = [int(x) for x in np.round(v / np.max(np.abs(v)) * 9)]
            if all(x == 0 for x in e):
                e = []
    return {"name": name, "kind": "psd", "t": "", "terms": [[int(c), t] for c, t in terms], "tol": tol_units(rel),
            "e": e}


def make_case(w, tensors, asserts, usegroup=True, scale=None):
    """tensors: name -> d x d float array in LATTICE coordinates."""
    if scale is None:
        scale = max([float(np.max(np.abs(T))) for T in tensors.values()] + [1e-300])
    if not np.isfinite(scale):
        raise ValueError("non-finite tensor")
    return {"w": {k: w[k] for k in ("dim", "M", "D", "basis")}, "usegroup": bool(usegroup), "scale": scale,
            "tensors": {n: fxmat(T, scale) for n, T in tensors.items()}, "asserts": asserts}


def run_rel(ctx, cases, metas, shards=8):
    """Run Check_Rel over the cases; metas[i] = (key, description, payload, nontrivial)."""
    fails, infos, results = tlc.run_cases("Check_Rel", cases, shards=shards)
    for r in results:
        ctx.add_model(r)
    for i, (key, desc, payload, nontrivial) in enumerate(metas):
        ctx.case(key, nontrivial=nontrivial)
        if i in fails:
            names = sorted(set(fails[i]))
            base = key.split("#")[0]
            vkey = ("rel|%s|%s" % (base[len("namelast:"):], "+".join(names[:6])) if base.startswith("namelast:")
                    else "rel|%s|%s" % ("+".join(names[:6]), base))
            ctx.violation(vkey,
                          "%s: TLC rejects assertion(s) %s (tolerance units 1e-10*scale, scale=%g)" % (
                              desc, names, cases[i]["scale"]),
                          {"meta": payload, "failed": names, "case": cases[i]})
    ctx.traces += len(cases)
    return fails, infos


# ------------------------------------------------------------------ calculators on worlds

def nn_shells(w, chem, nshell=3):
    """Exact squared lengths (grid units^2) of the shortest inter-site vectors of species chem (0-based)."""
    M = np.array(w["M"])
    D = w["D"]
    sp = w["basis"][chem]
    d2 = set()
    rng_ = range(-2, 3)
    for u in sp:
        for v in sp:
            for R in itertools.product(rng_, repeat=w["dim"]):
                dv = np.array(v) + D * np.array(R) - np.array(u)
                q = int(np.dot(dv, np.dot(M, dv)))
                if q > 0:
                    d2.add(q)
    return sorted(d2)[:nshell]


def cutoff_for(w, chem, shell=1, unit=1.0):
    """A jump cutoff midway between shell `shell` and the next one (never on a shell)."""
    s = nn_shells(w, chem, shell + 1)
    lo = s[shell - 1]
    hi = s[shell] if len(s) > shell else lo * 2
    return unit * np.sqrt(0.5 * (lo + hi) / w.get("q", 1)) / w["D"]


LN2 = float(np.log(2.0))
