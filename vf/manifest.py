"""Generate /verif/MANIFEST.json from vf.registry."""
import json
import os

from .registry import CLAIMS, NOT_YET

VERIF = os.path.dirname(os.path.dirname(os.path.abspath(__file__)))


def main():
    props = [json.loads(l)["id"] for l in open(os.path.join(VERIF, "properties.jsonl"))]
    checks, na = [], []
    for pid in props:
        c = CLAIMS.get(pid)
        if c is None:
            na.append({"property_id": pid, "reason": NOT_YET})
            continue
        if "not_applicable" in c:
            na.append({"property_id": pid, "reason": c["not_applicable"]})
            continue
        checks.append({
            "property_id": pid,
            "quick_cmd": "bin/check %s --tier quick" % pid,
            "thorough_cmd": "bin/check %s --tier thorough" % pid,
            "evidence_file": "/verif/evidence/%s.json" % pid,
            "replay_cmd_template": "bin/check %s --replay {path}" % pid,
            "engine": "tlc",
            "level_claimed": {"category": c.get("category", "model_checking"), "text": c["text"],
                              "design_ref": c.get("design", "")},
            "level_note": c["note"],
            "technique": c["technique"],
        })
    hooks = json.load(open(os.path.join(VERIF, "hooks.json")))
    m = {
        "version": 1,
        "setup_cmd": "cd /verif && bin/setup",
        "hooks": hooks,
        "engines": [{"name": "tlc", "path": "/verif/spec", "serves_properties": [c["property_id"] for c in checks],
                     "kind_free_text": "explicit TLA+ specifications checked by TLC 1.8; conformance by state-graph "
                                       "replay into the real objects and by TLC validation of recorded traces"}],
        "checks": checks,
        "not_applicable": na,
        "notes": "See DESIGN.md. KNOWN_FINDINGS.jsonl lists recorded findings and fix: commits.",
    }
    json.dump(m, open(os.path.join(VERIF, "MANIFEST.json"), "w"), indent=1)
    print("MANIFEST.json: %d checks, %d not_applicable" % (len(checks), len(na)))


if __name__ == "__main__":
    main()
