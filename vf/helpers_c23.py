"""Projection helpers shared by the C23 and C36 drivers (exact integer views of GroupOp / PairState /
ClusterSite / Cartesian quantities) and a recorder that turns a failing route into a violation.

Unlike worlds.op_project the translation is kept EXACT (grid units, not reduced modulo the lattice): for the
action on sites g and g + lattice vector are different maps.
"""
import numpy as np

from . import worlds


class RouteError(Exception):
    """A route produced no usable answer (e.g. cart2pos found no atom)."""


def ints(x, what="integer vector", tol=1e-6):
    return [int(v) for v in worlds.iround(np.asarray(x, dtype=float), tol, what)]


def imat(x, what="integer matrix", tol=1e-6):
    return [[int(v) for v in r] for r in worlds.iround(np.asarray(x, dtype=float), tol, what)]


def full_op(crys, g, D):
    """GroupOp -> {"rot", "t" (trans*D, exact integers), "perm" (1-based), "crot" (cartrot in lattice coordinates)}"""
    d = crys.dim
    rot, trans, cartrot = np.asarray(g.rot), np.asarray(g.trans), np.asarray(g.cartrot)
    if rot.shape != (d, d) or trans.shape != (d,) or cartrot.shape != (d, d):
        raise worlds.ProjectionError("operation fields have shapes %s %s %s in a %dD crystal" % (
            rot.shape, trans.shape, cartrot.shape, d))
    return {"rot": imat(rot, "rotation of an operation"),
            "t": ints(trans * D, "translation of an operation (grid units)"),
            "perm": [[int(i) + 1 for i in im] for im in g.indexmap],
            "crot": imat(np.dot(crys.invlatt, np.dot(cartrot, crys.lattice)), "Cartesian rotation in lattice coordinates")}


def grid(crys, x, N, what="Cartesian position"):
    """Cartesian vector -> integers in units of 1/N of the lattice vectors."""
    x = np.asarray(x, dtype=float)
    if x.shape != (crys.dim,):
        raise worlds.ProjectionError("%s has shape %s" % (what, x.shape))
    return ints(np.dot(crys.invlatt, x) * N, what)


def site(ci, L, dim):
    """(lattice vector, (c, i)) as returned by the library -> [[c+1, i+1], [L]]"""
    if ci is None:
        raise RouteError("no atom found at the position")
    L = np.asarray(L)
    if L.shape != (dim,):
        raise worlds.ProjectionError("lattice vector has shape %s" % (L.shape,))
    return [[int(ci[0]) + 1, int(ci[1]) + 1], ints(L, "lattice vector")]


def split(Lu, N, dim):
    """(lattice vector, unit-cell vector) -> [[L], [u*N]]"""
    L, u = Lu
    L, u = np.asarray(L), np.asarray(u, dtype=float)
    if L.shape != (dim,) or u.shape != (dim,):
        raise worlds.ProjectionError("lattice/unit-cell vector have shapes %s %s" % (L.shape, u.shape))
    return [ints(L, "lattice vector"), ints(u * N, "unit-cell vector (grid units)")]


def tensor_lattice(crys, T, what="tensor in lattice coordinates"):
    T = np.asarray(T, dtype=float)
    if T.shape != (crys.dim, crys.dim):
        raise worlds.ProjectionError("%s has shape %s" % (what, T.shape))
    return imat(np.dot(crys.invlatt, np.dot(T, crys.invlatt.T)), what)


def ps_fields(ps, dim):
    """PairState -> [i+1, j+1, [R]]   (the universal zero i=j=-1 becomes 0, 0)"""
    R = np.asarray(ps.R)
    if R.shape != (dim,):
        raise worlds.ProjectionError("pair state R has shape %s" % (R.shape,))
    return [int(ps.i) + 1, int(ps.j) + 1, ints(R, "pair state R")]


class Routes:
    """Collects observations [route, value]; a route that raises is remembered as an error instead."""

    def __init__(self):
        self.errors = []

    def obs(self, lst, name, fn):
        try:
            lst.append([name, fn()])
        except Exception as ex:      # includes ProjectionError / RouteError: reported by the driver, never dropped
            self.errors.append((name, type(ex).__name__, str(ex)[:300]))


def family(w):
    n = w.get("name", "?")
    return n.split("-D")[0] if n.startswith("rnd-") else n


def sorted_ops(crys):
    return sorted(crys.G, key=lambda g: (np.asarray(g.rot).tolist(), [round(float(x), 6) for x in g.trans]))
