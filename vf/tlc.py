"""Thin runner around TLC (tla2tools 1.8) used by every check.

Everything a check needs from TLC goes through `run`:
  * model checking of a spec with a generated .cfg,
  * state-graph dumps (`-dump dot,actionlabels`) parsed into nodes/edges for spec->code replay,
  * trace validation (the trace file path is passed through the environment, read with IOEnv).
Scratch files live in a per-run temp directory that is deleted when the run ends.
"""
import os
import re
import shutil
import subprocess
import tempfile
import time

VERIF = os.path.dirname(os.path.dirname(os.path.abspath(__file__)))
SPEC = os.path.join(VERIF, "spec")
JAR = "/opt/veriftools/tla/tla2tools.jar"
DEPS = "/opt/veriftools/tla/CommunityModules-deps.jar"
LIBDIRS = [os.path.join(SPEC, d) for d in ("lib", "world", "obj", "rel", "trace", "mc")]


class TLCError(RuntimeError):
    """Machinery failure (parse error, TLC crash, timeout) -- never a verdict."""


class TLCResult:
    def __init__(self, out, rc, wall):
        self.out = out
        self.rc = rc
        self.wall = wall
        m = re.search(r"(\d+) states generated, (\d+) distinct states found, (\d+) states left", out)
        self.generated = int(m.group(1)) if m else 0
        self.distinct = int(m.group(2)) if m else 0
        m = re.search(r"depth of the complete state graph search is (\d+)", out)
        self.depth = int(m.group(1)) if m else 0
        self.invariant_violated = None
        m = re.search(r"Error: Invariant (\S+) is violated", out)
        if m:
            self.invariant_violated = m.group(1)
        m = re.search(r"Error: Action property (\S+) is violated", out)
        if m:
            self.invariant_violated = m.group(1)
        self.postcondition_failed = "Postcondition" in out and "violated" in out
        self.deadlock = "Deadlock reached" in out
        self.finished = "Model checking completed" in out or "Finished in" in out
        self.error_lines = [l for l in out.splitlines() if l.startswith("Error:")]

    def prints(self, tag=None):
        """PrintT outputs that are TLA+ tuples starting with a string tag: <<"TAG", ...>>."""
        # TLC wraps values wider than 80 columns over several lines: join until the brackets balance
        res, buf, depth = [], None, 0
        for line in self.out.splitlines():
            line = line.strip()
            if buf is None:
                if not re.match(r'<<\s*"', line):      # wrapped tuples start with '<< "TAG",'
                    continue
                buf, depth = "", 0
            buf += (" " if buf else "") + line
            depth += line.count("<<") - line.count(">>")
            if depth <= 0:
                buf = re.sub(r'^<<\s+"', '<<"', buf)
                if tag is None or buf.startswith("<<\"%s\"" % tag):
                    try:
                        res.append(parse_tla_value(buf))
                    except Exception:
                        pass
                buf = None
            elif len(buf) > 200000:
                buf = None
        return res

    def clean(self):
        """True iff TLC ran to completion without reporting any error."""
        return self.rc == 0 and not self.error_lines and self.finished


_scratch_dirs = []


def scratch():
    d = tempfile.mkdtemp(prefix="vf_")
    _scratch_dirs.append(d)
    return d


def cleanup():
    while _scratch_dirs:
        shutil.rmtree(_scratch_dirs.pop(), ignore_errors=True)


def run(spec, cfg_text, workers=1, timeout=600, env=None, extra=None, dump=False,
        deadlock=False, simulate=None, coverage=False, depth_first=False, workdir=None):
    """Run TLC on module `spec` (file name relative to /verif/spec/<subdir>/ or absolute).

    cfg_text is the literal configuration; returns a TLCResult (plus .dot path if dump).
    """
    path = spec if os.path.isabs(spec) else _find(spec)
    wd = workdir or scratch()
    cfg = os.path.join(wd, os.path.basename(path).replace(".tla", "") + ".cfg")
    with open(cfg, "w") as f:
        f.write(cfg_text)
    meta = os.path.join(wd, "meta")
    libs = os.pathsep.join([os.path.dirname(path)] + LIBDIRS)
    cmd = ["java", "-XX:+UseParallelGC", "-Xss64m", "-Xmx8g", "-DTLA-Library=" + libs]
    if depth_first:
        cmd.append("-Dtlc2.tool.queue.IStateQueue=StateDeque")
    cmd += ["-cp", JAR + os.pathsep + DEPS, "tlc2.TLC", "-workers", str(workers), "-metadir", meta,
            "-noGenerateSpecTE", "-config", cfg]
    if not deadlock:
        cmd.append("-deadlock")  # -deadlock DISABLES deadlock checking
    dot = None
    if dump:
        dot = os.path.join(wd, "graph")
        cmd += ["-dump", "dot,actionlabels", dot]
        dot += ".dot"
    if simulate:
        cmd += ["-simulate", simulate]
    if coverage:
        cmd += ["-coverage", "1"]
    if extra:
        cmd += list(extra)
    cmd.append(path)
    e = dict(os.environ)
    e.pop("JAVA_TOOL_OPTIONS", None)
    if env:
        e.update({k: str(v) for k, v in env.items()})
    t0 = time.time()
    try:
        p = subprocess.run(cmd, cwd=wd, env=e, capture_output=True, text=True, timeout=timeout)
    except subprocess.TimeoutExpired as ex:
        raise TLCError("TLC timeout after %ss on %s" % (timeout, spec)) from ex
    res = TLCResult(p.stdout + p.stderr, p.returncode, time.time() - t0)
    res.cmd = " ".join(cmd)
    res.dot = dot
    res.workdir = wd
    if ("Parsing or semantic analysis failed" in res.out or "java.lang." in res.out
            and "Exception" in res.out and "TLC threw" in res.out):
        raise TLCError("TLC failed on %s:\n%s" % (spec, res.out[-4000:]))
    return res


def require_clean(res, what=""):
    if not res.clean():
        raise TLCError("TLC did not complete cleanly (%s):\n%s" % (what, res.out[-6000:]))
    return res


def _find(name):
    if not name.endswith(".tla"):
        name += ".tla"
    for d in LIBDIRS:
        p = os.path.join(d, name)
        if os.path.exists(p):
            return p
    raise TLCError("spec %s not found" % name)


# ------------------------------------------------------------------ TLA+ value parsing

_tok = re.compile(r"\s*(<<|>>|\{|\}|\[|\]|\(|\)|\|->|:>|@@|,|\"(?:[^\"\\]|\\.)*\"|-?\d+|[A-Za-z_][A-Za-z_0-9]*)")


def tokenize(s):
    pos = 0
    out = []
    while pos < len(s):
        m = _tok.match(s, pos)
        if not m:
            if s[pos:].strip() == "":
                break
            raise ValueError("cannot tokenize TLA value at: %r" % s[pos:pos + 40])
        out.append(m.group(1))
        pos = m.end()
    return out


def parse_tla_value(s):
    toks = tokenize(s)
    v, i = _pv(toks, 0)
    return v


def _pv(t, i):
    """Parse one value possibly followed by @@ / :> chains (function literals)."""
    v, i = _atom(t, i)
    if i < len(t) and t[i] == ":>":
        # k :> v  [@@ k :> v]*
        d = {}
        key = v
        val, i = _atom(t, i + 1)
        d[_hash(key)] = val
        while i < len(t) and t[i] == "@@":
            key, i = _atom(t, i + 1)
            assert t[i] == ":>"
            val, i = _atom(t, i + 1)
            d[_hash(key)] = val
        return d, i
    return v, i


def _hash(k):
    if isinstance(k, list):
        return tuple(_hash(x) for x in k)
    if isinstance(k, set):
        return frozenset(_hash(x) for x in k)
    return k


def _atom(t, i):
    tok = t[i]
    if tok == "<<":
        i += 1
        res = []
        while t[i] != ">>":
            v, i = _pv(t, i)
            res.append(v)
            if t[i] == ",":
                i += 1
        return res, i + 1
    if tok == "{":
        i += 1
        res = []
        while t[i] != "}":
            v, i = _pv(t, i)
            res.append(v)
            if t[i] == ",":
                i += 1
        return SetVal(res), i + 1
    if tok == "(":
        v, i = _pv(t, i + 1)
        assert t[i] == ")"
        return v, i + 1
    if tok == "[":
        i += 1
        d = {}
        while t[i] != "]":
            k = t[i]
            assert t[i + 1] == "|->", t[i:i + 3]
            v, i = _pv(t, i + 2)
            d[k] = v
            if t[i] == ",":
                i += 1
        return d, i + 1
    if tok.startswith('"'):
        return tok[1:-1], i + 1
    if re.fullmatch(r"-?\d+", tok):
        return int(tok), i + 1
    if tok == "TRUE":
        return True, i + 1
    if tok == "FALSE":
        return False, i + 1
    return tok, i + 1  # model value / identifier


class SetVal(list):
    """A TLA+ set parsed from text (kept as a list; order is TLC's print order)."""


# ------------------------------------------------------------------ DOT graph parsing

_node_re = re.compile(r'^(-?\d+) \[label="(.*)"(?:,style = filled)?\]?;?$')
_edge_re = re.compile(r'^(-?\d+) -> (-?\d+) \[label="(.*?)"')


def parse_dot(path):
    """Returns (nodes: id -> {var: value}, edges: [(src, dst, label)], init_ids)."""
    nodes, edges, inits = {}, [], []
    with open(path) as f:
        for line in f:
            line = line.strip()
            m = _edge_re.match(line)
            if m:
                edges.append((m.group(1), m.group(2), m.group(3)))
                continue
            if "[label=" in line and "->" not in line.split("[label=")[0]:
                nid = line.split(" ", 1)[0]
                m = re.search(r'\[label="((?:[^"\\]|\\.)*)"', line)
                lab = m.group(1)
                filled = "style = filled" in line
                st = {}
                conj = []   # TLC wraps long values over several lines: join continuation lines
                for part in lab.split("\\n"):
                    part = part.replace('\\"', '"').replace("\\\\", "\\").strip()
                    if part.startswith("/\\ ") or not conj:
                        conj.append(part[3:] if part.startswith("/\\ ") else part)
                    else:
                        conj[-1] += " " + part
                for part in conj:
                    if " = " in part:
                        k, v = part.split(" = ", 1)
                        st[k.strip()] = parse_tla_value(v)
                nodes[nid] = st
                if filled:
                    inits.append(nid)
    return nodes, edges, inits


def parse_action_label(lab):
    """'SetOcc(0,-2)' -> ('SetOcc', [0,-2]); 'Copy' -> ('Copy', [])."""
    lab = lab.strip()
    m = re.match(r"^([A-Za-z_0-9]+)\((.*)\)$", lab)
    if not m:
        return lab, []
    args = parse_tla_value("<<" + m.group(2) + ">>")
    return m.group(1), args


# ------------------------------------------------------------------ TLA+ value printing

def to_tla(v):
    """Python value -> TLA+ literal (ints, bools, str, list->tuple, set->set, dict->record/function)."""
    if isinstance(v, bool):
        return "TRUE" if v else "FALSE"
    if isinstance(v, int):
        return str(v)
    if isinstance(v, str):
        return '"%s"' % v
    if isinstance(v, (list, tuple)):
        return "<<" + ", ".join(to_tla(x) for x in v) + ">>"
    if isinstance(v, (set, frozenset)):
        return "{" + ", ".join(to_tla(x) for x in sorted(v, key=repr)) + "}"
    if isinstance(v, dict):
        if all(isinstance(k, str) for k in v):
            return "[" + ", ".join("%s |-> %s" % (k, to_tla(x)) for k, x in v.items()) + "]"
        return "(" + " @@ ".join("%s :> %s" % (to_tla(k), to_tla(x)) for k, x in v.items()) + ")"
    raise TypeError("cannot convert %r to TLA+" % (v,))


# ------------------------------------------------------------------ case checking

def run_cases(spec, cases, shards=8, timeout=1800, extra_env=None):
    """Evaluate a Check_* module over a list of JSON cases, sharded over several TLC processes.

    The module reads IOEnv.CASE_FILE (a JSON array), steps through it and prints
      <<"FAIL", k, "clause">>   for every failing clause of case k (1-based within the shard),
      <<"INFO", k, "name", value>>  for measured facts,
      <<"DONE", n>>             after the last case.
    Returns (fails: {global case index: [clauses]}, infos: {index: {name: value}}, results).
    A shard that does not print DONE is a machinery failure.
    """
    import json
    from concurrent.futures import ThreadPoolExecutor
    n = len(cases)
    if n == 0:
        return {}, {}, []
    shards = max(1, min(shards, n))
    parts = [list(range(i, n, shards)) for i in range(shards)]

    def one(part):
        wd = scratch()
        cf = os.path.join(wd, "cases.json")
        with open(cf, "w") as f:
            json.dump([cases[i] for i in part], f)
        env = {"CASE_FILE": cf}
        if extra_env:
            env.update(extra_env)
        res = run(spec, "INIT Init\nNEXT Next\n", workers=1, timeout=timeout, env=env, workdir=wd)
        done = res.prints("DONE")
        if not res.clean() or not done or done[-1][1] != len(part):
            raise TLCError("case run of %s did not complete:\n%s" % (spec, res.out[-5000:]))
        if res.out.count('"FAIL"') != len(res.prints("FAIL")):
            raise TLCError("could not parse every FAIL line of %s (%d printed, %d parsed)" % (
                spec, res.out.count('"FAIL"'), len(res.prints("FAIL"))))
        return part, res

    fails, infos, results = {}, {}, []
    with ThreadPoolExecutor(max_workers=shards) as ex:
        for part, res in ex.map(one, parts):
            results.append(res)
            for p in res.prints("FAIL"):
                fails.setdefault(part[p[1] - 1], []).append(p[2])
            for p in res.prints("INFO"):
                infos.setdefault(part[p[1] - 1], {})[p[2]] = p[3]
    return fails, infos, results
