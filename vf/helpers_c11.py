"""Helpers shared by the C11 and C12 drivers (interstitial calculators on worlds that are not in the
catalogue, lattice-form jump networks, strained twins of a calculator, exact dyadic thermodynamics)."""
import math
from fractions import Fraction

import numpy as np

from . import calc, rel, worlds

H_EXP = 12
H = 2.0 ** -H_EXP                 # exact central-difference step
HALF_INV_H = 2 ** (H_EXP - 1)     # 1 / (2h) = 2048: integer coefficient of the difference D+ - D-

# worlds beyond the catalogue: one diffusing species occupying SEVERAL inequivalent site types, and low site symmetry
EXTRA_WORLDS = {
    # orthorhombic mmm host, diffuser on two mm2 Wyckoff sets (0,0,+-z) and (1/2,1/2,+-z')
    "orthomm2": worlds.W("ortho", 8, [[[0, 0, 0]], [[0, 0, 3], [0, 0, 5], [4, 4, 1], [4, 4, 7]]]),
    # HCP with octahedral AND tetrahedral interstitial sites as one species
    "hcpOT": worlds.W("hcpideal", 24, [[[8, 16, 6], [16, 8, 18]],
                                       [[0, 0, 0], [0, 0, 12], [8, 16, 15], [8, 16, 21], [16, 8, 3], [16, 8, 9]]]),
    # FCC with octahedral AND tetrahedral interstitial sites as one species
    "fccOT": worlds.W("fcc", 4, [[[0, 0, 0]], [[2, 2, 2], [1, 1, 1], [3, 3, 3]]]),
    # BCC octahedral + tetrahedral sites as one species
    "bccOT": worlds.W("bcc", 4, [[[0, 0, 0]], [[2, 2, 0], [2, 0, 2], [0, 2, 2],
                                               [1, 3, 2], [3, 1, 2], [2, 1, 3], [2, 3, 1], [1, 2, 3], [3, 2, 1]]]),
    # monoclinic P2/m host, diffuser on the general position (site symmetry 1, vector basis spans all directions)
    "monogen": worlds.W("mono", 8, [[[0, 0, 0]], [[1, 2, 3], [7, 2, 5], [7, 6, 5], [1, 6, 3]]]),
    # orthorhombic mmm host, diffuser on the general position (8 sites)
    "orthogen": worlds.W("ortho", 8, [[[0, 0, 0]], [[1, 2, 3], [7, 6, 3], [7, 2, 5], [1, 6, 5],
                                                   [7, 6, 5], [1, 2, 5], [1, 6, 3], [7, 2, 3]]]),
    # triclinic P-1 host, diffuser on the general position
    "tricgen": worlds.W("tric", 8, [[[0, 0, 0]], [[1, 2, 3], [7, 6, 5]]]),
    # tetragonal host, diffuser on a mirror plane (site symmetry m: vector basis spans two directions)
    "tetm": worlds.W("tetra", 8, [[[0, 0, 0]], [[1, 1, 2], [7, 7, 2], [7, 1, 6], [1, 7, 6],
                                                 [7, 7, 6], [1, 1, 6], [1, 7, 2], [7, 1, 2]]]),
    # polar rectangular cell with two inequivalent diffuser sites and an extra shell
    "polarrect3": worlds.W("rect", 20, [[[0, 0]], [[10, 4], [10, 11], [0, 7]]]),
}


def shorten(asserts):
    """TLC wraps printed tuples longer than a line, and tlc.prints parses single lines only: assertions travel under
    short ids ("a7"); returns the list of full names (index = id)."""
    names = [a["name"] for a in asserts]
    for n, a in enumerate(asserts):
        a["name"] = "a%d" % n
    return names


def expand(printed, names, subclauses=None):
    """'a7/proj' -> '<full name of assertion 7>/<full sub-clause name>'."""
    head, _, sub = printed.partition("/")
    full = names[int(head[1:])]
    if sub:
        full += "/" + (subclauses or {}).get(sub, sub)
    return full


def replay(ctx, spec, subclauses=None):
    """--replay PATH: re-decide the recorded case (the exact transported observation of the failing evaluation, with its
    inputs in payload.meta) with TLC; the violation is reported again under the same key if TLC still rejects it."""
    import json
    from . import tlc
    rec = json.load(open(ctx.replay))
    case = rec["payload"].get("case") if isinstance(rec.get("payload"), dict) else None
    if case is None:
        raise tlc.TLCError("replay file %s holds inputs only (no transported case); rerun the tier with seed %s" % (
            ctx.replay, rec.get("seed")))
    fails, infos, results = tlc.run_cases(spec, [case], shards=1)
    for r in results:
        ctx.add_model(r)
    ctx.traces += 1
    ctx.case(rec["key"])
    if 0 in fails:
        ctx.violation(rec["key"], "replayed: TLC rejects %s" % sorted(set(fails[0])), rec["payload"])


def world_of(name):
    return EXTRA_WORLDS[name] if name in EXTRA_WORLDS else worlds.CATALOGUE[name]


def interstitial(name, chem, shell, rng, orient=True, connect=True):
    """Like calc.interstitial, for catalogue and extra worlds.  With connect, the jump shell is raised (at most 4
    times) until the network connects all sites of the cell: a disconnected network has no unique equilibrium (C12) and
    makes the projected rate matrix of a centrosymmetric crystal singular (the calculator then raises, which is not the
    subject of C11)."""
    from onsager import OnsagerCalc
    w = world_of(name)
    s = calc.Setup()
    s.name, s.chem = name, chem
    s.crys, s.unit = worlds.realise(w, rng if orient else None, orient=orient)
    s.w = worlds.observe(s.crys, s.unit, Dhint=w["D"])
    s.sitelist = s.crys.sitelist(chem)
    nsites = len(s.crys.basis[chem])
    for sh in range(shell, shell + 5):
        s.shell = sh
        s.cutoff = rel.cutoff_for(s.w, chem, sh, s.unit)
        s.jumpnetwork = s.crys.jumpnetwork(chem, s.cutoff)
        if not connect or components(nsites, [ij for cls in s.jumpnetwork for ij, dx in cls]) == 1:
            break
    s.calc = OnsagerCalc.Interstitial(s.crys, chem, s.sitelist, s.jumpnetwork)
    s.Nsite, s.Njump = len(s.sitelist), len(s.jumpnetwork)
    return s


def lattice_jump(crys, chem, i, j, dx):
    R = np.dot(crys.invlatt, dx) - crys.basis[chem][j] + crys.basis[chem][i]
    return (int(i), int(j), tuple(int(x) for x in worlds.iround(R, 1e-7, "lattice vector of a jump")))


def lattice_jumps(s):
    """The jump network in lattice form: per class the list of (i, j, L)."""
    return [[lattice_jump(s.crys, s.chem, i, j, dx) for (i, j), dx in cls] for cls in s.jumpnetwork]


def jump_len2(w, chem, ijL):
    """Exact squared length of a lattice-form jump in grid units^2 (canonical label of a jump class)."""
    i, j, L = ijL
    dv = np.array(w["basis"][chem][j]) + w["D"] * np.array(L) - np.array(w["basis"][chem][i])
    return int(np.dot(dv, np.dot(np.array(w["M"]), dv)))


def pow2_at_least(x):
    k = 0
    while 2.0 ** k < x:
        k += 1
    return k


def pow2_scale(x):
    """The smallest integer k (possibly negative) with 2^k >= x > 0; 0 for x = 0."""
    if not x > 0:
        return 0
    k = int(math.ceil(math.log2(x)))
    while 2.0 ** k < x:
        k += 1
    while 2.0 ** (k - 1) >= x:
        k -= 1
    return k


def strains(dim):
    """Integer covariant strains E_ab (one unit entry, or a symmetric pair of unit entries): a basis of all strains."""
    out = []
    for a in range(dim):
        for b in range(a, dim):
            E = np.zeros((dim, dim), dtype=int)
            E[a, b] = 1
            E[b, a] = 1
            out.append(("E%d%d" % (a, b), E))
    return out


def int_dipole(rng, dim, lo=-2, hi=2):
    """A random NON-symmetric integer tensor."""
    while True:
        P = np.array([[rng.randint(lo, hi) for _ in range(dim)] for _ in range(dim)])
        if dim == 1 or not np.array_equal(P, P.T):
            return P


class StrainedTwin:
    """The same jump network on the homogeneously strained crystal (1 + eps) A with eps = sign*h*A^-T E A^-1; every site and
    transition state gets the parent's energy minus P:eps (= sign*h * sum P_latt_kl E_kl) with P the POPULATED dipole.
    The library finds the (lower) symmetry of the strained crystal itself; classes are mapped back by lattice form."""

    def __init__(self, s, E, sign, h=H):
        from onsager import OnsagerCalc, crystal
        crys = s.crys
        A2 = crys.lattice + sign * h * np.dot(crys.invlatt.T, E)
        self.crys = crystal.Crystal(A2, [[np.array(u) for u in sp] for sp in crys.basis], chemistry=crys.chemistry,
                                    noreduce=True)
        for b1, b2 in zip(crys.basis, self.crys.basis):
            if len(b1) != len(b2):
                raise RuntimeError("strained crystal has a different basis")
            for u1, u2 in zip(b1, b2):
                dd = u1 - u2
                if not np.allclose(dd - np.round(dd), 0, atol=1e-12):
                    raise RuntimeError("strained crystal relabelled its basis")
        self.s, self.E, self.sign, self.h = s, E, sign, h
        self.sitelist = self.crys.sitelist(s.chem)
        self.jumpnetwork = self.crys.jumpnetwork(s.chem, s.cutoff)
        self.key = {}
        for k, cls in enumerate(lattice_jumps(s)):
            for m, ijL in enumerate(cls):
                self.key[ijL] = (k, m)
        self.classes = [[self.key.get(lattice_jump(self.crys, s.chem, i, j, dx)) for (i, j), dx in cls]
                        for cls in self.jumpnetwork]
        seen = set(km for cls in self.classes for km in cls)
        if None in seen or len(seen) != len(self.key):
            raise RuntimeError("strained crystal has a different jump set (%d of %d jumps)" % (len(seen), len(self.key)))
        self.calc = OnsagerCalc.Interstitial(self.crys, s.chem, self.sitelist, self.jumpnetwork)
        self.ngroup = len(self.crys.G)

    def diffusivity(self, args, site_dip_latt, jump_dip_latt):
        """Returns (D, spread): spread = largest disagreement of P:eps within one class of the strained crystal."""
        pre, be, preT, beT = args
        inv = self.s.calc.invmap
        f = self.sign * self.h
        spread = 0.0
        pre2, be2, preT2, beT2 = [], [], [], []
        for cls in self.sitelist:
            vals = [be[inv[i]] - f * float(np.sum(site_dip_latt[i] * self.E)) for i in cls]
            spread = max(spread, (max(vals) - min(vals)) / self.h)
            pre2.append(pre[inv[cls[0]]])
            be2.append(vals[0])
        for cls in self.classes:
            vals = [beT[k] - f * float(np.sum(jump_dip_latt[k][m] * self.E)) for k, m in cls]
            spread = max(spread, (max(vals) - min(vals)) / self.h)
            preT2.append(preT[cls[0][0]])
            beT2.append(vals[0])
        return self.calc.diffusivity(pre2, be2, preT2, beT2), spread


# ------------------------------------------------------------------ exact dyadic thermodynamics (C12)

def pow2(k):
    return Fraction(2) ** int(k)


def exact_site_weights(s, d):
    """pi_i = pre_i 2^-E_i for every SITE (exact), and rho_i = pi_i / Z."""
    inv = s.calc.invmap
    pi = [pow2(d["preL"][inv[i]]) * pow2(-d["eneL"][inv[i]]) for i in range(len(inv))]
    Z = sum(pi)
    return pi, [p / Z for p in pi]


def exact_ts_weights(d):
    """nu_J = preT 2^-ET per jump class (exact)."""
    return [pow2(p) * pow2(-e) for p, e in zip(d["preTL"], d["eneTL"])]


def components(n, edges):
    """Number of connected components of a graph on n nodes."""
    parent = list(range(n))

    def find(a):
        while parent[a] != a:
            parent[a] = parent[parent[a]]
            a = parent[a]
        return a
    for a, b in edges:
        parent[find(a)] = find(b)
    return len(set(find(a) for a in range(n)))


def frac_matrix(T):
    return [[Fraction(float(x)) for x in row] for row in np.asarray(T, dtype=float)]


def gcd_all(xs):
    g = 0
    for x in xs:
        g = math.gcd(g, int(x))
    return g
