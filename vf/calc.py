"""Builders for Interstitial / VacancyMediated calculators on catalogue worlds and for exact dyadic input
data (energies = integer multiples of ln 2, prefactors = powers of two), shared by the numeric checks."""
import numpy as np

from . import rel, worlds

LN2 = rel.LN2

INTERSTITIAL_WORLDS = [   # (world, species index of the diffuser, jump shell)
    ("fccoct", 1, 1), ("fccoct", 2, 1), ("hcpoct", 1, 1), ("hcpoct", 2, 2), ("polarrect", 1, 2),
    ("wurtzite", 1, 1), ("monodeco", 1, 2), ("tet2", 0, 1), ("honeycomb", 0, 1), ("omega", 0, 2),
    ("tric2", 0, 2), ("kagome", 0, 1), ("squarelieb", 1, 1), ("l12", 1, 1), ("rect2site", 0, 2),
]
VACANCY_WORLDS = [        # (world, species index of the vacancy sublattice, jump shell)
    ("fcc", 0, 1), ("hcp", 0, 2), ("square", 0, 1), ("honeycomb", 0, 1), ("bcc", 0, 1), ("hex2d", 0, 1),
    ("b2", 0, 1), ("polarrect", 1, 2), ("sc", 0, 1), ("diamond", 0, 1), ("rect2site", 0, 2), ("tet2", 0, 2),
    ("sqpolar", 1, 1), ("wurtzite", 0, 1),
]


class Setup:
    pass


_cache = {}


def crystal_for(name, rng, orient=True):
    w = worlds.CATALOGUE[name]
    crys, unit = worlds.realise(w, rng if orient else None, orient=orient)
    ow = worlds.observe(crys, unit, Dhint=w["D"])
    return crys, ow, unit


def interstitial(name, chem, shell, rng, orient=True):
    from onsager import OnsagerCalc
    s = Setup()
    s.name, s.chem, s.shell = name, chem, shell
    s.crys, s.w, s.unit = crystal_for(name, rng, orient)
    s.cutoff = rel.cutoff_for(s.w, chem, shell, s.unit)
    s.sitelist = s.crys.sitelist(chem)
    s.jumpnetwork = s.crys.jumpnetwork(chem, s.cutoff)
    s.calc = OnsagerCalc.Interstitial(s.crys, chem, s.sitelist, s.jumpnetwork)
    s.Nsite, s.Njump = len(s.sitelist), len(s.jumpnetwork)
    return s


def vacancy(name, chem, shell, Nthermo, rng, orient=True, NGFmax=4, cache=True):
    from onsager import OnsagerCalc
    key = (name, chem, shell, Nthermo, NGFmax, orient)
    if cache and not orient and key in _cache:
        return _cache[key]
    s = Setup()
    s.name, s.chem, s.shell, s.Nthermo = name, chem, shell, Nthermo
    s.crys, s.w, s.unit = crystal_for(name, rng, orient)
    s.sitelist = s.crys.sitelist(chem)
    # the Green function needs a network that percolates in every direction: take the first shell >= `shell`
    # for which the unit-rate diffusivity is positive definite
    for sh in range(shell, shell + 6):
        s.cutoff = rel.cutoff_for(s.w, chem, sh, s.unit)
        s.jumpnetwork = s.crys.jumpnetwork(chem, s.cutoff)
        if not s.jumpnetwork:
            continue
        D1 = OnsagerCalc.Interstitial(s.crys, chem, s.sitelist, s.jumpnetwork).diffusivity(
            np.ones(len(s.sitelist)), np.zeros(len(s.sitelist)), np.ones(len(s.jumpnetwork)),
            np.zeros(len(s.jumpnetwork)))
        if np.min(np.linalg.eigvalsh(0.5 * (D1 + D1.T))) > 1e-6:
            s.shell = sh
            break
    else:
        raise ValueError("no percolating network for %s" % name)
    s.calc = OnsagerCalc.VacancyMediated(s.crys, chem, s.sitelist, s.jumpnetwork, Nthermo, NGFmax=NGFmax)
    c = s.calc
    s.sizes = {"V": len(c.sitelist), "S": len(c.sitelist), "SV": c.thermo.Nstars, "T0": len(c.om0_jn),
               "T1": len(c.om1_jn), "T2": len(c.om2_jn)}
    if cache and not orient:
        _cache[key] = s
    return s


def levels(rng, n, lo=0, hi=2):
    return [rng.randint(lo, hi) for _ in range(n)]


def interstitial_data(s, rng, lo=0, hi=2, prelo=0, prehi=1):
    """Dyadic data: site energies k ln2, site prefactors 2^m, transition energies above both endpoints."""
    d = {"eneL": levels(rng, s.Nsite, lo, hi), "preL": levels(rng, s.Nsite, prelo, prehi),
         "eneTL": levels(rng, s.Njump, hi + 1, hi + 3), "preTL": levels(rng, s.Njump, prelo, prehi)}
    return d


def interstitial_args(d, kT=1.0):
    pre = np.array([2.0 ** m for m in d["preL"]])
    betaene = np.array([k * LN2 for k in d["eneL"]]) / kT
    preT = np.array([2.0 ** m for m in d["preTL"]])
    betaeneT = np.array([k * LN2 for k in d["eneTL"]]) / kT
    return pre, betaene, preT, betaeneT


def vacancy_data(s, rng, lo=0, hi=2, tracer=False, limb_jitter=1):
    """A thermodynamic dictionary (pre*/ene*) with dyadic values; omega1/omega2 from LIMB plus integer jitter."""
    c, z = s.calc, s.sizes
    d = {"preV": np.array([2.0 ** m for m in levels(rng, z["V"], 0, 1)]),
         "eneV": np.array([k * LN2 for k in levels(rng, z["V"], lo, hi)]),
         "preT0": np.array([2.0 ** m for m in levels(rng, z["T0"], 0, 1)]),
         "eneT0": np.array([k * LN2 for k in levels(rng, z["T0"], hi + 1, hi + 3)])}
    if tracer:
        d.update(c.maketracerpreene(**d))
        return d
    d["preS"] = np.array([2.0 ** m for m in levels(rng, z["S"], 0, 1)])
    d["eneS"] = np.array([k * LN2 for k in levels(rng, z["S"], lo, hi)])
    d["preSV"] = np.array([2.0 ** m for m in levels(rng, z["SV"], 0, 1)])
    d["eneSV"] = np.array([k * LN2 for k in levels(rng, z["SV"], -1, 1)])
    d.update(c.makeLIMBpreene(**d))
    d["eneT1"] = d["eneT1"] + np.array([k * LN2 for k in levels(rng, z["T1"], 0, limb_jitter)])
    d["eneT2"] = d["eneT2"] + np.array([k * LN2 for k in levels(rng, z["T2"], -limb_jitter, limb_jitter)])
    return d


def Lij(s, d, kT=1.0, **kw):
    c = s.calc
    return c.Lij(*c.preene2betafree(kT, **d), **kw)


NAMES4 = ("L0vv", "Lss", "Lsv", "L1vv")
