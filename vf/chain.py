"""Exact one-solute / one-vacancy Markov chain on a periodic n^dim supercell (the C01 oracle).

The states are (solute site a, vacancy site b, cell offset R of the vacancy relative to the solute) on an
n x n (x n) torus, without the coincident state.  The vacancy hops along the omega0 network; a hop that lands
on the solute site is an exchange (omega2), a hop between two states of the calculator's kinetic shell is an
omega1 jump of the class the calculator assigns to it, every other hop has the lone-vacancy (omega0) rate.
Rates follow the calculator's own input convention:  rate(s -> s') = exp(-(bFT[class] - bF(s))),
bF(s) = bFS[a] + bFV[b] + bFSV[thermodynamic star of s] (0 outside the thermodynamic shell).

For the finite chain the transport sums are computed with the standard fluctuation formula
    S_ab = 1/2 sum_s p_s sum_s' W_ss' dx_a dx_b  +  sum_s p_s v_a(s) . eta_b(s),   W eta_b = -v_b
in the calculator's normalisation (per unit-cell site, mean site probabilities 1), so that for n -> infinity
    S_ss -> Lss,  S_sv -> Lsv,  S_vv - S_vv(reference: same torus, solute transparent) -> L1vv.
The finite-size error falls like n^-dim; two sizes are Richardson-extrapolated by the caller.
"""
import itertools

import numpy as np


def _center(R, n):
    return np.array([(r + n // 2) % n - n // 2 for r in R], dtype=int)


def _solve(W, w, vel, dim):
    """Fluctuation sums for generator W (rates, no diagonal), stationary weights w and velocity dict."""
    M = len(w)
    Om = W - np.diag(W.sum(axis=1))
    sw = np.sqrt(w)
    Oms = Om * sw[:, None] / sw[None, :]
    u = sw / np.sqrt(np.dot(sw, sw))
    A = 0.5 * (Oms + Oms.T) - np.outer(u, u)
    B = np.hstack([vel[k] * sw[:, None] for k in sorted(vel)])
    X = np.linalg.solve(A, B)
    out = {}
    keys = sorted(vel)
    for p, kp in enumerate(keys):
        for q, kq in enumerate(keys):
            out[kp + kq] = B[:, p * dim:(p + 1) * dim].T @ X[:, q * dim:(q + 1) * dim]
    return out


def pair_chain(calcobj, crys, chem, bFV, bFS, bFSV, bFT0, bFT1, bFT2, n, record=None):
    """Returns (Sss, Ssv, Svv - Svv_ref, info) on the n^dim torus.  If record is a list, every transition is
    appended to it as (state, new state, kind, index into the hop list) -- the structure spec/rel/PairChain.tla
    defines and TLC enumerates."""
    from onsager import crystalStars as stars
    dim, basis = crys.dim, crys.basis[chem]
    N = len(basis)
    sitelist, om0_jn = calcobj.sitelist, calcobj.om0_jn
    invmap = {i: wy for wy, sites in enumerate(sitelist) for i in sites}
    kin, thermo = calcobj.kinetic, calcobj.thermo
    om1 = {(i, f): k for k, jl in enumerate(calcobj.om1_jn) for (i, f), dx in jl}
    om2 = {(i, f): k for k, jl in enumerate(calcobj.om2_jn) for (i, f), dx in jl}
    # the kinetic shell must fit in the torus without wrapping onto itself
    rmax = max(int(np.max(np.abs(PS.R))) for PS in kin.states)
    if 2 * rmax + 1 > n:
        raise ValueError("torus %d too small for kinetic shell (|R| up to %d)" % (n, rmax))
    cells = list(itertools.product(range(n), repeat=dim))
    states = [(a, b, R) for a in range(N) for b in range(N) for R in cells if not (a == b and not any(R))]
    index = {s: m for m, s in enumerate(states)}
    M = len(states)
    kinindex, E = [], np.zeros(M)
    for m, (a, b, R) in enumerate(states):
        c = _center(R, n)
        E[m] = bFS[invmap[a]] + bFV[invmap[b]]
        if int(np.max(np.abs(c))) <= rmax:
            ps = stars.PairState.fromcrys_latt(crys, chem, (a, b), c)
            kinindex.append(kin.stateindex(ps))
            st = thermo.starindex(ps)
            if st is not None:
                E[m] += bFSV[st]
        else:
            kinindex.append(None)
    ZS = sum(np.exp(-bFS[invmap[i]]) for i in range(N))
    ZV = sum(np.exp(-bFV[invmap[i]]) for i in range(N))
    w = np.exp(-E) * N * N / (ZS * ZV)
    W = np.zeros((M, M))
    bare = {k: np.zeros((dim, dim)) for k in ("ss", "sv", "vv")}
    vel = {"s": np.zeros((M, dim)), "v": np.zeros((M, dim))}
    nclass = {"om0": 0, "om1": 0, "om2": 0}
    hops = [(jt, i, j, dx, np.round(np.dot(crys.invlatt, dx) - basis[j] + basis[i]).astype(int))
            for jt, jl in enumerate(om0_jn) for (i, j), dx in jl]
    byfrom = {}
    for h in hops:
        byfrom.setdefault(h[1], []).append(h)
    hopindex = {id(h): k for k, h in enumerate(hops)}
    for m, (a, b, R) in enumerate(states):
        for h in byfrom.get(b, ()):
            jt, i, j, dx, dR = h
            Rn = tuple((np.array(R) + dR) % n)
            if j == a and not any(Rn):
                mnew = index[(b, a, tuple((-np.array(R)) % n))]
                k = om2[(kinindex[m], kinindex[mnew])]
                rate = np.exp(-bFT2[k] + E[m])
                dxs, dxv = -dx, dx
                nclass["om2"] += 1
            else:
                mnew = index[(a, j, Rn)]
                k = om1.get((kinindex[m], kinindex[mnew])) if kinindex[m] is not None and kinindex[mnew] is not None else None
                if k is None:
                    rate = np.exp(-bFT0[jt] + bFV[invmap[b]])
                    nclass["om0"] += 1
                else:
                    rate = np.exp(-bFT1[k] + E[m])
                    nclass["om1"] += 1
                dxs, dxv = 0 * dx, dx
            W[m, mnew] += rate
            if record is not None:
                record.append((states[m], states[mnew], "Exchange" if (j == a and not any(Rn)) else "Hop", hopindex[id(h)]))
            bare["ss"] += 0.5 * w[m] * rate * np.outer(dxs, dxs)
            bare["sv"] += 0.5 * w[m] * rate * np.outer(dxs, dxv)
            bare["vv"] += 0.5 * w[m] * rate * np.outer(dxv, dxv)
            vel["s"][m] += rate * dxs
            vel["v"][m] += rate * dxv
    flow = w[:, None] * W
    db = float(np.abs(flow - flow.T).max() / max(np.abs(flow).max(), 1e-300))
    if db > 1e-9:
        raise ValueError("pair chain violates detailed balance (%g): inconsistent class data" % db)
    cor = _solve(W, w, vel, dim)
    Sss = (bare["ss"] + cor["ss"]) / N
    Ssv = (bare["sv"] + cor["sv"]) / N
    Svv = (bare["vv"] + cor["vv"]) / N
    # reference (the calculator's convention, cf. the tracer limit L1vv = 0): the free vacancy walk, solute
    # transparent, summed over every vacancy position except the solute's own site:
    #   N n^dim L0vv  -  1/N sum_a pS_a pV_a (contribution of site a to L0vv)
    L0, persite = lone_vacancy(crys, chem, sitelist, om0_jn, bFV, bFT0, persite=True)
    pS = np.array([np.exp(-bFS[invmap[i]]) for i in range(N)]) * N / ZS
    Svv_ref = L0 * N * (n ** dim) - sum(pS[a] * persite[a] for a in range(N)) / N
    return Sss, Ssv, Svv - Svv_ref, {"states": M, "detailed_balance": db, "classes": nclass,
                                     "hops": [(i, j, [int(x) for x in dR]) for jt, i, j, dx, dR in hops]}


def lone_vacancy(crys, chem, sitelist, om0_jn, bFV, bFT0, persite=False):
    """Exact lone-vacancy coefficient in the calculator's normalisation (finite chain over the N cell sites);
    with persite, also the (probability weighted, symmetrised) contribution of every site to N * L0vv."""
    dim, N = crys.dim, len(crys.basis[chem])
    invmap = {i: wy for wy, sites in enumerate(sitelist) for i in sites}
    p = np.array([np.exp(-bFV[invmap[i]]) for i in range(N)])
    p *= N / p.sum()
    W = np.zeros((N, N))
    site = [np.zeros((dim, dim)) for _ in range(N)]
    v = np.zeros((N, dim))
    for jt, jl in enumerate(om0_jn):
        for (i, j), dx in jl:
            rate = np.exp(-bFT0[jt] + bFV[invmap[i]])
            W[i, j] += rate
            site[i] += 0.5 * p[i] * rate * np.outer(dx, dx)
            v[i] += rate * dx
    if N > 1:
        Om = W - np.diag(W.sum(axis=1))
        sw = np.sqrt(p)
        Oms = Om * sw[:, None] / sw[None, :]
        u = sw / np.sqrt(np.dot(sw, sw))
        B = v * sw[:, None]
        X = np.linalg.solve(0.5 * (Oms + Oms.T) - np.outer(u, u), B)
        for i in range(N):
            t = np.outer(B[i], X[i])
            site[i] += 0.5 * (t + t.T)
    L0 = sum(site) / N
    return (L0, site) if persite else L0


def extrapolate(calcobj, crys, chem, args, sizes):
    """Richardson extrapolation of the three solute-dependent coefficients: the finite-size error is a series in
    n^-dim, n^-(dim+2), ...; len(sizes) terms are eliminated.  Returns (extrapolated, previous order, info)."""
    d = crys.dim
    runs = [pair_chain(calcobj, crys, chem, *args, n) for n in sizes]

    def richardson(ns, vals):
        expo = [0] + [d + 2 * k for k in range(len(ns) - 1)]
        A = np.array([[float(n) ** -e for e in expo] for n in ns])
        coef = np.linalg.solve(A, np.eye(len(ns)))[0]
        return sum(c * v for c, v in zip(coef, vals))
    best = [richardson(sizes, [r[k] for r in runs]) for k in range(3)]
    prev = [richardson(sizes[1:], [r[k] for r in runs[1:]]) for k in range(3)] if len(sizes) > 2 else None
    return best, prev, runs[-1][3]
