"""Exact integer crystal descriptions ("worlds"), their floating-point realisation as onsager Crystals,
and the projection of implementation objects back onto the integer grid.

A world is {"dim", "M" (integer metric, rows), "D" (grid denominator), "basis" (per species list of
integer position vectors mod D)}; see spec/world/World.tla.  Realisation: lattice A = a0 * Q * chol(M)^T
with a random proper/improper orthogonal Q (orientation independence is part of what is tested), atoms at
u/D (optionally jittered well below the symmetry threshold).  Projection always asserts integrality: a
non-integral projection is reported by the caller as a violation of the owning property, never rounded
away silently.
"""
import math

import numpy as np


class ProjectionError(Exception):
    pass


LATTICES = {
    # 2D
    "square": [[1, 0], [0, 1]],
    "hex2d": [[2, -1], [-1, 2]],
    "rect": [[1, 0], [0, 2]],
    "oblique": [[2, 1], [1, 3]],
    "crect": [[3, -1], [-1, 3]],
    # 3D
    "sc": [[1, 0, 0], [0, 1, 0], [0, 0, 1]],
    "fcc": [[2, 1, 1], [1, 2, 1], [1, 1, 2]],
    "bcc": [[3, -1, -1], [-1, 3, -1], [-1, -1, 3]],
    "hexp": [[2, -1, 0], [-1, 2, 0], [0, 0, 5]],
    "hcpideal": [[6, -3, 0], [-3, 6, 0], [0, 0, 16]],
    "tetra": [[1, 0, 0], [0, 1, 0], [0, 0, 2]],
    "ortho": [[1, 0, 0], [0, 2, 0], [0, 0, 3]],
    "mono": [[2, 0, 1], [0, 3, 0], [1, 0, 4]],
    "tric": [[4, 1, 1], [1, 5, 2], [1, 2, 6]],
    "rhomb": [[3, 1, 1], [1, 3, 1], [1, 1, 3]],
    "bct": [[4, 0, -2], [0, 4, -2], [-2, -2, 4]],   # body-centred tetragonal primitive cell (a^2=4, c^2=8)
}


def W(lat, D, basis):
    M = LATTICES[lat]
    return {"name": lat, "dim": len(M), "M": [list(r) for r in M], "D": D,
            "basis": [[list(u) for u in sp] for sp in basis]}


CATALOGUE = {
    # 2D
    "square": W("square", 1, [[[0, 0]]]),
    "hex2d": W("hex2d", 1, [[[0, 0]]]),
    "honeycomb": W("hex2d", 3, [[[1, 2], [2, 1]]]),
    "rect": W("rect", 1, [[[0, 0]]]),
    "oblique": W("oblique", 1, [[[0, 0]]]),
    "crect": W("crect", 1, [[[0, 0]]]),
    "kagome": W("hex2d", 2, [[[1, 0], [0, 1], [1, 1]]]),
    "square2sp": W("square", 2, [[[0, 0]], [[1, 1]]]),
    "polarrect": W("rect", 20, [[[0, 0]], [[10, 4], [10, 11]]]),
    "rect2site": W("rect", 4, [[[0, 0], [2, 1]]]),
    "squarelieb": W("square", 2, [[[0, 0]], [[1, 0], [0, 1]]]),
    # second species on mirror lines (site symmetry m: polar vector basis), first species on the 4mm site (none)
    "sqpolar": W("square", 10, [[[0, 0]], [[5, 2], [5, 8], [2, 5], [8, 5]]]),
    # 3D
    "sc": W("sc", 1, [[[0, 0, 0]]]),
    "fcc": W("fcc", 1, [[[0, 0, 0]]]),
    "bcc": W("bcc", 1, [[[0, 0, 0]]]),
    "hcp": W("hcpideal", 12, [[[4, 8, 3], [8, 4, 9]]]),
    "diamond": W("fcc", 8, [[[1, 1, 1], [7, 7, 7]]]),
    "b2": W("sc", 2, [[[0, 0, 0]], [[1, 1, 1]]]),
    "l12": W("sc", 2, [[[0, 0, 0]], [[1, 1, 0], [1, 0, 1], [0, 1, 1]]]),
    "rocksalt": W("fcc", 2, [[[0, 0, 0]], [[1, 1, 1]]]),
    "tetra": W("tetra", 1, [[[0, 0, 0]]]),
    "ortho": W("ortho", 1, [[[0, 0, 0]]]),
    "mono": W("mono", 1, [[[0, 0, 0]]]),
    "tric": W("tric", 1, [[[0, 0, 0]]]),
    "tric2": W("tric", 5, [[[0, 0, 0], [1, 2, 3]]]),
    "rhomb": W("rhomb", 1, [[[0, 0, 0]]]),
    "wurtzite": W("hexp", 24, [[[8, 16, 0], [16, 8, 12]], [[8, 16, 9], [16, 8, 21]]]),
    "fccoct": W("fcc", 4, [[[0, 0, 0]], [[2, 2, 2]], [[1, 1, 1], [3, 3, 3]]]),
    "hcpoct": W("hcpideal", 24, [[[8, 16, 6], [16, 8, 18]], [[0, 0, 0], [0, 0, 12]],
                                  [[8, 16, 15], [8, 16, 21], [16, 8, 3], [16, 8, 9]]]),
    "tet2": W("tetra", 4, [[[0, 0, 0], [2, 2, 2]], [[2, 0, 1]]]),
    "monodeco": W("mono", 4, [[[0, 0, 0]], [[1, 2, 3], [3, 2, 1]]]),
    "omega": W("hexp", 6, [[[0, 0, 0], [2, 4, 3], [4, 2, 3]]]),
}


def random_world(rng, dim=None, maxatoms=4, nspecies=None):
    """A random decoration of a random lattice (possibly non-primitive, possibly low symmetry)."""
    lats = [k for k, m in LATTICES.items() if dim is None or len(m) == dim]
    lat = rng.choice(lats)
    d = len(LATTICES[lat])
    D = rng.choice((2, 3, 4, 6))
    ns = nspecies or rng.choice((1, 1, 2, 2, 3))
    used, basis = set(), []
    for c in range(ns):
        n = rng.randint(1, max(1, maxatoms - len(used)))
        sp = []
        for _ in range(n):
            for _try in range(50):
                u = tuple(rng.randrange(D) for _ in range(d))
                if u not in used:
                    used.add(u)
                    sp.append(list(u))
                    break
        if sp:
            basis.append(sp)
    w = W(lat, D, basis)
    w["name"] = "rnd-%s-D%d-%s" % (lat, D, "_".join(str(len(s)) for s in basis))
    return w


# ------------------------------------------------------------------ realisation

def random_orthogonal(rng, d):
    a = np.array([[rng.gauss(0, 1) for _ in range(d)] for _ in range(d)])
    q, r = np.linalg.qr(a)
    q = q * np.sign(np.diag(r))
    if np.linalg.det(q) < 0:
        q[:, 0] = -q[:, 0]
    return q


def lattice_of(w, rng=None, a0=1.0, orient=True):
    M = np.array(w["M"], dtype=float)
    L = np.linalg.cholesky(M)          # M = L L^T ; columns of A = rows of L  => A = L^T
    A = L.T
    if orient and rng is not None:
        A = np.dot(random_orthogonal(rng, w["dim"]), A)
    return a0 * A


def realise(w, rng=None, a0=1.0, orient=True, jitter=0.0, chemistry=None, **kw):
    """Construct the onsager Crystal for world w.  Returns (crys, unit) where unit = a0 (length unit such
    that metric / unit^2 is the integer metric)."""
    from onsager import crystal
    A = lattice_of(w, rng, a0, orient)
    basis = []
    for sp in w["basis"]:
        lst = []
        for u in sp:
            x = np.array(u, dtype=float) / w["D"]
            if jitter and rng is not None:
                x = x + np.array([rng.uniform(-jitter, jitter) for _ in u])
            lst.append(x)
        basis.append(lst)
    chem = chemistry or ["S%d" % c for c in range(len(basis))]
    return crystal.Crystal(A, basis, chemistry=chem, **kw), a0


# ------------------------------------------------------------------ projection

def iround(x, tol=1e-6, what="value"):
    r = np.round(x)
    if np.max(np.abs(np.asarray(x) - r)) > tol:
        raise ProjectionError("%s is not integral on the grid: %r" % (what, np.asarray(x).tolist()))
    return r.astype(int)


def observe(crys, unit, Dhint=1, maxmult=48, postol=0.0):
    """Read the crystal back as an integer world (the one every trace is validated against)."""
    # a cell reduced from a non-primitive description has a metric that is a fraction (denominator = square
    # of the reduction index) of the description's unit: find the smallest integer multiple that is integral
    M, q = None, None
    for qq in range(1, 401):
        Mq = np.asarray(crys.metric) / unit ** 2 * qq
        if np.max(np.abs(Mq - np.round(Mq))) < 1e-6 * qq:
            M, q = np.round(Mq).astype(int), qq
            break
    if M is None:
        raise ProjectionError("metric tensor is not a rational multiple of the world's unit: %r" % (
            (np.asarray(crys.metric) / unit ** 2).tolist(),))
    D = None
    for mult in range(1, maxmult + 1):
        Dc = Dhint * mult
        # postol: positional noise (fractional units) of a deliberately noisy description
        ok = all(np.max(np.abs(u * Dc - np.round(u * Dc))) < 1e-6 + postol * Dc for sp in crys.basis for u in sp)
        if ok:
            D = Dc
            break
    if D is None:
        raise ProjectionError("atom positions are not on a grid that is a multiple of 1/%d" % Dhint)
    basis = [[[int(x) % D for x in np.round(u * D)] for u in sp] for sp in crys.basis]
    return {"dim": crys.dim, "M": M.tolist(), "D": int(D), "basis": basis, "q": int(q)}


def op_project(crys, g, D):
    """GroupOp -> {"rot": int matrix (rows), "t": ints (trans*D mod D), "perm": 1-based indexmap,
    "crot": the Cartesian rotation expressed in lattice coordinates (must equal rot)}."""
    rot = np.asarray(g.rot)
    t = iround(np.asarray(g.trans) * D, 1e-6, "translation of a group operation")
    crot = iround(np.dot(crys.invlatt, np.dot(g.cartrot, crys.lattice)), 1e-6,
                  "Cartesian rotation in lattice coordinates")
    return {"rot": [[int(x) for x in r] for r in rot], "t": [int(x) % D for x in t],
            "perm": [[int(i) + 1 for i in im] for im in g.indexmap], "crot": crot.tolist()}


def vec_lattice(crys, x, D, what="vector"):
    """Cartesian vector -> integer grid units (D * lattice coordinates)."""
    return [int(v) for v in iround(np.dot(crys.invlatt, x) * D, 1e-6, what)]


def supercell_world(w, S):
    """The exact supercell description of world w by integer matrix S (columns = new lattice vectors)."""
    S = np.array(S, dtype=int)
    d = w["dim"]
    n = abs(int(round(np.linalg.det(S))))
    M = np.dot(S.T, np.dot(np.array(w["M"]), S))
    # new fractional coordinates = S^-1 (u/D + R) ; use adj(S)/det
    adj = np.round(np.linalg.inv(S) * np.linalg.det(S)).astype(int)
    sign = 1 if np.linalg.det(S) > 0 else -1
    Dn = w["D"] * n
    basis = []
    rng_ = range(-n - 1, n + 2)
    import itertools
    for sp in w["basis"]:
        seen, lst = set(), []
        for u in sp:
            for R in itertools.product(rng_, repeat=d):
                x = sign * np.dot(adj, np.array(u) + w["D"] * np.array(R))    # = Dn * new fractional coords
                x = tuple(int(v) % Dn for v in x)
                if x not in seen:
                    seen.add(x)
                    lst.append(list(x))
        assert len(lst) == n * len(sp), (len(lst), n, len(sp))
        basis.append(sorted(lst))
    return {"name": w.get("name", "") + "-super", "dim": d, "M": M.tolist(), "D": Dn, "basis": basis}


def gcd_reduce(w):
    """Divide the grid by the common factor of D and all coordinates (cosmetic)."""
    g = w["D"]
    for sp in w["basis"]:
        for u in sp:
            for x in u:
                g = math.gcd(g, x)
    if g > 1:
        w = dict(w)
        w["D"] = w["D"] // g
        w["basis"] = [[[x // g for x in u] for u in sp] for sp in w["basis"]]
    return w
