"""Shared harness for the Monte Carlo sampler state machines (C32-C35).

Builds real ClusterSupercell / MonteCarloSampler objects, extracts the interaction tables that
parameterise spec/obj/Sampler.tla and SamplerJit.tla, and enumerates the brute-force cluster instances
of the supercell from geometry alone (positions), independently of the package's indexing code.
"""
import itertools

import numpy as np

from .tlc import to_tla


def crystals(name):
    from onsager import crystal
    if name == "sc":
        return crystal.Crystal(np.eye(3), [[np.zeros(3)]], chemistry=["A"])
    if name == "fcc":
        return crystal.Crystal.FCC(1.0, chemistry="A")
    if name == "b2":
        return crystal.Crystal(np.eye(3), [[np.zeros(3)], [np.array([0.5, 0.5, 0.5])]], chemistry=["A", "B"])
    if name == "hcp":
        return crystal.Crystal.HCP(1.0, chemistry="A")
    if name == "tet2":  # two-site mobile sublattice of lower symmetry + spectator
        return crystal.Crystal(np.diag([1.0, 1.0, 1.3]),
                               [[np.zeros(3), np.array([0.5, 0.5, 0.5])], [np.array([0.5, 0.0, 0.25])]],
                               chemistry=["A", "B"])
    raise ValueError(name)


CONFIGS = {
    # name: (crystal, superlatt, spectator species, cluster cutoff, maxorder, jump cutoff or None, vacancy site or None, TS?)
    "sc221": ("sc", np.diag([2, 2, 1]), (), 1.01, 3, None, None, False),
    "sc221j": ("sc", np.diag([2, 2, 1]), (), 1.01, 3, 1.01, None, True),
    "sc222": ("sc", 2 * np.eye(3, dtype=int), (), 1.01, 2, None, None, False),
    "sc222j": ("sc", 2 * np.eye(3, dtype=int), (), 1.01, 3, 1.01, None, True),
    "sc222v": ("sc", 2 * np.eye(3, dtype=int), (), 1.01, 3, 1.01, 3, True),
    "sc221v": ("sc", np.diag([2, 2, 1]), (), 1.01, 3, 1.01, 1, True),
    "b2s221": ("b2", np.diag([2, 2, 1]), (1,), 1.01, 3, 1.01, None, True),
    "b2s221v": ("b2", np.diag([2, 2, 1]), (1,), 1.01, 3, 1.01, 2, True),
    "b2s222": ("b2", 2 * np.eye(3, dtype=int), (1,), 1.01, 3, 1.01, None, True),
    "b2s222v": ("b2", 2 * np.eye(3, dtype=int), (1,), 2.05, 2, 1.01, 6, True),
    "fccnd": ("fcc", np.array([[1, 1, 0], [-1, 1, 0], [0, 0, 2]]), (), 0.8, 3, 0.8, None, True),
    "fcc222": ("fcc", 2 * np.eye(3, dtype=int), (), 0.8, 3, 0.8, None, True),
    "fcc222v": ("fcc", 2 * np.eye(3, dtype=int), (), 0.8, 3, 0.8, 5, True),
    "tet2_211": ("tet2", np.diag([2, 1, 1]), (1,), 1.05, 3, 1.05, None, True),
    "tet2_211v": ("tet2", np.diag([2, 1, 1]), (1,), 1.05, 3, 1.05, 1, True),
    "hcp221": ("hcp", np.diag([2, 2, 1]), (), 1.01, 3, 1.01, None, True),
    "hcp221p": ("hcp", np.diag([2, 2, 1]), (), 1.01, 2, 1.01, None, True),      # pair clusters only (fast)
    # transition-state expansion RICHER than the energy expansion (pairs for energies, triplets for barriers)
    "fccndt": ("fcc", np.array([[1, 1, 0], [-1, 1, 0], [0, 0, 2]]), (), 0.8, 2, 0.8, None, True, 3),
    "fcc222t": ("fcc", 2 * np.eye(3, dtype=int), (), 0.8, 2, 0.8, None, True, 4),
    "sc311j": ("sc", np.diag([3, 1, 1]), (), 1.01, 3, 1.01, None, True),
    "hcp221v": ("hcp", np.diag([2, 2, 1]), (), 1.01, 3, 1.01, 2, True),
    "sc332": ("sc", np.diag([3, 3, 2]), (), 1.01, 3, 1.01, None, True),
    "sc332v": ("sc", np.diag([3, 3, 2]), (), 1.01, 3, 1.01, 4, True),
    "fcc333": ("fcc", 3 * np.eye(3, dtype=int), (), 0.8, 3, 0.8, None, True),
    "fcc333v": ("fcc", 3 * np.eye(3, dtype=int), (), 0.8, 3, 0.8, 7, True),
}


class Setup:
    pass


def build(name, rng, vacancy_override="same", values=None):
    """Build the real objects for configuration `name`; integer (even) cluster values from rng."""
    from onsager import cluster, supercell
    cname, superlatt, spectator, cut, maxorder, jcut, vac, ts = CONFIGS[name][:8]
    tsorder = CONFIGS[name][8] if len(CONFIGS[name]) > 8 else None
    s = Setup()
    s.name = name
    s.crys = crystals(cname)
    s.sup = supercell.ClusterSupercell(s.crys, np.array(superlatt), spectator=spectator)
    if vacancy_override != "same":
        vac = vacancy_override
    s.vac = vac
    if vac is not None:
        s.sup.addvacancy(vac)
    s.chem = s.sup.mobile[0]
    bare = cluster.makeclusters(s.crys, cut, maxorder)
    if vac is not None:
        vacexp = cluster.makeVacancyClusters(s.crys, s.chem, bare)
        s.clusterexp = bare + vacexp
    else:
        vacexp = None
        s.clusterexp = bare
    nspec = s.sup.Nspec * s.sup.size
    if values is None:
        values = {}
        values["socc"] = [rng.choice((0, 1, 1)) for _ in range(nspec)]
        values["E"] = [2 * rng.randint(-3, 3) for _ in range(len(s.clusterexp) + 1)]
    s.socc = np.array(values["socc"], dtype=int)
    s.Evalues = np.array(values["E"], dtype=float)
    s.jumpnetwork, s.TSclusterexp = (), ()
    s.KRA, s.TSvalues = 0, ()
    if jcut is not None:
        s.jumpnetwork = s.crys.jumpnetwork(s.chem, jcut)
        if ts:
            tsbase = vacexp if vac is not None else s.clusterexp
            if tsorder is not None and vac is None:
                tsbase = cluster.makeclusters(s.crys, cut, tsorder)
            s.TSclusterexp = cluster.makeTSclusters(s.crys, s.chem, s.jumpnetwork, tsbase)
        if "KRA" not in values:
            values["KRA"] = [rng.randint(0, 4) for _ in s.jumpnetwork]
            values["TS"] = [rng.randint(-2, 2) for _ in s.TSclusterexp]
        s.KRA = np.array(values["KRA"], dtype=float)
        s.TSvalues = np.array(values["TS"], dtype=float)
        s.MC = cluster.MonteCarloSampler(s.sup, s.socc, s.clusterexp, s.Evalues, s.chem, s.jumpnetwork,
                                         KRAvalues=s.KRA, TSclusters=s.TSclusterexp, TSvalues=s.TSvalues)
    else:
        s.MC = cluster.MonteCarloSampler(s.sup, s.socc, s.clusterexp, s.Evalues)
    s.values = values
    s.NS = s.sup.Nmobile * s.sup.size
    return s


def site_of(sup, crys, R, ci):
    """Index of the supercell site at lattice vector R, atom ci, found by POSITION (independent of
    ClusterSupercell.index): returns (index, mobile?)."""
    u = crys.basis[ci[0]][ci[1]] + np.array(R)
    upos = np.linalg.solve(np.array(sup.superlatt, dtype=float), u)  # supercell direct coordinates
    best = None
    for mob, plist in ((True, sup.mobilepos), (False, sup.specpos)):
        for ind, p in enumerate(plist):
            d = upos - p
            d -= np.round(d)
            if np.dot(d, d) < 1e-10:
                assert best is None
                best = (ind, mob)
    assert best is not None, (R, ci)
    return best


def brute_instances(s):
    """All cluster instances of the supercell as (mobile site list (1-based, with multiplicity), value),
    after applying the fixed spectator occupation; plus the constant term."""
    sup, crys = s.sup, s.crys
    inst = []
    nclus = len(s.clusterexp)
    if len(s.Evalues) > nclus:
        inst.append(([], int(s.Evalues[-1]) * sup.size))
    Rlist = [np.dot(sup.superlatt, t) // sup.size for t in sup.translist]  # one lattice vector per cell
    if s.vac is not None:
        ci_vac = sup.mobileindices[s.vac % sup.Nmobile]
        # lattice vector of the vacancy's cell, from its position
        uv = np.dot(sup.superlatt, sup.mobilepos[s.vac]) - crys.basis[ci_vac[0]][ci_vac[1]]
        R_vac = np.round(uv).astype(int)
    for clist, val in zip(s.clusterexp, s.Evalues):
        for cl in clist:
            if cl.__vacancy__:
                if s.vac is None or cl.vacancy().ci != ci_vac:
                    continue
                Rs = [R_vac]
            else:
                Rs = Rlist
            for R in Rs:
                sites, ok = [], True
                for cs in cl:   # non-special sites
                    ind, mob = site_of(sup, crys, R + cs.R, cs.ci)
                    if mob:
                        sites.append(ind + 1)
                    elif s.socc[ind] != 1:
                        ok = False
                if ok:
                    inst.append((sorted(sites), int(val)))
    return inst


def tables(s):
    """Interaction tables of the real sampler as model constants (all 1-based)."""
    MC = s.MC
    NS = s.NS
    SI = [[int(m) + 1 for m in MC.siteinteract[i][:MC.Ninteract[i]]] for i in range(NS)]
    val = [float(v) for v in MC.interactvalue]
    for v in val:
        if abs(v - round(v)) > 1e-12:
            raise AssertionError("non-integer interaction value %r in tables" % v)
    Val = [int(round(v)) for v in val]
    jumps = []
    if MC.jumps is not None:
        J = MC.jumps
        rng_ = list(MC.interactrange)
        for n, ((i, j), dx) in enumerate(J):
            lo = rng_[n - 1]
            hi = rng_[n]
            rev = 0
            for n2, ((i2, j2), dx2) in enumerate(J):
                if i2 == j and j2 == i and np.allclose(dx2, -dx, atol=1e-8):
                    rev = n2 + 1
            jumps.append({"i": int(i) + 1, "j": int(j) + 1, "lo": int(lo), "hi": int(hi), "rev": rev,
                          "dx": [float(x) for x in dx]})
    Mem = [[] for _ in Val]
    for i, lst in enumerate(SI):
        for m in lst:
            Mem[m - 1].append(i + 1)
    return {"NS": NS, "NI": len(Val), "NE": int(MC.Nenergy), "SI": SI, "Mem": Mem, "Val": Val,
            "Vac": 0 if s.vac is None else s.vac + 1, "Jumps": jumps}


def moves(NS, vac, rng, multi=6, pairs=None):
    """Trial moves / updates: all single-site, swaps (all or sampled), and a few multi-site ones; plus
    moves touching the vacancy (must raise)."""
    sites = [i for i in range(1, NS + 1) if i != vac]
    mv = []
    for i in sites:
        mv.append(([i], []))
        mv.append(([], [i]))
    allpairs = [(a, b) for a in sites for b in sites if a != b]
    if pairs is not None and len(allpairs) > pairs:
        allpairs = rng.sample(allpairs, pairs)
    for a, b in allpairs:
        mv.append(([a], [b]))
    for _ in range(multi):
        k = rng.randint(2, min(4, len(sites)))
        sel = rng.sample(sites, k)
        cut = rng.randint(0, k)
        mv.append((sel[:cut], sel[cut:]))
    if vac:
        mv.append(([vac], []))
        mv.append(([], [vac]))
        mv.append(([sites[0]], [vac]))
    return mv


def jump_record(j):
    return "[i |-> %d, j |-> %d, lo |-> %d, hi |-> %d, rev |-> %d]" % (j["i"], j["j"], j["lo"], j["hi"], j["rev"])


def alt_record(t, r):
    jumps = "<<" + ", ".join(jump_record(j) for j in t["Jumps"]) + ">>"
    return "[Mem |-> %s, Val |-> %s, NE |-> %d, Jumps |-> %s, r |-> %d]" % (
        to_tla(t["Mem"]), to_tla(t["Val"]), t["NE"], jumps, r)


def mc_module(name, base, tab, inst, mvs, starts=None, extra_defs="", alt=None):
    jumps = "<<" + ", ".join(jump_record(j) for j in tab["Jumps"]) + ">>"
    insts = "<<" + ", ".join("[sites |-> %s, val |-> %d]" % (to_tla(st), v) for st, v in inst) + ">>"
    mvset = "{" + ", ".join("<<%s, %s>>" % (to_tla(a), to_tla(b)) for a, b in mvs) + "}"
    stset = "{}" if not starts else "{" + ", ".join(to_tla(o) for o in starts) + "}"
    mod = """---- MODULE %s ----
EXTENDS %s
MCSI == %s
MCMem == %s
MCVal == %s
MCJumps == %s
MCInst == %s
MCMoves == %s
MCStarts == %s
MCAlt == %s
%s
====
""" % (name, base, to_tla(tab["SI"]), to_tla(tab["Mem"]), to_tla(tab["Val"]), jumps, insts, mvset, stset,
       "<<>>" if not alt else "<<" + ", ".join(alt) + ">>", extra_defs)
    cfg = """
CONSTANTS
  NS = %d
  NI = %d
  NE = %d
  Vac = %d
  SI <- MCSI
  Mem <- MCMem
  Val <- MCVal
  Jumps <- MCJumps
  Inst <- MCInst
  Moves <- MCMoves
  Starts <- MCStarts
  Alt <- MCAlt
""" % (tab["NS"], tab["NI"], tab["NE"], tab["Vac"])
    return mod, cfg


def project(MC):
    """Full projection of a reference sampler's state (1-based sites)."""
    return {"occ": [int(x) for x in MC.occ],
            "cnt": [int(x) for x in MC.clustercount],
            "occset": sorted(int(i) + 1 for i in MC.occupied_set),
            "unoccset": sorted(int(i) + 1 for i in MC.unoccupied_set)}


def observe(MC, tab):
    """E and transitions of a reference sampler in the model's shape."""
    E = MC.E()
    T = []
    if MC.jumps is not None:
        ij, Q, dx = MC.transitions()
        rep = {}
        k = 0
        # reference sampler lists only allowed transitions, in jump order
        for n, j in enumerate(tab["Jumps"]):
            T.append([0, 0])
        for (i, j), q, d in zip(ij, Q, dx):
            # find the jump index: next jump with these endpoints and displacement
            for n, jr in enumerate(tab["Jumps"]):
                if jr["i"] == i + 1 and jr["j"] == j + 1 and np.allclose(jr["dx"], d) and T[n] == [0, 0] \
                        and n not in rep:
                    rep[n] = True
                    T[n] = [1, q]
                    break
            else:
                raise AssertionError("reported transition not in jump list")
    return E, T


def all_occupations(NS, vac):
    for bits in itertools.product((0, 1), repeat=NS - (1 if vac else 0)):
        o, k = [], 0
        for i in range(1, NS + 1):
            if i == vac:
                o.append(-1)
            else:
                o.append(bits[k])
                k += 1
        yield o
