"""Binding of the pair-chain oracle (vf/chain.py) to its TLA+ definition (spec/rel/PairChain.tla).

TLC explores the quotient chain for the real jump network of a calculator on a small torus (checking
NeverCoincident and the action properties ExchangeFlips / HopMovesVacancy / StepReversible) and dumps the labelled
state graph; the transition list recorded by chain.pair_chain for the same network must be exactly that graph:
same states, same (state, action, jump, successor) edges.
"""
import os

import numpy as np

from . import chain, tlc


def tla_jumps(hops):
    return "<< " + ", ".join("[i |-> %d, j |-> %d, dR |-> <<%s>>]" % (i + 1, j + 1, ", ".join(str(x) for x in dR))
                             for i, j, dR in hops) + " >>"


def check_structure(ctx, v, chem, n, label):
    """Returns a list of discrepancy descriptions (empty = the Python chain is the specified chain)."""
    c = v.calc
    z = v.sizes
    zero = lambda k: np.zeros(z[k])
    args = (zero("V"), zero("V"), zero("SV"), zero("T0") + 1.0, zero("T1") + 1.0, zero("T2") + 1.0)
    rec = []
    info = chain.pair_chain(c, v.crys, chem, *args, n, record=rec)[3]
    hops = info["hops"]
    dim, N = v.crys.dim, len(v.crys.basis[chem])
    wd = tlc.scratch()
    path = os.path.join(wd, "MC_PairChain.tla")
    open(path, "w").write("---- MODULE MC_PairChain ----\nEXTENDS PairChain\nMCJumps == %s\n====\n" % tla_jumps(hops))
    cfg = """CONSTANTS
  NSites = %d
  Dim = %d
  N = %d
  Jumps <- MCJumps
SPECIFICATION Spec
VIEW State
INVARIANT NeverCoincident
PROPERTY ExchangeFlips
PROPERTY HopMovesVacancy
PROPERTY StepReversible
CHECK_DEADLOCK FALSE
""" % (N, dim, n)
    res = tlc.run(path, cfg, workers=4, dump=True, workdir=wd, timeout=900)
    tlc.require_clean(res, "PairChain on %s" % label)
    ctx.add_model(res)
    nodes, edges, inits = tlc.parse_dot(res.dot)

    def q(st):
        sc, vc = st["sc"], st["vc"]
        return (st["a"] - 1, st["b"] - 1, tuple((vc[d] - sc[d]) % n for d in range(dim)))
    spec_states = {q(st) for st in nodes.values()}
    spec_edges = set()
    for src, dst, lab in edges:
        name, a_ = tlc.parse_action_label(lab)
        spec_edges.add((q(nodes[src]), q(nodes[dst]), name, int(a_[0]) - 1))
    py_states = {s for s, _, _, _ in rec} | {s2 for _, s2, _, _ in rec}
    py_edges = set(rec)
    out = []
    if spec_states != py_states:
        out.append("states differ: spec-only %s, python-only %s" % (sorted(spec_states - py_states)[:3],
                                                                    sorted(py_states - spec_states)[:3]))
    if len(py_edges) != len(rec):
        out.append("python chain lists a transition twice")
    if spec_edges != py_edges:
        out.append("transitions differ: spec-only %s, python-only %s" % (sorted(spec_edges - py_edges)[:3],
                                                                         sorted(py_edges - spec_edges)[:3]))
    if len(spec_states) != N * N * n ** dim - N:
        out.append("state count %d is not N^2 n^dim - N" % len(spec_states))
    return out, {"states": len(spec_states), "edges": len(spec_edges),
                 "exchanges": sum(1 for e in spec_edges if e[2] == "Exchange")}
