"""Shared by the C29 (makesupercells) and C30 (automator.supercelltar) drivers.

Builds Interstitial / VacancyMediated calculators on worlds realised in a random orientation, calls the real
makesupercells with the "too small" warnings recorded, and projects everything onto exact integers:
  * the crystal as the world read back from the Crystal object,
  * supercell sites as super-grid integer vectors (pos * D * n),
  * Supercell states as [occ (0 = vacant, s = species index + 1), order (chemorder, 1-based sites)],
  * tags as the defects they NAME: the tag text is parsed (type letter + unit-cell coordinates printed with three
    decimals) and each coordinate triple is located on the crystal's 1/D grid (a coordinate that is not within the
    print precision of a grid point is a ProjectionError, i.e. a violation of the owning property),
  * group operations as [rot, t (super grid), perm (1-based indexmap), crot].
No verdict is computed here.
"""
import itertools
import re
import warnings

import numpy as np

from . import worlds

W = worlds.W

# worlds added for the calculation-setup checks: interstitial species listed FIRST, multi-species hosts, hosts
# whose species occupy several inequivalent Wyckoff positions
EXTRA_WORLDS = {
    "i_fcc": W("fcc", 2, [[[1, 1, 1]], [[0, 0, 0]]]),
    "i_b2": W("sc", 4, [[[2, 0, 0], [0, 2, 0], [0, 0, 2]], [[0, 0, 0]], [[2, 2, 2]]]),
    "i_tet3": W("tetra", 4, [[[2, 0, 0], [0, 2, 0]], [[0, 0, 0], [2, 2, 2]], [[2, 2, 0]]]),
    "i_ortho": W("ortho", 4, [[[2, 0, 0], [0, 0, 2]], [[0, 0, 0], [2, 2, 0], [0, 2, 2]]]),
    "i_hex": W("hexp", 6, [[[0, 0, 3]], [[0, 0, 0], [2, 4, 0]], [[4, 2, 0]]]),
    "perov": W("sc", 2, [[[0, 0, 0]], [[1, 1, 1]], [[1, 1, 0], [1, 0, 1], [0, 1, 1]]]),
}
for _n, _w in EXTRA_WORLDS.items():
    _w["name"] = _n


def world(name):
    if name in EXTRA_WORLDS:
        return EXTRA_WORLDS[name]
    w = dict(worlds.CATALOGUE[name])
    w["name"] = name
    return w


class Setup:
    pass


# ------------------------------------------------------------------ calculators

def shell_cutoff(ow, chem, shell, unit):
    """Cartesian cutoff with squared length midway (half-integer in exact units) above distance shell `shell`
    of sublattice chem: never on a shell."""
    M = np.array(ow["M"])
    D = ow["D"]
    B = [np.array(u) for u in ow["basis"][chem]]
    d2 = set()
    for a in B:
        for b in B:
            for R in itertools.product(range(-2, 3), repeat=ow["dim"]):
                v = b - a + D * np.array(R)
                q = int(v @ M @ v)
                if q > 0:
                    d2.add(q)
    d2 = sorted(d2)
    a = d2[min(shell, len(d2)) - 1]
    return float(np.sqrt((a + 0.5) / ow["q"]) / ow["D"] * unit)


def base_setup(w, chem, rng):
    s = Setup()
    s.name, s.chem = w.get("name", "?"), chem
    s.crys, s.unit = worlds.realise(w, rng)
    s.ow = worlds.observe(s.crys, s.unit, Dhint=w["D"])
    s.sitelist = s.crys.sitelist(chem)
    s.nWyckoff_other = max([0] + [sum(1 for ws in s.crys.Wyckoff if next(iter(ws))[0] == c)
                                  for c in range(s.crys.Nchem) if c != chem])
    return s


def interstitial(w, chem, shell, rng):
    from onsager import OnsagerCalc
    s = base_setup(w, chem, rng)
    s.kind, s.shell = "interstitial", shell
    s.cutoff = shell_cutoff(s.ow, chem, shell, s.unit)
    s.jumpnetwork = s.crys.jumpnetwork(chem, s.cutoff)
    s.calc = OnsagerCalc.Interstitial(s.crys, chem, s.sitelist, s.jumpnetwork)
    return s


def vacancy(w, chem, shell, Nthermo, rng, NGFmax=4):
    """VacancyMediated needs a network that percolates in every direction (Green function): take the first shell
    >= `shell` whose unit-rate diffusivity is positive definite."""
    from onsager import OnsagerCalc
    s = base_setup(w, chem, rng)
    s.kind, s.Nthermo = "vacancy", Nthermo
    for sh in range(shell, shell + 6):
        s.cutoff = shell_cutoff(s.ow, chem, sh, s.unit)
        s.jumpnetwork = s.crys.jumpnetwork(chem, s.cutoff)
        if not s.jumpnetwork:
            continue
        n = len(s.sitelist)
        D1 = OnsagerCalc.Interstitial(s.crys, chem, s.sitelist, s.jumpnetwork).diffusivity(
            np.ones(n), np.zeros(n), np.ones(len(s.jumpnetwork)), np.zeros(len(s.jumpnetwork)))
        if np.min(np.linalg.eigvalsh(0.5 * (D1 + D1.T))) > 1e-6:
            s.shell = sh
            break
    else:
        raise ValueError("no percolating network")
    s.calc = OnsagerCalc.VacancyMediated(s.crys, chem, s.sitelist, s.jumpnetwork, Nthermo, NGFmax=NGFmax)
    return s


def make_superdict(s, S):
    """The real call.  Returns (superdict, number of 'too small' warnings, their distinct texts)."""
    with warnings.catch_warnings(record=True) as wl:
        warnings.simplefilter("always")
        sd = s.calc.makesupercells(np.array(S, dtype=int))
    small = [str(x.message) for x in wl if "too small" in str(x.message)]
    kinds = sorted({m.split("too small:")[-1].strip() for m in small})
    return sd, len(small), kinds


# ------------------------------------------------------------------ projection

def state(sup):
    return {"occ": [int(c) + 1 for c in sup.occ], "order": [[int(i) + 1 for i in cl] for cl in sup.chemorder]}


def sites_of(sup, Dn):
    return [[int(x) % Dn for x in worlds.iround(np.asarray(u) * Dn, 1e-6, "supercell site position (super grid)")]
            for u in sup.pos]


def project_op(sup, g, Dn):
    rot = np.asarray(g.rot)
    if rot.shape != (3, 3) or np.max(np.abs(rot - np.round(rot))) > 0:
        raise worlds.ProjectionError("rotation of a recorded operation is not an integer 3x3 matrix: %r" % (rot.tolist(),))
    t = worlds.iround(np.asarray(g.trans, dtype=float) * Dn, 1e-6, "translation of a recorded operation (super grid)")
    crot = worlds.iround(np.dot(np.linalg.inv(sup.lattice), np.dot(g.cartrot, sup.lattice)), 1e-6,
                         "Cartesian rotation of a recorded operation in supercell lattice coordinates")
    if len(g.indexmap) != 1:
        raise worlds.ProjectionError("indexmap of a recorded operation does not have exactly one site list")
    return {"rot": [[int(x) for x in r] for r in np.round(rot)], "t": [int(x) % Dn for x in t],
            "perm": [int(i) + 1 for i in g.indexmap[0]], "crot": [[int(x) for x in r] for r in crot]}


I3 = [[1, 0, 0], [0, 1, 0], [0, 0, 1]]
DUMMY_OP = {"rot": I3, "t": [0, 0, 0], "perm": [], "crot": I3}
DUMMY_STATE = {"occ": [], "order": []}

_coord = re.compile(r"([isv]):([+-]\d+\.\d+),([+-]\d+\.\d+),([+-]\d+\.\d+)")


def named_defects(text, D):
    """'s:+0.000,+0.000,+0.000-v:-1.000,+0.000,+0.000' -> [{"t": "s", "X": [0,0,0]}, {"t": "v", "X": [-D,0,0]}]
    (X = D * unit-cell coordinates: the named point of the primitive grid)."""
    out = []
    for m in _coord.finditer(text):
        u = np.array([float(m.group(k)) for k in (2, 3, 4)])
        X = np.round(u * D)
        if np.max(np.abs(u * D - X)) > 0.00051 * D + 1e-9:
            raise worlds.ProjectionError("tag %r names coordinates %s that are not a point of the 1/%d grid "
                                         "(to the printed precision)" % (text, u.tolist(), D))
        out.append({"t": m.group(1), "X": [int(x) for x in X]})
    return out


def parse_transition_tag(tag, D):
    """-> (type, initial defects, final defects) as NAMED by the tag."""
    m = re.match(r"^(omega[012]):(.*)$", tag)
    typ, body = (m.group(1), m.group(2)) if m else ("i", tag)
    if body.count("^") != 1:
        raise worlds.ProjectionError("transition tag %r does not name exactly two end states" % tag)
    left, right = body.split("^")
    ini, fin = named_defects(left, D), named_defects(right, D)
    if typ == "omega1":        # 'omega1:{solute}-{vac1}^{vac2}': the solute is named once, for both ends
        fin = [d for d in ini if d["t"] == "s"] + fin
    return typ, ini, fin


def require_all_fails_read(results):
    """TLC wraps printed tuples longer than 80 characters over several lines, and tlc.TLCResult.prints only reads
    one-line tuples: a FAIL that was printed but not read back must never pass silently."""
    from . import tlc
    for r in results:
        printed = r.out.count('"FAIL"')
        read = len(r.prints("FAIL"))
        if printed != read:
            raise tlc.TLCError("TLC printed %d FAIL tuples but %d were read back (a wrapped line?):\n%s" % (
                printed, read, "\n".join(l for l in r.out.splitlines() if "FAIL" in l)[:2000]))


def split_clause(cl):
    """'name@t12f' -> (name, 't', 12, 'f');  'name@s3' -> (name, 's', 3, '');  'name' -> (name, '', 0, '')."""
    name, _, where = cl.partition("@")
    m = re.match(r"^([st])(\d+)([a-z]?)$", where)
    if not m:
        return name, "", 0, ""
    return name, m.group(1), int(m.group(2)), m.group(3)


def family(name):
    return name.split("-")[1] if name.startswith("rnd-") else name


def smat_tag(S):
    return "S" + "".join(str(int(x)) for x in np.array(S).flatten())
