"""C28 -- Supercell occupancy bookkeeping over any edit history.

spec/obj/SupercellOcc.tla is model-checked exhaustively on small supercells (constants extracted from
the geometry of real Supercell objects), every edge of the TLC state graph is replayed on the real
object (spec -> code), and long random histories on larger supercells are validated by TLC against the
same module (code -> spec, spec/trace/Trace_C28.tla).
"""
import itertools
import json
import os

import numpy as np

from .. import tlc
from ..tlc import to_tla

LEVEL = "model_checking"


# ------------------------------------------------------------------ real objects

def make_super(kind, Nsolute):
    from onsager import crystal, supercell
    if kind == "sc221":
        crys = crystal.Crystal(np.eye(3), [[np.zeros(3)]], chemistry=["A"])
        sup = supercell.Supercell(crys, np.diag([2, 2, 1]), Nsolute=Nsolute)
    elif kind == "sc211":
        crys = crystal.Crystal(np.eye(3), [[np.zeros(3)]], chemistry=["A"])
        sup = supercell.Supercell(crys, np.diag([2, 1, 1]), Nsolute=Nsolute)
    elif kind == "sc311":
        crys = crystal.Crystal(np.eye(3), [[np.zeros(3)]], chemistry=["A"])
        sup = supercell.Supercell(crys, np.diag([3, 1, 1]), Nsolute=Nsolute)
    elif kind == "b2_211":
        crys = crystal.Crystal(np.eye(3), [[np.zeros(3)], [np.array([0.5, 0.5, 0.5])]], chemistry=["A", "B"])
        sup = supercell.Supercell(crys, np.diag([2, 1, 1]), Nsolute=Nsolute)
    elif kind == "sci_211":   # simple cubic host + one interstitial sublattice (two sites per cell)
        crys = crystal.Crystal(np.eye(3), [[np.zeros(3)], [np.array([0.5, 0.5, 0.5])]], chemistry=["A", "O"])
        sup = supercell.Supercell(crys, np.diag([2, 1, 1]), interstitial=(1,), Nsolute=Nsolute)
    elif kind == "fcc222":
        crys = crystal.Crystal.FCC(1.0, chemistry="A")
        sup = supercell.Supercell(crys, 2 * np.eye(3, dtype=int), Nsolute=Nsolute)
    elif kind == "hcp221":
        crys = crystal.Crystal.HCP(1.0, chemistry="A")
        sup = supercell.Supercell(crys, np.diag([2, 2, 1]), Nsolute=Nsolute)
    elif kind == "b2_222":
        crys = crystal.Crystal(np.eye(3), [[np.zeros(3)], [np.array([0.5, 0.5, 0.5])]], chemistry=["A", "B"])
        sup = supercell.Supercell(crys, 2 * np.eye(3, dtype=int), Nsolute=Nsolute)
    elif kind == "sci_221":
        crys = crystal.Crystal(np.eye(3), [[np.zeros(3)], [np.array([0.5, 0.5, 0.5])]], chemistry=["A", "O"])
        sup = supercell.Supercell(crys, np.diag([2, 2, 1]), interstitial=(1,), Nsolute=Nsolute)
    else:
        raise ValueError(kind)
    return sup


def geometry_constants(sup, rng, maxG=6, nposcar=3):
    """Constants of the model, derived from geometry (positions), not from the code under test's
    indexing rules: fill site lists via positions, symmetry permutations from sup.G indexmaps
    (their geometric correctness is C27's business), sample POSCAR orderings."""
    crys = sup.crys
    NS = sup.N * sup.size
    NC = sup.Nchem
    # which crystal atom sits at each supercell site: cell position = superlatt . pos (mod 1)
    atom_of = []
    for ind in range(NS):
        u = np.dot(sup.superlatt, sup.pos[ind])
        found = None
        for (c, i) in crys.atomindices:
            d = u - crys.basis[c][i]
            if np.allclose(d, np.round(d), atol=1e-8):
                found = (c, i)
        assert found is not None
        atom_of.append(found)
    fills = []   # (ci, Wyckoff flag, chem(1-based), sites in the order the call visits them (1-based))
    for ci in crys.atomindices:
        for wy in (True, False):
            if wy:
                wset = next(w for w in crys.Wyckoff if ci in w)
            else:
                wset = {ci}
            sites = [ind + 1 for ind in range(NS) if atom_of[ind] in wset]
            fills.append({"ci": list(ci), "wy": wy, "chem": ci[0] + 1, "sites": sites})
    G = sorted(sup.G, key=lambda g: g.indexmap[0])
    idx = list(range(len(G)))
    rng.shuffle(idx)
    idx = sorted(idx[:maxG])
    gperms = [[j + 1 for j in G[k].indexmap[0]] for k in idx]
    gops = [G[k] for k in idx]
    poscars = []
    for _ in range(nposcar):
        sites = list(range(1, NS + 1))
        rng.shuffle(sites)
        n = rng.randint(0, NS)
        sites = sites[:n]
        order = [[] for _ in range(NC)]
        for s in sites:
            order[rng.randrange(NC)].append(s)
        poscars.append(order)
    return {"NS": NS, "NC": NC, "fills": fills, "gperms": gperms, "gops": gops, "poscars": poscars}


def project(sup):
    return {"occ": [int(c) + 1 for c in sup.occ], "order": [[int(i) + 1 for i in cl] for cl in sup.chemorder]}


def inject(sup, st):
    sup.occ = np.array([c - 1 for c in st["occ"]], dtype=int)
    sup.chemorder = [[i - 1 for i in cl] for cl in st["order"]]


def poscar_text(sup, order):
    """A POSCAR string listing the given (1-based) sites per species -- written by hand (not by the
    code under test) in the same format the package writes."""
    s = "foreign\n1.0\n"
    a = sup.lattice
    for k in range(3):
        s += "%.16f %.16f %.16f\n" % (a[0][k], a[1][k], a[2][k])
    s += " ".join(str(len(cl)) for cl in order) + "\nDirect\n"
    for cl in order:
        for i in cl:
            u = sup.pos[i - 1]
            s += " %.16f %.16f %.16f\n" % (u[0], u[1], u[2])
    return s


def apply_action(sups, cons, name, args, flavour=0):
    """Perform one spec action on the real objects (list `sups`, 0-based).  Returns raised (bool)."""
    o = args[0] - 1
    sup = sups[o]
    try:
        if name in ("SetOcc", "SetOccErr"):
            i, c = args[1] - 1, args[2] - 1
            if flavour % 3 == 0:
                sup.setocc(i, c)
            elif flavour % 3 == 1:
                sup[i] = c
            else:
                sup[sup.pos[i].copy()] = c
        elif name == "Fill":
            f = cons["fills"][args[1] - 1]
            sup.fillperiodic(tuple(f["ci"]), Wyckoff=f["wy"])
        elif name in ("Reorder", "ReorderErr"):
            c, p = args[1] - 1, args[2]
            mapping = [list(range(len(cl))) for cl in sup.chemorder]
            mapping[c] = [k - 1 for k in p]
            sup.reorder(mapping)
        elif name == "ApplyG":
            g = cons["gops"][args[1] - 1]
            if flavour % 2 == 0:
                sup *= g
            else:
                sups[o] = (sup * g) if flavour % 4 == 1 else (g * sup)
        elif name == "Copy":
            sups[args[1] - 1] = sup.copy()
        elif name == "RoundTrip":
            txt = sup.POSCAR(name="x", stoichiometry=bool(flavour % 2))
            sup.POSCAR_occ(txt)
        elif name == "ReadPoscar":
            k, empty = args[1] - 1, args[2]
            sup.POSCAR_occ(poscar_text(sup, cons["poscars"][k]), EMPTY_SUPER=bool(empty))
        else:
            raise RuntimeError("unknown action " + name)
    except (IndexError, ValueError, KeyError, TypeError, ArithmeticError) as ex:
        return type(ex).__name__
    return None


# ------------------------------------------------------------------ TLA+ constants

def mc_module(name, base, cons, NObj, clo, chi):
    fills = "<<" + ", ".join("[chem |-> %d, sites |-> %s]" % (f["chem"], to_tla(f["sites"]))
                              for f in cons["fills"]) + ">>"
    return """---- MODULE %s ----
EXTENDS %s
MCFills == %s
MCGPerms == %s
MCPoscars == %s
MCCLo == %d
MCCHi == %d
====
""" % (name, base, fills, to_tla(cons["gperms"]), to_tla(cons["poscars"]), clo, chi), """
CONSTANTS
  NS = %d
  NC = %d
  NObj = %d
  CLo <- MCCLo
  CHi <- MCCHi
  Fills <- MCFills
  GPerms <- MCGPerms
  Poscars <- MCPoscars
""" % (cons["NS"], cons["NC"], NObj)


# ------------------------------------------------------------------ the check

def run(ctx):
    quick = ctx.tier == "quick"
    ctx.rule = ("exhaustive TLC state graph of SupercellOcc on small supercells, every labelled edge replayed on "
                "real Supercell objects (non-trivial = edge that changes the state or must raise); plus random "
                "histories on 8-32-site supercells validated by TLC (non-trivial = distinct accepted history)")
    graph_cfgs = [("sc211", 0, 1), ("sc211", 1, 2), ("b2_211", 0, 1), ("sci_211", 1, 1), ("sc311", 2, 1)]
    if not quick:
        graph_cfgs += [("sc221", 0, 1), ("sc221", 1, 1), ("sc221", 2, 1), ("b2_211", 1, 1), ("sc311", 1, 2)]
    for kind, nsol, nobj in graph_cfgs:
        graph_check(ctx, kind, nsol, nobj)
    trace_cfgs = [("fcc222", 1), ("b2_222", 2), ("sci_221", 1), ("hcp221", 0)]
    ntr, length = (12, 60) if quick else (150, 80)
    for kind, nsol in trace_cfgs:
        trace_check(ctx, kind, nsol, ntr, length)


def graph_check(ctx, kind, nsol, nobj):
    sup0 = make_super(kind, nsol)
    cons = geometry_constants(sup0, ctx.rng, maxG=4, nposcar=2)
    wd = tlc.scratch()
    mod, cfg = mc_module("MC_C28", "SupercellOcc", cons, nobj, -2, cons["NC"] + 1)
    path = os.path.join(wd, "MC_C28.tla")
    open(path, "w").write(mod)
    cfg += """
SPECIFICATION Spec
INVARIANT Sane
INVARIANT Placeable
INVARIANT ApplyGInvertible
PROPERTY RoundTripIdentity
PROPERTY ReadExact
"""
    res = tlc.run(path, cfg, workers=8, dump=True, workdir=wd, timeout=1800)
    tlc.require_clean(res, "SupercellOcc %s nsol=%d" % (kind, nsol))
    ctx.add_model(res)
    nodes, edges, inits = tlc.parse_dot(res.dot)
    if len(nodes) != res.distinct:
        raise tlc.TLCError("graph dump has %d nodes, TLC reports %d" % (len(nodes), res.distinct))
    ctx.exhaustive = True
    ctx.sample({"model": "SupercellOcc", "supercell": kind, "Nsolute": nsol, "objects": nobj,
                "states": res.distinct, "edges": len(edges)})
    # initial state through the API: freshly constructed objects
    sups = [make_super(kind, nsol) for _ in range(nobj)]
    init = nodes[inits[0]]
    for o in range(nobj):
        if project(sups[o]) != {"occ": init["occ"][o], "order": init["order"][o]}:
            ctx.violation("init|%s|%d" % (kind, nsol), "fresh supercell is not the empty state", project(sups[o]))
            return
    seen = set()
    for n, (src, dst, lab) in enumerate(edges):
        name, args = tlc.parse_action_label(lab)
        if (src, lab) in seen:
            continue
        seen.add((src, lab))
        s, d = nodes[src], nodes[dst]
        sups = [sup0.copy() for _ in range(nobj)]
        for o in range(nobj):
            inject(sups[o], {"occ": s["occ"][o], "order": s["order"][o]})
        flav = n
        raised = apply_action(sups, cons, name, args, flav)
        must_raise = name.endswith("Err")
        got = [project(x) for x in sups]
        want = [{"occ": d["occ"][o], "order": d["order"][o]} for o in range(nobj)]
        sane = all(x.__sane__() for x in sups)
        ctx.case((kind, nsol, src, lab), nontrivial=(src != dst or must_raise))
        ok = (bool(raised) == must_raise) and got == want and sane
        if not ok:
            key = "edge|%s|Nsolute=%d|%s(%s)|raised=%s" % (kind, nsol, name, _argkey(name, args, cons), raised)
            what = ("Supercell %s Nsolute=%d: from occ=%s order=%s, %s%s gives occ/order=%s raised=%s sane=%s; "
                    "model expects %s %s" % (kind, nsol, s["occ"], s["order"], name, args, got, raised, sane,
                                             want, "and an exception" if must_raise else "without exception"))
            ctx.violation(key, what, {"kind": kind, "Nsolute": nsol, "from": s, "action": lab, "expected": d,
                                      "got": got, "raised": raised})
    ctx.traces += len(seen)


def _argkey(name, args, cons):
    """Canonical, state-independent part of a failing call (species argument relative to the declared range)."""
    if name.startswith("SetOcc"):
        c = args[2] - 1
        nc = cons["NC"]
        rel = "c=%d" % c if c < 0 else ("c=Nchem%+d" % (c - nc))
        return rel
    return name


def random_history(sups, cons, rng, length):
    ev = []
    nobj = len(sups)
    NS, NC = cons["NS"], cons["NC"]
    for step in range(length):
        o = rng.randrange(nobj) + 1
        r = rng.random()
        sup = sups[o - 1]
        if r < 0.45:
            c = rng.choice([0, 0] + list(range(1, NC + 1)) * 3 + [-1, NC + 1, NC + 2])
            e = {"ev": "SetOcc", "o": o, "i": rng.randrange(NS) + 1, "c": c}
            args = [o, e["i"], e["c"]]
        elif r < 0.55:
            k = rng.randrange(len(cons["fills"])) + 1
            e = {"ev": "Fill", "o": o, "k": k}
            args = [o, k]
        elif r < 0.7:
            c = rng.randrange(NC) + 1
            n = len(sup.chemorder[c - 1])
            p = list(range(1, n + 1))
            rng.shuffle(p)
            if n > 1 and rng.random() < 0.25:
                p[rng.randrange(n)] = p[rng.randrange(n)]  # possibly not a permutation
            e = {"ev": "Reorder", "o": o, "c": c, "p": p}
            args = [o, c, p]
        elif r < 0.82:
            g = rng.randrange(len(cons["gperms"])) + 1
            e = {"ev": "ApplyG", "o": o, "g": g}
            args = [o, g]
        elif r < 0.88 and nobj > 1:
            b = rng.choice([x for x in range(1, nobj + 1) if x != o])
            e = {"ev": "Copy", "o": o, "b": b}
            args = [o, b]
        elif r < 0.94:
            e = {"ev": "RoundTrip", "o": o}
            args = [o]
        else:
            k = rng.randrange(len(cons["poscars"])) + 1
            emp = rng.random() < 0.5
            e = {"ev": "ReadPoscar", "o": o, "k": k, "empty": emp}
            args = [o, k, emp]
        raised = apply_action(sups, cons, e["ev"], args, rng.randrange(12))
        e["raised"] = bool(raised)
        st = [project(x) for x in sups]
        e["occ"] = [s["occ"] for s in st]
        e["order"] = [s["order"] for s in st]
        e["sane"] = all(bool(x.__sane__()) for x in sups)
        ev.append(e)
    return ev


def trace_check(ctx, kind, nsol, ntr, length):
    sup0 = make_super(kind, nsol)
    cons = geometry_constants(sup0, ctx.rng, maxG=6, nposcar=3)
    nobj = 2
    traces = []
    for t in range(ntr):
        sups = [sup0.copy() for _ in range(nobj)]
        traces.append(random_history(sups, cons, ctx.rng, length))
    validate_traces(ctx, kind, nsol, cons, nobj, traces)


def validate_traces(ctx, kind, nsol, cons, nobj, traces):
    wd = tlc.scratch()
    mod, cfg = mc_module("MCT_C28", "Trace_C28", cons, nobj, 0, 0)
    path = os.path.join(wd, "MCT_C28.tla")
    open(path, "w").write(mod)
    tf = os.path.join(wd, "traces.json")
    json.dump(traces, open(tf, "w"))
    cfg += "\nINIT TInit\nNEXT TNext\nINVARIANT Sane\n"
    res = tlc.run(path, cfg, workers=1, workdir=wd, env={"TRACE_FILE": tf, "TRACE_VERBOSE": "0"}, timeout=1800)
    tlc.require_clean(res, "Trace_C28 %s" % kind)
    accepted = {p[1] for p in res.prints("ACCEPT")}
    ctx.states += res.distinct
    ctx.transitions += res.generated
    for t, tr in enumerate(traces, 1):
        sig = tuple((e["ev"], e.get("i"), e.get("c"), e["raised"]) for e in tr)
        ctx.case(("trace", kind, nsol, hash(sig)), nontrivial=True)
        if t in accepted:
            ctx.traces += 1
            continue
        # locate the rejected event: rerun this trace alone, verbose
        json.dump([tr], open(tf, "w"))
        r2 = tlc.run(path, cfg, workers=1, workdir=wd, env={"TRACE_FILE": tf, "TRACE_VERBOSE": "1"}, timeout=600)
        steps = [p[2] for p in r2.prints("STEP")]
        bad = (max(steps) + 1) if steps else 1
        e = tr[bad - 1]
        prev = tr[bad - 2] if bad > 1 else None
        args = [e["o"], e.get("i", e.get("k", e.get("c", e.get("g", 0)))), e.get("c", 0)]
        key = "edge|%s|Nsolute=%d|%s(%s)|raised=%s" % (
            kind, nsol, e["ev"] + ("Err" if e["raised"] and e["ev"] == "SetOcc" else ""),
            _argkey(e["ev"], [e["o"], e.get("i", 0), e.get("c", 0)], cons), "yes" if e["raised"] else None)
        ctx.violation(key, "history rejected by SupercellOcc at event %d: %s (previous logged state: %s)" % (
            bad, {k: e[k] for k in e}, None if prev is None else {"occ": prev["occ"], "order": prev["order"]}),
            {"kind": kind, "Nsolute": nsol, "trace": tr[:bad], "rejected_event": bad})
    ctx.sample({"trace": traces[0][:3], "supercell": kind, "length": len(traces[0])})
