"""C08 -- the two omega2 algorithms agree and stay finite for extreme rates.

For a base data set the omega2 prefactors are scaled by 10^k, k = -3..16; for every k the calculator is
run with the standard algorithm forced (large_om2=1e300), the large-rate algorithm forced (large_om2=0)
and the default selection.  spec/rel/Check_Rel.tla decides, on the transported tensors:
  agree@k      standard = large-rate algorithm for k <= 8 (where the standard one is numerically valid),
  default@k    the default result is finite, symmetric and equals one of the two forced results,
  smooth@k     for k >= 9 consecutive decades of the default result differ by <= 1e-4 of the largest entry (smooth approach to
               the large-rate limit).
"""
import numpy as np

from .. import calc, rel

LEVEL = "model_checking"
KVALID = 8


def run(ctx):
    quick = ctx.tier == "quick"
    rng = ctx.rng
    ctx.rule = ("(world, base dyadic data) x omega2 prefactor 10^k for k=-3..16 x {standard forced, large forced, "
                "default}; non-trivial = distinct (world, base, k) where the two algorithms are both evaluated")
    vw = [("fcc", 0, 1, 1), ("hcp", 0, 2, 1), ("honeycomb", 0, 1, 1), ("b2", 0, 1, 1)]
    if not quick:
        vw += [("bcc", 0, 1, 1), ("square", 0, 1, 2), ("hex2d", 0, 1, 1), ("polarrect", 1, 2, 1), ("sc", 0, 1, 1),
               ("wurtzite", 0, 1, 1)]
    cases, metas = [], []
    for name, chem, shell, nth in vw:
        s = calc.vacancy(name, chem, shell, nth, rng)
        for rep in range(2 if quick else 8):
            d = calc.vacancy_data(s, rng, 0, 2)
            if len(d["eneT2"]) > 1 and rep % 2 == 0:
                d["eneT2"][0] -= 3 * calc.LN2      # distinct exchange rates for symmetry-distinct exchanges
            if rep % 2 == 1:
                # realistic absolute rates: every barrier +23 levels (all rates x 2^-23 ~ 1e-7); the choice between the
                # two algorithms must depend on rate RATIOS only
                for kk in ("eneT0", "eneT1", "eneT2"):
                    d[kk] = np.array(d[kk]) + 23 * calc.LN2
            res = {}
            ks = list(range(-3, 17))
            base = {kk: np.asarray(v).tolist() for kk, v in d.items()}
            raised = False
            for k in ks:
                t = dict(d, preT2=np.array(d["preT2"]) * 10.0 ** k)
                try:
                    res[k] = {"std": calc.Lij(s, t, large_om2=1e300) if k <= KVALID + 1 else None,
                              "large": calc.Lij(s, t, large_om2=0.0),
                              "default": calc.Lij(s, t)}
                except Exception as ex:      # noqa: BLE001 -- an exception at extreme rates is a violation
                    ctx.case("sweep|%s|N%d#%d,%d" % (name, nth, rep, k))
                    ctx.violation("rel|raised_%s|sweep|%s|N%d" % (type(ex).__name__, name, nth),
                                  "Lij raised %s: %s on %s at omega2 prefactor 1e%d" % (type(ex).__name__, ex, name, k),
                                  {"world": name, "data": base, "k": k})
                    raised = True
                    break
            if raised:
                continue
            for k in ks:
                if not all(np.all(np.isfinite(T)) for T in res[k]["default"]):
                    ctx.case("sweep|%s|N%d#%d,%d" % (name, nth, rep, k))
                    ctx.violation("finite|%s|N%d|k=%d" % (name, nth, k),
                                  "default omega2 selection returns non-finite tensors on %s at omega2 prefactor 1e%d" % (
                                      name, k), {"world": name, "data": base, "k": k})
                    continue
                tens, asserts = {}, []
                for i, nm in enumerate(calc.NAMES4):
                    tens[nm + "_def"] = rel.to_latt(s.crys, res[k]["default"][i])
                    tens[nm + "_large"] = rel.to_latt(s.crys, res[k]["large"][i])
                    asserts.append(rel.a_sym("default@%s_symmetric" % nm, nm + "_def", 1e-7))
                    same_large = np.array_equal(res[k]["default"][i], res[k]["large"][i])
                    if res[k]["std"] is not None:
                        tens[nm + "_std"] = rel.to_latt(s.crys, res[k]["std"][i])
                        if k <= KVALID:
                            asserts.append(rel.a_zero("agree@%s" % nm, [(1, nm + "_std"), (-1, nm + "_large")],
                                                      5e-5 if name in ("polarrect", "rect2site", "tet2") else 1e-6))
                        other = nm + ("_large" if same_large else "_std")
                    else:
                        other = nm + "_large"
                    asserts.append(rel.a_zero("default@%s_is_one_of_the_algorithms" % nm,
                                              [(1, nm + "_def"), (-1, other)], 2e-10))
                    if 9 <= k < 16:
                        tens[nm + "_next"] = rel.to_latt(s.crys, res[k + 1]["default"][i])
                        asserts.append(rel.a_zero("smooth@%s" % nm,
                                                  [(1, nm + "_next"), (-1, nm + "_def")], 1e-4))
                cases.append(rel.make_case(s.w, tens, asserts, usegroup=False))
                metas.append(("sweep|%s|N%d#%d,%d" % (name, nth, rep, k),
                              "omega2 sweep on %s Nthermo=%d at prefactor 1e%d" % (name, nth, k),
                              {"world": name, "data": base, "k": k}, True))
    # ---- split sweep: only ONE of several symmetry-distinct exchange classes becomes fast (ratios 1e8..1e11 between
    # exchange classes); measured agreement of the two algorithms there is 1e-12..6e-6 (k <= 11)
    for name, chem, shell, nth in vw:
        s = calc.vacancy(name, chem, shell, nth, rng)
        if s.sizes["T2"] < 2:
            continue
        for rep in range(1 if quick else 3):
            d = calc.vacancy_data(s, rng, 0, 2)
            for cls in range(min(2, s.sizes["T2"])):
                for k in (8, 9, 10, 11):
                    p2 = np.array(d["preT2"], dtype=float)
                    p2[cls] *= 10.0 ** k
                    t = dict(d, preT2=p2)
                    try:
                        Ls, Ll = calc.Lij(s, t, large_om2=1e300), calc.Lij(s, t, large_om2=0.0)
                    except Exception as ex:      # noqa: BLE001
                        ctx.case("split|%s|N%d#%d,%d,%d" % (name, nth, rep, cls, k))
                        ctx.violation("rel|raised_%s|split|%s|N%d" % (type(ex).__name__, name, nth),
                                      "Lij raised %s: %s on %s with omega2 class %d alone at prefactor 1e%d" % (
                                          type(ex).__name__, ex, name, cls, k),
                                      {"world": name, "class": cls, "k": k,
                                       "data": {kk: np.asarray(v).tolist() for kk, v in d.items()}})
                        continue
                    tens, asserts = {}, []
                    for i, nm in enumerate(calc.NAMES4):
                        tens[nm + "_std"], tens[nm + "_large"] = rel.to_latt(s.crys, Ls[i]), rel.to_latt(s.crys, Ll[i])
                        asserts.append(rel.a_zero("agree_split@%s" % nm, [(1, nm + "_std"), (-1, nm + "_large")],
                                                  5e-4 if name in ("polarrect", "rect2site", "tet2", "wurtzite") else 1e-4))
                    cases.append(rel.make_case(s.w, tens, asserts, usegroup=False))
                    metas.append(("split|%s|N%d#%d,%d,%d" % (name, nth, rep, cls, k),
                                  "omega2 class %d of %s (Nthermo=%d) alone at prefactor 1e%d" % (cls, name, nth, k),
                                  {"world": name, "class": cls, "k": k,
                                   "data": {kk: np.asarray(v).tolist() for kk, v in d.items()}}, True))
    rel.run_rel(ctx, cases, metas, shards=8 if quick else 14)
    ctx.sample({"case": metas[0][0], "asserts": [a["name"] for a in cases[0]["asserts"]]})
    ctx.sample({"case": metas[-1][0], "asserts": [a["name"] for a in cases[-1]["asserts"]]})
