"""C09 -- equivalent descriptions of the same crystal give the same transport.

The same physical crystal (one realisation, one orientation) is described by (a) a permuted atom order,
(b) a different primitive basis (random unimodular change, noreduce), (c) a non-reduced supercell or
conventional cell (noreduce).  Data are assigned by PHYSICAL equivalence: every site / jump class of the
alternative description is matched by Cartesian position (modulo the lattice) and displacement to a class
of the reference description and receives that class's dyadic data.  spec/rel/Check_Rel.tla decides that
the interstitial diffusivity and the four vacancy-mediated tensors (site- and jump-class data, LIMB
interactions) agree; tensors are compared in the common Cartesian frame.
"""
import itertools

import numpy as np

from .. import calc, rel, worlds

LEVEL = "model_checking"


def unimodular(rng, d):
    while True:
        U = np.eye(d, dtype=int)
        for _ in range(3):
            i, j = rng.sample(range(d), 2)
            U[:, i] += rng.choice((-1, 1)) * U[:, j]
        if rng.random() < 0.5:
            p = list(range(d))
            rng.shuffle(p)
            U = U[:, p]
        if abs(round(np.linalg.det(U))) == 1 and not np.array_equal(U, np.eye(d, dtype=int)):
            return U


def redescribe(crys0, kind, rng):
    """Return (lattice, basis) of an equivalent description of crys0 (same Cartesian atoms)."""
    A = crys0.lattice
    d = crys0.dim
    if kind == "permute":
        basis = []
        for sp in crys0.basis:
            p = list(range(len(sp)))
            rng.shuffle(p)
            basis.append([sp[i].copy() for i in p])
        return A.copy(), basis
    if kind == "unimodular":
        U = unimodular(rng, d)
        Ui = np.round(np.linalg.inv(U)).astype(int)
        return np.dot(A, U), [[np.dot(Ui, u) for u in sp] for sp in crys0.basis]
    if kind in ("supercell", "supercell4"):
        if kind == "supercell4":
            # several internal translations that the point operations permute among themselves (conventional
            # fcc-type cell, 2x2(x1), 3x1): the atom maps of rotations and internal translations do not commute
            S = np.array(rng.choice([[[-1, 1, 1], [1, -1, 1], [1, 1, -1]], [[2, 0, 0], [0, 2, 0], [0, 0, 1]],
                                     [[1, 1, 0], [-1, 1, 0], [0, 0, 2]]] if d == 3 else
                                    [[[2, 0], [0, 2]], [[3, 0], [0, 1]], [[1, 2], [-2, 1]]]), dtype=int)
        else:
            S = np.eye(d, dtype=int)
            S[rng.randrange(d), rng.randrange(d)] += 1
        if kind == "supercell" and abs(round(np.linalg.det(S))) < 2:
            k = rng.randrange(d)
            S = np.eye(d, dtype=int)
            S[k, k] = 2
        n = abs(int(round(np.linalg.det(S))))
        Si = np.linalg.inv(S)
        basis = []
        for sp in crys0.basis:
            lst = []
            for u in sp:
                for R in itertools.product(range(-3, 4), repeat=d):
                    x = np.dot(Si, u + np.array(R))
                    x = x - np.floor(x + 1e-9)
                    if not any(np.allclose(x, y, atol=1e-7) or np.allclose(np.abs(x - y), 1, atol=1e-7) for y in lst) \
                            and not any(np.max(np.abs((x - y) - np.round(x - y))) < 1e-7 for y in lst):
                        lst.append(x)
            assert len(lst) == n * len(sp), (len(lst), n, len(sp))
            order = list(range(len(lst)))
            rng.shuffle(order)
            basis.append([lst[i] for i in order])
        return np.dot(A, S), basis
    raise ValueError(kind)


def rigid_shift(cref, calt):
    """Cartesian vector s with (atoms of calt) + s = (atoms of cref) modulo the lattice: constructing a Crystal
    may re-centre the basis, which is part of 'an equivalent description'."""
    zero = np.zeros(cref.dim, dtype=int)
    c0 = min(range(len(calt.basis)), key=lambda c: len(calt.basis[c]))
    x0 = calt.pos2cart(zero, (c0, 0))
    for k in range(len(cref.basis[c0])):
        s = cref.pos2cart(zero, (c0, k)) - x0
        try:
            for c in range(len(calt.basis)):
                for i in range(len(calt.basis[c])):
                    site_of(cref, c, calt.pos2cart(zero, (c, i)) + s)
            return s
        except worlds.ProjectionError:
            continue
    raise worlds.ProjectionError("the two descriptions are not the same crystal up to a translation")


def site_of(crys, chem, x):
    """Index of the site of species chem at Cartesian position x (modulo the lattice)."""
    u = np.dot(crys.invlatt, x)
    for i, b in enumerate(crys.basis[chem]):
        dlt = u - b
        if np.max(np.abs(dlt - np.round(dlt))) < 1e-6:
            return i
    raise worlds.ProjectionError("no site of species %d at %s" % (chem, x))


def class_maps(ref, alt, chem, jn_ref, jn_alt):
    """For each site class / jump class of the alternative description, the matching reference class."""
    cref, calt = ref["crys"], alt["crys"]
    refsite = {}
    for ci, cl in enumerate(ref["sitelist"]):
        for i in cl:
            refsite[i] = ci
    zero = np.zeros(cref.dim, dtype=int)
    shift = rigid_shift(cref, calt)
    sitemap = []
    for cl in alt["sitelist"]:
        cs = {refsite[site_of(cref, chem, calt.pos2cart(zero, (chem, i)) + shift)] for i in cl}
        if len(cs) != 1:
            raise worlds.ProjectionError("a site class of the alternative description mixes reference classes %s" % cs)
        sitemap.append(cs.pop())
    refjump = {}
    for k, cls in enumerate(jn_ref):
        for (i, j), dx in cls:
            refjump[(i, j, tuple(np.round(dx, 5)))] = k
    jumpmap = []
    for cls in jn_alt:
        ks = set()
        for (i, j), dx in cls:
            i0 = site_of(cref, chem, calt.pos2cart(zero, (chem, i)) + shift)
            j0 = site_of(cref, chem, calt.pos2cart(zero, (chem, j)) + shift)
            key = (i0, j0, tuple(np.round(dx, 5)))
            if key not in refjump:
                raise worlds.ProjectionError("jump %s of the alternative description is not in the reference network" % (key,))
            ks.add(refjump[key])
        if len(ks) != 1:
            raise worlds.ProjectionError("a jump class of the alternative description mixes reference classes %s" % ks)
        jumpmap.append(ks.pop())
    return sitemap, jumpmap


def run(ctx):
    quick = ctx.tier == "quick"
    rng = ctx.rng
    from onsager import crystal, OnsagerCalc
    ctx.rule = ("reference crystal x {atom permutation, random unimodular basis change, non-reduced supercell} with "
                "data carried over by Cartesian class matching; non-trivial = description whose atom order, lattice or "
                "cell size differs from the reference and whose data are non-uniform")
    cases, metas = [], []
    iw = [("hcpoct", 2, 2), ("hcpoct", 1, 1), ("fccoct", 2, 1), ("polarrect", 1, 2), ("wurtzite", 1, 1), ("tet2", 0, 1),
          ("honeycomb", 0, 1)]
    if not quick:
        iw = calc.INTERSTITIAL_WORLDS
    kinds = ("permute", "unimodular", "supercell", "supercell4")
    for name, chem, shell in iw:
        s = calc.interstitial(name, chem, shell, rng)
        d = calc.interstitial_data(s, rng, 0, 3, 0, 1)
        D0 = s.calc.diffusivity(*calc.interstitial_args(d))
        ref = {"crys": s.crys, "sitelist": s.sitelist}
        for kind in kinds:
            for rep in range(1 if quick else 3):
                key = "interstitial|%s|%d|%s#%d" % (name, chem, kind, rep)
                try:
                    A1, b1 = redescribe(s.crys, kind, rng)
                    c1 = crystal.Crystal(A1, b1, chemistry=s.crys.chemistry, noreduce=True)
                    sl1 = c1.sitelist(chem)
                    jn1 = c1.jumpnetwork(chem, s.cutoff)
                    sm, jm = class_maps(ref, {"crys": c1, "sitelist": sl1}, chem, s.jumpnetwork, jn1)
                except worlds.ProjectionError as ex:
                    ctx.case(key)
                    ctx.violation("match|%s|%s" % (name, kind), "%s (%s): %s" % (name, kind, ex), {"world": name})
                    continue
                d1 = {"eneL": [d["eneL"][k] for k in sm], "preL": [d["preL"][k] for k in sm],
                      "eneTL": [d["eneTL"][k] for k in jm], "preTL": [d["preTL"][k] for k in jm]}
                try:
                    D1 = OnsagerCalc.Interstitial(c1, chem, sl1, jn1).diffusivity(*calc.interstitial_args(d1))
                except Exception as ex:
                    ctx.case(key)
                    ctx.violation("construct|interstitial|%s|%s|%s" % (name, kind, type(ex).__name__),
                                  "Interstitial calculator on %s described by %s raised %s: %s" % (name, kind, type(ex).__name__, ex),
                                  {"world": name, "kind": kind, "lattice": A1.tolist(),
                                   "basis": [[u.tolist() for u in sp] for sp in b1], "sitelist": sl1,
                                   "group_order": len(c1.G)})
                    continue
                cases.append(rel.make_case(s.w, {"D_ref": D0, "D_alt": D1}, [
                    rel.a_zero("D_same_for_equivalent_description", [(1, "D_ref"), (-1, "D_alt")], 1e-8)], usegroup=False))
                metas.append((key, "interstitial D on %s described by %s" % (name, kind),
                              {"world": name, "kind": kind, "data": d}, True))
    vw = [("fcc", 0, 1), ("hcp", 0, 2), ("honeycomb", 0, 1), ("b2", 0, 1)]
    if not quick:
        vw += [("bcc", 0, 1), ("square", 0, 1), ("polarrect", 1, 2), ("tet2", 0, 2), ("diamond", 0, 1)]
    for name, chem, shell in vw:
        s = calc.vacancy(name, chem, shell, 1, rng)
        z = s.sizes
        base = {"eneV": calc.levels(rng, z["V"], 0, 2), "eneS": calc.levels(rng, z["V"], 0, 1),
                "eneT0": calc.levels(rng, z["T0"], 3, 5)}

        def data_for(c, sm, jm):
            dd = {"preV": np.ones(len(sm)), "eneV": np.array([base["eneV"][k] for k in sm]) * calc.LN2,
                  "preS": np.ones(len(sm)), "eneS": np.array([base["eneS"][k] for k in sm]) * calc.LN2,
                  "preSV": np.ones(c.thermo.Nstars), "eneSV": np.zeros(c.thermo.Nstars),
                  "preT0": np.ones(len(jm)), "eneT0": np.array([base["eneT0"][k] for k in jm]) * calc.LN2}
            dd.update(c.makeLIMBpreene(**dd))
            return dd
        L0 = calc.Lij(s, data_for(s.calc, list(range(z["V"])), list(range(z["T0"]))))
        ref = {"crys": s.crys, "sitelist": s.sitelist}
        for kind in kinds:
            key = "vacancy|%s|%s" % (name, kind)
            if kind == "supercell" and quick and name not in ("fcc", "honeycomb"):
                continue
            if kind == "supercell4" and name not in (("fcc",) if quick else ("fcc", "honeycomb", "bcc", "square")):
                continue
            try:
                A1, b1 = redescribe(s.crys, kind, rng)
                c1 = crystal.Crystal(A1, b1, chemistry=s.crys.chemistry, noreduce=True)
                sl1 = c1.sitelist(chem)
                jn1 = c1.jumpnetwork(chem, s.cutoff)
                sm, jm = class_maps(ref, {"crys": c1, "sitelist": sl1}, chem, s.jumpnetwork, jn1)
            except worlds.ProjectionError as ex:
                ctx.case(key)
                ctx.violation("match|%s|%s" % (name, kind), "%s (%s): %s" % (name, kind, ex), {"world": name})
                continue
            v1 = OnsagerCalc.VacancyMediated(c1, chem, sl1, jn1, 1)
            L1 = v1.Lij(*v1.preene2betafree(1.0, **data_for(v1, sm, jm)))
            # a supercell of n cells holds n times the sites: coefficients are per unit cell of the description
            n = len(c1.basis[chem]) / len(s.crys.basis[chem])
            tens, asserts = {}, []
            for nm, a, b in zip(calc.NAMES4, L0, L1):
                tens[nm + "_ref"], tens[nm + "_alt"] = a, b
                asserts.append(rel.a_zero("%s_same_for_equivalent_description" % nm, [(1, nm + "_ref"), (-1, nm + "_alt")],
                                          (2e-6 if kind == "permute" else 2e-4) *   # skewed cells: coarser k-mesh, measured 8e-5
                                          (4 if name in ("polarrect", "rect2site", "tet2") else 1)))  # coarser k-mesh
            cases.append(rel.make_case(s.w, tens, asserts, usegroup=False))
            metas.append((key + "#0", "vacancy-mediated tensors on %s described by %s" % (name, kind),
                          {"world": name, "kind": kind, "base": base}, True))
    rel.run_rel(ctx, cases, metas, shards=8 if quick else 14)
    ctx.sample({"case": metas[0][0], "asserts": [a["name"] for a in cases[0]["asserts"]]})
