"""C12 -- internal-friction loss tensors satisfy the relaxation sum rule.

For interstitial networks that connect symmetry-inequivalent site types with DIFFERENT site prefactors (HCP / FCC / BCC
octahedral + tetrahedral as one species, two mm2 Wyckoff sets, polar 2D cells, ...) in random orientations, with dyadic
energies / prefactors and random integer dipoles, Interstitial.losstensors is observed and spec/rel/Check_C12.tla
decides, on exactly transported numbers:

* rate_positive@mode: every reported rate is > 0;
* rate_is_nonzero_eigenvalue: every reported rate equals (1e-9 of the largest rate) a non-zero eigenvalue of the
  symmetrised rate matrix, which the harness assembles INDEPENDENTLY from the definition
  Omega = pi^(1/2) Q pi^(-1/2), Q_ij = nu_J / pi_i, pi_i = pre_i 2^-E_i, nu_J = preT 2^-ET (exact dyadic numbers);
  the reference spectrum is validated by TLC against the exact traces of Q (CERT_ clauses);
* every_nonzero_eigenvalue_reported: each non-zero eigenvalue has a reported mode (up to the documented merging);
* compliance_symmetry@mode, positive_semidefinite@mode for every loss tensor (rank-4 form on symmetric strains);
* sum_rule: sum_m L_m = <P P> - <P><P>, and first_moment: sum_m lambda_m L_m = 1/2 sum rho_i w_ij (P_i-P_j)(P_i-P_j),
  both right-hand sides exact rational bilinear forms of the dyadic weights and the site dipoles.
"""
from fractions import Fraction

import numpy as np

from .. import calc, rel, tlc
from .. import helpers_c11 as hp

LEVEL = "model_checking"

QUICK = [("hcpOT", 1, 2), ("fccOT", 1, 2), ("bccOT", 1, 2), ("orthomm2", 1, 2), ("polarrect", 1, 2), ("polarrect3", 1, 3),
         ("tet2", 0, 1), ("monogen", 1, 2), ("hcpoct", 2, 2), ("honeycomb", 0, 1)]
MORE = [("hcpOT", 1, 3), ("fccOT", 1, 1), ("fccOT", 1, 3), ("bccOT", 1, 1), ("bccOT", 1, 3), ("orthomm2", 1, 3),
        ("monodeco", 1, 2), ("wurtzite", 1, 2), ("orthogen", 1, 3), ("tetm", 1, 2), ("tricgen", 1, 2), ("kagome", 0, 1),
        ("squarelieb", 1, 1), ("omega", 0, 2), ("tric2", 0, 2), ("rect2site", 0, 2), ("l12", 1, 1), ("fccoct", 2, 1)]

TOL_ID = 1e-8
TOL_MEMBER = 1e-9
TOL_COVER = 2e-5 + 1e-9


def A(name, kind, terms=(), tol=1e-8, xs=(), ys=(), e=()):
    return {"name": name, "kind": kind, "terms": [[int(c), t] for c, t in terms], "tol": rel.tol_units(tol),
            "xs": list(xs), "ys": list(ys), "e": [list(map(int, r)) for r in e]}


def flat4(T4):
    d = T4.shape[0]
    return np.asarray(T4, dtype=float).reshape(d * d, d * d)


def fouter(P, Q):
    """Exact outer product of two d x d Fraction matrices as a d^2 x d^2 Fraction matrix."""
    d = len(P)
    return [[P[a][b] * Q[c][e] for c in range(d) for e in range(d)] for a in range(d) for b in range(d)]


def fadd(X, Y, f=1):
    return [[x + f * y for x, y in zip(rx, ry)] for rx, ry in zip(X, Y)]


def fzero(n):
    return [[Fraction(0)] * n for _ in range(n)]


def to_float(X):
    return np.array([[float(x) for x in r] for r in X])


def voigt_certificate(Lflat, d):
    """The symmetric integer strain (entries <= 9) closest to the most negative direction of the form on symmetric
    strains."""
    idx = [(a, b) for a in range(d) for b in range(a, d)]
    V = np.zeros((len(idx), len(idx)))
    for I, (a, b) in enumerate(idx):
        for J, (c, e) in enumerate(idx):
            ea = np.zeros((d, d)); ea[a, b] = ea[b, a] = 1
            ec = np.zeros((d, d)); ec[c, e] = ec[e, c] = 1
            V[I, J] = ea.reshape(-1) @ Lflat @ ec.reshape(-1)
    V = 0.5 * (V + V.T)
    wv, U = np.linalg.eigh(V)
    v = U[:, 0]
    if np.max(np.abs(v)) == 0:
        return []
    q = np.round(v / np.max(np.abs(v)) * 9)
    E = np.zeros((d, d), dtype=int)
    for I, (a, b) in enumerate(idx):
        E[a, b] = E[b, a] = int(q[I])
    return E.tolist() if np.any(E) else []


def build_case(s, d, dipL, quick):
    """Observe losstensors for data d and integer (lattice) dipoles dipL; returns (case, names, facts) or None."""
    dim = s.crys.dim
    Alat = s.crys.lattice
    args = calc.interstitial_args(d)
    pre, be, preT, beT = args
    dip = [np.dot(Alat, np.dot(P, Alat.T)) for P in dipL]
    modes = s.calc.losstensors(pre, be, dip, preT, beT)
    sdL = [rel.to_latt(s.crys, P) for P in s.calc.siteDipoles(dip)]
    N = s.calc.N
    # ---- definitional generator (exact) and its symmetrised form (float)
    pi, rho = hp.exact_site_weights(s, d)
    nu = hp.exact_ts_weights(d)
    Nmat = [[Fraction(0)] * N for _ in range(N)]
    edges = []
    for k, cls in enumerate(s.jumpnetwork):
        for (i, j), dx in cls:
            if i != j:
                Nmat[i][j] += nu[k]
                edges.append((i, j))
    if hp.components(N, edges) != 1:
        return None
    Q = [[(Nmat[i][j] / pi[i] if i != j else -sum(Nmat[i]) / pi[i]) for j in range(N)] for i in range(N)]
    trQ = sum(Q[i][i] for i in range(N))
    trQ2 = sum(Q[i][j] * Q[j][i] for i in range(N) for j in range(N))
    sp = [float(p) ** 0.5 for p in pi]
    Om = np.array([[float(Q[i][j]) * sp[i] / sp[j] for j in range(N)] for i in range(N)])
    Om = 0.5 * (Om + Om.T)
    mu = sorted(-np.linalg.eigvalsh(Om))            # mu[0] ~ 0 (one connected component)
    # ---- exact moments
    Pf = [hp.frac_matrix(P) for P in sdL]
    n2 = dim * dim
    M0, mean = fzero(n2), [[Fraction(0)] * dim for _ in range(dim)]
    for i in range(N):
        M0 = fadd(M0, [[rho[i] * x for x in r] for r in fouter(Pf[i], Pf[i])])
        mean = fadd(mean, [[rho[i] * x for x in r] for r in Pf[i]])
    M0 = fadd(M0, fouter(mean, mean), -1)
    Z = sum(pi)
    M1 = fzero(n2)
    for k, cls in enumerate(s.jumpnetwork):
        for (i, j), dx in cls:
            dP = fadd(Pf[i], Pf[j], -1)
            M1 = fadd(M1, [[nu[k] / Z / 2 * x for x in r] for r in fouter(dP, dP)])
    M0f, M1f = to_float(M0), to_float(M1)
    # ---- observations
    lam = [float(l) for l, L in modes]
    Ls = [flat4(rel.to_latt4(s.crys, L)) for l, L in modes]
    M1obs = sum((l * L for l, L in zip(lam, Ls)), np.zeros((n2, n2)))
    # exact power-of-two prescales per unit: rates, rank-4 tensors, rate x rank-4, rate^2
    kr = hp.pow2_scale(max([abs(x) for x in lam + list(mu)] + [abs(float(trQ))]))
    # (the natural magnitude of a loss tensor is |P|^2 even when the fluctuation vanishes by symmetry)
    p2 = max(float(np.max(np.abs(P))) for P in sdL) ** 2
    kL = hp.pow2_scale(max([float(np.max(np.abs(L))) for L in Ls] + [float(np.max(np.abs(M0f))), p2]))
    k2 = hp.pow2_scale(max(float(np.max(np.abs(M1f))), float(np.max(np.abs(M1obs))), p2 * float(mu[-1])))
    kq = hp.pow2_scale(max(float(trQ2), sum(m * m for m in mu)))
    sr, sL, s2, sq = 2.0 ** kr, 2.0 ** kL, 2.0 ** k2, 2.0 ** kq
    tens, asserts = {}, []
    for m, (l, L) in enumerate(zip(lam, Ls)):
        tens["lam%d" % m] = [[l / sr]]
        tens["L%d" % m] = L / sL
    for n, x in enumerate(mu):
        tens["mu%d" % n] = [[x / sr]]
        tens["musq%d" % n] = [[x * x / sq]]
    tens["trQ"] = [[float(trQ) / sr]]
    tens["trQ2"] = [[float(trQ2) / sq]]
    tens["M0"] = M0f / sL
    tens["M1"] = M1f / s2
    tens["M1obs"] = M1obs / s2
    nonzero = ["mu%d" % n for n in range(1, N)]
    asserts.append(A("CERT_reference_spectrum_trace", "zero", [(1, "mu%d" % n) for n in range(N)] + [(1, "trQ")], 1e-8))
    asserts.append(A("CERT_reference_spectrum_trace_of_square", "zero",
                     [(1, "musq%d" % n) for n in range(N)] + [(-1, "trQ2")], 1e-8))
    asserts.append(A("CERT_reference_zero_mode", "zero", [(1, "mu0")], 1e-9))
    for m in range(len(modes)):
        asserts.append(A("rate_positive@mode%d" % m, "pos", [(1, "lam%d" % m)]))
        asserts.append(A("rate_is_nonzero_eigenvalue@mode%d" % m, "member", tol=TOL_MEMBER, xs=["lam%d" % m], ys=nonzero))
        asserts.append(A("compliance_symmetry@mode%d" % m, "compliance", [(1, "L%d" % m)], TOL_ID))
        asserts.append(A("positive_semidefinite@mode%d" % m, "psd4", [(1, "L%d" % m)], TOL_ID,
                         e=voigt_certificate(Ls[m], dim)))
    asserts.append(A("every_nonzero_eigenvalue_reported", "cover", tol=TOL_COVER,
                     xs=["lam%d" % m for m in range(len(modes))], ys=nonzero))
    if modes:
        asserts.append(A("sum_rule", "zero", [(1, "L%d" % m) for m in range(len(modes))] + [(-1, "M0")], TOL_ID))
    else:
        tens["Zero4"] = np.zeros((n2, n2))
        asserts.append(A("sum_rule", "zero", [(1, "Zero4"), (-1, "M0")], TOL_ID))
    asserts.append(A("first_moment", "zero", [(1, "M1obs"), (-1, "M1")], TOL_ID))
    names = hp.shorten(asserts)
    case = {"dim": dim, "nz": 2 if quick else dim * (dim + 1) // 2, "scale": 1.0,
            "tensors": {n: rel.fxmat(T, 1.0) for n, T in tens.items()}, "asserts": asserts}
    facts = {"modes": len(modes), "sites": N, "active": sum(1 for L in Ls if np.max(np.abs(L)) > 1e-9 * sL),
             "distinct_prefactors": len(set(d["preL"])), "mu_min_ratio": float(mu[1] / mu[-1]) if N > 1 else 0.0}
    return case, names, facts


def run(ctx):
    if ctx.replay:
        return hp.replay(ctx, "Check_C12")
    quick = ctx.tier == "quick"
    rng = ctx.rng
    ctx.rule = ("(connected interstitial network in a random orientation, dyadic energies, site prefactors that DIFFER "
                "between inequivalent site types, random non-symmetric integer dipoles): every reported mode and both "
                "moment identities decided by TLC; non-trivial = case with >= 2 site types of different prefactor or "
                ">= 2 reported modes, and at least one mode with a non-zero loss tensor")
    setups = QUICK if quick else QUICK + MORE
    norient, nrep = (1, 3) if quick else (2, 8)
    cases, metas, skipped = [], [], 0
    for name, chem, shell in setups:
        for ori in range(norient):
            s = hp.interstitial(name, chem, shell, rng)
            dim = s.crys.dim
            label = "%s|chem%d|shell%d" % (name, chem, s.shell)
            for rep in range(nrep):
                hi = (2, 3, 6)[rep % 3]
                d = calc.interstitial_data(s, rng, 0, hi)
                # inequivalent site types get DIFFERENT prefactors (levels are a random injective choice)
                d["preL"] = rng.sample(range(-2, max(3, s.Nsite)), s.Nsite)
                if rep % 3 == 1:
                    # realistic absolute barriers: every rate (and relaxation rate) is of order 2^-40 ~ 1e-12
                    d["eneTL"] = [e + 40 for e in d["eneTL"]]
                dipL = [hp.int_dipole(rng, dim) for _ in range(s.Nsite)]
                payload = {"world": name, "chem": chem, "shell": s.shell, "data": d, "lattice": s.crys.lattice.tolist(),
                           "site_dipoles_lattice": [P.tolist() for P in dipL]}
                try:
                    out = build_case(s, d, dipL, quick)
                except (ValueError, OverflowError, FloatingPointError, np.linalg.LinAlgError) as ex:
                    ctx.case("loss|%s#%d.%d" % (label, ori, rep))
                    ctx.violation("clause|outputs_are_finite|%s|chem%d" % (name, chem),
                                  "%s: losstensors output cannot be transported (%s: %s)" % (label, type(ex).__name__, ex),
                                  payload)
                    continue
                if out is None:
                    skipped += 1
                    continue
                case, names, facts = out
                cases.append(case)
                metas.append(dict(key="loss|%s#%d.%d" % (label, ori, rep), label=label, name=name, chem=chem, names=names,
                                  facts=facts, payload=payload))
    fails, infos, results = tlc.run_cases("Check_C12", cases, shards=3 if quick else 10)
    for r in results:
        ctx.add_model(r)
    ctx.traces += len(cases)
    for i, m in enumerate(metas):
        names = sorted(set(hp.expand(f, m["names"]) for f in fails.get(i, [])))
        if any(n.startswith("CERT") for n in names):
            raise tlc.TLCError("reference spectrum certificate rejected on %s: %s" % (m["key"], names))
        f = m["facts"]
        ctx.case(m["key"], nontrivial=(f["distinct_prefactors"] >= 2 or f["modes"] >= 2) and f["active"] >= 1)
        if not names:
            continue
        clauses = sorted(set(n.partition("@")[0] for n in names))
        ctx.violation("clause|%s|%s|chem%d" % ("+".join(clauses), m["name"], m["chem"]),
                      "%s: TLC rejects %s (%d sites, %d reported modes, %d site types with different prefactors)" % (
                          m["label"], names, f["sites"], f["modes"], f["distinct_prefactors"]),
                      {"meta": m["payload"], "failed": names, "case": cases[i]})
    ctx.info("disconnected_networks_skipped", skipped)
    ctx.info("modes_checked", sum(m["facts"]["modes"] for m in metas))
    ctx.info("smallest_eigenvalue_ratio", min([m["facts"]["mu_min_ratio"] for m in metas if m["facts"]["sites"] > 1] + [1]))
    if metas:
        ctx.sample({"case": metas[0]["key"], "asserts": metas[0]["names"][:14], "facts": metas[0]["facts"]})
        ctx.sample({"case": metas[-1]["key"], "facts": metas[-1]["facts"]})
