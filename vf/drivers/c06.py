"""C06 -- tracer limit: a solute identical to the host gives the exact tracer identities.

For every vacancy world and random dyadic vacancy site / omega0 data, the solute data come from the
package's tracer generator (maketracerpreene); spec/rel/Check_Rel.tla decides Lsv = -L0vv, L1vv = 0 and
0 <= Lss <= L0vv (as PSD orderings) on the transported tensors.  Worlds whose identities only hold to the
Green function's integration accuracy (sites with a vector basis / origin states) get the looser tolerance
measured for the default k-point mesh.
"""
import numpy as np

from .. import calc, rel

LEVEL = "model_checking"

GF_LIMITED = {"polarrect": 1e-4, "rect2site": 2e-5, "tet2": 2e-5, "sqpolar": 2e-5}


def run(ctx):
    quick = ctx.tier == "quick"
    rng = ctx.rng
    ctx.rule = ("vacancy worlds (Bravais, multi-site, multi-Wyckoff, with origin states) x Nthermo in {1,2} x random "
                "dyadic vacancy site energies/prefactors and omega0 barriers; tracer data from maketracerpreene; "
                "non-trivial = distinct (world, data) with non-uniform vacancy data")
    cases, metas = [], []
    vw = calc.VACANCY_WORLDS[:8] + [("sqpolar", 1, 1)] if quick else calc.VACANCY_WORLDS
    for name, chem, shell in vw:
        for nth in ((1,) if quick and name not in ("square", "hex2d") else (1, 2)):
            if nth == 2 and name in ("diamond", "hcp", "tet2", "b2", "rect2site", "polarrect") and quick:
                continue
            s = calc.vacancy(name, chem, shell, nth, rng)
            tol = GF_LIMITED.get(name, 1e-7)
            for rep in range(3 if quick else 10):
                d = calc.vacancy_data(s, rng, 0, 3, tracer=True)
                L = calc.Lij(s, d)
                tens = {n: rel.to_latt(s.crys, T) for n, T in zip(calc.NAMES4, L)}
                asserts = [rel.a_zero("Lsv_equals_minus_L0vv", [(1, "Lsv"), (1, "L0vv")], tol),
                           rel.a_zero("L1vv_vanishes", [(1, "L1vv")], tol),
                           rel.a_psd("Lss_nonnegative", [(1, "Lss")], tol, tens),
                           rel.a_psd("Lss_at_most_L0vv", [(1, "L0vv"), (-1, "Lss")], tol, tens)]
                cases.append(rel.make_case(s.w, tens, asserts, usegroup=False,
                                           scale=float(np.max(np.abs(tens["L0vv"])))))
                nonuni = len(set(np.round(d["eneT0"], 9))) > 1 or len(set(np.round(d["eneV"], 9))) > 1
                metas.append(("tracer|%s|N%d#%d" % (name, nth, rep), "tracer identities on %s Nthermo=%d" % (name, nth),
                              {"world": name, "Nthermo": nth,
                               "data": {k: np.asarray(v).tolist() for k, v in d.items()}}, nonuni or rep == 0))
    rel.run_rel(ctx, cases, metas, shards=8 if quick else 14)
    ctx.sample({"case": metas[0][0], "tensors": cases[0]["tensors"]})
