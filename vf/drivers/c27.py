"""C27 -- supercell operations are geometric site permutations; equivalencemap is sound and complete.

Real Supercell objects (catalogue crystals in random orientation; diagonal and non-diagonal supercell matrices;
interstitial sublattices; 0..2 substitutional solutes) are projected onto integers: the crystal as a world, the
site list in super-grid units, every element of sup.G as [rot, t, perm, crot].  Pairs of occupations are built
through the public API only (setocc / item assignment / g*sup / sup*g / sup *= g / reorder / copy), including
histories where defectindices() / KrogerVink() / str() ran before an in-place edit, and a.equivalencemap(b) is
recorded together with the state obtained by really applying its result.  spec/world/Check_C27.tla (TLC) builds
the supercell's group and the induced site permutations definitionally (spec/world/SuperW.tla), decides for every
pair whether the occupations are Equivalent, and checks every clause; Python never judges an answer.
"""
import numpy as np

from .. import core, superlat, tlc, worlds

LEVEL = "model_checking"

I3 = [[1, 0, 0], [0, 1, 0], [0, 0, 1]]

# (family, catalogue world, interstitial species)
FAMILIES = {
    "sc": ("sc", ()),
    "fcc": ("fcc", ()),
    "bcc": ("bcc", ()),
    "hcp": ("hcp", ()),
    "b2": ("b2", ()),
    "sci": ("b2", (1,)),            # simple cubic host + body-centre interstitial sublattice
    "fccoct": ("fccoct", (1, 2)),   # fcc host + octahedral + tetrahedral interstitial sublattices
    "hcpoct": ("hcpoct", (1, 2)),
    "l12": ("l12", ()),
    "rocksalt": ("rocksalt", ()),
    "rocksalt_i": ("rocksalt", (1,)),
    "tet2": ("tet2", ()),
    "tet2_i": ("tet2", (1,)),
    "monodeco": ("monodeco", ()),
    "wurtzite": ("wurtzite", ()),
    "omega": ("omega", ()),
    "diamond": ("diamond", ()),
}

QUICK = [
    # family, S, Nsolute, number of pairs
    ("sc", [[2, 0, 0], [0, 2, 0], [0, 0, 1]], 1, 24),
    ("sc", [[2, 0, 0], [0, 2, 0], [0, 0, 2]], 2, 24),
    ("sc", [[1, 1, 0], [-1, 1, 0], [0, 0, 2]], 0, 20),
    # left-handed descriptions (negative determinant; the size is |det|)
    ("sc", [[0, 2, 0], [2, 0, 0], [0, 0, 1]], 1, 20),
    ("hcp", [[0, 2, 0], [2, 0, 0], [0, 0, 1]], 1, 20),
    ("fcc", [[1, -1, -1], [-1, 1, -1], [-1, -1, 1]], 0, 16),
    ("fcc", [[2, 0, 0], [0, 2, 0], [0, 0, 2]], 1, 26),
    ("fcc", [[-1, 1, 1], [1, -1, 1], [1, 1, -1]], 2, 20),
    ("fcc", [[2, 1, 0], [0, 2, 1], [1, 0, 1]], 0, 20),
    ("hcp", [[2, 0, 0], [0, 2, 0], [0, 0, 1]], 1, 24),
    ("hcp", [[1, -1, 0], [1, 2, 0], [0, 0, 1]], 0, 20),
    ("hcp", [[2, 1, 0], [0, 1, 0], [1, 0, 2]], 2, 20),
    ("b2", [[2, 0, 0], [0, 2, 0], [0, 0, 1]], 0, 24),
    ("b2", [[1, 1, 0], [-1, 1, 0], [0, 0, 1]], 1, 20),
    ("sci", [[2, 0, 0], [0, 2, 0], [0, 0, 1]], 1, 24),
    ("sci", [[1, 0, 1], [0, 2, 0], [-1, 0, 1]], 0, 20),
    ("fccoct", [[2, 0, 0], [0, 2, 0], [0, 0, 1]], 1, 24),
    ("fccoct", [[-1, 1, 1], [1, -1, 1], [1, 1, -1]], 0, 20),
    ("tet2_i", [[2, 0, 0], [0, 1, 0], [0, 0, 2]], 1, 20),
]


# ------------------------------------------------------------------ projection

def state(sup):
    return {"occ": [int(c) for c in sup.occ], "order": [[int(i) + 1 for i in cl] for cl in sup.chemorder]}


def project_op(sup, g, Dn):
    rot = np.asarray(g.rot)
    if rot.shape != (3, 3) or np.max(np.abs(rot - np.round(rot))) > 0:
        raise worlds.ProjectionError("rotation of a supercell operation is not an integer 3x3 matrix: %r" % (rot.tolist(),))
    t = worlds.iround(np.asarray(g.trans, dtype=float) * Dn, 1e-6, "translation of a supercell operation (super grid)")
    crot = worlds.iround(np.dot(np.linalg.inv(sup.lattice), np.dot(g.cartrot, sup.lattice)), 1e-6,
                         "Cartesian rotation of a supercell operation in supercell lattice coordinates")
    if len(g.indexmap) != 1:
        raise worlds.ProjectionError("indexmap of a supercell operation does not have exactly one site list")
    return {"rot": [[int(x) for x in r] for r in np.round(rot)], "t": [int(x) % Dn for x in t],
            "perm": [int(i) + 1 for i in g.indexmap[0]], "crot": [[int(x) for x in r] for r in crot]}


DUMMY_OP = {"rot": I3, "t": [0, 0, 0], "perm": [], "crot": I3}


def site_species(sup):
    """Species of the crystal atom under each supercell site, from positions only."""
    crys = sup.crys
    out = []
    for u in sup.pos:
        x = np.dot(sup.superlatt, u)
        found = None
        for (c, i) in crys.atomindices:
            d = x - crys.basis[c][i]
            if np.allclose(d, np.round(d), atol=1e-7):
                found = c
        out.append(found)
    return out


# ------------------------------------------------------------------ occupations through the public API

def place(kinds, species, inter, nhost, rng):
    """Target occupation {site: chem} of a cell with the listed point defects at random distinct sites.
    kinds: "vac", "sol0"/"sol1" (substitutional solute), "anti" (another host species on a host site),
    "int" (interstitial site occupied by its own species), "isol0"/"isol1" (solute on an interstitial site)."""
    hosts = [i for i, c in enumerate(species) if c not in inter]
    inters = [i for i, c in enumerate(species) if c in inter]
    hostchems = sorted({species[i] for i in hosts})
    occ = {i: species[i] for i in hosts}
    rng.shuffle(hosts)
    rng.shuffle(inters)
    for kd in kinds:
        if kd == "vac" and hosts:
            del occ[hosts.pop()]
        elif kd.startswith("sol") and hosts:
            occ[hosts.pop()] = nhost + int(kd[3:])
        elif kd == "anti" and hosts:
            i = hosts.pop()
            occ[i] = rng.choice([c for c in hostchems if c != species[i]])
        elif kd == "int" and inters:
            i = inters.pop()
            occ[i] = species[i]
        elif kd.startswith("isol") and inters:
            occ[inters.pop()] = nhost + int(kd[4:])
    return occ


def build(sup0, occ, rng):
    """A fresh supercell with occupation `occ`, filled in random order through the public API."""
    s = sup0.copy()
    items = list(occ.items())
    rng.shuffle(items)
    for n, (i, c) in enumerate(items):
        r = rng.random()
        if r < 0.6:
            s.setocc(i, c)
        elif r < 0.8:
            s[i] = c
        else:
            s[s.pos[i].copy()] = c
    return s


def random_reorder(s, rng):
    mapping = []
    for cl in s.chemorder:
        m = list(range(len(cl)))
        rng.shuffle(m)
        mapping.append(m)
    s.reorder(mapping)


def defect_kinds(rng, inter, nsol, nhostchem, maxdef=3):
    pool = ["vac", "vac"]
    pool += ["sol%d" % s for s in range(nsol)] * 2
    if nhostchem > 1:
        pool.append("anti")
    if inter:
        pool += ["int", "int"] + ["isol%d" % s for s in range(nsol)]
    return [rng.choice(pool) for _ in range(rng.randint(1, maxdef))]


def peek(s, rng):
    """Read-only public calls whose results an implementation might be tempted to cache."""
    for f in rng.sample([s.defectindices, s.KrogerVink, s.__str__, s.stoichiometry, s.occposlist], 3):
        f()


def make_pair(sup0, G, species, inter, nsol, rng, kind):
    """Returns (a, b, via) -- via = (g, occ before, occ after) when b was produced by a group multiplication."""
    nhost = sup0.crys.Nchem
    nhostchem = len({c for c in species if c not in inter})
    kinds = defect_kinds(rng, inter, nsol, nhostchem)
    via = None
    if kind == "defectfree":
        kinds = []
    if kind == "random":
        occ = {}
        for i in range(len(species)):
            c = rng.randint(-1, sup0.Nchem - 1)
            if c >= 0:
                occ[i] = c
        a = build(sup0, occ, rng)
    else:
        a = build(sup0, place(kinds, species, inter, nhost, rng), rng)
    if kind in ("related", "random", "defectfree"):
        g = rng.choice(G)
        how = rng.choice(("lmul", "rmul", "imul", "stale", "stale"))
        if kind == "defectfree" and rng.random() < 0.3:
            b = build(sup0, place([], species, inter, nhost, rng), rng)     # a second, independently filled perfect cell
        else:
            if how == "lmul":
                b = g * a
            elif how == "rmul":
                b = a * g
            elif how == "imul":
                b = a.copy()
                b *= g
            else:
                peek(a, rng)
                b = a.copy()
                peek(b, rng)
                b *= g
            via = (g, [int(c) for c in a.occ], [int(c) for c in b.occ])
        if rng.random() < 0.7:
            random_reorder(b, rng)
    elif kind == "samecounts":
        b = build(sup0, place(kinds, species, inter, nhost, rng), rng)
    elif kind == "staleedit":
        # look at b, then move one atom/defect with plain edits, then (sometimes) transform in place
        b = a.copy()
        peek(b, rng)
        i, j = rng.sample(range(len(species)), 2)
        if species[i] in inter or species[j] in inter:
            cand = [x for x in range(len(species)) if (species[x] in inter) == (species[i] in inter) and x != i]
            j = rng.choice(cand) if cand else j
        ci, cj = int(b.occ[i]), int(b.occ[j])
        b.setocc(i, cj)
        b.setocc(j, ci)
        if rng.random() < 0.5:
            g = rng.choice(G)
            before = [int(c) for c in b.occ]
            b *= g
            via = (g, before, [int(c) for c in b.occ])
        peek(a, rng)
        # and the same for a: look, then transform in place
        if rng.random() < 0.5:
            a *= rng.choice(G)
    elif kind == "diffcounts":
        k2 = list(kinds)
        r = rng.random()
        if r < 0.4 or not k2:
            k2.append(rng.choice(["vac"] + (["int"] if inter else []) + (["sol0"] if nsol else [])))
        elif r < 0.7:
            k2.pop()
        else:
            k2[0] = "vac" if k2[0] != "vac" else ("sol0" if nsol else ("int" if inter else "vac"))
            if k2[0] == kinds[0]:
                k2.append("vac")
        b = build(sup0, place(k2, species, inter, nhost, rng), rng)
    elif kind == "empty":
        a = sup0.copy()
        b = sup0.copy()
    else:
        raise ValueError(kind)
    return a, b, via


def call_equivalencemap(sup, a, b, Dn):
    """Record a.equivalencemap(b) and what really applying the result does."""
    sa, sb = state(a), state(b)
    res = {"kind": "none", "exc": "", "op": DUMMY_OP, "map": [], "applied": {"err": "", "occ": [], "order": []}}
    try:
        g, m = a.equivalencemap(b)
    except Exception as ex:      # noqa: BLE001 -- the exception class is the observation
        res["kind"], res["exc"] = "raise", type(ex).__name__
        g, m = None, None
    else:
        if (g is None) != (m is None):
            res["kind"], res["exc"] = "raise", "HalfNoneResult"
        elif g is not None:
            res["kind"] = "found"
            res["op"] = project_op(sup, g, Dn)
            res["map"] = [[int(i) + 1 for i in cm] for cm in m]
            try:
                t = g * a
                t.reorder(m)
                res["applied"].update(state(t))
            except Exception as ex:      # noqa: BLE001
                res["applied"]["err"] = type(ex).__name__
    after = {"a": state(a), "b": state(b)}
    return sa, sb, res, after


# ------------------------------------------------------------------ configurations

def configurations(ctx):
    rng = ctx.rng
    if ctx.tier == "quick":
        return list(QUICK)
    conf = [(f, S, ns, 60) for (f, S, ns, n) in QUICK]
    big = [
        ("fccoct", [[2, 0, 0], [0, 2, 0], [0, 0, 2]], 1, 60),
        ("hcpoct", [[2, 0, 0], [0, 2, 0], [0, 0, 1]], 1, 60),
        ("hcp", [[2, 0, 0], [0, 2, 0], [0, 0, 2]], 2, 60),
        ("bcc", [[0, 1, 1], [1, 0, 1], [1, 1, 0]], 1, 60),
        ("bcc", [[2, 0, 0], [0, 2, 0], [0, 0, 2]], 2, 60),
        ("fcc", [[3, 0, 0], [0, 1, 0], [0, 0, 2]], 1, 60),
        ("sc", [[3, 0, 0], [0, 2, 0], [0, 0, 1]], 1, 60),
        ("sc", [[2, 1, 0], [0, 2, 1], [1, 0, 2]], 0, 60),
    ]
    conf += big
    fams = sorted(FAMILIES)
    for _ in range(30):          # random family x random sublattice (index 2..6) in a random description
        f = rng.choice(fams)
        n = rng.choice((2, 2, 3, 4, 4, 5, 6))
        S = superlat.redescribe(rng, rng.choice(superlat.hnfs(3, n)), maxentry=3)
        conf.append((f, S.tolist(), rng.choice((0, 1, 2)), 50))
    return conf


PAIRKINDS_Q = (["related"] * 7 + ["samecounts"] * 6 + ["staleedit"] * 4 + ["defectfree"] * 2 + ["diffcounts"] * 2 +
               ["random"] * 2 + ["empty"])


def run(ctx):
    from onsager import supercell
    rng = ctx.rng
    ctx.rule = ("real Supercell objects (SC/FCC/BCC/HCP/B2/interstitial sublattices, diagonal and non-diagonal "
                "supercell matrices, 0-2 solutes, random orientation); every sup.G element and every recorded "
                "a.equivalencemap(b) decided by TLC against the definitional supercell group of SuperW.tla; "
                "non-trivial = distinct pair whose returned operation is not the identity permutation, or an "
                "inequivalent pair with identical defect counts")
    cases, meta = [], []
    for (fam, S, nsol, npairs) in configurations(ctx):
        wname, inter = FAMILIES[fam]
        w = worlds.CATALOGUE[wname]
        S = np.array(S, dtype=int)
        tagS = "S" + "".join(str(int(x)) for x in S.flatten())
        setting = "%s|%s|sol%d" % (fam, tagS, nsol)
        try:
            crys, unit = worlds.realise(w, rng)
            sup0 = supercell.Supercell(crys, S, interstitial=inter, Nsolute=nsol)
            ow = worlds.observe(crys, unit, Dhint=w["D"])
            ow.pop("q", None)
            Dn = ow["D"] * sup0.size
            sites = [[int(x) % Dn for x in worlds.iround(u * Dn, 1e-6, "supercell site position (super grid)")]
                     for u in sup0.pos]
            G = sorted(sup0.G, key=lambda g: (np.asarray(g.rot).tolist(), [round(float(x), 6) for x in g.trans]))
            ops = [project_op(sup0, g, Dn) for g in G]
            species = site_species(sup0)
            if any(c is None for c in species):
                raise worlds.ProjectionError("a supercell site is not at an atom position of the crystal")
        except worlds.ProjectionError as ex:
            ctx.case(setting)
            ctx.violation("projection|%s" % setting, "supercell %s: %s" % (setting, ex), {"world": w, "S": S.tolist()})
            continue
        except Exception as ex:      # noqa: BLE001
            ctx.case(setting)
            ctx.violation("construct|%s|%s" % (setting, type(ex).__name__),
                          "constructing Supercell %s raised %s: %s" % (setting, type(ex).__name__, ex),
                          {"world": w, "S": S.tolist()})
            continue
        pairs, pmeta = [], []
        kinds = list(PAIRKINDS_Q)
        for n in range(npairs):
            kind = kinds[n % len(kinds)]
            try:
                a, b, via = make_pair(sup0, G, species, inter, nsol, rng, kind)
                if rng.random() < 0.25:
                    a, b, via = b, a, None           # search in the other direction
                sa, sb, res, after = call_equivalencemap(sup0, a, b, Dn)
                v = {"has": False, "op": DUMMY_OP, "src": [], "dst": []}
                if via is not None:
                    v = {"has": True, "op": project_op(sup0, via[0], Dn), "src": via[1], "dst": via[2]}
            except worlds.ProjectionError as ex:
                ctx.case((setting, kind, n))
                ctx.violation("projection|pair|%s|%s" % (kind, setting), "supercell %s: %s" % (setting, ex), None)
                continue
            except Exception as ex:      # noqa: BLE001 -- a legal public call of the history raised
                import traceback
                where = [f.name for f in traceback.extract_tb(ex.__traceback__) if "onsager" in f.filename]
                ctx.case((setting, kind, n))
                ctx.violation("history|%s|%s|%s|%s" % (where[-1] if where else "?", type(ex).__name__, kind, fam),
                              "supercell %s: building a %s pair through legal public calls (setocc / item assignment / "
                              "group multiplication / reorder with a proper permutation / copy) raised %s: %s" % (
                                  setting, kind, type(ex).__name__, ex), {"setting": setting, "kind": kind})
                continue
            pairs.append({"a": sa, "b": sb, "res": res, "after": after, "via": v})
            pmeta.append(kind)
        cases.append({"w": ow, "S": S.tolist(), "sites": sites, "nchem": int(sup0.Nchem), "ops": ops, "pairs": pairs})
        meta.append((fam, setting, pmeta, species, inter))
    fails, infos, results = tlc.run_cases("Check_C27", cases, shards=8 if ctx.tier == "quick" else 14, timeout=2400)
    for r in results:
        ctx.add_model(r)
    stats = {"found": 0, "none": 0, "raise": 0, "equivalent": 0, "found_nonidentity": 0, "operations_checked": 0}
    for ci, (fam, setting, pmeta, species, inter) in enumerate(meta):
        c = cases[ci]
        inf = infos.get(ci, {})
        eq, ch = "", 0
        while "equivalent%d" % ch in inf:
            eq += inf["equivalent%d" % ch][1:]
            ch += 1
        order = inf.get("order", 0)
        if order and len(eq) != len(c["pairs"]):
            raise tlc.TLCError("TLC reported %d equivalence verdicts for %d pairs (%s)" % (len(eq), len(c["pairs"]), setting))
        ctx.case("group|" + setting, nontrivial=order > 1)
        stats["operations_checked"] += len(c["ops"])
        groupfails, pairfails = [], {}
        for cl in fails.get(ci, []):
            if "@" in cl:
                name, j = cl.split("@")
                pairfails.setdefault(int(j) - 1, []).append(name)
            else:
                groupfails.append(cl)
        model = [cl for cl in groupfails if cl.startswith("model_")]
        if model:
            raise tlc.TLCError("model-level theorem(s) %s failed for %s" % (model, setting))
        if groupfails:
            ctx.violation("clause|%s|group|%s" % ("+".join(sorted(groupfails)), setting),
                          "Supercell %s: sup.G / site list fails clause(s) %s of Check_C27 (definitional group order %d, "
                          "reported %d operations)" % (setting, groupfails, order, len(c["ops"])),
                          {"case": {kk: v for kk, v in c.items() if kk != "pairs"}})
        for j, p in enumerate(c["pairs"]):
            kind = pmeta[j]
            rk = p["res"]["kind"]
            stats[rk] += 1
            e = j < len(eq) and eq[j] == "1"
            stats["equivalent"] += e
            nonid = rk == "found" and p["res"]["op"]["perm"] != list(range(1, len(c["sites"]) + 1))
            stats["found_nonidentity"] += nonid
            ctx.case(core.sha([setting, p["a"], p["b"]]),
                     nontrivial=nonid or (rk == "none" and kind in ("samecounts", "staleedit")))
            if j in pairfails:
                exc = p["res"]["exc"] or "-"
                ctx.violation("clause|%s|%s|%s|%s" % ("+".join(sorted(pairfails[j])), kind, exc, fam),
                              "Supercell %s, %s pair: a.equivalencemap(b) -> %s%s fails clause(s) %s; TLC: occupations are %s; "
                              "a=%s b=%s" % (setting, kind, rk, " (%s)" % exc if p["res"]["exc"] else "", pairfails[j],
                                             "Equivalent" if e else "not Equivalent", p["a"], p["b"]),
                              {"setting": setting, "pair": p, "S": c["S"], "w": c["w"], "sites": c["sites"]})
    ctx.traces += sum(len(c["pairs"]) for c in cases)
    for kk, v in stats.items():
        ctx.info(kk, int(v))
    ctx.info("supercells", len(cases))
    if cases:
        ctx.sample({"setting": meta[0][1], "n_ops": len(cases[0]["ops"]), "first_pair": cases[0]["pairs"][0]})
        ctx.sample({"setting": meta[-1][1], "n_ops": len(cases[-1]["ops"]), "sites": cases[-1]["sites"]})
