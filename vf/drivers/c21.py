"""C21 -- jump networks are complete, closed and obstruction-aware.

Worlds (catalogue + seeded random decorations) are realised as Crystals in random orientations and read back as
exact integer worlds.  For every species, cutoffs are placed midway between exact shells (squared lengths from the
integer metric) and obstruction distances (one scalar, or one per species, plus a junk entry for the mobile species
itself) inside wide gaps between the exact path-to-atom distances; Crystal.jumpnetwork and jumpnetwork2lattice are
called and their output projected to integers (displacements in grid units).  spec/world/Check_C21.tla (TLC)
defines the jump set, the obstruction test (rational point/segment test) and the symmetry classes from
spec/world/Jumps.tla and decides every clause; it also verifies that the chosen cutoffs / radii are tie-free.
The integer arithmetic below only CHOOSES inputs; it is never part of a verdict.
"""
import itertools
import json
import math
from fractions import Fraction

import numpy as np

from .. import tlc, worlds

LEVEL = "model_checking"
BAND = 8
INTMAX = 2 ** 31 - 1


# ------------------------------------------------------------------ exact integer helpers (input selection only)

def quad(M, a, b):
    return sum(a[i] * M[i][j] * b[j] for i in range(len(a)) for j in range(len(b)))


def cells(dim, n):
    return list(itertools.product(range(-n, n + 1), repeat=dim))


def displacements(ow, c, n=3):
    """All <<i, j, x>> of species c with cells in [-n, n]^dim, with squared length (grid units)."""
    D, M = ow["D"], ow["M"]
    out = []
    for i, ui in enumerate(ow["basis"][c]):
        for j, uj in enumerate(ow["basis"][c]):
            for L in cells(ow["dim"], n):
                x = [D * L[d] + uj[d] - ui[d] for d in range(ow["dim"])]
                l2 = quad(M, x, x)
                if l2 > 0:
                    out.append((i, j, x, l2))
    return out


def perp_values(ow, c, jumps, n=3):
    """Per other species c2: sorted distinct exact distances^2 (Fractions, grid units) from an atom of c2 to the
    path of a jump (projection within the closed path), and the smallest site-atom distance^2."""
    D, dim = ow["D"], ow["dim"]
    M = np.array(ow["M"], dtype=np.int64)
    Ls = np.array(cells(dim, n), dtype=np.int64) * D
    res = {}
    for c2, sp in enumerate(ow["basis"]):
        if c2 == c:
            continue
        pairs, ends = set(), None
        for i, ui in enumerate(ow["basis"][c]):
            Y = np.concatenate([Ls + (np.array(ua, dtype=np.int64) - np.array(ui, dtype=np.int64)) for ua in sp])
            MY = Y.dot(M)
            y2 = np.einsum("ij,ij->i", MY, Y)
            e = int(y2.min())
            ends = e if ends is None else min(ends, e)
            for (i1, j, x, x2) in jumps:
                if i1 != i:
                    continue
                s = MY.dot(np.array(x, dtype=np.int64))
                sel = (s >= 0) & (s <= x2)
                num = y2[sel] * x2 - s[sel] * s[sel]
                for v in np.unique(num):
                    pairs.add((int(v), int(x2)))
        res[c2] = (sorted({Fraction(a, b) for a, b in pairs}), ends)
    return res


def pick_radius2(rng, vals, endmin, mode, rdmax):
    """A radius^2 (Fraction, grid units) well inside a gap between the exact distances; None if no such gap."""
    pos = [v for v in vals if v > 0]
    cands = []
    if mode == "below" and pos:
        cands.append(pos[0] / 2)
    if mode == "gap":
        pts = pos + ([Fraction(endmin)] if endmin else [])
        pts = sorted(set(pts))
        for a, b in zip(pts, pts[1:]):
            if endmin and b > endmin:
                break                       # keep the radius below the closest site-atom distance (no end-cap cases)
            if b >= a * 2:
                cands.append(Fraction(math.sqrt(float(a * b))))
    if mode == "beyond" and endmin:
        cands.append(Fraction(endmin) * Fraction(3, 2))        # larger than a site-atom distance: caps matter
    rng.shuffle(cands)
    for r in cands:
        for den in (1, 2, 3, 4, 6, 8, 12, 16, 24, 32, 64):
            if den > rdmax:
                break
            f = Fraction(round(r * den), den)
            if f > 0 and all(abs(f - v) * 4 >= f for v in pos) and (mode == "beyond" or not endmin or f * 5 <= 4 * endmin):
                return f
    return None


def plan_queries(ow, rng, quick):
    """Choose (chem, cut2x2, rad per species as [rn, rd], mode) for the observed world."""
    out = []
    ns = len(ow["basis"])
    for c in range(ns):
        disp = displacements(ow, c, 3)
        shells = sorted({d[3] for d in disp})
        # shells are only trusted while a box of 3 cells certainly contains them: |x|^2 <= (2 D)^2 * lambda_min is
        # crude; instead trust the first few and let TLC verify that the cutoff is not on a shell
        ks = [1, 2, 3] if quick else [1, 2, 3, 4]
        ks = [k for k in ks if k < len(shells)]
        if not ks:
            continue
        chosen = []
        ks_s = list(ks)
        rng.shuffle(ks_s)
        chosen.append((ks[0], "none"))
        if ns > 1:
            chosen.append((ks_s[0], "scalar"))
            chosen.append((ks_s[-1], "list"))
            if not quick:
                chosen.append((ks_s[len(ks_s) // 2], "scalar"))
                chosen.append((ks_s[0], "list"))
                chosen.append((ks[-1], "beyond"))
            elif rng.random() < 0.15:
                chosen.append((ks[0], "beyond"))
        elif len(ks) > 1:
            chosen.append((ks_s[0] if ks_s[0] != ks[0] else ks_s[1], "none"))
        for k, mode in chosen:
            cut2x2 = shells[k - 1] + shells[k]
            jumps = [d for d in disp if 2 * d[3] < cut2x2]
            rad = [[0, 1] for _ in range(ns)]
            if mode != "none":
                pv = perp_values(ow, c, jumps)
                rdmax = max(1, INTMAX // ((3 * cut2x2 + 8) * (cut2x2 // 2 + 1) * BAND * 4))
                if mode == "scalar":
                    allv = sorted(set(v for c2 in pv for v in pv[c2][0]))
                    ends = [pv[c2][1] for c2 in pv if pv[c2][1]]
                    f = pick_radius2(rng, allv, min(ends) if ends else None, rng.choice(("gap", "gap", "below")), rdmax)
                    if f is None:
                        continue
                    rad = [[f.numerator, f.denominator] for _ in range(ns)]
                else:
                    ok = False
                    for c2 in pv:
                        m = "beyond" if mode == "beyond" else rng.choice(("gap", "gap", "below", "zero"))
                        f = None if m == "zero" else pick_radius2(rng, pv[c2][0], pv[c2][1], m, rdmax)
                        if f is not None:
                            rad[c2] = [f.numerator, f.denominator]
                            ok = True
                    if not ok:
                        continue
                    # the entry of the mobile species itself is documented to be ignored: put a large value there
                    rad[c] = [max(r[0] for r in rad) * 3 + 7, 1]
            # 32-bit guard for the products TLC forms (overflow would be a hard TLC error, never a wrong verdict)
            worst = 0
            for c2, (rn, rd) in enumerate(rad):
                if c2 == c:
                    continue
                r2max = cut2x2 + 2 + 2 * ((rn * (BAND + 1)) // (rd * BAND) + 1)
                worst = max(worst, r2max * (cut2x2 // 2 + 1) * rd * BAND, rn * (BAND + 1) * (cut2x2 // 2 + 1))
            if worst >= INTMAX:
                continue
            out.append({"chem": c + 1, "cut2x2": cut2x2, "rad": rad, "band": BAND, "mode": mode, "shell": k,
                        "lemma": not any(o["chem"] == c + 1 for o in out)})
    return out


# ------------------------------------------------------------------ one world (runs in a worker process)

def world_task(task):
    import random
    w, opt, seed, quick = task
    rng = random.Random(seed)
    kw = {"jitter": 1e-10} if opt == "jitter" else {}
    try:
        if opt == "sheared":
            # the same crystal described with skewed lattice vectors (random unimodular basis change), kept as given
            d = w["dim"]
            while True:
                U = np.eye(d, dtype=int)
                for _ in range(3):
                    i, j = rng.sample(range(d), 2)
                    U[:, i] += rng.choice((-1, 1)) * U[:, j]
                if not np.array_equal(U, np.eye(d, dtype=int)):
                    break
            w = dict(worlds.supercell_world(w, U), name=w["name"])
            kw = {"noreduce": True}
        crys, unit = worlds.realise(w, rng, 1.0, True, **kw)
        ow = worlds.observe(crys, unit, Dhint=w["D"])
    except Exception as ex:
        return {"status": "construct", "etype": type(ex).__name__, "msg": str(ex)}
    scale = unit / (math.sqrt(ow["q"]) * ow["D"])          # length of one grid unit of the observed world
    queries, errors = [], []
    for q in plan_queries(ow, rng, quick):
        c = q["chem"] - 1
        cutoff = math.sqrt(q["cut2x2"] / 2.0) * scale
        rads = [math.sqrt(rn / rd) * scale for rn, rd in q["rad"]]
        if q["mode"] == "none":
            args = (c, cutoff)
        elif q["mode"] == "scalar":
            args = (c, cutoff, rads[0])
        else:
            args = (c, cutoff, rads)
        try:
            jn = crys.jumpnetwork(*args)
            jl = crys.jumpnetwork2lattice(c, jn)
            classes = [[[int(i) + 1, int(j) + 1, worlds.vec_lattice(crys, dx, ow["D"], "jump displacement")]
                        for (i, j), dx in cl] for cl in jn]
            lattice = [[[int(i) + 1, int(j) + 1, [int(x) for x in worlds.iround(np.asarray(R, dtype=float), 1e-9,
                                                                                 "lattice vector of a jump")]]
                        for (i, j), R in cl] for cl in jl]
        except worlds.ProjectionError as ex:
            errors.append({"kind": "projection", "msg": str(ex), "query": q})
            continue
        except Exception as ex:
            errors.append({"kind": "exception", "etype": type(ex).__name__, "msg": str(ex), "query": q})
            continue
        q = dict(q, classes=classes, lattice=lattice, args=[float(cutoff), [float(r) for r in rads]])
        queries.append(q)
    return {"status": "ok", "ow": ow, "queries": queries, "errors": errors, "lattice": crys.lattice.tolist(),
            "nG": len(crys.G)}


def family_of(w):
    n = w["name"]
    return "-".join(n.split("-")[:2]) if n.startswith("rnd-") else n


# ------------------------------------------------------------------ the check

def run(ctx):
    import multiprocessing
    quick = ctx.tier == "quick"
    rng = ctx.rng
    ctx.rule = ("catalogue + seeded random decorated worlds in random orientations {default, jitter 1e-10}; every species; "
                "cutoffs midway between exact shells 1..3(4); closestdistance in {default, scalar, per-species list with a "
                "junk entry for the mobile species} placed in wide gaps of the exact path-atom distances (a few beyond the "
                "closest site-atom distance: sandwich only); TLC decides set equality with the definitional unobstructed "
                "jump set, uniqueness, closure under the definitional space group and reversal, one orbit per class, and "
                "lattice form = Cartesian form; non-trivial = distinct (world, query) with a non-empty network and a "
                "space group of order > 1")
    pool = multiprocessing.get_context("fork").Pool(6 if quick else 10)
    try:
        tasks = []
        for n, w in worlds.CATALOGUE.items():
            w = dict(w, name=n)
            tasks.append((w, "default", rng.getrandbits(48), quick))
            if not quick or len(tasks) % 4 == 0:
                tasks.append((w, "jitter", rng.getrandbits(48), quick))
            for _ in range(2 if (not quick or w["dim"] == 2 or len(tasks) % 2 == 0) else 1):
                tasks.append((w, "sheared", rng.getrandbits(48), quick))
        for _ in range(20 if quick else 300):
            w = worlds.random_world(rng, maxatoms=5, nspecies=rng.choice((1, 2, 2, 3)))
            tasks.append((w, "default", rng.getrandbits(48), quick))
        outs = pool.map(realise_or_fail, tasks, chunksize=1)
    finally:
        pool.terminate()

    cases, metas = [], []
    for (w, opt, seed, _), r in zip(tasks, outs):
        fam = family_of(w)
        if r["status"] == "harness":
            raise RuntimeError("harness exception while preparing world %s:\n%s" % (w["name"], r["msg"]))
        if r["status"] != "ok":
            ctx.case("%s|%s" % (fam, opt), nontrivial=False)
            ctx.violation("construct|%s|dim=%d|%s|%s" % (r["etype"], w["dim"], fam, opt),
                          "constructing / reading back the Crystal for world %s (%s) raised %s: %s" % (
                              w["name"], opt, r["etype"], r["msg"]), {"world": w, "option": opt, "seed": seed})
            continue
        for e in r["errors"]:
            q = e["query"]
            ctx.case("%s|%s|err" % (fam, opt))
            if e["kind"] == "projection":
                ctx.violation("projection|%s|chem=%d|%s|%s" % (fam, q["chem"], q["mode"], opt),
                              "world %s (%s), query %s: %s" % (w["name"], opt, {k: q[k] for k in ("chem", "cut2x2", "rad")}, e["msg"]),
                              {"world": w, "option": opt, "seed": seed, "query": q, "lattice": r["lattice"]})
            else:
                ctx.violation("exception|%s|%s|chem=%d|%s|%s" % (e["etype"], fam, q["chem"], q["mode"], opt),
                              "world %s (%s), query %s: jumpnetwork raised %s: %s" % (
                                  w["name"], opt, {k: q[k] for k in ("chem", "cut2x2", "rad")}, e["etype"], e["msg"]),
                              {"world": w, "option": opt, "seed": seed, "query": q, "lattice": r["lattice"]})
        if not r["queries"]:
            continue
        ow = r["ow"]
        cases.append({"w": {k: ow[k] for k in ("dim", "M", "D", "basis")},
                      "queries": [{k: q[k] for k in ("chem", "cut2x2", "rad", "band", "lemma", "classes", "lattice")} for q in r["queries"]]})
        metas.append({"name": w["name"], "family": fam, "opt": opt, "world": w, "seed": seed, "lattice": r["lattice"],
                      "queries": r["queries"], "nG": r.get("nG")})

    # heaviest cases first: the round-robin split of run_cases then balances the shards
    def weight(c):
        return sum(len(s) for s in c["w"]["basis"]) * sum(sum(len(cl) for cl in q["classes"]) + 20 for q in c["queries"])
    idx = sorted(range(len(cases)), key=lambda i: -weight(cases[i]))
    cases, metas = [cases[i] for i in idx], [metas[i] for i in idx]
    fails, infos, results = tlc.run_cases("Check_C21", cases, shards=8 if quick else 14, timeout=2400)
    for r in results:
        ctx.add_model(r)
    nq = nobs = nexact = nambig = 0
    for i, (c, m) in enumerate(zip(cases, metas)):
        inf = infos.get(i, {})
        failed = {}
        for f in fails.get(i, []):
            qn, clause = f.split("|", 1)
            failed.setdefault(int(qn), []).append(clause)
        for qn, q in enumerate(m["queries"], start=1):
            g = {k.split("|", 1)[1]: v for k, v in inf.items() if k.startswith("%d|" % qn)}
            if g.get("model_sane") is not True and m["opt"] == "sheared":
                # skewed lattice coordinates: TLC's bounded enumeration of the definitional group is incomplete and
                # not closed, so the model-level lemma cannot be established -- this query is not judged
                ctx.case("unjudged-sheared|%s|%d" % (m["family"], qn), nontrivial=False)
                continue
            if g.get("model_sane") is not True:
                raise tlc.TLCError("model-level lemma (jump set / allowed sets closed under the group and reversal, cutoff "
                                   "not on a shell, readings nested) failed for world %s query %s" % (
                                       c["w"], {k: q[k] for k in ("chem", "cut2x2", "rad")}))
            nq += 1
            nobs += g.get("obstructed", 0) > 0
            nexact += bool(g.get("exact"))
            nambig += not g.get("exact")
            ctx.case(json.dumps([c["w"]["M"], c["w"]["D"], c["w"]["basis"], q["chem"], q["cut2x2"], q["rad"]]),
                     nontrivial=g.get("reported", 0) > 0 and g.get("order", 1) > 1)
            for clause in sorted(set(failed.get(qn, []))):
                if m["opt"] == "sheared" and clause in ("class_closed_under_space_group", "class_is_one_orbit") \
                        and g.get("order") != m.get("nG"):
                    # in skewed lattice coordinates the rotations have integer entries beyond the bound (2) of TLC's
                    # definitional enumeration: the model's group is then a proper subgroup and the two clauses that
                    # quantify over the group are not judged (set equality, uniqueness, reversal, lattice form are)
                    continue
                ctx.violation("clause|%s|%s|chem=%d|%s|%s" % (clause, m["family"], q["chem"], q["mode"], m["opt"]),
                              "world %s (%s): jumpnetwork(chem=%d, cutoff=%.6f [between shells %d and %d], closestdistance=%s) "
                              "fails clause %s of Check_C21; observed world %s; reported %s jumps in %s classes, definitional "
                              "candidates %s of which obstructed %s" % (
                                  m["name"], m["opt"], q["chem"] - 1, q["args"][0], q["shell"], q["shell"] + 1,
                                  "default" if q["mode"] == "none" else (q["args"][1][0] if q["mode"] == "scalar" else q["args"][1]),
                                  clause, c["w"], g.get("reported"), g.get("classes"), g.get("candidates"), g.get("obstructed")),
                              {"world": m["world"], "option": m["opt"], "seed": m["seed"], "lattice": m["lattice"],
                               "observed": c["w"], "query": q})
    ctx.traces += nq
    ctx.info("queries", nq)
    ctx.info("queries_with_obstructed_candidates", nobs)
    ctx.info("queries_decided_exactly", nexact)
    ctx.info("queries_decided_by_sandwich_only", nambig)
    if cases:
        q = metas[-1]["queries"][0]
        ctx.sample({"world": cases[-1]["w"], "query": {k: q[k] for k in ("chem", "cut2x2", "rad", "mode")},
                    "classes": q["classes"][:2]})
        q = metas[0]["queries"][-1]
        ctx.sample({"world": cases[0]["w"], "query": {k: q[k] for k in ("chem", "cut2x2", "rad", "mode")},
                    "n_classes": len(q["classes"])})


def realise_or_fail(task):
    try:
        return world_task(task)
    except Exception as ex:        # harness trouble inside a worker is a machinery failure, never a verdict
        import traceback
        return {"status": "harness", "msg": traceback.format_exc()}
