"""C24 -- star sets: reachable pair states, complete orbits, index lookups, addition, difference sets.

1. spec/obj/StarSetObj.tla (the StarSet as a mutable object: Generate / RegenerateSameN / Add / IAdd / Copy /
   CopyEmpty / DiffGenerate(+Err) over a couple of object slots) is model-checked by TLC on a small world with
   explicit state sets (invariant Refines = "sum equals generation with the summed range", theorems about reach
   sets and orbits as ASSUMEs) and its labelled state graph is dumped.
2. The graph is symbolic in the world (descriptors), so every edge is replayed on real StarSet objects of many
   worlds (catalogue + random decorations, random orientation, library-built jump networks, optionally thinned
   to a subset of classes, Cartesian or lattice form).  After every step ALL objects (target, operands,
   bystanders) are projected completely: states, stars, index, indexdict, stateindex/starindex/__contains__
   for members and for probe states.  Steps that link two objects are followed by an in-place step on the
   actual result objects (aliasing between a sum/copy and its source shows up there).
3. spec/world/Check_C24.tla (TLC) judges every projection against the definitional sets of spec/world/Stars.tla.
"""
import json
import os
import random
import time
from concurrent.futures import ProcessPoolExecutor
import multiprocessing

import numpy as np

from .. import tlc, worlds
from .. import helpers_stars as hs
from ..tlc import to_tla

LEVEL = "model_checking"

INPLACE = ("Generate", "IAdd", "DiffGenerate")
LINKING = ("Add", "IAdd", "Copy", "CopyEmpty", "DiffGenerate")


# ------------------------------------------------------------------ the object model and its graph

def model_graph(ctx, wname, maxn, gen_n, nobj=2):
    """Model-check StarSetObj with explicit sets on catalogue world `wname`; return the symbolic graph."""
    rng = random.Random("C24-model-%s" % wname)
    S = hs.setup_world(dict(worlds.CATALOGUE[wname], name=wname), rng, chem=0)
    jn, proj = hs.network(S, rng, 1)
    J = set((s[0], s[1], tuple(s[2])) for cl in proj for s in cl)
    wd = tlc.scratch()
    mod = """---- MODULE MC_C24 ----
EXTENDS StarSetObj
MCW == %s
MCJ == %s
MCGenN == %s
MCG == OpsRT(MCW, 2)
ASSUME Theorems
====
""" % (hs.world_tla(S["ow"]), to_tla(J), to_tla(set(gen_n)))
    path = os.path.join(wd, "MC_C24.tla")
    with open(path, "w") as f:
        f.write(mod)
    cfg = """CONSTANTS
 W <- MCW
 C = 1
 J <- MCJ
 G <- MCG
 NObj = %d
 GenN <- MCGenN
 MaxN = %d
SPECIFICATION Spec
INVARIANT TypeOK
INVARIANT Refines
""" % (nobj, maxn)
    res = tlc.run(path, cfg, workers=4, dump=True, workdir=wd, timeout=1800)
    tlc.require_clean(res, "StarSetObj on %s MaxN=%d" % (wname, maxn))
    ctx.add_model(res)
    nodes, edges, inits = tlc.parse_dot(res.dot)
    if len(nodes) != res.distinct or len(inits) != 1:
        raise tlc.TLCError("graph dump has %d nodes / %d initial, TLC reports %d" % (len(nodes), len(inits), res.distinct))
    descs = {nid: [dkey(d) for d in st["desc"]] for nid, st in nodes.items()}
    groups = {}
    for src, dst, lab in edges:
        g = groups.setdefault((src, lab), [])
        if dst not in g:
            g.append(dst)
    out = {}
    for (src, lab), dsts in groups.items():
        out.setdefault(src, []).append((lab, dsts))
    for src in out:
        out[src].sort()
    return {"descs": descs, "out": out, "init": inits[0], "maxn": maxn, "nobj": nobj,
            "nodes": len(nodes), "edges": len(edges), "world": wname}


def dkey(d):
    return (d["kind"], int(d["n"]), bool(d["og"]), (int(d["a"][0]), bool(d["a"][1])), (int(d["b"][0]), bool(d["b"][1])))


def ddict(k):
    return {"kind": k[0], "n": k[1], "og": k[2], "a": list(k[3]), "b": list(k[4])}


def reach_key(n, og):
    return ("reach", n, og, (0, False), (0, False))


def symbolic(g):
    """World-independent content of a graph (for the cross-world sanity check)."""
    return sorted((tuple(g["descs"][s]), lab, tuple(sorted(tuple(g["descs"][d]) for d in dsts)))
                  for s, lst in g["out"].items() for lab, dsts in lst)


# ------------------------------------------------------------------ real objects

def clone_group(objs):
    """Independent copies of a group of objects that preserve whatever containers the originals share
    (with each other); immutable leaves (PairState, Crystal) are shared with the originals."""
    memo = {}

    def cp(v):
        if isinstance(v, (list, dict, set, np.ndarray)):
            if id(v) in memo:
                return memo[id(v)][1]
            if isinstance(v, list):
                new = []
                memo[id(v)] = (v, new)
                new.extend(cp(x) for x in v)
            elif isinstance(v, dict):
                new = {}
                memo[id(v)] = (v, new)
                for kk, x in v.items():
                    new[kk] = cp(x)
            elif isinstance(v, set):
                new = set(v)
                memo[id(v)] = (v, new)
            else:
                new = v.copy()
                memo[id(v)] = (v, new)
            return new
        return v

    out = []
    for o in objs:
        if id(o) in memo:
            out.append(memo[id(o)][1])
            continue
        new = object.__new__(type(o))
        memo[id(o)] = (o, new)
        new.__dict__.update({kk: cp(v) for kk, v in o.__dict__.items()})
        out.append(new)
    return out


def shared_containers(objs):
    """Names of mutable containers reachable from two different objects (trigger for follow-up steps)."""
    seen, shared = {}, set()
    for n, o in enumerate(objs):
        for name, v in vars(o).items():
            cands = []
            if isinstance(v, (list, dict, set)):
                cands.append(v)
                if isinstance(v, list):
                    cands += [x for x in v if isinstance(x, (list, dict, set, np.ndarray))]
            elif isinstance(v, np.ndarray):
                cands.append(v if v.base is None else v.base)
            for x in cands:
                if id(x) in seen and seen[id(x)][0] != n:
                    shared.add(name)
                seen.setdefault(id(x), (n, name))
    return shared


def apply_action(objs, name, args, flavour=0):
    """One spec action on the real objects; returns the exception class name or None."""
    try:
        if name in ("Generate", "RegenerateSameN"):
            o, N, og = args
            if flavour % 2:
                objs[o - 1].generate(N, 1e-8, bool(og))
            else:
                objs[o - 1].generate(N, originstates=bool(og))
        elif name == "Add":
            a, b, c = args
            objs[c - 1] = objs[a - 1] + objs[b - 1]
        elif name == "IAdd":
            a, b = args
            x = objs[a - 1]
            x += objs[b - 1]
            objs[a - 1] = x
        elif name == "Copy":
            a, b = args
            objs[b - 1] = objs[a - 1].copy()
        elif name == "CopyEmpty":
            a, b = args
            objs[b - 1] = objs[a - 1].copy(empty=True)
        elif name in ("DiffGenerate", "DiffGenerateErr"):
            a, b, c = args
            objs[c - 1].diffgenerate(objs[a - 1], objs[b - 1])
        else:
            raise RuntimeError("unknown action " + name)
    except RuntimeError:
        raise
    except Exception as ex:        # noqa: BLE001 -- the model says which calls must raise
        return type(ex).__name__
    return None


def roles(name, args, nobj):
    """slot (1-based) -> 'target' | 'operand' | 'bystander'."""
    tgt = {"Generate": 0, "RegenerateSameN": 0, "Add": 2, "IAdd": 0, "Copy": 1, "CopyEmpty": 1,
           "DiffGenerate": 2, "DiffGenerateErr": 2}[name]
    objargs = args[:1] if name in ("Generate", "RegenerateSameN") else args
    r = {}
    for s in range(1, nobj + 1):
        r[s] = "target" if s == objargs[tgt] else ("operand" if s in objargs else "bystander")
    return r


class Recorder:
    """Projects StarSet objects of one world onto integers and collects the TLC case."""

    def __init__(self, S, probes):
        self.S = S
        self.pscache = {}
        self.sets, self.setlist = {}, []
        self.obs, self.obslist = {}, []
        self.descs, self.desclist = {}, []
        self.edges, self.meta, self.edgesig, self.paths = [], [], {}, []
        from onsager import crystalStars as stars
        crys, chem = S["crys"], S["chem"]
        self.probes = []
        for (i, j, R) in probes:
            dx = np.dot(crys.lattice, np.array(R) + crys.basis[chem][j] - crys.basis[chem][i])
            self.probes.append((stars.PairState(i=i, j=j, R=np.array(R, dtype=int), dx=dx), [i + 1, j + 1, list(R)]))

    def ps(self, PS):
        R, dx = PS.R, PS.dx
        key = (PS.i, PS.j, R.tobytes() if isinstance(R, np.ndarray) else None, dx.tobytes() if isinstance(dx, np.ndarray) else None)
        v = self.pscache.get(key)
        if v is None or key[2] is None or key[3] is None:
            p = hs.ps_project(self.S, PS)
            v = (p[0], p[1], tuple(p[2]), tuple(hs.dx_project(self.S, PS.dx, "dx of a pair state")))
            self.pscache[key] = v
        return v

    def desc(self, k):
        if k not in self.descs:
            self.descs[k] = len(self.desclist) + 1
            self.desclist.append(ddict(k))
        return self.descs[k]

    def project(self, obj):
        """-> index (1-based) of the object's full projection among the distinct observations."""
        none0 = lambda x: 0 if x is None else int(x) + 1      # noqa: E731
        st = tuple(self.ps(s) for s in obj.states)
        fs = frozenset(s[:3] for s in st)
        si = self.sets.get(fs)
        if si is None:
            si = self.sets[fs] = len(self.setlist) + 1
            self.setlist.append(sorted([s[0], s[1], list(s[2])] for s in fs))
        stars = tuple(tuple(int(x) + 1 for x in star) for star in obj.stars)
        index = tuple(int(x) + 1 for x in obj.index)
        dic = tuple(sorted((self.ps(PS)[:3], int(v[0]) + 1, int(v[1]) + 1) for PS, v in obj.indexdict.items()))
        sidx = tuple(none0(obj.stateindex(s)) for s in obj.states)
        stidx = tuple(none0(obj.starindex(s)) for s in obj.states)
        has = tuple(bool(s in obj) for s in obj.states)
        pr = tuple((none0(obj.stateindex(p)), none0(obj.starindex(p)), bool(p in obj)) for p, _ in self.probes)
        sig = (si, int(obj.Nshells), int(obj.Nstates), int(obj.Nstars), st, stars, index, dic, sidx, stidx, has, pr)
        oi = self.obs.get(sig)
        if oi is None:
            oi = self.obs[sig] = len(self.obslist) + 1
            self.obslist.append({
                "set": si, "n": int(obj.Nshells), "nstates": int(obj.Nstates), "nstars": int(obj.Nstars),
                "states": [[s[0], s[1], list(s[2]), list(s[3])] for s in st],
                "stars": [list(x) for x in stars], "index": list(index),
                "dict": [[[d[0][0], d[0][1], list(d[0][2])], d[1], d[2]] for d in dic],
                "sidx": list(sidx), "stidx": list(stidx), "has": list(has),
                "probes": [[self.probes[q][1], pr[q][0], pr[q][1], pr[q][2]] for q in range(len(pr))]})
        return oi

    def edge(self, objs, must, raised, cands, meta):
        """Record one step: cands = list of alternatives, each a list of descriptor keys per slot."""
        slots = [self.project(o) for o in objs]
        cd = [[self.desc(k) for k in alt] for alt in cands]
        # identical steps (same call, same roles, same outcome for every object) are sent to TLC once
        sig = (meta["action"], tuple(sorted((meta.get("role") or {}).items())), bool(must), bool(raised),
               tuple(slots), tuple(map(tuple, cd)))
        e = self.edgesig.get(sig)
        self.paths.append((tuple(meta["path"]), e if e is not None else len(self.edges)))
        if e is None:
            self.edgesig[sig] = len(self.edges)
            self.edges.append({"must": bool(must), "raised": bool(raised), "slots": slots, "cands": cd})
            meta["count"] = 1
            self.meta.append(meta)
        else:
            self.meta[e]["count"] += 1

    def case(self, proj_jn, deep=False):
        maxn = 0
        for d in self.desclist:
            maxn = max(maxn, d["n"], d["a"][0], d["b"][0])
        return {"w": self.S["ow"], "c": self.S["chem"] + 1, "jn": proj_jn, "maxn": maxn, "deep": bool(deep),
                "descs": self.desclist, "sets": self.setlist, "obs": self.obslist, "edges": self.edges}


def replay_world(task):
    """Worker: replay the graph (and direct calls) on one world.  Returns dict(case, meta, info) or dict(error)."""
    w, seed, g, opts = task
    from onsager import crystalStars as stars
    rng = random.Random(seed)
    t0 = time.time()
    try:
        S = hs.setup_world(w, rng, chem=opts.get("chem"), jitter=opts.get("jitter", 0.0))
        jn, proj = hs.network(S, rng, opts.get("nshell", 1), subset=opts.get("subset", False))
    except worlds.ProjectionError as ex:
        return {"error": "projection", "what": str(ex), "name": w["name"]}
    crys, chem = S["crys"], S["chem"]
    if not any(len(cl) for cl in jn):
        return {"error": "empty", "name": w["name"]}
    lattice = bool(opts.get("lattice"))
    jn_in = hs.lattice_form(S, jn) if lattice else jn
    nsites = len(crys.basis[chem])
    probes = [(i, i, (0,) * crys.dim) for i in range(nsites)]
    for _ in range(10):
        probes.append((rng.randrange(nsites), rng.randrange(nsites), tuple(rng.randint(-2, 2) for _ in range(crys.dim))))
    rec = Recorder(S, probes)
    nobj = g["nobj"]
    fam = hs.family(w["name"])
    netkind = "%dshell%s%s" % (opts.get("nshell", 1), "-subset" if opts.get("subset") else "", "-latt" if lattice else "")
    base = {"world": w["name"], "family": fam, "net": netkind, "chem": chem, "saturating": hs.saturates(proj)}
    try:
        # ---- the object machine's graph
        objs0 = [stars.StarSet(jn_in, crys, chem, lattice=lattice) for _ in range(nobj)]
        rec.edge(objs0, False, False, [g["descs"][g["init"]]], dict(base, action="Init", path=[], role=None, args=[]))
        node_objs = {g["init"]: objs0}
        paths = {g["init"]: []}
        queue, seen = [g["init"]], {g["init"]}
        nedges = nfollow = 0
        budget = opts.get("budget")
        trivial_keep = opts.get("trivial_keep", 1.0)
        while queue:
            src = queue.pop(0)
            for lab, dsts in g["out"].get(src, []):
                name, args = tlc.parse_action_label(lab)
                if len(dsts) == 1 and dsts[0] not in seen:
                    pass        # a tree edge: always replayed (it produces the representative of the new node)
                elif budget is not None and time.time() - t0 > budget:
                    continue
                elif name in ("RegenerateSameN", "DiffGenerateErr") and rng.random() > trivial_keep:
                    continue
                objs = clone_group(node_objs[src])
                raised = apply_action(objs, name, args, nedges)
                nedges += 1
                rl = roles(name, args, nobj)
                rec.edge(objs, name.endswith("Err"), raised, [g["descs"][d] for d in dsts],
                         dict(base, action=name, args=args, path=paths[src] + [lab], role=rl, raised=raised))
                if len(dsts) == 1 and dsts[0] not in seen and not raised:
                    seen.add(dsts[0])
                    node_objs[dsts[0]] = objs
                    paths[dsts[0]] = paths[src] + [lab]
                    queue.append(dsts[0])
                # steps that link objects: continue from the ACTUAL result with in-place steps
                if name in LINKING and len(dsts) == 1 and not raised:
                    cand = [(l2, d2) for l2, d2 in g["out"].get(dsts[0], []) if l2.split("(")[0] in INPLACE]
                    sh = shared_containers(objs)
                    if not sh:
                        rng.shuffle(cand)
                        cand = cand[:opts.get("nfollow", 1)]
                    for l2, d2 in cand:
                        n2, a2 = tlc.parse_action_label(l2)
                        o2 = clone_group(objs)
                        r2 = apply_action(o2, n2, a2, nfollow)
                        nfollow += 1
                        rec.edge(o2, False, r2, [g["descs"][d] for d in d2],
                                 dict(base, action=name + ">" + n2, args=a2, path=paths[src] + [lab, l2],
                                      role=roles(n2, a2, nobj), raised=r2, shared=sorted(sh)))
        missing = len(g["descs"]) - len(seen)
        # ---- direct calls beyond the graph's range: fresh generation with N = maxn+1, sums reaching it
        ndirect = 0
        for (kind, prm) in opts.get("direct", []):
            if kind == "fresh":
                N, og = prm
                o = stars.StarSet(jn_in, crys, chem, N, originstates=og, lattice=lattice)
                rec.edge([o], False, False, [[reach_key(N, og)]],
                         dict(base, action="Construct", args=[N, og], path=["StarSet(N=%d, originstates=%s)" % (N, og)],
                              role={1: "target"}, raised=None))
            else:
                n1, og1, n2, og2, inplace = prm
                a = stars.StarSet(jn_in, crys, chem, n1, originstates=og1, lattice=lattice)
                b = stars.StarSet(jn_in, crys, chem, n2, originstates=og2, lattice=lattice)
                group = [a, b, None]
                raised = None
                try:
                    if inplace:
                        x = a
                        x += b
                        group[2] = x
                    else:
                        group[2] = a + b
                except Exception as ex:     # noqa: BLE001
                    raised = type(ex).__name__
                    group[2] = a
                alts = [[reach_key(n1 + n2 if inplace else n1, og if inplace else og1), reach_key(n2, og2), reach_key(n1 + n2, og)]
                        for og in sorted({og1, og2})]
                rec.edge(group, False, raised, alts,
                         dict(base, action="IAdd" if inplace else "Add", args=[n1, og1, n2, og2],
                              path=["S(%d,%s) %s S(%d,%s)" % (n1, og1, "+=" if inplace else "+", n2, og2)],
                              role={1: "target" if inplace else "operand", 2: "operand", 3: "target"}, raised=raised))
            ndirect += 1
    except worlds.ProjectionError as ex:
        return {"error": "projection", "what": str(ex), "name": w["name"], "base": base}
    return {"case": rec.case(proj, opts.get("deep", False)), "meta": rec.meta, "paths": rec.paths, "name": w["name"], "base": base,
            "info": {"distinct_steps": len(rec.edges), "edges": nedges, "followups": nfollow, "direct": ndirect, "unvisited_nodes": missing,
                     "obs": len(rec.obslist), "sets": len(rec.setlist), "wall": round(time.time() - t0, 2),
                     "njumps": sum(len(c) for c in proj), "nsites": nsites, "G": len(crys.G)}}


# ------------------------------------------------------------------ the check

def world_tasks(ctx, quick):
    rng = ctx.rng
    C = worlds.CATALOGUE
    tasks = []

    def add(name, maxn_key, w=None, **opts):
        w = dict(w if w is not None else C[name], name=name)
        tasks.append((w, "C24-%d-%s-%d" % (ctx.seed, name, len(tasks)), maxn_key, opts))

    if quick:
        add("square", "big", chem=0, budget=12, direct=[("fresh", (4, True)), ("add", (2, False, 2, False, False))])
        add("honeycomb", "big", chem=0, lattice=True, budget=12, direct=[("add", (3, True, 1, True, True))])
        add("rect2site", "big", chem=0, nshell=2, subset=True, budget=12)
        add("kagome", "big", chem=0, budget=8, trivial_keep=0.2)
        add("fcc", "small", chem=0, budget=12, direct=[("fresh", (3, False)), ("add", (2, True, 1, True, False))])
        add("hcp", "small", chem=0, lattice=True, budget=12, direct=[("fresh", (3, True)), ("add", (1, False, 2, False, True))])
        add("b2", "small", chem=rng.randrange(2), nshell=2, budget=8, trivial_keep=0.2, direct=[("fresh", (3, False))])
        add("diamond", "small", chem=0, budget=8, trivial_keep=0.2, jitter=1e-10)     # noise below the symmetry threshold
        add("fccoct", "small", chem=2, budget=8, trivial_keep=0.2)
        for n in range(3):
            w = worlds.random_world(rng, dim=2 if n == 0 else 3, maxatoms=3)
            add(w["name"], "big" if w["dim"] == 2 else "small", w=w, budget=5, trivial_keep=0.2,
                subset=bool(n % 2), lattice=bool(n == 2))
        add("tric2", "small", chem=0, budget=4, trivial_keep=0.1)       # a non-percolating (dimer) network
    else:
        for name in ("square", "hex2d", "honeycomb", "rect", "oblique", "crect", "kagome", "rect2site", "squarelieb",
                     "square2sp", "polarrect"):
            dim2direct = [("fresh", (4, True)), ("fresh", (5, False)), ("add", (2, False, 3, True, False)),
                          ("add", (3, True, 2, True, True))]
            for v in range(2):
                add(name, "big", chem=None if v else 0, nshell=1 + v, subset=bool(v), lattice=bool(v), direct=dim2direct)
        for name in ("sc", "fcc", "bcc", "hcp", "diamond", "b2", "l12", "rocksalt", "tetra", "ortho", "mono", "tric",
                     "tric2", "rhomb", "wurtzite", "fccoct", "hcpoct", "tet2", "monodeco", "omega"):
            d3 = [("fresh", (3, False)), ("fresh", (3, True)), ("add", (2, True, 1, True, False)),
                  ("add", (1, False, 2, True, True)), ("add", (2, False, 2, False, False))]
            add(name, "mid", chem=0, direct=d3, trivial_keep=0.3)
            add(name, "small", chem=None, nshell=2, subset=True, lattice=True, direct=d3[:2], trivial_keep=0.3)
        for n in range(60):
            w = worlds.random_world(rng, maxatoms=4)
            add(w["name"], "big" if w["dim"] == 2 else "small", w=w, subset=bool(n % 2), lattice=bool(n % 3 == 0),
                nshell=1 + (n % 2), trivial_keep=0.3, jitter=1e-10 if n % 4 == 1 else 0.0)
    return tasks


def run(ctx):
    quick = ctx.tier == "quick"
    ctx.rule = ("TLC state graph of StarSetObj (2 object slots; Generate N<=2 and sums/differences up to range 2 in 3D, N<=3 and "
                "range 3 in 2D [thorough: range 3 / 4]) replayed edge by edge on real StarSet objects of catalogue + random worlds in random "
                "orientation, all objects projected after every step; plus direct generation/sums one range beyond; "
                "non-trivial = distinct replayed step (action, operand descriptors, world) whose target holds a star "
                "with more than one state")
    t0 = time.time()
    from concurrent.futures import ThreadPoolExecutor
    specs = {"small": ("square", 2, (0, 1, 2)), "big": ("square", 3, (0, 1, 2, 3))}
    if not quick:
        specs = {"small": ("square", 2, (0, 1, 2)), "mid": ("square", 3, (0, 1, 2, 3)), "big": ("square", 4, (0, 1, 2, 3)),
                 "other": ("honeycomb", 3, (0, 1, 2, 3))}
    with ThreadPoolExecutor(max_workers=4) as tex:
        futs = {k: tex.submit(model_graph, ctx, *v) for k, v in specs.items()}
        graphs = {k: f.result() for k, f in futs.items()}
    if not quick:
        other = graphs.pop("other")      # the symbolic graph does not depend on the world
        if symbolic(other) != symbolic(graphs["mid"]):
            raise tlc.TLCError("StarSetObj: the descriptor graph differs between worlds square and honeycomb")
    ctx.exhaustive = True
    for k, g in graphs.items():
        ctx.sample({"model": "StarSetObj", "world": g["world"], "MaxN": g["maxn"], "objects": g["nobj"],
                    "states": g["nodes"], "edges": g["edges"]})
    ctx.info("t_model_s", round(time.time() - t0, 1))
    tasks = [(w, seed, graphs[gk], opts) for (w, seed, gk, opts) in world_tasks(ctx, quick)]
    from onsager import crystalStars      # noqa: F401 -- import once, before the workers are forked
    t1 = time.time()
    with ProcessPoolExecutor(max_workers=8 if quick else 12, mp_context=multiprocessing.get_context("fork")) as ex:
        results = list(ex.map(replay_world, tasks))
    ctx.info("t_replay_s", round(time.time() - t1, 1))
    cases, metas = [], []
    for r in results:
        if r.get("error") == "empty":
            continue
        if r.get("error") == "projection":
            ctx.case(r["name"])
            ctx.violation("projection|%s" % hs.family(r["name"]), "world %s: %s" % (r["name"], r["what"]), r)
            continue
        cases.append(r["case"])
        metas.append(r)
    t2 = time.time()
    fails, infos, tres = tlc.run_cases("Check_C24", cases, shards=8 if quick else 12, timeout=3000)
    ctx.info("t_check_s", round(time.time() - t2, 1))
    for r in tres:
        ctx.add_model(r)
    replayed = 0
    for ci, r in enumerate(metas):
        case, meta, info = r["case"], r["meta"], r["info"]
        replayed += sum(m["count"] for m in meta)
        ctx.evaluations += sum(m["count"] - 1 for m in meta)
        if info["unvisited_nodes"]:
            ctx.info("unvisited_nodes_" + r["name"], info["unvisited_nodes"])
        many = infos.get(ci, {}).get("stars_with_several_states", [])
        for e, m in enumerate(meta):
            tslots = [s for s, rr in (m["role"] or {}).items() if rr == "target"] or [1]
            oi = case["edges"][e]["slots"][tslots[0] - 1]
            si = case["obs"][oi - 1]["set"]
            nontriv = bool(many) and many[si - 1] > 0
            ctx.case((r["name"], m["action"], tuple(case["edges"][e]["cands"][0]), tuple(case["edges"][e]["slots"])),
                     nontrivial=nontriv)
        for f in primary_failures(r, fails.get(ci, [])):
            report(ctx, r, f)
        ctx.sample({"world": r["name"], "net": r["base"]["net"], **info}, cap=8)
    ctx.traces += replayed
    ctx.info("worlds", len(metas))
    ctx.info("steps_replayed", replayed)


def fail_edge(case, f):
    """Index of the (distinct) step a FAIL line belongs to, or None for model clauses."""
    if f[0] == "model":
        return None
    if f[0] == "obs":
        return next(i for i, ed in enumerate(case["edges"]) if f[1] in ed["slots"])
    return f[1] - 1


def primary_failures(r, fl):
    """A step replayed from a node whose representative objects were already produced by a failing step fails
    again for the same reason: keep only failures whose call sequence has no failing proper prefix."""
    case, meta = r["case"], r["meta"]
    byedge = {}
    for f in fl:
        e = fail_edge(case, f)
        if e is not None:
            byedge.setdefault(e, []).append(f)
    bad = set(p for p, e in r["paths"] if e in byedge)
    out = [f for f in fl if f[0] == "model"]
    done = set()
    for p, e in sorted(r["paths"], key=lambda pe: len(pe[0])):
        if e in byedge and e not in done and not any(p[:n] in bad for n in range(1, len(p))):
            done.add(e)
            meta[e]["path"] = list(p)
            out += byedge[e]
    return out


def report(ctx, r, f):
    case, meta, base = r["case"], r["meta"], r["base"]
    dimer = "nonpercolating|" if base.get("saturating") else ""
    if f[0] == "model":
        ctx.violation("%sinput|%s|%s|%s" % (dimer, f[1], base["family"], base["net"]),
                      "world %s, sublattice %d, network %s: %s fails for the library's own jump network / the definitional "
                      "model" % (base["world"], base["chem"], base["net"], f[1]), {"base": base, "jn": case["jn"], "w": case["w"]})
        return
    if f[0] == "obs":
        oi, clause = f[1], f[2]
        e = next(i for i, ed in enumerate(case["edges"]) if oi in ed["slots"])
        slot = case["edges"][e]["slots"].index(oi) + 1
    else:
        e, slot, clause = f[1] - 1, f[2], f[3]
        oi = case["edges"][e]["slots"][slot - 1] if slot else None
    m = meta[e]
    role = (m["role"] or {}).get(slot, "object") if slot else "call"
    if clause in ("must_raise", "must_not_raise"):
        # one key per call and exception, independent of the world (the defect is in the call, not the crystal)
        key = "%sraise|%s|%s|%s" % (dimer, clause, m["action"].split(">")[-1], m.get("raised"))
    else:
        key = "%sedge|%s|%s|%s|%s|%s" % (dimer, clause, m["action"], role, base["family"], base["net"])
    seen = ctx.__dict__.setdefault("_c24_keys", set())      # one replay file per key and run
    if key in seen:
        return
    seen.add(key)
    ob = case["obs"][oi - 1] if oi else None
    exp = [case["descs"][d - 1] for d in (case["edges"][e]["cands"][0])]
    what = ("world %s (sublattice %d, network %s, %d jumps): after %s the %s (slot %s) violates '%s'; call raised %s; "
            "expected descriptors per slot %s; observed Nshells=%s Nstates=%s Nstars=%s" % (
                base["world"], base["chem"], base["net"], sum(len(c) for c in case["jn"]), " ; ".join(m["path"]) or "construction",
                role, slot, clause, m.get("raised"), exp, ob and ob["n"], ob and ob["nstates"], ob and ob["nstars"]))
    ctx.violation(key, what, {"base": base, "w": case["w"], "c": case["c"], "jn": case["jn"], "path": m["path"],
                              "expected": exp, "observed": ob, "shared": m.get("shared")})
