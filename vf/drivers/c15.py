"""C15 -- tags of the Interstitial and VacancyMediated calculators map exactly onto symmetry classes.

Per calculator (catalogue world realised in a random orientation, library-built jump network):
  bind   every tag string is parsed back to the geometric object it names (sites / pair states / jumps /
         transitions on the integer grid) and TLC (spec/world/Check_C15.tla, "bind") decides: tags unique, tagdict
         total and consistent, the objects named by tags[type][n] are exactly the calculator's class n of that type
         (sitelist, thermo stars, omega0/1/2 networks: the lists the parameter arrays are indexed by), every class is
         ONE symmetry class of the definitional space group (World.OpsRT) and different classes are inequivalent.
  cover  the user dictionaries are DEFINED by spec/obj/TagMap.tla (Scenario): a count vector (0, 1 or 2 member tags per
         class) and a salt determine the members used (through seeded member permutations), the values (distinct even
         levels / powers of 4) and the bogus tags.  On the small structures TLC enumerates all admissible count vectors
         (3^#classes, capped by the class sizes) and requires the list that was fed to be exactly that set; on the larger
         ones the count vectors are a seeded sample.  TLC re-derives every dictionary (fed = Scenario) and checks the
         model-level lemmas (ReportPartition, well-formedness) on each; the dictionary as an object with a history
         (TagMapObj) is model-checked exhaustively on a small structure.
  scen   every scenario is fed to tags2preene(VERBOSE=True); arrays are projected to integers (log2 of the prefactor,
         energy level; a non-integral value is a violation) and TLC decides Routed (array lengths = number of classes,
         supplied datum at the class index, defaults elsewhere, LIMB default for unspecified omega1/omega2 with the LIMB
         references derived by TLC from the class geometry) and the three reports as sets.
"""
import itertools
import math
import multiprocessing
import random
import re
import time
from concurrent.futures import ProcessPoolExecutor

import numpy as np

from .. import rel, tlc, worlds
from .. import helpers_c15 as hc
from .. import helpers_stars as hs

LEVEL = "model_checking"

VM_TYPES = ("vacancy", "solute", "solute-vacancy", "omega0", "omega1", "omega2")
VM_GEO = ("site", "site", "pair", "jump", "trans", "trans")
VM_KEYS = (("preV", "eneV"), ("preS", "eneS"), ("preSV", "eneSV"), ("preT0", "eneT0"), ("preT1", "eneT1"),
           ("preT2", "eneT2"))
INT_TYPES = ("states", "transitions")
INT_GEO = ("site", "jump")

NUM = r"[+-]\d+\.\d{3}"
CO = r"(%s(?:,%s)*)" % (NUM, NUM)
PATTERNS = {
    "vacancy": re.compile(r"^v:%s$" % CO), "solute": re.compile(r"^s:%s$" % CO),
    "states": re.compile(r"^i:%s$" % CO), "transitions": re.compile(r"^i:%s\^i:%s$" % (CO, CO)),
    "solute-vacancy": re.compile(r"^s:%s-v:%s$" % (CO, CO)),
    "omega0": re.compile(r"^omega0:v:%s\^v:%s$" % (CO, CO)),
    "omega1": re.compile(r"^omega1:s:%s-v:%s\^v:%s$" % (CO, CO, CO)),
    "omega2": re.compile(r"^omega2:s:%s-v:%s\^s:%s-v:%s$" % (CO, CO, CO, CO)),
}


class TagParser:
    """Tag string -> the object it names, on the integer grid of the observed world."""

    def __init__(self, ow, chem):
        self.D, self.dim = ow["D"], ow["dim"]
        self.sites = {tuple(u): i for i, u in enumerate(ow["basis"][chem])}

    def site(self, text):
        u = [float(x) for x in text.split(",")]
        if len(u) != self.dim:
            raise worlds.ProjectionError("position %r has %d coordinates in a %dD crystal" % (text, len(u), self.dim))
        g = np.array(u) * self.D
        r = np.round(g)
        if np.max(np.abs(g - r)) > 0.0005 * self.D + 1e-6:        # three printed decimals
            raise worlds.ProjectionError("position %r is not a grid point (1/%d)" % (text, self.D))
        r = r.astype(int)
        i = self.sites.get(tuple(int(x) % self.D for x in r))
        if i is None:
            raise worlds.ProjectionError("position %r is not a site of the sublattice" % text)
        return i, (r - np.array([int(x) % self.D for x in r])) // self.D

    def pair(self, s, v):
        (i, Ri), (j, Rj) = self.site(s), self.site(v)
        return [i + 1, j + 1, [int(x) for x in Rj - Ri]]

    def parse(self, ttype, tag):
        m = PATTERNS[ttype].match(tag)
        if not m:
            raise worlds.ProjectionError("tag %r does not have the form of a %s tag" % (tag, ttype))
        g = m.groups()
        if ttype in ("vacancy", "solute", "states"):
            i, R = self.site(g[0])
            if any(R):
                raise worlds.ProjectionError("tag %r names a site outside the unit cell" % tag)
            return i + 1
        if ttype in ("solute-vacancy", "omega0", "transitions"):
            return self.pair(g[0], g[1])
        if ttype == "omega1":
            return [self.pair(g[0], g[1]), self.pair(g[0], g[2])]
        return [self.pair(g[0], g[1]), self.pair(g[2], g[3])]


def log2int(x, what):
    x = float(x)
    if not (x > 0 and math.isfinite(x)):
        raise worlds.ProjectionError("%s = %r is not a positive finite prefactor" % (what, x))
    m, e = math.frexp(x)
    if m != 0.5:
        raise worlds.ProjectionError("%s = %r is not the exact power of two the inputs imply" % (what, x))
    return e - 1


def exactint(x, what):
    x = float(x)
    if not math.isfinite(x) or x != round(x):
        raise worlds.ProjectionError("%s = %r is not the exact integer level the inputs imply" % (what, x))
    return int(round(x))


def salt_of(cnt):
    """TagMap.SaltOf"""
    acc = 0
    for n, c in enumerate(cnt, 1):
        acc = (acc * 3 + c + n) % 1009
    return acc


def scenario(qs, flat, perm, cnt, salt):
    """The harness's copy of TagMap.Scenario (TLC checks fed = Scenario(...) for every scenario)."""
    sup = []
    for n, ((t, c), sz) in enumerate(zip(qs, flat), 1):
        a = 1 + ((salt + 3 * n) % sz)
        b = 1 + (a % sz)
        ms = [] if cnt[n - 1] == 0 else [perm[n - 1][a - 1]] if cnt[n - 1] == 1 else [perm[n - 1][a - 1], perm[n - 1][b - 1]]
        for m in ms:
            idx = len(sup) + 1
            sup.append([t, c, m, 2 * (((11 * idx + 3 * salt) % 127) - 63), 2 * (1 + ((5 * idx + salt) % 509))])
    return sup


def build(task):
    """Build the calculator named by the task; returns (S, calc, types, tagslist) or raises."""
    from onsager import OnsagerCalc
    kind, name, chem, shell, nth = task["kind"], task["world"], task["chem"], task["shell"], task["nth"]
    rng = random.Random(task["seed"])
    w = dict(worlds.CATALOGUE[name], name=name)
    S = hs.setup_world(w, rng, chem=chem)
    crys, ow = S["crys"], S["ow"]
    sitelist = crys.sitelist(chem)
    if kind == "interstitial":
        jn = crys.jumpnetwork(chem, rel.cutoff_for(ow, chem, shell, S["unit"]))
        calc = OnsagerCalc.Interstitial(crys, chem, sitelist, jn)
        return S, calc
    for sh in range(shell, shell + 6):      # the first network from `shell` on that percolates in every direction
        jn = crys.jumpnetwork(chem, rel.cutoff_for(ow, chem, sh, S["unit"]))
        if not jn:
            continue
        D1 = OnsagerCalc.Interstitial(crys, chem, sitelist, jn).diffusivity(
            np.ones(len(sitelist)), np.zeros(len(sitelist)), np.ones(len(jn)), np.zeros(len(jn)))
        if np.min(np.linalg.eigvalsh(0.5 * (D1 + D1.T))) > 1e-6:
            break
    else:
        raise ValueError("no percolating network")
    calc = OnsagerCalc.VacancyMediated(crys, chem, sitelist, jn, nth, NGFmax=2)
    return S, calc


def class_lists(S, calc, kind):
    """The calculator's own class lists (what its parameter arrays are indexed by), projected to integers."""
    sites = [[int(i) + 1 for i in cl] for cl in calc.sitelist]
    if kind == "interstitial":
        jumps = [[hs.jump_project(S, ij, dx) for ij, dx in cl] for cl in calc.jumpnetwork]
        return [sites, jumps]
    th, kin = calc.thermo, calc.kinetic
    stars = [[hs.ps_project(S, th.states[s]) for s in st] for st in th.stars]
    om0 = [[hs.jump_project(S, ij, dx) for ij, dx in cl] for cl in calc.om0_jn]
    cache = {}

    def ps(n):
        if n not in cache:
            cache[n] = hs.ps_project(S, kin.states[n])
        return cache[n]
    om1 = [[[ps(i), ps(f)] for (i, f), dx in cl] for cl in calc.om1_jn]
    om2 = [[[ps(i), ps(f)] for (i, f), dx in cl] for cl in calc.om2_jn]
    return [sites, [list(c) for c in sites], stars, om0, om1, om2]


def bogus_tags(calc):
    """Strings that are not tags of the calculator: b = 1 garbage, b = 2 a real tag with its last digit changed."""
    first = calc.tags["solute-vacancy"][0][0]
    near = first[:-1] + ("1" if first[-1] != "1" else "2")
    out = {1: "bogus:" + first, 2: near}
    for b, t in out.items():
        if t in calc.tagdict:
            out[b] = "no-such-tag-%d" % b
    return out


def record(task):
    """Worker: build, bind case, scenario generation by TLC, feeding, scen cases."""
    t0 = time.time()
    kind = task["kind"]
    base = {"world": task["world"], "chem": task["chem"], "kind": kind, "nth": task["nth"]}
    label = "%s|%s|chem=%d|%s" % (kind, task["world"], task["chem"], "N=%d" % task["nth"] if kind == "vacancy" else "shell=%d" % task["shell"])
    out = {"label": label, "base": base, "errors": [], "cases": [], "meta": [], "model": []}
    try:
        S, calc = build(task)
    except Exception as ex:      # noqa: BLE001
        out["errors"].append(("construct|%s" % type(ex).__name__, "constructing the calculator raised %s: %s" % (type(ex).__name__, ex)))
        return out
    ow, chem = S["ow"], S["chem"]
    names, geos = (INT_TYPES, INT_GEO) if kind == "interstitial" else (VM_TYPES, VM_GEO)
    # ---- bind
    tb = time.time() - t0
    try:
        if sorted(calc.tags.keys()) != sorted(names):
            raise worlds.ProjectionError("tag types are %s, expected %s" % (sorted(calc.tags.keys()), sorted(names)))
        classes = class_lists(S, calc, kind)
        P = TagParser(ow, chem)
        tagged = [[[P.parse(tn, tag) for tag in cl] for cl in calc.tags[tn]] for tn in names]
        tags = [[[str(t) for t in cl] for cl in calc.tags[tn]] for tn in names]
        tdict = []
        for tag, idx in calc.tagdict.items():
            tt = calc.tagdicttype.get(tag)
            tdict.append([str(tag), names.index(tt) + 1 if tt in names else 0, int(idx) + 1])
        if set(calc.tagdicttype) != set(calc.tagdict):
            raise worlds.ProjectionError("tagdict and tagdicttype have different keys")
    except worlds.ProjectionError as ex:
        out["errors"].append(("projection|tags", str(ex)))
        return out
    types = [{"name": n, "geo": g, "classes": c, "tagged": t} for n, g, c, t in zip(names, geos, classes, tagged)]
    wj = {k: ow[k] for k in ("dim", "M", "D", "basis")}
    out["cases"].append({"kind": "bind", "w": wj, "c": chem + 1, "types": types, "tags": tags, "tagdict": tdict,
                         "limb": kind == "vacancy"})
    out["meta"].append({"kind": "bind", "label": label})
    out["info"] = {"label": label, "classes": [len(c) for c in classes], "tags": len(calc.tagdict),
                   "sites": len(ow["basis"][chem]), "G": len(S["crys"].G)}
    if kind == "interstitial":
        out["info"]["wall"] = round(time.time() - t0, 1)
        return out
    # ---- scenarios: proposed here, DEFINED by TagMap.Scenario (TLC re-derives every dictionary and, for the
    #      exhaustive structures, the complete set of admissible count vectors)
    rng = random.Random(task["seed"] + "-scen")
    sizes = [[len(cl) for cl in calc.tags[tn]] for tn in names]
    nclass = sum(len(s) for s in sizes)
    perm = []
    for s in sizes:
        for n in s:
            p = list(range(1, n + 1))
            rng.shuffle(p)
            perm.append(p)
    flat = [n for s in sizes for n in s]
    qs = [(t + 1, c + 1) for t, s in enumerate(sizes) for c in range(len(s))]
    proposals = []
    if task["exhaustive"]:
        for cnt in itertools.product(*[range(min(2, n) + 1) for n in flat]):
            proposals.append([list(cnt), salt_of(cnt)])
    else:
        for j in range(task["nsamples"]):
            style = j % 4
            cnt = []
            for n in flat:
                if style == 0:
                    c = rng.choice((0, 1, 2))
                elif style == 1:        # mostly complete dictionaries with a few holes / duplicates
                    c = rng.choice((1, 1, 1, 1, 0, 2))
                elif style == 2:        # sparse dictionaries
                    c = rng.choice((0, 0, 0, 1, 2))
                else:
                    c = 1
                cnt.append(min(c, n))
            proposals.append([cnt, rng.randrange(1009)])
    out["cases"].append({"kind": "cover", "sizes": sizes, "perm": perm, "exhaustive": bool(task["exhaustive"]),
                         "list": proposals})
    out["meta"].append({"kind": "cover", "label": label})
    scen = [(j + 1, cnt, salt, salt % 3, scenario(qs, flat, perm, cnt, salt)) for j, (cnt, salt) in enumerate(proposals)]
    # ---- feed
    out["info"].update({"t_build": round(tb, 1)})
    bog = bogus_tags(calc)
    tagid = {}
    for ti, tn in enumerate(names):
        for ci, cl in enumerate(calc.tags[tn]):
            for mi, tag in enumerate(cl):
                tagid.setdefault(tag, [ti + 1, ci + 1, mi + 1])
    for b, t in bog.items():
        tagid[t] = [0, 0, b]
    clsid = {}
    for ti, tn in enumerate(names):
        for ci, cl in enumerate(calc.tags[tn]):
            clsid.setdefault((tn, tuple(cl)), [ti + 1, ci + 1])
    observed, nontriv = [], 0
    for p in scen:
        j, cnt, salt, nb, sup = p
        items = [(calc.tags[names[t - 1]][c - 1][m - 1], (2.0 ** pre, float(ene))) for t, c, m, pre, ene in sup]
        items += [(bog[b], (2.0 ** (2 * b), float(-2 * b))) for b in range(1, nb + 1)]
        random.Random(salt).shuffle(items)
        user = dict(items)
        if len(user) != len(items):
            out["errors"].append(("harness|duplicate-key", "two different tags of scenario %d are the same string" % j))
            continue
        sid = "%s#%d" % ("".join(str(x) for x in cnt), salt)
        try:
            res = calc.tags2preene(user, VERBOSE=True)
        except Exception as ex:      # noqa: BLE001
            out["errors"].append(("raised|%s" % type(ex).__name__, "tags2preene(VERBOSE=True) raised %s: %s on scenario %s" % (
                type(ex).__name__, ex, sid)))
            continue
        try:
            if not (isinstance(res, tuple) and len(res) == 4):
                raise worlds.ProjectionError("tags2preene(VERBOSE=True) did not return four values")
            thermodict, missingdict, duplicatelist, badtaglist = res
            pre, ene = [], []
            for pk, ek in VM_KEYS:
                if pk not in thermodict or ek not in thermodict:
                    raise worlds.ProjectionError("parameter set lacks %s / %s" % (pk, ek))
                a, e = np.asarray(thermodict[pk]), np.asarray(thermodict[ek])
                if a.ndim != 1 or e.ndim != 1:
                    raise worlds.ProjectionError("%s / %s are not one-dimensional arrays" % (pk, ek))
                pre.append([log2int(x, pk) for x in a])
                ene.append([exactint(x, ek) for x in e])
            missing = []
            for tn, lists in missingdict.items():
                for lst in lists:
                    missing.append(clsid.get((tn, tuple(lst)), [names.index(tn) + 1 if tn in names else 0, 0]))
            dup = [[tagid.get(t, [-1, 0, 0]) for t in v] for v in duplicatelist]
            bad = [tagid.get(t, [-1, 0, 0]) for t in badtaglist]
        except worlds.ProjectionError as ex:
            out["errors"].append(("projection|tags2preene", "scenario %s: %s" % (sid, ex)))
            continue
        if any(c == 2 for c in cnt) or (any(c == 0 for c in cnt) and any(c == 1 for c in cnt)):
            nontriv += 1
        observed.append({"id": j, "cnt": cnt, "salt": salt, "fed": sup, "nbogus": nb,
                         "obs": {"pre": pre, "ene": ene, "missing": missing, "dup": dup, "bad": bad}})
    chunk = task["chunk"]
    for a in range(0, len(observed), chunk):
        out["cases"].append({"kind": "scen", "w": wj, "c": chem + 1, "types": types, "sizes": sizes, "perm": perm,
                             "limb": True, "scen": observed[a:a + chunk]})
        out["meta"].append({"kind": "scen", "label": label, "n": len(observed[a:a + chunk])})
    out["info"].update({"scenarios": len(observed), "nontrivial": nontriv, "nclasses": nclass,
                        "exhaustive": bool(task["exhaustive"]), "wall": round(time.time() - t0, 1)})
    out["sample"] = observed[len(observed) // 2] if observed else None
    return out


def tasks_for(ctx, quick):
    tasks = []

    def vm(world, chem, shell, nth, exhaustive=False, nsamples=0, chunk=150):
        tasks.append({"kind": "vacancy", "world": world, "chem": chem, "shell": shell, "nth": nth,
                      "exhaustive": exhaustive, "nsamples": nsamples, "chunk": chunk,
                      "seed": "C15-%d-%s-%d-%d" % (ctx.seed, world, chem, nth)})

    def it(world, chem, shell):
        tasks.append({"kind": "interstitial", "world": world, "chem": chem, "shell": shell, "nth": 0,
                      "seed": "C15-%d-i-%s-%d" % (ctx.seed, world, chem)})

    if quick:
        vm("square", 0, 1, 1, exhaustive=True, chunk=300)
        vm("hex2d", 0, 1, 1, nsamples=200, chunk=100)
        vm("hcp", 0, 2, 1, nsamples=120, chunk=40)          # more sites than site classes
        vm("diamond", 0, 1, 1, nsamples=150, chunk=75)
        vm("honeycomb", 0, 1, 1, nsamples=150, chunk=75)
        vm("l12", 1, 1, 1, nsamples=150, chunk=50)
        vm("polarrect", 1, 2, 1, nsamples=120, chunk=40)    # two site classes
        vm("fcc", 0, 1, 2, nsamples=100, chunk=50)
        for wn, c, sh in (("fccoct", 2, 1), ("hcpoct", 2, 2), ("polarrect", 1, 2), ("honeycomb", 0, 1), ("wurtzite", 1, 1),
                          ("kagome", 0, 1), ("l12", 1, 1)):
            it(wn, c, sh)
    else:
        vm("square", 0, 1, 1, exhaustive=True, chunk=300)
        vm("hex2d", 0, 1, 1, exhaustive=True, chunk=400)
        vm("diamond", 0, 1, 1, exhaustive=True, chunk=300)
        vm("honeycomb", 0, 1, 1, exhaustive=True, chunk=300)
        vm("b2", 0, 1, 1, exhaustive=True, chunk=300)
        for wn, c, sh, nth, ns in (("hcp", 0, 2, 1, 1500), ("l12", 1, 1, 1, 1500), ("polarrect", 1, 2, 1, 1500),
                                    ("fcc", 0, 1, 2, 1000), ("rect2site", 0, 2, 1, 1000), ("kagome", 0, 1, 1, 1000),
                                    ("wurtzite", 0, 1, 1, 1000), ("bcc", 0, 1, 2, 600), ("square", 0, 1, 2, 1000),
                                    ("honeycomb", 0, 1, 2, 1000), ("hcp", 0, 2, 2, 150), ("tet2", 0, 2, 1, 800),
                                    ("sc", 0, 1, 2, 600), ("diamond", 0, 1, 2, 600)):
            vm(wn, c, sh, nth, nsamples=ns, chunk=50 if ns >= 600 else 25)
        from .. import calc as vcalc
        for wn, c, sh in vcalc.INTERSTITIAL_WORLDS:
            it(wn, c, sh)
    return tasks


def model_run(ctx, quick):
    """The dictionary as an object with a history: exhaustive model run on a small class structure."""
    cfg = ("INIT Init\nNEXT Next\nVIEW View\nCONSTANTS\n  CS <- %s\n  REF <- %s\n  MaxBogus = 1\n"
           "INVARIANTS MWellFormed MReportPartition MRouted MLimbIntegral MMemberIrrelevant\n") % (
        ("MCCS", "MCREF") if quick else ("MCCSBig", "MCREFBig"))
    res = tlc.require_clean(tlc.run("TagMapObj", cfg, workers=2 if quick else 8, timeout=1500), "TagMapObj model run")
    ctx.add_model(res)
    ctx.info("tagmapobj_states", res.distinct)


def run(ctx):
    quick = ctx.tier == "quick"
    ctx.rule = ("Interstitial / VacancyMediated calculators on catalogue worlds in random orientation; tags parsed back to grid "
                "geometry and bound to the calculator's class lists and to the definitional symmetry classes by TLC; user "
                "dictionaries defined by TagMap.Scenario (all admissible 0/1/2-member count vectors, enumerated by TLC, on square "
                "[thorough: + hex2d, diamond, honeycomb, b2]; seeded samples of count vectors elsewhere; 0-2 bogus tags) fed to "
                "tags2preene(VERBOSE=True) and judged by TLC; non-trivial = "
                "scenario with a duplicated class or with both covered and uncovered classes")
    from onsager import OnsagerCalc      # noqa: F401 -- import once, before the workers are forked
    tasks = tasks_for(ctx, quick)
    t0 = time.time()
    with ProcessPoolExecutor(max_workers=8 if quick else 12, mp_context=multiprocessing.get_context("fork")) as ex:
        fut = ex.map(record, tasks)
        model_run(ctx, quick)
        results = list(fut)
    ctx.info("t_record_s", round(time.time() - t0, 1))
    cases, metas = [], []
    for r in results:
        for key, what in r["errors"]:
            ctx.case(r["label"] + "|" + key)
            if key.startswith("model|") or key.startswith("harness|"):
                raise tlc.TLCError("%s: %s" % (r["label"], what))
            ctx.violation("%s|%s" % (key, r["label"]), "%s: %s" % (r["label"], what), r["base"])
        for c, m in zip(r["cases"], r["meta"]):
            cases.append(c)
            metas.append((r, m))
        if r.get("info"):
            ctx.sample(r["info"], cap=30)
    t1 = time.time()
    fails, infos, tres, _ = hc.run_cases("Check_C15", cases, shards=8 if quick else 14, timeout=3000)
    ctx.info("t_check_s", round(time.time() - t1, 1))
    ctx.info("shard_walls_s", [round(r.wall, 1) for r in tres])
    for res in tres:
        ctx.add_model(res)
    nscen = 0
    byrun = {}
    for i, (r, m) in enumerate(metas):
        if m["kind"] == "bind":
            ctx.case("bind|" + r["label"], nontrivial=infos.get(i, {}).get("classes_with_several_members", 0) > 0)
            ctx.traces += 1
        elif m["kind"] == "scen":
            nscen += m["n"]
        for f in fails.get(i, []):
            if m["kind"] != "bind" and f[0].startswith("model_"):
                # the scenario machinery itself (harness copy of the generator, lemmas of the model): not a verdict
                raise tlc.TLCError("%s: model-level clause %s fails in a %s case (scenario %s)" % (
                    r["label"], f[0], m["kind"], f[1]))
            byrun.setdefault((r["label"], m["kind"]), {"r": r, "case": cases[i], "f": {}})["f"].setdefault(f[0], []).append(f[1])
    for r in results:
        info = r.get("info") or {}
        for n in range(info.get("scenarios", 0)):
            ctx.case((r["label"], n), nontrivial=n < info.get("nontrivial", 0))
    ctx.traces += nscen
    for (label, kind), v in sorted(byrun.items()):
        clauses = sorted(v["f"])
        first = {c: sorted(v["f"][c])[0] for c in clauses}
        payload = {"base": v["r"]["base"], "failing_clauses": first}
        if kind == "scen":
            bad = [s for s in v["case"]["scen"] if s["id"] in first.values()]
            payload["scenario"] = bad[:1] or v["case"]["scen"][:1]
            payload["sizes"] = v["case"]["sizes"]
            payload["perm"] = v["case"]["perm"]
            nbad = len({j for c in clauses for j in v["f"][c]})
            what = "%s: tags2preene(VERBOSE=True) fails clause(s) %s of Check_C15 on %d scenario(s); first: %s" % (
                label, clauses, nbad, payload["scenario"][0] if payload["scenario"] else None)
        else:
            payload["types"] = [{"name": t["name"], "classes": [len(c) for c in t["classes"]]} for t in v["case"]["types"]]
            what = "%s: generated tags fail clause(s) %s of Check_C15 (class sizes per type: %s)" % (
                label, clauses, payload["types"])
        if any(c.startswith("model_") for c in clauses) and all(c.startswith("model_") for c in clauses):
            ctx.violation("model|%s|%s" % ("+".join(clauses), label), what, payload)
        else:
            ctx.violation("clause|%s|%s" % ("+".join(clauses), label), what, payload)
    ctx.info("calculators", len(results))
    ctx.info("scenarios", nscen)
    ctx.exhaustive = False
    for r in results:
        if r.get("sample"):
            ctx.sample({"label": r["label"], "scenario": r["sample"]}, cap=32)
            break
