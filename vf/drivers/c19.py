"""C19 -- constructing a Crystal from any supercell description (reduction enabled) recovers the same crystal.

For a base world w and an integer matrix S (every sublattice of index 2..6 via Hermite normal forms, re-described by a
random unimodular matrix of determinant +-1) the exact supercell description Super(w, S) (worlds.supercell_world) is
handed to Crystal() with the lattice A.S in a random orientation, atoms of each species in random order and jitter
<= 1e-10.  The constructed crystal is read back as an integer world; spec/world/Check_C19.tla (TLC) computes the
invariants of the crystal definitionally from w (pure translations, atoms per primitive cell, volume per atom, order
of the space group modulo the lattice) and from the constructed world, and decides every clause.
Crystal() spends most of its time in genBZG, so the constructions run in a (seeded, deterministic) process pool.
"""
import itertools
import json
import multiprocessing
import random
import traceback

import numpy as np

from .. import superlat, tlc, worlds

LEVEL = "model_checking"

FIXED_Q = ["fcc", "hcp", "square", "b2"]


# reduce() looks for translations among the atoms of the smallest species: worlds whose smallest species comes last and
# has several atoms per cell (so it has translations of its own that the other species do not share)
SMALL_LAST = [(4, 2), (6, 2), (3, 2), (3, 3, 2), (4, 2, 2)]


def dense_world(rng, dim, patterns=None):
    """A random multi-species decoration of a coarse grid (D = 2 in 3D, D = 4 in 2D): sublattices of single species
    then have many translations of their own that are NOT translations of the crystal, and the world itself may be
    a non-primitive description."""
    lat = rng.choice([k for k, m in worlds.LATTICES.items() if len(m) == dim])
    pattern = rng.choice(patterns or [(4, 2), (2, 4), (2, 2, 2), (4, 2, 2), (3, 2), (2, 2), (1, 2, 2), (4, 4),
                                      (3, 3, 2), (2, 1, 2)])
    D = 2 if dim == 3 else 4
    grid = list(itertools.product(range(D), repeat=dim))
    if sum(pattern) > len(grid):
        pattern = pattern[:2]
    rng.shuffle(grid)
    basis, pos = [], 0
    for n in pattern:
        basis.append([list(u) for u in grid[pos:pos + n]])
        pos += n
    w = worlds.W(lat, D, basis)
    w["name"] = "dense-%s-D%d-%s" % (lat, D, "_".join(str(n) for n in pattern))
    return w


def base_worlds(ctx):
    rng = ctx.rng
    names = sorted(worlds.CATALOGUE)
    if ctx.tier == "quick":
        chosen = list(FIXED_Q) + rng.sample([n for n in names if n not in FIXED_Q], 1)
        wl = [dict(worlds.CATALOGUE[n], name=n) for n in chosen]
        wl += [worlds.random_world(rng, dim=rng.choice((2, 3)), maxatoms=3)]
        wl += [dense_world(rng, 3, SMALL_LAST), dense_world(rng, 3, SMALL_LAST), dense_world(rng, 3), dense_world(rng, 2)]
        return wl, 26
    wl = [dict(worlds.CATALOGUE[n], name=n) for n in names]
    for i in range(10):
        wl.append(worlds.random_world(rng, dim=2 if i % 3 == 0 else 3, maxatoms=4))
    for i in range(16):
        wl.append(dense_world(rng, 2 if i % 4 == 0 else 3, SMALL_LAST if i % 2 else None))
    return wl, None


def construct(w, S, rng):
    """Hand the exact supercell description of w by S to Crystal().
    Returns (sw, crys or None, exception name, where, message, jitter)."""
    from onsager import crystal
    sw = worlds.supercell_world(w, S)
    A = worlds.lattice_of(w, rng, 1.0, True)
    # 2e-6 is a noisy (e.g. relaxed-structure) description: it is given with a matching threshold of 2e-5
    jitter = rng.choice((0.0, 0.0, 1e-12, 1e-10, 2e-6))
    basis, ibasis = [], []
    for sp in sw["basis"]:
        ilst = [list(u) for u in sp]
        rng.shuffle(ilst)
        ibasis.append(ilst)
        lst = [np.array(u, dtype=float) / sw["D"] for u in ilst]
        if jitter:
            lst = [x + np.array([rng.uniform(-jitter, jitter) for _ in x]) for x in lst]
        basis.append(lst)
    sw["basis"] = ibasis          # the description exactly as handed over (atom order included)
    chem = ["S%d" % c for c in range(len(basis))]
    try:
        kw = {"threshold": 2e-5} if jitter > 1e-8 else {}
        crys = crystal.Crystal(np.dot(A, np.array(S, dtype=float)), basis, chemistry=chem, **kw)
    except Exception as ex:      # noqa: BLE001 -- the exception class is the observation
        fr = [f.name for f in traceback.extract_tb(ex.__traceback__) if "onsager" in f.filename]
        return sw, None, type(ex).__name__, fr[-1] if fr else "?", str(ex), jitter
    return sw, crys, "", "", "", jitter


def pure_translations(basis, D):
    """All vectors t (grid units, mod D) with basis + t = basis for every species -- exact integers."""
    d = len(basis[0][0])
    sets = [set(tuple(u) for u in sp) for sp in basis]
    small = min(basis, key=len)
    out = []
    for u in small:
        t = tuple((u[k] - small[0][k]) % D for k in range(d))
        if all(tuple((v[k] + t[k]) % D for k in range(d)) in sets[c] for c, sp in enumerate(basis) for v in sp):
            out.append(t)
    return out


def description_class(sw, ntrans):
    """An INPUT-level signature of a supercell description (used only to key findings, never for a verdict).

    Scan the atoms of the (first) smallest species in the order given; take the first difference to the first
    atom that is a translation of the whole description and write it as T/M with M = gcd of the species' atom
    counts.  "first-nonunit": the smallest non-zero |T_k| does not divide M and the other T's (so {t, a_i, a_j} do
    not generate the lattice); "first-unit-final": it does, and t alone generates all `ntrans` translations of the
    description; "first-unit-more": it does, but further translations remain; "irreducible": none."""
    import math
    basis, D = sw["basis"], sw["D"]
    d = sw["dim"]
    counts = [len(sp) for sp in basis]
    M = 0
    for c in counts:
        M = math.gcd(M, c)
    if M == 1:
        return "irreducible"
    sidx = min(range(len(counts)), key=counts.__getitem__)
    sets = [set(tuple(u) for u in sp) for sp in basis]
    init = basis[sidx][0]
    for u in basis[sidx][1:]:
        tn = [u[k] - init[k] for k in range(d)]
        if any((M * x) % D for x in tn):
            continue
        T = [M * x // D for x in tn]
        if not all(tuple((v[k] + tn[k]) % D for k in range(d)) in sets[c] for c, sp in enumerate(basis) for v in sp):
            continue
        m = min(abs(x) for x in T if x)
        if M % m or any(x % m for x in T):
            return "first-nonunit"
        g = M
        for x in T:
            g = math.gcd(g, x)
        return "first-unit-final" if M // g == ntrans else "first-unit-more"
    return "irreducible"


def do_chunk(args):
    """Worker: a list of (index n, HNF H) for one world, with its own seed."""
    w, items, seed = args
    rng = random.Random(seed)
    out = []
    for (n, H) in items:
        H = np.array(H, dtype=int)
        S = superlat.redescribe(rng, H, maxentry=4)
        sw, crys, exc, where, msg, jitter = construct(w, S, rng)
        sw = {kk: sw[kk] for kk in ("dim", "M", "D", "basis")}
        run_ = {"S": S.tolist(), "sw": sw, "raised": exc, "rh": False, "nG": 0, "o": 1}
        info = {"n": n, "H": H.tolist(), "S": S.tolist(), "jitter": jitter, "msg": msg, "where": where,
                "ow": None, "projection": "",
                "cls": description_class(sw, n * len(pure_translations(w["basis"], w["D"])))}
        if crys is not None:
            try:
                # noise in supercell coordinates is amplified by the supercell matrix in the reduced cell's coordinates
                amp = float(np.max(np.sum(np.abs(S), axis=1))) + 1.0
                info["ow"] = worlds.observe(crys, 1.0, Dhint=w["D"], postol=2 * amp * jitter if jitter > 1e-8 else 0.0)
                run_.update({"rh": bool(np.linalg.det(crys.lattice) > 0), "nG": len(crys.G)})
            except worlds.ProjectionError as ex:
                info["projection"] = str(ex)
        out.append((run_, info))
    return out


def idet(M):
    return superlat.idet(M)


def run(ctx):
    rng = ctx.rng
    quick = ctx.tier == "quick"
    ctx.rule = ("base worlds (catalogue + random decorations, 2D and 3D, possibly non-primitive) x every sublattice of "
                "index 2..6 (Hermite normal forms; sampled in the quick tier) re-described by a random unimodular "
                "matrix (det +-1), atoms shuffled, jitter <= 1e-10, random orientation; invariants decided by TLC "
                "against the definitional model; non-trivial = distinct (world, sublattice) whose construction "
                "returned a crystal")
    wl, nS = base_worlds(ctx)
    tasks = []
    for wi, w in enumerate(wl):
        allS = [(n, H.tolist()) for n in range(2, 7) for H in superlat.hnfs(w["dim"], n)]
        if nS is not None and len(allS) > nS:
            allS = rng.sample(allS, nS)
        for i in range(0, len(allS), 8):
            tasks.append((wi, (w, allS[i:i + 8], rng.getrandbits(48))))
    with multiprocessing.get_context("fork").Pool(8 if quick else 14) as pool:
        chunks = pool.map(do_chunk, [t[1] for t in tasks], chunksize=1)
    perworld = {}
    for (wi, _), res in zip(tasks, chunks):
        perworld.setdefault(wi, []).extend(res)
    cases, meta = [], []
    dropped = 0
    for wi, w in enumerate(wl):
        d = w["dim"]
        obs, obskeys, runs, rmeta = [], {}, [], []
        for run_, info in perworld.get(wi, []):
            n, S = info["n"], info["S"]
            if info["projection"]:
                ctx.case((w["name"], str(info["H"])))
                ctx.violation("projection|%s|det=%d" % (w["name"], n),
                              "world %s, S=%s: constructed crystal cannot be read back exactly: %s" % (
                                  w["name"], S, info["projection"]), {"world": w, "S": S, "jitter": info["jitter"]})
                continue
            ow = info.pop("ow")
            if ow is not None:
                nat = sum(len(sp) for sp in ow["basis"])
                natw = sum(len(sp) for sp in w["basis"])
                if max(abs(idet(ow["M"])) * natw ** 2, abs(idet(w["M"])) * ow["q"] ** d * nat ** 2) >= 2 ** 31:
                    dropped += 1          # would overflow TLC's integers; never expected with these worlds
                    continue
                key = json.dumps(ow, sort_keys=True)
                if key not in obskeys:
                    obs.append(ow)
                    obskeys[key] = len(obs)
                run_["o"] = obskeys[key]
            runs.append(run_)
            rmeta.append(info)
        cases.append({"w": {kk: w[kk] for kk in ("dim", "M", "D", "basis")}, "obs": obs, "runs": runs})
        meta.append((w, rmeta))
    fails, infos, results = tlc.run_cases("Check_C19", cases, shards=5 if quick else 14, timeout=2400)
    for r in results:
        ctx.add_model(r)
    stats = {"constructions": 0, "raised": 0, "distinct_constructed_worlds": 0, "nonprimitive_base_worlds": 0,
             "left_handed_descriptions": 0}
    for ci, (w, rmeta) in enumerate(meta):
        c = cases[ci]
        stats["distinct_constructed_worlds"] += len(c["obs"])
        stats["nonprimitive_base_worlds"] += infos.get(ci, {}).get("kk", 1) > 1
        runfails = {}
        for cl in fails.get(ci, []):
            name, j = cl.split("@")
            runfails.setdefault(int(j) - 1, []).append(name)
        for j, (r, info) in enumerate(zip(c["runs"], rmeta)):
            stats["constructions"] += 1
            stats["raised"] += bool(r["raised"])
            stats["left_handed_descriptions"] += idet(r["S"]) < 0
            ck = "class:%s:%s" % (info["cls"], "raised" if r["raised"] else "constructed")
            stats[ck] = stats.get(ck, 0) + 1
            ctx.case("%s|%s" % (w["name"], info["H"]), nontrivial=not r["raised"])
            if j not in runfails:
                continue
            names = sorted(runfails[j])
            if any(nm.startswith("harness_") for nm in names):
                raise tlc.TLCError("harness: supercell description of %s by %s is not exact" % (w["name"], r["S"]))
            exc = "%s@%s" % (r["raised"], info["where"]) if r["raised"] else "-"
            ctx.violation("clause|%s|%s|%s|%s|det=%d" % ("+".join(names), exc, info["cls"], w["name"], info["n"]),
                          "world %s, supercell matrix %s (index %d, jitter %g): Crystal(A.S, basis)%s fails clause(s) %s; "
                          "constructed world: %s, %d operations, right-handed=%s" % (
                              w["name"], r["S"], info["n"], info["jitter"],
                              " raised %s in %s (%s)" % (r["raised"], info["where"], info["msg"]) if r["raised"] else "",
                              names, c["obs"][r["o"] - 1] if not r["raised"] else None, r["nG"], r["rh"]),
                          {"world": w, "run": r, "info": info})
    ctx.traces += stats["constructions"]
    for kk, v in stats.items():
        ctx.info(kk, int(v))
    ctx.info("dropped_for_integer_range", dropped)
    ctx.info("base_worlds", [w["name"] for w, _ in meta])
    if cases:
        ctx.sample({"world": cases[0]["w"], "first_run": {kk: v for kk, v in cases[0]["runs"][0].items() if kk != "sw"},
                    "n_obs": len(cases[0]["obs"])})
        ctx.sample({"world": cases[-1]["w"], "obs0": cases[-1]["obs"][:1]})
