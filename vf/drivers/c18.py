"""C18 -- the crystal's symmetry group is a correct group of self-isometries.

Worlds (catalogue + random decorations + spin textures) are realised as Crystals in random orientations
with every option (reduction on/off, NOSYM, jitter below threshold, small strain); the crystal is read back
as an exact integer world and every reported GroupOp is projected to integers; spec/world/Check_C18.tla
(TLC) decides isometry, atom/species/spin mapping, indexmap = geometric permutation, Cartesian = lattice
rotation, distinctness and the group axioms modulo lattice translations against the definitional model.
"""
import numpy as np

from .. import tlc, worlds

LEVEL = "model_checking"


def spin_worlds():
    W = worlds.W
    out = []
    w = W("bcc", 2, [[[0, 0, 0]]])      # placeholder replaced below: AFM simple cubic (two sites, +1/-1)
    w = W("sc", 2, [[[0, 0, 0], [1, 1, 1]]])
    w["spin"] = [[[1], [-1]]]
    w["name"] = "afm-b2"
    out.append(w)
    w = W("sc", 2, [[[0, 0, 0], [1, 1, 1]]])
    w["spin"] = [[[1], [1]]]            # ferromagnetic: reducible to bcc
    w["name"] = "fm-b2"
    out.append(w)
    w = W("hexp", 2, [[[1, 0, 0], [0, 1, 0], [1, 1, 0]]])    # kagome layers, all-out 120-degree vector spins
    w["spin"] = [[[1, -2, 0], [-2, 1, 0], [1, 1, 0]]]
    w["name"] = "kagome-allout"
    out.append(w)
    w = W("hexp", 2, [[[1, 0, 0], [0, 1, 0], [1, 1, 0]]])    # kagome, spins along c alternating? (all up)
    w["spin"] = [[[0, 0, 1], [0, 0, 1], [0, 0, 1]]]
    w["name"] = "kagome-up"
    out.append(w)
    w = W("hexp", 3, [[[0, 0, 0], [1, 2, 0], [2, 1, 0]]])    # sqrt3 x sqrt3 Neel texture on a triangular lattice
    w["spin"] = [[[1, 0, 0], [0, 1, 0], [-1, -1, 0]]]
    w["name"] = "neel-r3"
    out.append(w)
    w = W("square", 2, [[[0, 0], [1, 1]]])                   # 2D checkerboard antiferromagnet
    w["spin"] = [[[1], [-1]]]
    w["name"] = "afm-square"
    out.append(w)
    w = W("tetra", 2, [[[0, 0, 0]], [[1, 1, 1]]])            # vector spin along a on one species
    w["spin"] = [[[1, 0, 0]], [[]]]
    w["name"] = "tetra-spin-a"
    out.append(w)
    return out


def make_crystal(w, rng, **kw):
    """Realise world w (with optional spins) -> (crys, unit, spinnorm)."""
    A = worlds.lattice_of(w, rng, 1.0, True)
    spins, norm = None, 1.0
    if "spin" in w:
        spins = []
        first = None
        for sp in w["spin"]:
            lst = []
            for s in sp:
                if len(s) == 0:
                    lst.append(0)
                elif len(s) == 1:
                    lst.append(float(s[0]))
                else:
                    v = np.dot(A, np.array(s, dtype=float))
                    if first is None and np.linalg.norm(v) > 0:
                        first = np.linalg.norm(v)
                    lst.append(v / (first or 1.0))
            spins.append(lst)
        norm = first or 1.0
    from onsager import crystal
    jitter = kw.pop("jitter", 0.0)
    basis = []
    for sp in w["basis"]:
        basis.append([np.array(u, dtype=float) / w["D"] +
                      (np.array([rng.uniform(-jitter, jitter) for _ in u]) if jitter else 0.0) for u in sp])
    crys = crystal.Crystal(A, basis, spins=spins, **kw)
    return crys, 1.0, norm


def observe_spins(crys, w, norm, D):
    if crys.spins is None:
        return [[[] for _ in sp] for sp in crys.basis]
    out = []
    for sp in crys.spins:
        lst = []
        for s in sp:
            if isinstance(s, (int, float, complex, np.number)):
                if abs(s) < 1e-12:
                    lst.append([])
                else:
                    lst.append([int(worlds.iround(np.real(s), 1e-6, "scalar spin"))])
            else:
                v = np.dot(crys.invlatt, np.asarray(s, dtype=float)) * norm
                lst.append([int(x) for x in worlds.iround(v, 1e-6, "vector spin in lattice coordinates")])
        out.append(lst)
    return out


def run(ctx):
    quick = ctx.tier == "quick"
    ctx.rule = ("catalogue + random decorated worlds (2D/3D, 1-3 species, spins) x {default, noreduce, NOSYM, jitter "
                "1e-10, strained metric}, random orientation; every reported operation checked by TLC against the "
                "definitional integer model; non-trivial = distinct observed world whose group has order > 1")
    rng = ctx.rng
    wl = [dict(w, name=n) for n, w in worlds.CATALOGUE.items()] + spin_worlds()
    nrand = 40 if quick else 400
    for _ in range(nrand):
        wl.append(worlds.random_world(rng, maxatoms=4))
    strained = []
    for base in ("sc", "fcc", "b2", "square"):     # small strains as near-degenerate integer metrics
        w = dict(worlds.CATALOGUE[base])
        M = np.array(w["M"]) * 100
        M[0][0] += 1
        w["M"] = M.tolist()
        w["name"] = base + "-strained"
        strained.append(w)
    wl += strained
    # non-primitive descriptions with several internal translations that the point operations permute
    # (conventional fcc / rocksalt cells, 2x2(x1), 3x1, sqrt5 x sqrt5): kept as given with noreduce
    nonprim = [("fcc", [[-1, 1, 1], [1, -1, 1], [1, 1, -1]]), ("rocksalt", [[-1, 1, 1], [1, -1, 1], [1, 1, -1]]),
               ("sc", [[2, 0, 0], [0, 2, 0], [0, 0, 1]]), ("square", [[3, 0], [0, 1]]), ("hex2d", [[2, 0], [0, 2]]),
               ("square", [[1, 2], [-2, 1]])]
    if not quick:
        nonprim += [("bcc", [[2, 0, 0], [0, 2, 0], [0, 0, 2]]), ("hcp", [[2, 0, 0], [0, 2, 0], [0, 0, 1]]),
                    ("honeycomb", [[2, 1], [-1, 1]]), ("b2", [[1, 1, 0], [-1, 1, 0], [0, 0, 2]]),
                    ("kagome", [[2, 0], [0, 2]]), ("tetra", [[1, 1, 0], [-1, 1, 0], [0, 0, 2]])]
    for base, S in nonprim:
        w = worlds.supercell_world(dict(worlds.CATALOGUE[base], name=base), S)
        w["name"] = "%s-cell%s" % (base, "".join(str(x) for row in S for x in row).replace("-", "m"))
        w["force_noreduce"] = True
        wl.append(w)
    cases, meta = [], []
    for w in wl:
        opts = [{}]
        if w.get("force_noreduce"):
            opts = [{"noreduce": True}, {}]
        elif len(meta) % 3 == 0 or "spin" in w or not quick:
            opts += [{"noreduce": True}, {"NOSYM": True}, {"jitter": 1e-10}]
        else:
            opts += [rng.choice([{"noreduce": True}, {"NOSYM": True}, {"jitter": 1e-10}])]
        for o in opts:
            key = "%s|%s" % (w["name"], ",".join(sorted(o)) or "default")
            try:
                crys, unit, norm = make_crystal(w, rng, **dict(o))
            except Exception as ex:
                ctx.case(key, nontrivial=False)
                ctx.violation("construct|dim=%d|%s|%s" % (w["dim"], ",".join(sorted(o)) or "default", type(ex).__name__),
                              "constructing the Crystal for world %s with options %s raised %s: %s" % (
                                  w["name"], o, type(ex).__name__, ex), {"world": w, "options": o})
                continue
            scale = 100.0 if w["name"].endswith("-strained") else 1.0
            try:
                ow = worlds.observe(crys, unit / np.sqrt(scale) if False else unit, Dhint=w["D"])
                ow["spin"] = observe_spins(crys, w, norm, ow["D"])
                ops = []
                for g in sorted(crys.G, key=lambda g: (g.rot.tolist(), [round(float(x), 6) for x in g.trans])):
                    if np.asarray(g.rot).shape != (crys.dim, crys.dim) or np.asarray(g.trans).shape != (crys.dim,):
                        raise worlds.ProjectionError("operation of a %dD crystal has rotation of shape %s" % (
                            crys.dim, np.asarray(g.rot).shape))
                    ops.append(worlds.op_project(crys, g, ow["D"]))
                # the object must be usable: derived structures exist
                _ = crys.pointG, crys.Wyckoff
                if crys.N > 0:
                    crys.jumpnetwork(0, 1.01 * np.sqrt(max(np.diag(crys.metric))))
            except worlds.ProjectionError as ex:
                ctx.case(key)
                ctx.violation("projection|dim=%d|%s" % (w["dim"], ",".join(sorted(o)) or "default"),
                              "world %s options %s: %s" % (w["name"], o, ex), {"world": w, "options": o})
                continue
            except Exception as ex:
                ctx.case(key)
                ctx.violation("unusable|dim=%d|%s|%s" % (w["dim"], ",".join(sorted(o)) or "default", type(ex).__name__),
                              "world %s options %s: crystal constructed but unusable: %s: %s" % (
                                  w["name"], o, type(ex).__name__, ex), {"world": w, "options": o})
                continue
            cases.append({"w": ow, "ops": ops, "nosym": bool(o.get("NOSYM", False))})
            meta.append((key, w, o))
    fails, infos, results = tlc.run_cases("Check_C18", cases, shards=12 if not quick else 8)
    for r in results:
        ctx.add_model(r)
    incomplete = 0
    for i, (key, w, o) in enumerate(meta):
        order = infos.get(i, {}).get("order", 0)
        ctx.case(tlc_key(cases[i]), nontrivial=order > 1)
        if not infos.get(i, {}).get("complete", True):
            incomplete += 1
        if i in fails:
            ctx.violation("clause|%s|dim=%d|%s|%s" % ("+".join(sorted(fails[i])), w["dim"],
                                                      ",".join(sorted(o)) or "default",
                                                      "spin" if "spin" in w else "nospin"),
                          "world %s (options %s): reported group fails clause(s) %s of Check_C18; observed world %s, "
                          "%d operations" % (w["name"], o, fails[i], cases[i]["w"], len(cases[i]["ops"])),
                          {"world": w, "options": o, "case": cases[i]})
    ctx.traces += len(cases)
    ctx.info("reported_group_differs_from_definitional_group", incomplete)
    ctx.sample({"world": cases[0]["w"], "n_ops": len(cases[0]["ops"]), "first_op": cases[0]["ops"][0]})
    ctx.sample({"world": cases[-1]["w"], "n_ops": len(cases[-1]["ops"])})


def tlc_key(c):
    return str((c["w"]["M"], c["w"]["D"], c["w"]["basis"], c["w"].get("spin"), c["nosym"]))
