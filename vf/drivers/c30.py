"""C30 -- automation tarballs are complete and self-consistent.

Supercell dictionaries come from REAL Interstitial / VacancyMediated calculators (same builders as C29: interstitial
species listed first, binary and ternary hosts, substitutional solute => three or more chemical species in the POSCARs,
diagonal / non-diagonal / symmetry-lowering supercells).  automator.supercelltar writes the archive into memory
(io.BytesIO); it is extracted into a temporary directory under /tmp (deleted afterwards) and exercised:
  * member list, tags.json, and the dependency data base of the archive's Makefile as `make -npk` reads it,
  * every POSCAR-format file read back with Supercell.POSCAR_occ into an emptied supercell,
  * every transformation file parsed to integers,
  * "relaxation" simulated by CONTCAR = the state's POSCAR; for every Makefile rule that builds an endpoint the
    bundled script is really run (perl trans.pl <prerequisites>) and its output recorded (positions on the super grid,
    read back with POSCAR_occ); `make -n` is asked whether any dependency is missing.
The facts are integers and strings only; spec/world/Check_C30.tla (TLC) with spec/obj/Archive.tla decides Bijection,
DepsResolvable, PoscarReadBack and TransReproducesEndpoint (both against the definitional ApplyTrans and against the
given transition endpoint).  Python judges nothing.
"""
import io
import json
import os
import re
import shutil
import subprocess
import tarfile
import tempfile

import numpy as np

from .. import helpers_setup as hs
from .. import superlat, tlc, worlds
from . import c29

LEVEL = "model_checking"

# (calculator kind, world, diffuser species, jump shell, Nthermo, supercell matrix, supercelltar options)
QUICK = [
    ("interstitial", "i_b2", 0, 1, 0, c29.D2, {}),                        # ternary: interstitial + binary host
    ("interstitial", "i_tet3", 0, 1, 0, c29.ROT45, {"basedir": "run1"}),  # ternary, non-diagonal supercell
    ("interstitial", "hcpoct", 2, 2, 0, c29.D221, {"KPOINTS": None}),     # host, octahedral, tetrahedral (diffuser)
    ("interstitial", "i_hex", 0, 2, 0, c29.SHEAR, {}),                    # symmetry-lowering supercell
    ("interstitial", "i_tet3", 0, 1, 0, c29.SHEAR, {}),                   # ... in which an endpoint has no equivalent state
    ("vacancy", "b2", 0, 1, 1, c29.D2, {}),                               # binary host + solute = 3 species
    # (the Makefile template hard-codes the default transition prefix "neb."; non-default statename/transitionname
    #  are outside the property's quantifier and are not varied here)
    ("vacancy", "b2", 1, 1, 1, c29.ROT45, {"IDformat": "{:03d}"}),
    ("vacancy", "fcc", 0, 1, 1, c29.CUB2, {}),
    ("vacancy", "i_hex", 1, 1, 1, c29.D221, {"basedir": "hex/"}),         # ternary host + solute = 4 species
]
THOROUGH = [
    ("vacancy", "l12", 1, 1, 1, c29.SHEAR, {}), ("vacancy", "hcp", 0, 2, 1, c29.SKEW, {}),
    ("interstitial", "fccoct", 1, 1, 0, c29.CUB, {"KPOINTS": None}),
    ("interstitial", "perov", 2, 1, 0, c29.D2, {}), ("interstitial", "perov", 0, 1, 0, c29.SKEW, {}),
    ("interstitial", "monodeco", 1, 2, 0, c29.D122, {}), ("interstitial", "omega", 0, 2, 0, c29.D221, {}),
    ("interstitial", "i_ortho", 0, 2, 0, c29.D212, {}), ("interstitial", "tet2", 1, 1, 0, c29.D2, {}),
    ("interstitial", "wurtzite", 1, 1, 0, c29.D221, {}), ("interstitial", "i_fcc", 0, 1, 0, c29.D3, {}),
    ("vacancy", "perov", 2, 1, 1, c29.D2, {}), ("vacancy", "rocksalt", 1, 1, 1, c29.CUB2, {}),
    ("vacancy", "omega", 0, 1, 1, c29.D2, {}), ("vacancy", "sc", 0, 1, 1, c29.D3, {}),
    ("vacancy", "tet2", 0, 2, 1, c29.ROT45, {}), ("vacancy", "i_tet3", 1, 1, 1, c29.D2, {}),
    ("vacancy", "fccoct", 0, 1, 1, c29.D2, {}), ("vacancy", "bcc", 0, 1, 1, c29.SKEW, {}),
    ("vacancy", "fcc", 0, 1, 2, c29.D3, {}),
]


# ------------------------------------------------------------------ reading the archive

def grid_positions(text, Dn, what):
    """Positions of a POSCAR-format text (after the 'Direct' line) on the super grid, and the counts line."""
    lines = text.split("\n")
    k = next((n for n, l in enumerate(lines) if n > 0 and l[:1] in ("D", "d")), None)
    if k is None:
        raise worlds.ProjectionError("%s has no 'Direct' line" % what)
    counts = [int(x) for x in lines[k - 1].split()]
    pos = []
    for l in lines[k + 1:]:
        f = l.split()
        if len(f) < 3:
            continue
        u = np.array([float(x) for x in f[:3]])
        pos.append([int(x) % Dn for x in worlds.iround(u * Dn, 1e-6, "position in %s (super grid)" % what)])
    return pos, counts


def read_back(sup0, text):
    """POSCAR text -> state of an emptied copy of the supercell, through the real POSCAR_occ."""
    s = sup0.copy()
    try:
        s.POSCAR_occ(text, EMPTY_SUPER=True)
    except Exception as ex:      # noqa: BLE001 -- recorded as a fact
        return {"ok": False, "err": type(ex).__name__, "occ": [], "order": []}
    d = hs.state(s)
    d.update(ok=True, err="")
    return d


def parse_transfile(text, Dn, what):
    L = text.split("\n")
    rot = [[int(x) for x in L[i].split()] for i in (1, 2, 3)]
    if any(len(r) != 3 for r in rot):
        raise worlds.ProjectionError("%s: rotation is not 3x3" % what)
    t = worlds.iround(np.array([float(x) for x in L[4].split()]) * Dn, 1e-6, "translation in %s (super grid)" % what)
    return {"relax": L[0].strip(), "rot": rot, "t": [int(x) % Dn for x in t], "map": [int(x) for x in L[5].split()]}


CENV = dict(os.environ, LC_ALL="C", LANG="C")        # make's data base and messages are parsed: fixed locale
CENV.pop("MAKEFLAGS", None)
CENV.pop("MAKELEVEL", None)
HAVE_MAKE = shutil.which("make") is not None       # without make the Makefile text is parsed instead (see below)

_rule = re.compile(r"^([^\s#:=][^:=]*):(?!=)\s*(.*)$")


def make_database(root):
    """The rules of the Makefile as make reads them (after its implicit-rule search for the default goal)."""
    p = subprocess.run(["make", "-npk"], cwd=root, capture_output=True, text=True, timeout=300, env=CENV)
    out = p.stdout
    i = out.find("# Files")
    if i < 0:
        raise tlc.TLCError("make -p printed no data base:\n" + (out + p.stderr)[-1500:])
    j = out.find("# files hash-table stats", i)
    rules, cur, nottarget = [], None, False
    for line in out[i:j if j > 0 else None].split("\n"):
        if line.startswith("# Not a target"):
            nottarget = True
            continue
        if line.startswith("\t"):
            continue
        if line.startswith("#"):
            if cur is not None and "recipe to execute" in line:
                cur["recipe"] = True
            continue
        m = _rule.match(line)
        if m:
            cur = {"target": m.group(1).strip(), "prereqs": [x for x in m.group(2).split() if x != "|"],
                   "recipe": False}
            if not nottarget and not cur["target"].startswith("."):
                rules.append(cur)
            nottarget = False
        elif not line.strip():
            cur = None
    return rules


def makefile_rules_from_text(root, dirs):
    """Fallback when no `make` is installed: explicit rules as written, pattern rules instantiated with the stem of
    every directory that matches the pattern's first path component (what make's implicit-rule search does here)."""
    with open(os.path.join(root, "Makefile")) as f:
        lines = f.read().split("\n")
    explicit, patterns = {}, []
    for n, line in enumerate(lines):
        m = _rule.match(line)
        if not m or line.startswith("\t") or "$(" in line or m.group(1).strip().startswith("."):
            continue
        target, prereqs = m.group(1).strip(), m.group(2).split()
        recipe = n + 1 < len(lines) and lines[n + 1].startswith("\t")
        if "%" in target:
            patterns.append((target, prereqs, recipe))
        else:
            e = explicit.setdefault(target, {"prereqs": [], "recipe": False})
            e["prereqs"] += prereqs
            e["recipe"] = e["recipe"] or recipe
    rules = []
    for (tp, pp, recipe) in patterns:
        head = tp.split("/")[0]
        pre, _, post = head.partition("%")
        for d in dirs:
            if "/" in d or not (d.startswith(pre) and d.endswith(post) and len(d) > len(pre) + len(post)):
                continue
            stem = d[len(pre):len(d) - len(post)]
            target = tp.replace("%", stem)
            e = explicit.pop(target, {"prereqs": [], "recipe": False})
            rules.append({"target": target, "prereqs": [p.replace("%", stem) for p in pp] + e["prereqs"],
                          "recipe": bool(recipe or e["recipe"])})
    for target, e in explicit.items():
        rules.append({"target": target, "prereqs": e["prereqs"], "recipe": bool(e["recipe"])})
    return rules


def exercise(s, S, sd, opts):
    """Write, extract and exercise one archive; returns the case record for TLC."""
    from onsager import automator
    ow = {k: v for k, v in s.ow.items() if k != "q"}
    sups = list(sd["states"].values()) + [x for ab in sd["transitions"].values() for x in ab]
    sup0 = sups[0]
    Dn = ow["D"] * sup0.size
    stags = list(sd["states"].keys())
    states = [dict(tag=t, **hs.state(sd["states"][t])) for t in stags]
    trans = []
    for t, (a, b) in sd["transitions"].items():
        tm = [{"none": m is None, "st": (stags.index(m[0]) + 1 if m is not None and m[0] in stags else 0)}
              for m in sd["transmapping"][t]]
        trans.append({"tag": t, "a": hs.state(a), "b": hs.state(b), "ntm": len(tm), "tm": tm})
    buf = io.BytesIO()
    with tarfile.open(fileobj=buf, mode="w") as tar:
        automator.supercelltar(tar, sd, **opts)            # <-- the call under test
    buf.seek(0)
    base = opts.get("basedir", "")
    if base and not base.endswith("/"):
        base += "/"
    top = tempfile.mkdtemp(prefix="vf_c30_", dir="/tmp")
    try:
        with tarfile.open(fileobj=buf, mode="r") as tar:
            members = tar.getmembers()
            tar.extractall(top, filter="tar")
        root = os.path.join(top, base) if base else top
        dirs, files, outside = [], [], 0
        for m in members:
            if not m.name.startswith(base):
                outside += 1
                continue
            (dirs if m.isdir() else files).append(m.name[len(base):].rstrip("/"))
        jname = opts.get("JSONdict", "tags.json")
        with open(os.path.join(root, jname)) as f:
            tj = json.load(f)
        tagmap = [{"dir": str(d), "tag": str(t)} for d, t in tj.items()]
        # every POSCAR-format file, read back through the real reader
        poscars = []
        for name in files:
            leaf = name.split("/")[-1]
            if leaf == "POSCAR" or leaf.startswith("POS.") or leaf.startswith("POSCAR."):
                with open(os.path.join(root, name)) as f:
                    rb = read_back(sup0, f.read())
                poscars.append({"path": name, "ok": rb["ok"], "occ": rb["occ"], "order": rb["order"]})
        transfiles = []
        for name in files:
            if name.split("/")[-1].startswith("trans.") and "/" in name:
                with open(os.path.join(root, name)) as f:
                    tf = parse_transfile(f.read(), Dn, name)
                tf["path"] = name
                transfiles.append(tf)
        # "relaxation": every state directory produces a CONTCAR (here: the unrelaxed structure)
        for d in dirs:
            pz = os.path.join(root, d, "POSCAR")
            if os.path.exists(pz):
                shutil.copy(pz, os.path.join(root, d, "CONTCAR"))
        if HAVE_MAKE:
            rules = make_database(root)
            dry = subprocess.run(["make", "-n", "-k"], cwd=root, capture_output=True, text=True, timeout=300, env=CENV)
            makerc = int(dry.returncode)
            missing = re.findall(r"No rule to make target '([^']*)'", dry.stdout + dry.stderr)
        else:
            rules, makerc, missing = makefile_rules_from_text(root, dirs), 0, []
        # run the bundled script exactly as the rules that build endpoints would
        runs = []
        for r in rules:
            if not re.search(r"/POSCAR\.(init|final)$", r["target"]) or not r["prereqs"]:
                continue
            p = subprocess.run(["perl", "trans.pl"] + r["prereqs"], cwd=root, capture_output=True, text=True,
                               timeout=300)
            rec = {"target": r["target"], "trans": r["prereqs"][0], "contcar": r["prereqs"][-1] if len(r["prereqs"]) > 1 else "",
                   "rc": int(p.returncode), "inpos": [], "outpos": [], "counts": [], "ok": False, "occ": [], "order": []}
            if p.returncode == 0:
                cpath = os.path.join(root, rec["contcar"])
                if os.path.exists(cpath):
                    with open(cpath) as f:
                        rec["inpos"], _ = grid_positions(f.read(), Dn, rec["contcar"])
                rec["outpos"], rec["counts"] = grid_positions(p.stdout, Dn, "output of trans.pl for " + r["target"])
                rb = read_back(sup0, p.stdout)
                rec.update(ok=rb["ok"], occ=rb["occ"], order=rb["order"])
            runs.append(rec)
    finally:
        shutil.rmtree(top, ignore_errors=True)
    return {"w": ow, "S": np.array(S).tolist(), "sites": hs.sites_of(sup0, Dn), "kind": s.kind, "chem": s.chem + 1,
            "nchem": int(s.crys.Nchem), "states": states, "trans": trans, "hasref": "reference" in sd,
            "ref": hs.state(sd["reference"]) if "reference" in sd else hs.DUMMY_STATE,
            "dirs": dirs, "files": files, "outside": outside, "tagmap": tagmap, "rules": rules, "poscars": poscars,
            "transfiles": transfiles, "runs": runs, "makeran": HAVE_MAKE, "makerc": makerc, "makemissing": missing}


# ------------------------------------------------------------------ the check

def configurations(ctx):
    rng = ctx.rng
    conf = [(k, hs.world(wn), ch, sh, nt, np.array(S), dict(o)) for (k, wn, ch, sh, nt, S, o) in QUICK]
    if ctx.tier != "quick":
        conf += [(k, hs.world(wn), ch, sh, nt, np.array(S), dict(o)) for (k, wn, ch, sh, nt, S, o) in THOROUGH]
        for n in range(24):     # random decorated worlds, random sublattices
            vac = n % 4 == 3
            w = worlds.random_world(rng, dim=3, maxatoms=3 if vac else 4, nspecies=rng.choice((2, 3)))
            S = superlat.redescribe(rng, rng.choice(superlat.hnfs(3, rng.choice((2, 3, 4, 4, 6, 8)))), maxentry=3)
            conf.append(("vacancy" if vac else "interstitial", w, rng.randrange(len(w["basis"])),
                         1 if vac else rng.choice((1, 2)), 1 if vac else 0, S, {}))
    return conf


def run(ctx):
    rng = ctx.rng
    ctx.rule = ("supercell dictionaries of real Interstitial / VacancyMediated calculators (3 and 4 chemical species, "
                "interstitial species first, non-diagonal and symmetry-lowering supercells, option variants) -> "
                "automator.supercelltar in memory -> extracted, POSCARs read back with POSCAR_occ, Makefile read by "
                "make, trans.pl really run on CONTCAR = POSCAR; all facts decided by TLC (Check_C30 + Archive.tla); "
                "non-trivial = endpoint built by a transformation whose site permutation or reordering is not the "
                "identity, in an archive with three or more species")
    if shutil.which("perl") is None:
        raise tlc.TLCError("perl is needed to run the bundled trans.pl (C30 cannot be decided without it)")
    ctx.info("make_available", HAVE_MAKE)
    try:
        from onsager import automator      # noqa: F401
    except Exception as ex:      # noqa: BLE001
        ctx.case("import")
        ctx.violation("import|automator|%s" % type(ex).__name__,
                      "onsager.automator cannot be imported: %s: %s" % (type(ex).__name__, ex), None)
        return
    cases, meta = [], []
    for (kind, w, chem, shell, nth, S, opts) in configurations(ctx):
        fam = hs.family(w.get("name", "?"))
        setting = "%s|%s|chem%d|%s" % (kind, fam, chem, hs.smat_tag(S))
        try:
            s = hs.interstitial(w, chem, shell, rng) if kind == "interstitial" else hs.vacancy(w, chem, shell, nth, rng)
            sd, nwarn, _ = hs.make_superdict(s, S)
        except Exception as ex:      # noqa: BLE001 -- producing the dictionary is C29's subject
            ctx.info("skipped_" + setting, "%s: %s" % (type(ex).__name__, str(ex)[:80]))
            continue
        try:
            case = exercise(s, S, sd, opts)
        except worlds.ProjectionError as ex:
            ctx.case(setting)
            ctx.violation("projection|%s" % setting, "archive for %s: %s" % (setting, ex),
                          {"world": w, "S": np.array(S).tolist(), "chem": chem, "options": opts})
            continue
        except (tlc.TLCError, subprocess.TimeoutExpired):
            raise
        except Exception as ex:      # noqa: BLE001 -- the call under test (or reading its product) failed
            import traceback
            where = [f.name for f in traceback.extract_tb(ex.__traceback__) if "onsager" in f.filename]
            lens = sorted({len(v) for v in sd["transmapping"].values()})
            ctx.case(setting)
            ctx.violation("call|%s|%s|%s|%s" % (where[-1] if where else "harness", type(ex).__name__, kind, fam),
                          "automator.supercelltar for the dictionary of %s (options %s) raised %s: %s (lengths of the "
                          "transmapping tuples: %s)" % (setting, opts, type(ex).__name__, ex, lens),
                          {"world": w, "S": np.array(S).tolist(), "chem": chem, "options": opts})
            continue
        cases.append(case)
        meta.append((kind, fam, setting, w, opts))
    import time
    t_tlc = time.time()
    ctx.info("wall_s_recording", round(t_tlc - ctx.t0, 1))
    fails, infos, results = tlc.run_cases("Check_C30", cases, shards=8 if ctx.tier == "quick" else 14, timeout=2400)
    ctx.info("wall_s_tlc", round(time.time() - t_tlc, 1))
    ctx.info("wall_s_tlc_shards", [round(r.wall, 1) for r in results])
    for r in results:
        ctx.add_model(r)
    hs.require_all_fails_read(results)
    stats = {"archives": len(cases), "archives_three_or_more_species": 0, "poscars_read_back": 0, "script_runs": 0,
             "script_runs_nonidentity": 0, "rules": 0, "unrelaxed_endpoints": 0}
    for ci, (kind, fam, setting, w, opts) in enumerate(meta):
        c = cases[ci]
        nspec = len(c["states"][0]["order"]) if c["states"] else 0
        stats["archives_three_or_more_species"] += nspec >= 3
        stats["poscars_read_back"] += len(c["poscars"])
        stats["rules"] += len(c["rules"])
        stats["unrelaxed_endpoints"] += sum(e["none"] for t in c["trans"] for e in t["tm"])
        ctx.case("archive|" + setting, nontrivial=nspec >= 3 and len(c["dirs"]) > 1)
        tfs = {tf["path"]: tf for tf in c["transfiles"]}
        for r in c["runs"]:
            stats["script_runs"] += 1
            tf = tfs.get(r["trans"])
            nonid = bool(tf) and (tf["map"] != list(range(len(tf["map"]))) or tf["rot"] != hs.I3 or any(tf["t"]))
            stats["script_runs_nonidentity"] += nonid
            ctx.case("%s|%s" % (setting, r["target"]), nontrivial=nonid and nspec >= 3)
        for cl in sorted(set(fails.get(ci, []))):
            name, lev, j, end = hs.split_clause(cl)
            if end:
                name += {"i": "(init)", "f": "(final)"}.get(end, end)
            rec, level = None, "archive"
            if lev == "s":
                rec, level = c["states"][j - 1], "state"
            elif lev == "t":
                rec, level = c["trans"][j - 1], "transition"
            detail = ""
            if level == "archive":
                detail = "dirs=%s tagmap=%s makemissing=%s makerc=%s" % (c["dirs"], c["tagmap"], c["makemissing"], c["makerc"])
            else:
                detail = "%s %r" % (level, rec["tag"])
                d = next((m["dir"] for m in c["tagmap"] if m["tag"] == rec["tag"]), None)
                detail += " (directory %s); transformation files %s; script runs %s" % (
                    d, [(tf["path"], tf["relax"], tf["rot"], tf["t"], tf["map"]) for tf in c["transfiles"]
                        if d and tf["path"].startswith(d + "/")],
                    [(r["target"], r["rc"], r["counts"]) for r in c["runs"] if d and r["target"].startswith(d + "/")])
            ctx.violation("clause|%s|%s|%s|%s|%s" % (name, kind, level, fam, hs.smat_tag(c["S"])),
                          "supercelltar archive for %s (options %s): clause %s of Check_C30 fails; %s" % (
                              setting, opts, name, detail[:1200]),
                          {"world": w, "S": c["S"], "chem": c["chem"], "options": opts, "record": rec,
                           "tagmap": c["tagmap"], "rules": c["rules"], "files": c["files"]})
    ctx.traces += len(cases)
    for kk, v in stats.items():
        ctx.info(kk, int(v))
    if cases:
        c = cases[0]
        ctx.sample({"setting": meta[0][2], "dirs": c["dirs"], "tagmap": c["tagmap"][:3], "rules": c["rules"][:3]})
        if c["runs"]:
            ctx.sample({"setting": meta[0][2], "run": {k: c["runs"][0][k] for k in ("target", "trans", "contcar", "rc", "counts")},
                        "transfile": c["transfiles"][0]})
