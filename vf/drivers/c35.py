"""C35 -- the compiled (numba) sampler behaves exactly like the reference sampler.

spec/obj/SamplerJit.tla extends Sampler.tla with the compiled sampler's arrays and index table and is
model-checked exhaustively on small supercells (invariants IndexConsistent, JDeltaEqRef, JTransEqRef,
CntIsFunctionOfOcc; action property BatchIsStepwise).  Every edge of the TLC graph (start, swap update,
Metropolis batch) is replayed on a real MonteCarloSampler_jit AND the reference MonteCarloSampler in
lockstep: arrays, counters, energies, trial energy changes and transition tables are compared with the
model node and with each other, and each batch is compared with move-by-move application.  Random long
API-only histories are validated by TLC (Trace_C35).
"""
import json
import os

import numpy as np

from .. import samplers, tlc
from ..tlc import to_tla

LEVEL = "model_checking"
INVARIANTS = ["IndexConsistent", "JDeltaEqRef", "JTransEqRef", "CntIsFunctionOfOcc", "SetsPartition"]


def make_jit(MC):
    from onsager import cluster
    return cluster.MonteCarloSampler_jit(**cluster.MonteCarloSampler_param(MC))


def jproject(J, vac):
    no, nu = int(J.Nocc), int(J.Nunocc)
    return {"occ": [int(x) for x in J.occ], "cnt": [int(x) for x in J.clustercount],
            "oarr": [int(x) + 1 for x in J.occupied_set[:no]], "uarr": [int(x) + 1 for x in J.unoccupied_set[:nu]],
            "idx": [(0 if i + 1 == vac else int(J.index[i]) + 1) for i in range(len(J.occ))]}


def jinject(J, n):
    occ = np.array(n["occ"], dtype=int)
    J.occ[:] = occ
    J.clustercount[:] = np.array(n["cnt"], dtype=int)
    J.Nocc, J.Nunocc = len(n["oarr"]), len(n["uarr"])
    J.occupied_set[:] = 0
    J.unoccupied_set[:] = 0
    for k, i in enumerate(n["oarr"]):
        J.occupied_set[k] = i - 1
    for k, i in enumerate(n["uarr"]):
        J.unoccupied_set[k] = i - 1
    for i, p in enumerate(n["idx"]):
        J.index[i] = p - 1


def jobserve(J, tab):
    E = float(J.E())
    T = []
    if tab["Jumps"]:
        ij, Q, dx = J.transitions()
        for n, jr in enumerate(tab["Jumps"]):
            if (int(ij[n][0]) + 1, int(ij[n][1]) + 1) != (jr["i"], jr["j"]) or not np.allclose(dx[n], jr["dx"]):
                raise AssertionError("compiled jump table differs from the reference jump list at %d" % n)
            T.append([0, 0.0] if np.isinf(Q[n]) else [1, float(Q[n])])
    return E, T


def same(p, n):
    return all(p[k] == list(n[k]) for k in ("occ", "cnt", "oarr", "uarr", "idx"))


def batches(NS, vac, rng, n):
    nsite = NS - (1 if vac else 0)
    out = []
    for _ in range(n):
        L = rng.choice((1, 1, 2, 3))
        out.append([[rng.randint(1, max(1, nsite - 1)), rng.randint(1, max(1, nsite - 1)),
                     rng.choice((-3, -1, 0, 1, 2, 5, 100))] for _ in range(L)])
    return out


def run(ctx):
    quick = ctx.tier == "quick"
    ctx.rule = ("TLC state graph of SamplerJit.tla (all occupations x array orders reachable by swaps and Metropolis "
                "batches); each edge replayed on the real compiled sampler and the reference sampler in lockstep; "
                "non-trivial = edge that changes the state; plus random API-only histories validated by TLC")
    cfgs = ["sc221j", "sc221v", "b2s221", "fccnd"]
    if not quick:
        # (b2s221v / hcp221v / tet2_211 with 60 batches exceed the TLC time limit of 3000 s: their state graphs are in
        # C33/C34; here the compiled sampler is additionally traced on them through trace_check-sized instances)
        cfgs += ["sc311j"]
    for name in cfgs:
        graph_check(ctx, name, nb=20 if quick else 60)
    # (hcp221p: pair clusters only -- the triplet expansion on hcp221 made one trace batch exceed the TLC time limit)
    for name in (["sc332", "sc332v"] if quick else ["sc332", "sc332v", "fcc222", "fcc222v", "hcp221p"]):
        trace_check(ctx, name, 4 if quick else 20, 120)


def jmodule(tab, swaps, bts, base, name):
    extra = "MCSwaps == {%s}\nMCBatches == {%s}\n" % (
        ", ".join(to_tla(list(s)) for s in swaps), ", ".join(to_tla(b) for b in bts))
    mod, cfg = samplers.mc_module(name, base, tab, [], [([a], [b]) for a, b in swaps], extra_defs=extra)
    cfg += "  Swaps <- MCSwaps\n  Batches <- MCBatches\n"
    return mod, cfg


def graph_check(ctx, name, nb):
    s = samplers.build(name, ctx.rng)
    tab = samplers.tables(s)
    NS, vac = tab["NS"], tab["Vac"]
    sites = [i for i in range(1, NS + 1) if i != vac]
    swaps = [(a, b) for a in sites for b in sites if a != b]
    bts = batches(NS, vac, ctx.rng, nb)
    wd = tlc.scratch()
    mod, cfg = jmodule(tab, swaps, bts, "SamplerJit", "MC_SamplerJit")
    path = os.path.join(wd, "MC_SamplerJit.tla")
    open(path, "w").write(mod)
    cfg += "\nINIT JInit\nNEXT JNext\n" + "".join("INVARIANT %s\n" % i for i in INVARIANTS)
    res = tlc.run(path, cfg, workers=8, dump=True, workdir=wd, timeout=3000)
    ctx.add_model(res)
    if res.invariant_violated:
        ctx.violation("model|%s|%s" % (name, res.invariant_violated),
                      "TLC: invariant %s of SamplerJit.tla fails on the tables of the real sampler (%s)\n%s" % (
                          res.invariant_violated, name, res.out[-2500:]),
                      {"config": name, "values": s.values, "tlc": res.out[-6000:]})
        return
    tlc.require_clean(res, "SamplerJit %s" % name)
    nodes, edges, inits = tlc.parse_dot(res.dot)
    ctx.exhaustive = True
    ctx.sample({"model": "SamplerJit", "config": name, "sites": NS, "vacancy": vac, "states": res.distinct,
                "edges": len(edges), "batches": bts[:3], "values": s.values})
    MC = s.MC
    # independence: a compiled sampler made from an already STARTED reference sampler is a separate object -- moving
    # the compiled one must leave the reference (occupation, counts, energy, allowed transitions) untouched
    for src, dst, lab in edges:
        aname, args = tlc.parse_action_label(lab)
        if aname != "JUpdate":
            continue
        sn = nodes[src]
        MC.start(np.array(sn["occ"], dtype=int))
        Jx = make_jit(MC)
        before = (samplers.project(MC), float(MC.E()))
        Jx.update(args[0] - 1, args[1] - 1)
        Jx.start(np.array(nodes[dst]["occ"], dtype=int))
        after = (samplers.project(MC), float(MC.E()))
        ctx.case((name, "independent", tuple(sn["occ"])), nontrivial=True)
        if before != after:
            ctx.violation("alias|%s" % name,
                          "%s: moving the compiled sampler created from a started reference sampler changed the "
                          "reference: %s -> %s" % (name, before, after), {"config": name, "occ": sn["occ"]})
        break
    J = make_jit(MC)
    seen = set()
    for src, dst, lab in edges:
        if (src, lab) in seen:
            continue
        seen.add((src, lab))
        aname, args = tlc.parse_action_label(lab)
        sn, dn = nodes[src], nodes[dst]
        jinject(J, sn)
        MC.start(np.array(sn["occ"], dtype=int))
        problems = []
        if aname == "JStart":
            J.start(np.array(args[0], dtype=int))
            MC.start(np.array(args[0], dtype=int))
        elif aname == "JUpdate":
            a, b = args[0] - 1, args[1] - 1
            dj = float(J.deltaE_trial(a, b))
            dr = float(MC.deltaE_trial(occsites=[a], unoccsites=[b]))
            if dj != dr or dj != dn["obs"]["E"] - sn["obs"]["E"]:
                problems.append("deltaE_trial compiled=%s reference=%s model=%s" % (
                    dj, dr, dn["obs"]["E"] - sn["obs"]["E"]))
            J.update(a, b)
            MC.update(occsites=[a], unoccsites=[b])
        elif aname == "JMCmoves":
            batch = args[0]
            oc = np.array([m[0] - 1 for m in batch], dtype=int)
            uc = np.array([m[1] - 1 for m in batch], dtype=int)
            kt = np.array([float(m[2]) for m in batch])
            J2 = J.copy()
            J.MCmoves(oc, uc, kt)
            for o_, u_, k_ in zip(oc, uc, kt):      # move by move on a copy and on the reference sampler
                a, b = int(J2.unoccupied_set[o_]), int(J2.occupied_set[u_])
                d2 = J2.deltaE_trial(a, b)
                dr = MC.deltaE_trial(occsites=[a], unoccsites=[b])
                if float(d2) != float(dr):
                    problems.append("stepwise deltaE compiled=%s reference=%s" % (d2, dr))
                if d2 < k_:
                    J2.update(a, b)
                    MC.update(occsites=[a], unoccsites=[b])
            if not same(jproject(J2, vac), dn):
                problems.append("move-by-move application gives %s" % jproject(J2, vac))
        else:
            raise tlc.TLCError("unknown action " + aname)
        post = jproject(J, vac)
        if not same(post, dn):
            problems.append("compiled sampler state %s" % post)
        ref = samplers.project(MC)
        if ref["occ"] != list(dn["occ"]) or ref["cnt"] != list(dn["cnt"]):
            problems.append("reference sampler state %s" % ref)
        try:
            Ej, Tj = jobserve(J, tab)
            Er, Tr = samplers.observe(MC, tab)
            Tm = [[t[0], float(t[1])] for t in dn["obs"]["T"]]
            if Ej != Er or Ej != dn["obs"]["E"]:
                problems.append("E compiled=%s reference=%s model=%s" % (Ej, Er, dn["obs"]["E"]))
            if Tj != Tm or [[t[0], float(t[1])] for t in Tr] != Tm:
                problems.append("transitions compiled=%s reference=%s model=%s" % (Tj, Tr, Tm))
        except AssertionError as ex:
            problems.append(str(ex))
        ctx.case((name, src, lab), nontrivial=(src != dst))
        if problems:
            ctx.violation("edge|%s|%s" % (name, aname),
                          "%s: from %s, %s%s; model expects %s; %s" % (name, short(sn), aname, args, short(dn),
                                                                      "; ".join(problems)[:1500]),
                          {"config": name, "values": s.values, "from": sn, "action": lab, "expected": dn})
    ctx.traces += len(seen)


def short(n):
    return {k: n[k] for k in ("occ", "oarr", "uarr", "idx")}


def trace_check(ctx, name, ntr, length):
    s = samplers.build(name, ctx.rng)
    tab = samplers.tables(s)
    NS, vac = tab["NS"], tab["Vac"]
    MC = s.MC
    J = make_jit(MC)
    traces = []
    for t in range(ntr):
        ev = []
        for step in range(length):
            r = ctx.rng.random()
            if step == 0 or r < 0.04:
                o = [(-1 if i == vac else ctx.rng.choice((0, 1))) for i in range(1, NS + 1)]
                J.start(np.array(o, dtype=int))
                e = {"ev": "JStart", "o": o, "a": 0, "b": 0, "batch": [], "dE": 0}
            elif r < 0.5 and J.Nocc > 0 and J.Nunocc > 0:
                a = int(J.unoccupied_set[ctx.rng.randrange(int(J.Nunocc))])
                b = int(J.occupied_set[ctx.rng.randrange(int(J.Nocc))])
                dE = J.deltaE_trial(a, b)
                J.update(a, b)
                e = {"ev": "JUpdate", "o": [], "a": a + 1, "b": b + 1, "batch": [], "dE": int(round(dE))}
            elif J.Nocc > 0 and J.Nunocc > 0:
                L = ctx.rng.randint(1, 6)
                batch = [[ctx.rng.randint(1, int(J.Nunocc)), ctx.rng.randint(1, int(J.Nocc)),
                          ctx.rng.choice((-3, -1, 0, 1, 2, 5, 100))] for _ in range(L)]
                J.MCmoves(np.array([m[0] - 1 for m in batch], dtype=int), np.array([m[1] - 1 for m in batch], dtype=int),
                          np.array([float(m[2]) for m in batch]))
                e = {"ev": "JMCmoves", "o": [], "a": 0, "b": 0, "batch": batch, "dE": 0}
            else:
                continue
            e.update(jproject(J, vac))
            Ej, Tj = jobserve(J, tab)
            e["E"] = int(round(Ej))
            e["T"] = [[t_[0], int(round(t_[1]))] for t_ in Tj]
            ev.append(e)
        traces.append(ev)
    wd = tlc.scratch()
    mod, cfg = jmodule(tab, [], [], "Trace_C35", "MCT_C35")
    path = os.path.join(wd, "MCT_C35.tla")
    open(path, "w").write(mod)
    tf = os.path.join(wd, "traces.json")
    json.dump(traces, open(tf, "w"))
    cfg += "\nINIT TInit\nNEXT TNext\nINVARIANT IndexConsistent\n"
    res = tlc.run(path, cfg, workers=1, workdir=wd, env={"TRACE_FILE": tf, "TRACE_VERBOSE": "0"}, timeout=3000)
    tlc.require_clean(res, "Trace_C35 %s" % name)
    ctx.states += res.distinct
    ctx.transitions += res.generated
    accepted = {p[1] for p in res.prints("ACCEPT")}
    for t, tr in enumerate(traces, 1):
        ctx.case(("trace", name, t, ctx.seed), nontrivial=True)
        if t in accepted:
            ctx.traces += 1
            continue
        json.dump([tr], open(tf, "w"))
        r2 = tlc.run(path, cfg, workers=1, workdir=wd, env={"TRACE_FILE": tf, "TRACE_VERBOSE": "1"}, timeout=600)
        steps = [p[2] for p in r2.prints("STEP")]
        bad = (max(steps) + 1) if steps else 1
        e = tr[bad - 1]
        ctx.violation("trace|%s|%s" % (name, e["ev"]),
                      "compiled-sampler history on %s rejected by SamplerJit.tla at event %d: %s" % (
                          name, bad, json.dumps(e)[:800]),
                      {"config": name, "values": s.values, "trace": tr[:bad]})
    ctx.sample({"trace_config": name, "events": [{k: e[k] for k in ("ev", "a", "b", "batch", "dE", "E")}
                                                  for e in traces[0][:4]]})
