"""C14 -- vacancy-mediated results depend only on their inputs, not on call history.

spec/obj/VMCalc.tla enumerates every history (<= MaxDepth steps) of calculations over a pool of inputs,
in-place edits of returned arrays, cache clears, range regeneration and HDF5 save/reload.  Every path of
the TLC state graph is replayed on a real VacancyMediated object (prefixes shared by deep copies, which
preserve aliasing between returned arrays and the object's internals); after every Lij step
spec/rel/Check_Rel.tla decides result = F(range, input), where F is taken from a fresh calculator that
has never been touched.
"""
import copy
import os

import numpy as np

from .. import calc, rel, tlc

LEVEL = "model_checking"


def history_graph(ctx, ninputs, ranges, depth):
    wd = tlc.scratch()
    path = os.path.join(wd, "MC_VMCalc.tla")
    open(path, "w").write("---- MODULE MC_VMCalc ----\nEXTENDS VMCalc\nMCInputs == 1..%d\nMCRanges == %s\n====\n" % (
        ninputs, tlc.to_tla(set(ranges))))
    cfg = ("CONSTANTS\n  Inputs <- MCInputs\n  Ranges <- MCRanges\n  MaxDepth = %d\nSPECIFICATION Spec\n"
           "INVARIANT TypeOK\nINVARIANT ExpectIsFunctionOfRangeAndInput\n" % depth)
    res = tlc.run(path, cfg, workers=4, dump=True, workdir=wd, timeout=900)
    tlc.require_clean(res, "VMCalc")
    ctx.add_model(res)
    nodes, edges, inits = tlc.parse_dot(res.dot)
    out = {}
    for s_, d_, lab in edges:
        out.setdefault(s_, [])
        if (d_, lab) not in out[s_]:
            out[s_].append((d_, lab))
    return nodes, out, inits[0]


def saveload(c):
    import h5py
    from onsager import OnsagerCalc
    f = h5py.File("vf_mem_%d.h5" % id(c), "w", driver="core", backing_store=False)
    c.addhdf5(f.create_group("calc"))
    c2 = OnsagerCalc.VacancyMediated.loadhdf5(f["calc"])
    f.close()
    return c2


class Obj:
    def __init__(self, c):
        self.c = c
        self.handed = {}
        self.twin = None      # after a save/reload: the original object, which follows the same later actions
        self.Ltwin = None


def apply(o, name, args, inputs):
    """Perform one VMCalc action on the real object; returns the Lij result or None."""
    if name == "Lij":
        k = args[0]
        L = o.c.Lij(*o.c.preene2betafree(1.0, **inputs[k]))
        o.handed.setdefault(k, []).append(L)
        o.Ltwin = None
        if o.twin is not None:
            o.Ltwin = [T.copy() for T in o.twin.Lij(*o.twin.preene2betafree(1.0, **inputs[k]))]
        return L
    if name == "Scribble":
        for L in o.handed.pop(args[0], []):
            for T in L:
                T[...] = 7.25
    elif name == "ClearCache":
        for c in (o.c, o.twin):
            if c is not None:
                c.clearcache()
    elif name == "Regenerate":
        for c in (o.c, o.twin):
            if c is not None:
                c.generate(args[0])
                c.generatematrices()
                c.tags, c.tagdict, c.tagdicttype = c.generatetags()
    elif name == "SaveLoad":
        o.twin = copy.deepcopy(o.c)
        o.c = saveload(o.c)
        o.handed = {}
    else:
        raise tlc.TLCError("unknown action " + name)
    return None


def run(ctx, only_saveload=False, pid="C14"):
    quick = ctx.tier == "quick"
    rng = ctx.rng
    ctx.rule = ("every path (<= MaxDepth actions) of the TLC state graph of VMCalc.tla replayed on a real calculator; "
                "non-trivial = Lij step preceded by at least one cache/scribble/regenerate/save-load action")
    # polarrect: sites with a non-zero vector basis (origin states: the cached bias-correction vectors are used)
    worlds_ = [("fcc", 0, 1), ("honeycomb", 0, 1), ("polarrect", 1, 2)] if quick else [
        ("fcc", 0, 1), ("honeycomb", 0, 1), ("polarrect", 1, 2), ("hcp", 0, 2), ("square", 0, 1), ("b2", 0, 1),
        ("rect2site", 0, 2)]
    depth = 4 if quick else 5        # quick: depth 4 on fcc only (see maxlen), 3 elsewhere
    if only_saveload:
        depth = 4 if quick else 6
    nodes, out, root = history_graph(ctx, 2, (1, 2), depth)
    cases, metas = [], []
    for name, chem, shell in worlds_:
        s1 = calc.vacancy(name, chem, shell, 1, rng, orient=False, cache=False)
        base = {1: s1}
        from onsager import OnsagerCalc
        s2 = OnsagerCalc.VacancyMediated(s1.crys, chem, s1.sitelist, s1.jumpnetwork, 2)
        fresh = {1: s1.calc, 2: s2}
        # inputs: tag dictionaries (valid for every range); data for the smaller calculator's classes
        inputs_tags = {}
        for k in (1, 2):
            td = {}
            for ttype, lo, hi in (("vacancy", 0, 1), ("solute", 0, 1), ("solute-vacancy", -1, 1), ("omega0", 3, 5),
                                  ("omega1", 3, 6), ("omega2", 2, 6)):
                for tags in s1.calc.tags[ttype]:
                    td[rng.choice(list(tags))] = (2.0 ** rng.randint(0, 1), rng.randint(lo, hi) * calc.LN2)
            inputs_tags[k] = td
        if name == "fcc":
            # a nearly identical second input (a finite-difference temperature step): cache keys that only
            # agree to 1e-6 must still be treated as different inputs
            inputs_tags[2] = {t: (p, e * (1 + 1e-6)) for t, (p, e) in inputs_tags[1].items()}
        F = {}
        inputs = {}
        for r in (1, 2):
            inputs[r] = {k: fresh[r].tags2preene(inputs_tags[k]) for k in (1, 2)}
            for k in (1, 2):
                cfresh = copy.deepcopy(fresh[r])
                F[(r, k)] = [T.copy() for T in cfresh.Lij(*cfresh.preene2betafree(1.0, **inputs[r][k]))]
        start = Obj(copy.deepcopy(s1.calc))
        start.c.clearcache()
        npaths = [0]

        # full depth on the first three worlds, one action less on the others (bounds the thorough tier to ~30 min)
        if only_saveload:
            maxlen = depth
        elif quick:
            # Lij, Lij (cache hit), Scribble, Lij needs four actions: the cheapest world gets them
            maxlen = 4 if name == "fcc" else 3
        else:
            maxlen = depth if name in ("fcc", "honeycomb", "polarrect") else depth - 1

        def dfs(node, obj, hist):
            kids = out.get(node, []) if len(hist) < maxlen else []
            if not kids:
                npaths[0] += 1
            for dst, lab in kids:
                aname, args = tlc.parse_action_label(lab)
                if only_saveload and (aname not in ("Lij", "SaveLoad", "ClearCache") or
                                      (aname == "SaveLoad" and any(x.startswith("SaveLoad") for x in hist)) or
                                      (aname == "ClearCache" and len(hist) < 2)):
                    continue
                o2 = copy.deepcopy(obj)
                st = nodes[node]
                try:
                    L = apply(o2, aname, args, inputs[st["range"]])
                except Exception as ex:
                    ctx.case("%s|%s" % (name, hist + [lab]))
                    ctx.violation("raise|%s|%s|%s" % (name, aname, type(ex).__name__),
                                  "history %s on %s: %s raised %s: %s" % (hist, name, lab, type(ex).__name__, ex),
                                  {"world": name, "history": hist + [lab]})
                    continue
                h2 = hist + [lab]
                if L is not None:
                    r, k = nodes[dst]["expect"]
                    tens, asserts = {}, []
                    for nm, a, b in zip(calc.NAMES4, L, F[(r, k)]):
                        tens[nm + "_obs"] = rel.to_latt(s1.crys, a)
                        tens[nm + "_F"] = rel.to_latt(s1.crys, b)
                        asserts.append(rel.a_zero("%s_is_function_of_input" % nm, [(1, nm + "_obs"), (-1, nm + "_F")], 1e-8))
                    if o2.Ltwin is not None:
                        for nm, a, b in zip(calc.NAMES4, L, o2.Ltwin):
                            asserts.append(rel.a_bits("%s_bit_identical_after_reload" % nm, a, b))
                        if sorted(o2.c.tagdict.items()) != sorted(o2.twin.tagdict.items()) or \
                                o2.c.tags != o2.twin.tags:
                            asserts.append(rel.a_bits("tags_identical_after_reload", [0.0], [1.0]))
                    cases.append(rel.make_case(s1.w, tens, asserts, usegroup=False))
                    kinds = sorted({tlc.parse_action_label(x)[0] for x in hist})
                    metas.append(("history|%s|%s#%s" % (name, "+".join(kinds) or "fresh", h2),
                                  "history %s on %s" % (h2, name), {"world": name, "history": h2},
                                  any(x != "Lij" for x in kinds)))
                dfs(dst, o2, h2)

        dfs(root, start, [])
        ctx.info("paths_%s" % name, npaths[0])
    rel.run_rel(ctx, cases, metas, shards=8 if quick else 14)
    ctx.sample({"history": metas[-1][2]["history"], "world": metas[-1][2]["world"]})
    ctx.sample({"history": metas[len(metas) // 2][2]["history"]})
