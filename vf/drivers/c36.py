"""C36 -- value types obey equality / hashing / arithmetic laws.

Pools of real instances of GroupOp, PairState, ClusterSite, Cluster and vacancyThermoKinetics are built on
worlds realised in random orientations: crystal operations, their copies, products, inverses, lattice-translated
copies, operations of DIFFERENT crystals that share the lattice, the same value reached through other
construction routes, float fields perturbed by <= 1e-13 (same value) or >= 1e-3 (different value; the tolerance
boundary itself is never probed).  Every ==, != and hash() is evaluated on the real objects and recorded
(an exception is recorded as a value, never swallowed); spec/world/Check_C36.tla + EqLaws.tla (TLC) decide the
laws over the recorded tables.  For pair states every arithmetic evaluation (-a, a+b, a-b, a^b, the documented
identities, g(a), both sides of "arithmetic commutes with symmetry") is recorded in exact lattice integers and
TLC decides definedness and value with the definitional pair-state algebra of spec/world/Geom.tla.
"""
import itertools
from fractions import Fraction

import numpy as np

from .. import helpers_c23 as H
from .. import tlc, worlds
from .c23 import Reporter, rvec

LEVEL = "model_checking"


# ------------------------------------------------------------------ recording

def truth(fn, excs):
    """1 True, 0 False, 2 raised / not a boolean."""
    try:
        r = fn()
    except Exception as ex:
        excs.add("%s: %s" % (type(ex).__name__, str(ex)[:80]))
        return 2
    if isinstance(r, (bool, np.bool_)):
        return 1 if r else 0
    excs.add("returned %r" % (type(r).__name__,))
    return 2


def tables(objs):
    n = len(objs)
    excs = {"eq": set(), "ne": set(), "hash": set()}
    eq = [[truth(lambda: objs[i] == objs[j], excs["eq"]) for j in range(n)] for i in range(n)]
    ne = [[truth(lambda: objs[i] != objs[j], excs["ne"]) for j in range(n)] for i in range(n)]
    raw = []
    for o in objs:
        try:
            h = hash(o)
            if not isinstance(h, int):
                raise TypeError("hash returned %r" % (type(h).__name__,))
            raw.append(h)
        except Exception as ex:
            excs["hash"].add("%s: %s" % (type(ex).__name__, str(ex)[:80]))
            raw.append(None)
    rank = {h: r for r, h in enumerate(sorted(set(h for h in raw if h is not None)))}
    hs = [-1 if h is None else rank[h] for h in raw]
    try:
        setsize = len(set(objs))
    except Exception:
        setsize = -1
    if 2 in itertools.chain(*eq) or -1 in hs:
        setsize = -1          # the set clause presupposes total == and hash (those are reported on their own)
    return eq, ne, hs, setsize, {k: sorted(v) for k, v in excs.items() if v}


class Pool:
    def __init__(self, typ, where):
        self.typ, self.where = typ, where
        self.objs, self.val, self.far, self.tag, self.label = [], [], [], [], []

    def add(self, obj, val, tag, label, far=None):
        self.objs.append(obj)
        self.val.append(val)
        self.far.append(val if far is None else far)
        self.tag.append(tag)
        self.label.append(label)

    def trim(self, rng, nmax, keep=0):
        """Random subset (the first `keep` instances always stay)."""
        n = len(self.objs)
        if n <= nmax:
            return
        idx = list(range(keep)) + sorted(rng.sample(range(keep, n), nmax - keep))
        for name in ("objs", "val", "far", "tag", "label"):
            setattr(self, name, [getattr(self, name)[i] for i in idx])

    def case(self):
        ids, fids = {}, {}
        val = [ids.setdefault(repr(v), len(ids) + 1) for v in self.val]
        far = [fids.setdefault(repr(v), len(fids) + 1) for v in self.far]
        eq, ne, hs, setsize, excs = tables(self.objs)
        self.excs = excs
        return {"kind": "eq", "type": self.typ, "n": len(self.objs), "val": val, "far": far,
                "eq": eq, "ne": ne, "hash": hs, "setsize": setsize}

    def stats(self):
        n = len(self.objs)
        same = sum(1 for i in range(n) for j in range(i + 1, n) if repr(self.val[i]) == repr(self.val[j]))
        return n, same


FOREIGN = (None, "not-a-value")


def add_foreign(pool):
    for k, f in enumerate(FOREIGN):
        pool.add(f, ("foreign", k), "foreign", repr(f))


# ------------------------------------------------------------------ crystals

def make_crystal(A, w):
    from onsager import crystal
    basis = [[np.array(u, dtype=float) / w["D"] for u in sp] for sp in w["basis"]]
    return crystal.Crystal(np.array(A), basis, chemistry=["S%d" % c for c in range(len(basis))])


def decorate(rng, lat):
    """A random decoration of lattice `lat` (same generator as worlds.random_world, lattice fixed)."""
    d = len(worlds.LATTICES[lat])
    D = rng.choice((2, 3, 4))
    used, basis = set(), []
    for c in range(rng.choice((1, 2))):
        sp = []
        for _ in range(rng.randint(1, 2)):
            u = tuple(rng.randrange(D) for _ in range(d))
            if u not in used:
                used.add(u)
                sp.append(list(u))
        if sp:
            basis.append(sp)
    w = worlds.W(lat, D, basis)
    w["name"] = "deco-%s" % lat
    return w


def lattice_key(w):
    for k, m in worlds.LATTICES.items():
        if m == w["M"]:
            return k
    return None


# ------------------------------------------------------------------ GroupOp pools

def op_value(crys, g, D):
    f = H.full_op(crys, g, D)
    return ("op", tuple(map(tuple, f["rot"])), tuple(Fraction(t, D) for t in f["t"]),
            tuple(tuple(int(i) for i in im) for im in g.indexmap))


def groupop_pool(rng, crys, D, sibs, where, nbase):
    """sibs: list of (crystal, D) sharing crys.lattice."""
    from onsager.crystal import GroupOp
    pool = Pool("GroupOp", where)
    G = H.sorted_ops(crys)
    base = G if len(G) <= nbase else [G[0]] + rng.sample(G[1:], nbase - 1)
    dim = crys.dim
    for n, g in enumerate(base):
        v = op_value(crys, g, D)
        pool.add(g, v, "crystal-op", "G[%d]" % n)
        pool.add(GroupOp(np.array(g.rot), np.array(g.trans), np.array(g.cartrot), tuple(tuple(x) for x in g.indexmap)),
                 v, "copy", "copy of G[%d]" % n)
    for n, g in enumerate(base):
        r = rng.random()
        if r < 0.35:
            L = rvec(rng, dim, -1, 1)
            if np.any(L != 0):
                gl = g + L
                pool.add(gl, op_value(crys, gl, D), "translated", "G[%d]+%s" % (n, L.tolist()))
                pool.add(gl - L, op_value(crys, g, D), "translated-back", "(G[%d]+L)-L" % n)
        elif r < 0.55:
            for nm, gg in (("incell", g.incell()), ("inhalf", g.inhalf())):
                pool.add(gg, op_value(crys, gg, D), nm, "G[%d].%s()" % (n, nm))
        elif r < 0.8:
            e = np.array([rng.choice((-1e-14, 1e-14)) for _ in range(dim)])
            v = op_value(crys, g, D)
            pool.add(GroupOp(g.rot, g.trans + e, g.cartrot, g.indexmap), v, "trans+-1e-14", "G[%d] trans+1e-14" % n)
            pool.add(GroupOp(g.rot, g.trans, g.cartrot + 1e-14 * np.sign(rng.random() - 0.5), g.indexmap), v,
                     "cartrot+-1e-14", "G[%d] cartrot+1e-14" % n)
            # equality is np.allclose (atol 1e-8): shifts of a few 1e-9 are still the SAME value, wherever they fall
            # relative to any rounding grid a hash might use; all variants stay within 8e-9 of each other so that the
            # tolerance-based equality is still transitive among them
            for mag in (2e-9, 4e-9):
                e9 = np.array([rng.choice((-mag, mag)) for _ in range(dim)])
                pool.add(GroupOp(g.rot, g.trans + e9, g.cartrot, g.indexmap), v, "trans+-%g" % mag,
                         "G[%d] trans+%s" % (n, e9.tolist()))
            pool.add(GroupOp(g.rot, g.trans, g.cartrot + 4e-9 * np.sign(rng.random() - 0.5), g.indexmap), v,
                     "cartrot+-4e-9", "G[%d] cartrot+4e-9" % n)
            # the same, straddling a decimal rounding boundary at 6, 7 and 8 digits (a hash must not depend on which
            # side of such a boundary an equal value falls)
            for off in (0.1234565, 0.22345675, 0.323456785):
                e0 = np.zeros(dim)
                e0[rng.randrange(dim)] = off
                for sgn in (-1, 1):
                    pool.add(GroupOp(g.rot, g.trans + e0 + sgn * 2e-9, g.cartrot, g.indexmap), v + ("shifted", off),
                             "trans at rounding boundary", "G[%d] trans+%r%+g" % (n, off, sgn * 2e-9))
        else:
            v = op_value(crys, g, D)
            e = np.zeros(dim)
            e[rng.randrange(dim)] = rng.choice((1e-3, -1e-3, 2e-3))
            pool.add(GroupOp(g.rot, g.trans + e, g.cartrot, g.indexmap), v + ("trans far",), "trans+>=1e-3",
                     "G[%d] trans+%s" % (n, e.tolist()))
            E = np.zeros((dim, dim))
            E[rng.randrange(dim), rng.randrange(dim)] = rng.choice((1e-3, -1e-3))
            pool.add(GroupOp(g.rot, g.trans, g.cartrot + E, g.indexmap), v + ("cartrot far",), "cartrot+>=1e-3",
                     "G[%d] cartrot+1e-3" % n)
    for _ in range(max(3, nbase // 2)):
        a, b = rng.choice(G), rng.choice(G)
        p = a * b
        pool.add(p, op_value(crys, p, D), "product", "g*h")
        q = a.inv()
        pool.add(q, op_value(crys, q, D), "inverse", "g.inv()")
        pool.add(q.inv(), op_value(crys, a, D), "inverse-inverse", "g.inv().inv()")
    pool.add(GroupOp.ident(crys.basis), op_value(crys, GroupOp.ident(crys.basis), D), "ident", "GroupOp.ident")
    for sn, (c2, D2) in enumerate(sibs):
        G2 = H.sorted_ops(c2)
        # prefer the other crystal's operations with the SAME rotation as a pooled one (they differ, if at all, only
        # in translation and/or atom permutation), then a few unrelated ones
        rots = set(np.asarray(g.rot).tobytes() for g in base)
        match = [g for g in G2 if np.asarray(g.rot).tobytes() in rots]
        rest = [g for g in G2 if np.asarray(g.rot).tobytes() not in rots]
        pick = match[:nbase] + rng.sample(rest, min(len(rest), 2))
        for n, g in enumerate(pick):
            pool.add(g, op_value(c2, g, D2), "other-crystal-op", "sibling%d.G[%d]" % (sn, n))
    add_foreign(pool)
    return pool


# ------------------------------------------------------------------ PairState

def ps_value(ps, dim):
    f = H.ps_fields(ps, dim)
    return ("ps", f[0], f[1], tuple(f[2]))


def pairstate_objects(rng, crys, chem, npool):
    """Distinct real PairStates of species chem: a zero per site plus random (i, j, R), |R|inf <= 1."""
    from onsager.crystalStars import PairState
    ns, dim = len(crys.basis[chem]), crys.dim
    keys = [(n, n, (0,) * dim) for n in range(min(ns, 3))]
    allk = [(i, j, R) for i in range(ns) for j in range(ns) for R in itertools.product((-1, 0, 1), repeat=dim)
            if (i, j, R) not in keys]
    keys += rng.sample(allk, min(len(allk), npool - len(keys)))
    return [PairState.fromcrys_latt(crys, chem, (i, j), np.array(R, dtype=int)) for (i, j, R) in keys]


def pairstate_eq_pool(rng, crys, chem, pss, where, G):
    from onsager.crystalStars import PairState
    dim = crys.dim
    pool = Pool("PairState", where)
    for n, ps in enumerate(pss):
        pool.add(ps, ps_value(ps, dim), "fromcrys_latt", "ps[%d]" % n)
    for n, ps in enumerate(pss):
        v = ps_value(ps, dim)
        r = rng.random()
        if r < 0.2:
            pool.add(PairState.fromcrys(crys, chem, (ps.i, ps.j), ps.dx), v, "fromcrys", "fromcrys(ps[%d].dx)" % n)
        elif r < 0.4:
            pool.add(PairState(i=ps.i, j=ps.j, R=ps.R.astype(np.int32), dx=ps.dx + 1e-14), v, "int32 R, dx+1e-14",
                     "ps[%d] with int32 R" % n)
        elif r < 0.55:
            q = -(-ps)
            pool.add(q, ps_value(q, dim), "-(-a)", "-(-ps[%d])" % n)
        elif r < 0.7:
            g = rng.choice(G)
            q = ps.g(crys, chem, g).g(crys, chem, g.inv())
            pool.add(q, ps_value(q, dim), "g.inv()(g(a))", "g.inv()(g(ps[%d]))" % n)
        elif r < 0.85:
            m = rng.randrange(len(pss))
            try:
                q = ps + pss[m]
                pool.add(q, ps_value(q, dim), "a+b", "ps[%d]+ps[%d]" % (n, m))
            except ArithmeticError:
                pass
        else:
            q = ps + (-ps)
            pool.add(q, ps_value(q, dim), "a+(-a)", "ps[%d]+(-ps[%d])" % (n, n))
            z = PairState.zero(ps.i, dim)
            pool.add(z, ps_value(z, dim), "zero(n)", "PairState.zero(%d)" % ps.i)
    wz = PairState.zero(-1, dim)
    pool.add(wz, ps_value(wz, dim), "zero(-1)", "PairState.zero(-1)")
    add_foreign(pool)
    return pool


def ps_result(crys, D, fn, unexpected):
    """Evaluate an arithmetic expression on real pair states -> ({"ok","f","dx"}, object or None)."""
    dim = crys.dim
    blank = {"ok": 0, "f": [0, 0, [0] * dim], "dx": [0] * dim}
    try:
        r = fn()
    except ArithmeticError:
        return blank, None
    except Exception as ex:
        unexpected.append("%s: %s" % (type(ex).__name__, str(ex)[:120]))
        return dict(blank, ok=2), None
    try:
        return {"ok": 1, "f": H.ps_fields(r, dim), "dx": H.grid(crys, r.dx, D, "pair state dx")}, r
    except Exception as ex:
        unexpected.append("%s: %s" % (type(ex).__name__, str(ex)[:120]))
        return dict(blank, ok=2), None


def pairstate_algebra_case(rng, crys, ow, chem, pss, G, nops, npairs_g):
    from onsager.crystalStars import PairState
    dim, D = crys.dim, ow["D"]
    n = len(pss)
    ops = [G[0]] + rng.sample(G[1:], min(len(G) - 1, nops - 1)) if len(G) > 1 else [G[0]]
    if len(G) > 1:
        ops.append(rng.choice(G[1:]) + rvec(rng, dim, -1, 1))      # a lattice-translated copy acts the same way
    unexpected, evals = [], []
    wild = PairState.zero(-1, dim)

    def ev(name, expr, a, b, g, fn, flagfns=()):
        r, obj = ps_result(crys, D, fn, unexpected)
        flags = []
        if obj is not None:
            for ff in flagfns:
                try:
                    t = ff(obj)
                    flags.append(1 if isinstance(t, (bool, np.bool_)) and t else 0)
                except Exception as ex:
                    unexpected.append("%s: %s" % (type(ex).__name__, str(ex)[:120]))
                    flags.append(0)
        evals.append({"name": name, "expr": expr, "a": a + 1, "b": b + 1 if b is not None else 0,
                      "g": g + 1 if g is not None else 0, "r": r, "flags": flags})
        return obj

    for a in range(n):
        A = pss[a]
        ev("negation -a", "neg", a, None, None, lambda: -A)
        ev("a+(-a) is the zero state", "a+(-a)", a, None, None, lambda: A + (-A),
           (lambda r: r.iszero(), lambda r: r == PairState.zero(A.i, dim)))
        ev("(-a)+a is the zero state", "(-a)+a", a, None, None, lambda: (-A) + A,
           (lambda r: r.iszero(), lambda r: r == PairState.zero(A.j, dim)))
        ev("-(-a) = a", "-(-a)", a, None, None, lambda: -(-A), (lambda r: r == A, lambda r: not (r != A)))
        ev("zero(-1)+a = a", "0+a", a, None, None, lambda: wild + A, (lambda r: r == A,))
        ev("a+zero(-1) = a", "a+0", a, None, None, lambda: A + wild, (lambda r: r == A,))
        for b in range(n):
            B = pss[b]
            ev("addition a+b (defined iff a.j = b.i)", "add", a, b, None, lambda: A + B)
            ev("subtraction a-b (defined iff a.j = b.j)", "sub", a, b, None, lambda: A - B)
            ev("endpoint subtraction a^b (defined iff a.i = b.i)", "xor", a, b, None, lambda: A ^ B)
            ev("(a-b)+b = a", "(a-b)+b", a, b, None, lambda: (A - B) + B, (lambda r: r == A, lambda r: hash(r) == hash(A)))
            ev("b+(a^b) = a", "b+(a^b)", a, b, None, lambda: B + (A ^ B), (lambda r: r == A, lambda r: hash(r) == hash(A)))
    for gi, g in enumerate(ops):
        act = lambda s: s.g(crys, chem, g)
        for a in range(n):
            A = pss[a]
            ev("symmetry action g(a)", "g(a)", a, None, gi, lambda: act(A))
            lhs = ev("g(-a) = -g(a)", "g(-a)", a, None, gi, lambda: act(-A))
            ev("g(-a) = -g(a)", "-g(a)", a, None, gi, lambda: -act(A), (lambda r: lhs is not None and r == lhs,))
        pairs = [(a, b) for a in range(n) for b in range(n)]
        for (a, b) in (pairs if len(pairs) <= npairs_g else rng.sample(pairs, npairs_g)):
            A, B = pss[a], pss[b]
            l1 = ev("g(a+b) = g(a)+g(b)", "g(a+b)", a, b, gi, lambda: act(A + B))
            ev("g(a+b) = g(a)+g(b)", "g(a)+g(b)", a, b, gi, lambda: act(A) + act(B),
               (lambda r: l1 is not None and r == l1,))
            l2 = ev("g(a-b) = g(a)-g(b)", "g(a-b)", a, b, gi, lambda: act(A - B))
            ev("g(a-b) = g(a)-g(b)", "g(a)-g(b)", a, b, gi, lambda: act(A) - act(B),
               (lambda r: l2 is not None and r == l2,))
            l3 = ev("g(a^b) = g(a)^g(b)", "g(a^b)", a, b, gi, lambda: act(A ^ B))
            ev("g(a^b) = g(a)^g(b)", "g(a)^g(b)", a, b, gi, lambda: act(A) ^ act(B),
               (lambda r: l3 is not None and r == l3,))
    case = {"kind": "ps", "type": "PairState", "w": {k: ow[k] for k in ("dim", "M", "D", "basis")}, "c": chem + 1,
            "ops": [H.full_op(crys, g, D) for g in ops],
            "ps": [H.ps_fields(p, dim) for p in pss], "dx": [H.grid(crys, p.dx, D) for p in pss], "evals": evals}
    return case, unexpected


# ------------------------------------------------------------------ ClusterSite / Cluster

def site_value(cs, dim):
    return ("site", int(cs.ci[0]), int(cs.ci[1]), tuple(H.ints(cs.R, "cluster site R")))


def random_sites(rng, crys, n):
    keys = [(ci, R) for ci in crys.atomindices for R in itertools.product((-1, 0, 1), repeat=crys.dim)]
    return rng.sample(keys, min(n, len(keys)))


def clustersite_pool(rng, crys, where, G, nbase):
    from onsager.cluster import ClusterSite
    dim = crys.dim
    pool = Pool("ClusterSite", where)
    base = [ClusterSite(ci=ci, R=np.array(R, dtype=int)) for ci, R in random_sites(rng, crys, nbase)]
    for n, cs in enumerate(base):
        pool.add(cs, site_value(cs, dim), "constructed", "cs[%d]" % n)
    for n, cs in enumerate(base):
        v = site_value(cs, dim)
        r = rng.random()
        if r < 0.25:
            pool.add(ClusterSite(ci=(np.int64(cs.ci[0]), np.int64(cs.ci[1])), R=cs.R.astype(np.int32)), v,
                     "numpy-int ci, int32 R", "cs[%d] with numpy ints" % n)
        elif r < 0.45:
            L = rvec(rng, dim, -2, 2)
            q = (cs + L) - L
            pool.add(q, site_value(q, dim), "(a+L)-L", "(cs[%d]+L)-L" % n)
            q = cs + L
            pool.add(q, site_value(q, dim), "a+L", "cs[%d]+%s" % (n, L.tolist()))
        elif r < 0.6:
            q = -(-cs)
            pool.add(q, site_value(q, dim), "-(-a)", "-(-cs[%d])" % n)
            q = -cs
            pool.add(q, site_value(q, dim), "-a", "-cs[%d]" % n)
        elif r < 0.8:
            g = rng.choice(G)
            q = cs.g(crys, g).g(crys, g.inv())
            pool.add(q, site_value(q, dim), "g.inv()(g(a))", "g.inv()(g(cs[%d]))" % n)
            q = cs.g(crys, g)
            pool.add(q, site_value(q, dim), "g(a)", "g(cs[%d])" % n)
        else:
            q = ClusterSite.fromcryscart(crys, crys.pos2cart(cs.R, cs.ci))
            if q.ci is not None:
                pool.add(q, site_value(q, dim), "fromcryscart", "fromcryscart(pos2cart(cs[%d]))" % n)
    add_foreign(pool)
    return pool


def canon_sites(sites):
    """Translation-normalised description of a list of (ci, R): subtract R of the minimal (ci, R)."""
    ref = min(sites)[1]
    return [(ci, tuple(int(a - b) for a, b in zip(R, ref))) for ci, R in sites]


def cluster_value(sites, transition, vacancy):
    """The abstract value of Cluster(sites, transition, vacancy) and its coarser 'must differ' value."""
    s = canon_sites(sites)
    if transition and vacancy:
        v = ("tv", s[0], s[1], frozenset(s[2:]))
        return v, v
    if vacancy:
        v = ("v", s[0], frozenset(s[1:]))
        return v, v
    if transition:
        return ("t", frozenset(s[0:2]), frozenset(s[2:])), ("t", frozenset(s), len(s))
    v = ("p", frozenset(s))
    return v, v


def cluster_pool(rng, crys, where, G, nbase):
    from onsager.cluster import Cluster, ClusterSite
    dim = crys.dim
    pool = Pool("Cluster", where)

    def mk(sites, **kw):
        return Cluster([ClusterSite(ci=ci, R=np.array(R, dtype=int)) for ci, R in sites], **kw)

    def sortv(v):   # repr of frozensets is order dependent: canonicalise the value for identification
        return tuple(sorted(x, key=repr) if isinstance(x, frozenset) else x for x in v)

    def add(sites, tr, vac, tag, label, obj=None):
        v, f = cluster_value(sites, tr, vac)
        pool.add(obj if obj is not None else mk(sites, transition=tr, vacancy=vac), sortv(v), tag, label, far=sortv(f))

    for n in range(nbase):
        k = rng.randint(1, 4)
        sites = random_sites(rng, crys, k)
        k = len(sites)
        for tr, vac in ((False, False), (True, False), (False, True), (True, True)):
            if tr and k < 2:
                continue
            if rng.random() < 0.35 and (tr or vac):
                continue
            fl = "%s%s" % ("T" if tr else "", "V" if vac else "") or "plain"
            add(sites, tr, vac, "constructed " + fl, "cl[%d] %s %s" % (n, fl, sites))
            L = tuple(int(x) for x in rvec(rng, dim, -2, 2))
            moved = [(ci, tuple(a + b for a, b in zip(R, L))) for ci, R in sites]
            add(moved, tr, vac, "translated " + fl, "cl[%d] %s shifted by %s" % (n, fl, list(L)))
            head = 2 if tr else (1 if vac else 0)
            tail = sites[head:]
            rng.shuffle(tail)
            add(sites[:head] + tail, tr, vac, "reordered " + fl, "cl[%d] %s other site order" % (n, fl))
            if tr and not vac:
                add([sites[1], sites[0]] + sites[2:], tr, vac, "TS swapped " + fl, "cl[%d] %s initial<->final" % (n, fl))
            if tr and vac:      # the vacancy hops the other way: a different transition
                add([sites[1], sites[0]] + sites[2:], tr, vac, "TS swapped " + fl, "cl[%d] %s initial<->final" % (n, fl))
            if not tr and not vac and k >= 2:
                part = mk(sites[:-1])
                extra = ClusterSite(ci=sites[-1][0], R=np.array(sites[-1][1], dtype=int))
                ref = min(sites[:-1], key=lambda s: s[0][0] * (2 ** 32) + s[0][1])   # Cluster re-bases on its first site
                add(sites, tr, vac, "cluster+site", "cl[%d] built by + from %d sites" % (n, k - 1),
                    obj=part + (extra - np.array(ref[1], dtype=int)))
            g = rng.choice(G)
            obj = mk(sites, transition=tr, vacancy=vac).g(crys, g).g(crys, g.inv())
            add(sites, tr, vac, "g.inv()(g(cluster)) " + fl, "g.inv()(g(cl[%d] %s))" % (n, fl), obj=obj)
    add_foreign(pool)
    return pool


# ------------------------------------------------------------------ vacancyThermoKinetics

def vtk_pool(rng, where, nbase):
    from onsager.OnsagerCalc import vacancyThermoKinetics as VTK
    pool = Pool("vacancyThermoKinetics", where)
    ns, nt = rng.randint(1, 3), rng.randint(1, 4)
    ln2 = float(np.log(2.0))
    fields = ("pre", "betaene", "preT", "betaeneT")

    def fresh(d):
        return VTK(**{k: np.array(v) for k, v in d.items()})

    bases, seen = [], set()
    while len(bases) < nbase:
        lv = {"pre": [rng.randint(0, 3) for _ in range(ns)], "betaene": [rng.randint(-4, 4) for _ in range(ns)],
              "preT": [rng.randint(0, 3) for _ in range(nt)], "betaeneT": [rng.randint(-2, 8) for _ in range(nt)]}
        key = repr(lv)
        if key in seen:
            continue
        seen.add(key)
        bases.append(lv)
    for n, lv in enumerate(bases):
        d = {"pre": np.array([2.0 ** k for k in lv["pre"]]), "betaene": ln2 * np.array(lv["betaene"], dtype=float),
             "preT": np.array([2.0 ** k for k in lv["preT"]]), "betaeneT": ln2 * np.array(lv["betaeneT"], dtype=float)}
        v = ("vtk", key_of(lv))
        pool.add(fresh(d), v, "constructed", "key[%d]" % n)
        pool.add(fresh(d), v, "copy", "copy of key[%d]" % n)
        r = rng.random()
        if r < 0.4:
            f = rng.choice(fields)
            d2 = dict(d)
            s = rng.choice((-1e-14, 1e-14))
            d2[f] = d[f] + s
            # these are cache keys: an input that is merely close may be the same key or a different one (C36 demands
            # only the laws).  So the near-equal variant is its own value (nothing forces it to equal the base) with
            # the base's coarse value (nothing forces it to differ either); it still takes part in every law.
            pool.add(fresh(d2), v + ("near", f, s), "%s+-1e-14" % f, "key[%d] with %s shifted by 1e-14" % (n, f), far=v)
        elif r < 0.7:
            f = rng.choice(fields)
            d2 = dict(d)
            e = np.zeros(len(d[f]))
            m = rng.randrange(len(e))
            e[m] = rng.choice((-1, 1)) * rng.choice((1e-3, 1e-2)) * (1.0 + abs(d[f][m])) * 4.0
            d2[f] = d[f] + e
            pool.add(fresh(d2), v + ("far", f, m, float(e[m])), "%s+>=1e-3" % f, "key[%d] with %s[%d] shifted by %g" % (
                n, f, m, e[m]))
        elif r < 0.85:
            d2 = dict(d)
            d2["pre"] = np.array([2 ** k for k in lv["pre"]], dtype=int)
            pool.add(fresh(d2), v, "integer-dtype pre", "key[%d] with integer prefactor array" % n)
        else:
            z = [m for m, k in enumerate(lv["betaene"]) if k == 0]
            if z:
                d2 = dict(d)
                d2["betaene"] = d["betaene"].copy()
                d2["betaene"][z[0]] = -0.0
                pool.add(fresh(d2), v, "-0.0 energy", "key[%d] with betaene[%d] = -0.0" % (n, z[0]))
    add_foreign(pool)
    return pool


def key_of(lv):
    return tuple(tuple(lv[k]) for k in ("pre", "betaene", "preT", "betaeneT"))


# ------------------------------------------------------------------ run

def run(ctx):
    quick = ctx.tier == "quick"
    rng = ctx.rng
    ctx.rule = ("instance pools per type on catalogue + random worlds (random orientation): crystal operations, copies, "
                "products, inverses, lattice-translated copies, operations of other crystals on the same lattice, other "
                "construction routes, float fields +-1e-14 (same value) / >=1e-3 (different value); every ==, !=, hash and "
                "pair-state arithmetic result recorded and decided by TLC (EqLaws.tla, Geom.tla); non-trivial = pool that "
                "contains both distinct instances of one value and instances of different values / pair-state pool with "
                "a non-identity operation")
    names = list(worlds.CATALOGUE)
    if quick:
        names = ["square2sp", "honeycomb", "polarrect", "kagome", "squarelieb", "b2", "diamond", "hcp", "l12",
                 "tric2", "wurtzite", "tet2", "monodeco", "fccoct"]
    wl = [dict(worlds.CATALOGUE[n], name=n) for n in names]
    for _ in range(4 if quick else 60):
        wl.append(worlds.random_world(rng, maxatoms=4))
    nbase = 8 if quick else 16
    npool_ps = 11 if quick else 24
    report = Reporter(ctx, cap=4)
    cases, meta = [], []
    siblings_dropped = 0

    def guarded(what, fam, fn):
        """Building a pool exercises the types' constructors / arithmetic; a failure there is a verdict."""
        try:
            return fn()
        except Exception as ex:
            report("build|" + what, "build_error|%s|%s|%s" % (what, type(ex).__name__, fam),
                   "building the %s pool on world %s raised %s: %s" % (what, fam, type(ex).__name__, ex), {"world": fam})
            return None

    for w in wl:
        fam = H.family(w)
        lat = lattice_key(w)
        try:
            A = worlds.lattice_of(w, rng, 1.0, True)
            crys = make_crystal(A, w)
            ow = worlds.observe(crys, 1.0, Dhint=w["D"])
        except Exception as ex:          # construction / read-back is C18/C19's subject
            ctx.info("skipped_world_%s" % w["name"], "%s: %s" % (type(ex).__name__, ex))
            continue
        G = H.sorted_ops(crys)
        sibs = []
        if lat is not None:
            cands = [dict(v, name=k) for k, v in worlds.CATALOGUE.items() if v["M"] == w["M"] and k != w.get("name")]
            rng.shuffle(cands)
            cands = cands[:2] + [decorate(rng, lat)]
            for w2 in cands:
                try:
                    c2 = make_crystal(A, w2)
                    if c2.lattice.shape == crys.lattice.shape and np.allclose(c2.lattice, crys.lattice, rtol=0, atol=1e-12):
                        sibs.append((c2, worlds.observe(c2, 1.0, Dhint=w2["D"])["D"]))
                    else:
                        siblings_dropped += 1
                except Exception:
                    siblings_dropped += 1
        pools = [guarded("GroupOp", fam, lambda: groupop_pool(rng, crys, ow["D"], sibs, fam, nbase)),
                 guarded("ClusterSite", fam, lambda: clustersite_pool(rng, crys, fam, G, 2 * nbase)),
                 guarded("Cluster", fam, lambda: cluster_pool(rng, crys, fam, G, nbase // 2 + 1))]
        chems = sorted(range(crys.Nchem), key=lambda c: -len(crys.basis[c]))[:1 if quick else 2]
        for chem in chems:
            pss = guarded("PairState", fam, lambda: pairstate_objects(rng, crys, chem, npool_ps))
            if pss is None:
                continue
            pools.append(guarded("PairState", fam, lambda: pairstate_eq_pool(rng, crys, chem, pss, fam, G)))
            res = guarded("PairState arithmetic", fam,
                          lambda: pairstate_algebra_case(rng, crys, ow, chem, pss, G, 3 if quick else 6,
                                                         25 if quick else 200))
            if res is not None:
                case, unexpected = res
                for u in sorted(set(unexpected))[:3]:
                    report("ps-unexpected", "unexpected_exception|PairState arithmetic|%s|%s" % (u.split(":")[0], fam),
                           "world %s: pair-state arithmetic raised something other than ArithmeticError: %s" % (w["name"], u),
                           {"world": w})
                cases.append(case)
                meta.append(("ps", fam, w, None, len(case["ops"]) > 1))
        for p in pools:
            if p is None:
                continue
            p.trim(rng, 56 if quick else 110)
            cases.append(p.case())
            meta.append(("eq", fam, w, p, None))
    for n in range(6 if quick else 40):
        p = vtk_pool(rng, "pool%d" % n, 8 if quick else 14)
        cases.append(p.case())
        meta.append(("eq", "vtk", None, p, None))

    # the model-level lemmas are re-proved on the first pool of every kind/type and on every 4th pool after that
    seen_kinds = {}
    for c in cases:
        kk = (c["kind"], c["type"])
        c["lemma"] = 1 if seen_kinds.get(kk, 0) % 4 == 0 else 0
        seen_kinds[kk] = seen_kinds.get(kk, 0) + 1
    # big cases first within the round-robin sharding, so that the shards finish together
    order = sorted(range(len(cases)), key=lambda i: -(len(cases[i].get("evals", ())) + cases[i].get("n", 0) ** 2 // 4))
    cases = [cases[i] for i in order]
    meta = [meta[i] for i in order]
    fails, infos, results = tlc.run_cases("Check_C36", cases, shards=8 if quick else 14, timeout=2400)
    for r in results:
        ctx.add_model(r)
    npairs = 0
    for i, (kind, fam, w, p, nontriv) in enumerate(meta):
        c = cases[i]
        if kind == "eq":
            n, same = p.stats()
            npairs += n * n
            ctx.evaluations += n * n - 1
            ctx.case("%s|%s|%d" % (p.typ, fam, i), nontrivial=same > 0 and len(set(c["val"])) > 1)
        else:
            ctx.evaluations += len(c["evals"]) - 1
            ctx.case("PairState-arithmetic|%s|%d" % (fam, i), nontrivial=bool(nontriv))
        for clause in sorted(set(fails.get(i, []))):
            if clause.startswith("MODEL"):
                raise tlc.TLCError("model-level lemma failed in Check_C36 (%s), case %d (%s %s)" % (clause, i, kind, fam))
            wit = infos.get(i, {}).get("wit:" + clause, [1, 1])
            if kind == "eq":
                a, b = wit[0] - 1, wit[1] - 1
                tags = "~".join(sorted((p.tag[a], p.tag[b])))
                exc = "; ".join("%s raised/returned: %s" % (k, ", ".join(v)) for k, v in sorted(p.excs.items()))
                report("eq|%s|%s" % (p.typ, clause), "clause|%s|%s|%s" % (clause, p.typ, tags),
                       "%s pool on %s (%d instances): law '%s' is broken, e.g. by x = %s [%s] and y = %s [%s]: "
                       "x==y -> %s, y==x -> %s, x!=y -> %s, hash ranks %s / %s, same value: %s%s" % (
                           p.typ, fam, c["n"], clause, p.label[a], p.tag[a], p.label[b], p.tag[b],
                           c["eq"][a][b], c["eq"][b][a], c["ne"][a][b], c["hash"][a], c["hash"][b],
                           c["val"][a] == c["val"][b], ("  (" + exc + ")") if exc else ""),
                       {"type": p.typ, "world": w, "clause": clause, "x": repr(p.objs[a])[:600], "y": repr(p.objs[b])[:600],
                        "labels": [p.label[a], p.label[b]]})
            else:
                a, b = wit[0], wit[1]
                bad = [e for e in c["evals"] if e["name"] == clause and e["a"] == a and e["b"] == b][:2]
                report("ps|" + clause, "clause|%s|PairState|%s" % (clause, fam),
                       "world %s, species %d: pair-state clause '%s' fails for a = %s%s; recorded evaluation(s): %s" % (
                           w["name"], c["c"] - 1, clause, c["ps"][a - 1], (", b = %s" % (c["ps"][b - 1],)) if b else "", bad),
                       {"world": w, "observed": c["w"], "species": c["c"], "a": c["ps"][a - 1],
                        "b": c["ps"][b - 1] if b else None, "evals": bad, "ops": c["ops"]})
    ctx.traces += len(cases)
    ctx.info("instance_pairs", npairs)
    ctx.info("pools_per_type", {t: sum(1 for m in meta if m[0] == "eq" and m[3].typ == t) for t in
                                ("GroupOp", "PairState", "ClusterSite", "Cluster", "vacancyThermoKinetics")})
    ctx.info("pairstate_arithmetic_evaluations", sum(len(c["evals"]) for c in cases if c["kind"] == "ps"))
    ctx.info("sibling_crystals_dropped_lattice_changed", siblings_dropped)
    ctx.info("further_violations_not_listed", report.suppressed)
    for c in cases:
        if c["kind"] == "eq" and c["type"] == "GroupOp":
            ctx.sample({"type": c["type"], "n": c["n"], "val": c["val"][:12], "eq_row1": c["eq"][0][:12]})
            break
    for c in cases:
        if c["kind"] == "ps":
            ctx.sample({"world": c["w"], "species": c["c"], "ps": c["ps"][:4], "first_evals": c["evals"][:3]})
            break
