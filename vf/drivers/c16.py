"""C16 -- Taylor-expansion arithmetic commutes with evaluation (Taylor3D and Taylor2D).

1. Index tables: ind2pow, pow2ind, powlrange, directmult, powercoeff and Lproj of both classes are compared entry
   by entry with their definition (spec/world/Check_C16.tla over spec/world/Poly.tla).
2. Object machine spec/obj/TaylorObj.tla: a pool of three expansion objects under every public arithmetic call and
   its in-place twin.  TLC explores the call histories (model theorems: evaluation is additive / multiplicative,
   constructexpansion is the direct power series), every history is replayed on real objects -- aliasing included,
   the real pool is never rebuilt between steps -- and after EVERY step EVERY object is evaluated per radial order
   at Pythagorean points; TLC (invariant Conforms) compares the observations with the exact rational value of the
   expansion the model says the object denotes.
"""
import json
import os

import numpy as np

from .. import tlc
from .. import helpers_taylor as H

LEVEL = "model_checking"


# ------------------------------------------------------------------ index tables

def table_case(dim):
    T = H.taylor_class(dim)
    D = 840 if dim == 3 else 8       # Lproj entries are multiples of 1/D (checked by the spec, to 1e-6/D)
    return {"cls": T.__name__, "dim": dim, "L": int(T.Lmax),
            "ind2pow": np.asarray(T.ind2pow).tolist(), "pow2ind": np.asarray(T.pow2ind).tolist(),
            "powlrange": np.asarray(T.powlrange).tolist(), "directmult": np.asarray(T.directmult).tolist(),
            "powercoeff": [[H.num(z, 1.0) for z in row] for row in np.asarray(T.powercoeff)],
            "D": D, "Lproj": [[[H.num(z, float(D)) for z in row] for row in M] for M in np.asarray(T.Lproj)]}


def check_tables(ctx):
    cases = []
    for dim in (3, 2):
        try:
            cases.append(table_case(dim))
        except Exception as ex:   # a table that cannot even be read is a violation of its clause
            ctx.violation("tables|unreadable|Taylor%dD|%s" % (dim, type(ex).__name__),
                          "class tables of Taylor%dD cannot be read: %r" % (dim, ex))
    _, infos, results = tlc.run_cases("Check_C16", cases, shards=2, timeout=900)
    fails = H.case_fails(results, len(results))      # (clause names are long: TLC wraps them over several lines)
    for r in results:
        ctx.add_model(r)
    for i, c in enumerate(cases):
        ctx.case(("tables", c["cls"]), nontrivial=True)
        ctx.evaluations += infos.get(i, {}).get("npower", 0) ** 2
        for clause in fails.get(i, []):
            ctx.violation("tables|%s|%s" % (clause, c["cls"]),
                          "%s: class table violates its definition: %s" % (c["cls"], clause),
                          {"class": c["cls"], "clause": clause})
    ctx.sample({"tables": [c["cls"] for c in cases], "entries_checked": "all (Lmax=4)"})


# ------------------------------------------------------------------ object machine: configurations

FAMILIES = {
    # family: (shape of objects [sc, r, c] per initial slot, matrices for ldot/rdot, constants, keys, zeros shapes)
    "s":   dict(shapes=[(True, 1, 1), (True, 1, 1)], mats=[], consts=[[[2]]], keys=[], zshapes=[]),
    "m11": dict(shapes=[(False, 1, 1), (False, 1, 1)], mats=[[[2]], [[-1]]], consts=[[[-1]]],
                keys=[(1, 1, 1, 1, True), (1, 1, 1, 1, False)], zshapes=[(1, 1)]),
    "m22": dict(shapes=[(False, 2, 2), (False, 2, 2)], mats="rand", consts="rand",
                keys=[(1, 1, 1, 1, True), (2, 2, 1, 1, True), (1, 1, 2, 2, False), (1, 2, 1, 2, False),
                      (1, 2, 1, 1, False)], zshapes=[(2, 2)]),
    "mix": dict(shapes=[(False, 2, 2), (True, 1, 1)], mats="rand", consts="rand",
                keys=[(1, 1, 2, 2, True), (2, 2, 2, 2, False)], zshapes=[(2, 2)]),
}


def noncommuting(rng):
    while True:
        m1, m2 = H.rand_matrix(rng, 2, 2), H.rand_matrix(rng, 2, 2)
        a, b = np.array(m1), np.array(m2)
        if abs(np.linalg.det(a)) > 0 and not np.array_equal(a @ b, b @ a) and not np.array_equal(a, a.T):
            return [m1, m2]


def label_sets(rng, rich):
    """(n, l) label lists of the two initial objects: a shared n where the SECOND has the larger l, a shared n
    where the first has the larger l, and an n only one of them has -- the cases a sum must get right."""
    n1, n2, n3, n4 = rng.sample(range(0, 5), 4)
    la = [(n1, rng.choice((0, 1))), (n2, 2 if rich else 1), (n3, rng.choice((0, 1)))]
    lb = [(n1, 2), (n2, rng.choice((0, 1))), (n4, rng.choice((0, 1, 2)))]
    rng.shuffle(la)
    rng.shuffle(lb)
    return sorted(la), sorted(lb)


def make_config(rng, dim, fam, quick, variant):
    F = FAMILIES[fam]
    la, lb = label_sets(rng, variant % 2 == 0)
    objs = []
    for (sc, r, c), nl in zip(F["shapes"], (la, lb)):
        objs.append(H.rand_object(rng, dim, sc, r, c, nl))
    inits = [objs + [None]]
    if variant % 3 == 2 and F["zshapes"]:
        # third slot: a zeros() object, as the block-assembly code of the Green function uses it
        r, c = F["zshapes"][0]
        inits = [objs + [{"sc": False, "r": r, "c": c, "ex": False, "full": True,
                          "E": {n: (H.LMAX, {}) for n in range(0, 5)}}]]
    if variant % 3 == 1:
        # third slot: an expansion without terms, the accumulator of `acc = Taylor(); acc += term` loops
        sc, r, c = F["shapes"][0]
        inits = [objs + [{"sc": sc, "r": r, "c": c, "ex": True, "full": False, "E": {}}]]
    mats = noncommuting(rng) if F["mats"] == "rand" else F["mats"]
    consts = [H.rand_matrix(rng, 2, 2, vals=(-1, 1, 2))] if F["consts"] == "rand" else F["consts"]
    keys = [dict(zip(("r1", "r2", "c1", "c2", "sc"), k)) for k in F["keys"]]
    if quick and len(keys) > 3:
        keys = rng.sample(keys, 3)
    bases = []
    if fam != "s":
        r = F["shapes"][0][1]
        vecs = [[rng.choice((-1, 1, 2)) for _ in range(dim)], [rng.choice((-2, 0, 1)) for _ in range(dim)]]
        bases.append({"basis": [{"m": H.rand_matrix(rng, r, r, vals=(-1, 1, 2)), "v": v} for v in vecs],
                      "N": 2 if quick else rng.choice((2, 3)), "pre": [1, rng.choice((1, -1)), 2, 1, 1][:4], "r": r, "c": r})
    cons = {"Dim": dim, "Inits": inits, "Scalars": [2] if quick else [-1, 2], "Mats": mats[:1] if quick else mats,
            "Consts": consts, "TruncNs": [-1, 2] if quick else [-1, 1, 3], "Keys": keys, "Bases": bases,
            "ZShapes": [list(z) for z in F["zshapes"]], "ZMin": 0, "ZMax": 4, "fam": fam}
    return cons


def mc_module(cons, npts, depth, all_targets):
    pts = H.PTS[cons["Dim"]][:npts]
    keys = "<<" + ", ".join("[r1 |-> %d, r2 |-> %d, c1 |-> %d, c2 |-> %d, sc |-> %s]"
                            % (k["r1"], k["r2"], k["c1"], k["c2"], H.tla(k["sc"])) for k in cons["Keys"]) + ">>"
    bases = "<<" + ", ".join(
        "[basis |-> <<%s>>, N |-> %d, pre |-> %s, r |-> %d, c |-> %d]"
        % (", ".join("[m |-> %s, v |-> %s]" % (H.tla(b["m"]), H.tla(b["v"])) for b in B["basis"]),
           B["N"], H.tla(B["pre"]), B["r"], B["c"]) for B in cons["Bases"]) + ">>"
    inits = "<<" + ", ".join("<<" + ", ".join(H.tla_object(o) for o in pool) + ">>" for pool in cons["Inits"]) + ">>"
    mod = """---- MODULE MC_C16 ----
EXTENDS TaylorObj
MCInits == %s
MCScalars == %s
MCMats == %s
MCConsts == %s
MCTruncNs == %s
MCKeys == %s
MCBases == %s
MCZShapes == %s
MCPts == %s
MCThmPts == %s
MCMenu == %s
====
""" % (inits, H.tla(set(cons["Scalars"])), H.tla(cons["Mats"]), H.tla(cons["Consts"]), H.tla(set(cons["TruncNs"])),
       keys, bases, H.tla(cons["ZShapes"]), H.tla_points(pts), H.tla_points(pts[:1]),
       "{" + ", ".join('"%s"' % m for m in sorted(cons.get("Menu") or ROLE_ARGS)) + "}")
    cfg = """CONSTANTS
  Dim = %d
  Lmax = %d
  NObj = 3
  Depth = %d
  ZMin = %d
  ZMax = %d
  AllTargets = %s
  Inits <- MCInits
  Scalars <- MCScalars
  Mats <- MCMats
  Consts <- MCConsts
  TruncNs <- MCTruncNs
  Keys <- MCKeys
  Bases <- MCBases
  ZShapes <- MCZShapes
  Pts <- MCPts
  ThmPts <- MCThmPts
  Menu <- MCMenu
""" % (cons["Dim"], H.LMAX, depth, cons["ZMin"], cons["ZMax"], "TRUE" if all_targets else "FALSE")
    return mod, cfg, pts


ROLE_ARGS = {  # action -> (indices of operand slots in args, index of the written slot)
    "Add": ((0, 1), 2), "Sub": ((0, 1), 2), "Mul": ((0, 1), 2), "IAdd": ((1,), 0), "ISub": ((1,), 0),
    "Neg": ((0,), 1), "Copy": ((0,), 1), "Scalar": ((0,), 2), "IScalar": ((), 0), "AddConst": ((0,), 2),
    "LDot": ((0,), 2), "RDot": ((0,), 2), "ILDot": ((), 0), "IRDot": ((), 0), "Truncate": ((0,), 2),
    "ITruncate": ((), 0), "Reduce": ((), 0), "Separate": ((), 0), "Slice": ((0,), 2), "SetSlice": ((2,), 0),
    "Zeros": ((), 1), "Construct": ((), 1)}


def role_of(name, args, slot):
    ops, w = ROLE_ARGS[name]
    if args[w] == slot:
        return "result"
    if slot in [args[i] for i in ops]:
        return "operand"
    return "bystander"


def machine_check(cons, depth, npts, all_targets, workers=2):
    """One configuration of the object machine.  Pure: returns the verdict material, touches no shared state."""
    dim, fam = cons["Dim"], cons["fam"]
    T = H.taylor_class(dim)
    cls = T.__name__
    tag = "%s|%s%s" % (cls, fam, "|" + cons["menu_name"] if cons.get("menu_name") else "")
    out = {"class": cls, "family": fam, "menu": cons.get("menu_name", "all"), "depth": depth, "violations": [],
           "cases": [], "models": []}
    wd = tlc.scratch()
    mod, cfg, pts = mc_module(cons, npts, depth, all_targets)
    path = os.path.join(wd, "MC_C16.tla")
    with open(path, "w") as f:
        f.write(mod)
    # ---- run 1: the model on its own (theorems) + the graph of call histories
    # (one worker: with the history hidden by the VIEW the depth bound is only exact in strict breadth-first order)
    res = tlc.run(path, cfg + "  UseObs = FALSE\nSPECIFICATION Spec\nVIEW Shown\nINVARIANT WellFormed\n"
                  "INVARIANT TablesAreEvaluation\nINVARIANT AddHom\nINVARIANT MulHom\n",
                  workers=1, dump=True, workdir=wd, timeout=2400)
    tlc.require_clean(res, "TaylorObj model %s" % tag)
    out["models"].append((res.distinct, res.generated, res.cmd))
    edges, inits = H.read_graph(res.dot)
    for lst in edges.values():
        for lab, dst in lst:
            if H.canon_label(lab)[0] not in ROLE_ARGS:
                raise tlc.TLCError("unexpected action label %r in the state graph" % lab)
    walks = H.walks(edges, inits, depth)
    # ---- replay every history on real objects (the real pool lives through the whole history: aliasing is kept)
    obs, last = {}, {}
    skipped = nsteps = 0
    for root, labels in walks:
        pool = [H.build(T, o) for o in cons["Inits"][int(root[1:]) - 1]]
        hist = root
        if hist not in obs:
            obs[hist] = {"skip": False, "objs": [H.observe(x, pts) for x in pool]}
        dead = False
        for lab in labels:
            name, args, canon = H.canon_label(lab)
            hist = hist + "/" + canon
            if hist in obs:
                # a prefix that was already observed: only re-execute it (deterministic)
                dead = dead or obs[hist]["skip"]
                if not dead:
                    _execute(T, pool, cons, name, args, hist)
                continue
            if dead:
                obs[hist] = {"skip": True, "objs": []}
                continue
            flags = _flags(pool, name, args)
            try:
                _execute(T, pool, cons, name, args, hist)
            except H.Skip:
                skipped += 1
                dead = True
                obs[hist] = {"skip": True, "objs": []}
                continue
            except Exception as ex:
                out["cases"].append(((cls, fam, hist), True))
                out["violations"].append((
                    "raised|%s|%s|%s|%s|%s" % (flags, type(ex).__name__, name, cls, fam),
                    "%s (%s coefficients; operands: %s): history %s: the call %s raised %s: %s"
                    % (cls, fam, flags, hist, canon, type(ex).__name__, ex),
                    {"class": cls, "family": fam, "history": hist, "constants": _plain(cons),
                     "run": [depth, npts, all_targets]}))
                dead = True
                obs[hist] = {"skip": True, "objs": []}
                continue
            nsteps += 1
            last[hist] = (name, args, flags)
            obs[hist] = {"skip": False, "objs": [H.observe(x, pts, use_fnu=(nsteps % 5 == 0)) for x in pool]}
    # ---- run 2: TLC re-explores the histories with the observations loaded and decides conformance
    of = os.path.join(wd, "obs.json")
    with open(of, "w") as f:
        json.dump(obs, f)
    res2 = tlc.run(path, cfg + "  UseObs = TRUE\nSPECIFICATION Spec\nINVARIANT Conforms\n", workers=workers,
                   workdir=wd, env={"OBS_FILE": of}, timeout=2400)
    tlc.require_clean(res2, "TaylorObj conformance %s" % tag)
    out["models"].append((res2.distinct, res2.generated, res2.cmd))
    if res2.distinct != len(obs):
        raise tlc.TLCError("conformance run visited %d histories, %d were replayed" % (res2.distinct, len(obs)))
    for h, ob in obs.items():
        if not ob["skip"]:
            out["cases"].append(((cls, fam, h), h in last))
    failed = H.prints(res2, "FAIL")
    bad = {p[1] for p in failed}
    for p in failed:
        hist, slot, clause = p[1], p[2], p[3]
        if clause == "unobserved":
            raise tlc.TLCError("history %s of the model was not replayed" % hist)
        if any(hist[:i] in bad for i, ch in enumerate(hist) if ch == "/"):
            continue        # an earlier step of this history already failed: report the first divergence only
        name, args, flags = last.get(hist, ("Init", [], "plain"))
        role = role_of(name, args, slot) if name != "Init" else "initial"
        out["violations"].append((
            "denotes|%s|%s|%s|%s|%s|%s" % (flags, clause, name, role, cls, fam),
            "%s (%s coefficients; operands: %s): after the history %s the %s object in slot %d does not evaluate to "
            "the exact value of the expansion it must denote (clause %s; %s)"
            % (cls, fam, flags, hist, role, slot, clause,
               "the result of the call is wrong" if role == "result"
               else "an object the call must not touch changed: side effect / shared storage"),
            {"class": cls, "family": fam, "history": hist, "slot": slot, "clause": clause,
             "constants": _plain(cons), "run": [depth, npts, all_targets], "observed": obs[hist]["objs"][slot - 1]}))
    calls = {}
    for name, args, flags in last.values():
        calls[name] = calls.get(name, 0) + 1
    out.update(graph_states=res.distinct, histories=len(obs), steps=nsteps, skipped=skipped, calls=calls)
    return out


def _job(job):
    """Process-pool entry: (cons, depth, npts, all_targets) -> result or ('error', text)."""
    try:
        return machine_check(*job)
    except tlc.TLCError as ex:
        return {"error": str(ex)}
    finally:
        tlc.cleanup()


def _flags(pool, name, args):
    """What is unusual about the real objects a call is about to read or modify (part of the violation key):
    'dup-labels' = a term label (n, l) occurs twice in an operand (the package documents such lists as legitimate:
    they "should still evaluate the same"), 'real-dtype' = a coefficient array that is not complex (a + real array
    stores the real array as it is)."""
    ops, w = ROLE_ARGS[name]
    fl = set()
    inplace = name in ("IAdd", "ISub", "IScalar", "ILDot", "IRDot", "ITruncate", "Reduce", "Separate", "SetSlice")
    for s in {args[i] for i in ops} | ({args[w]} if inplace else set()):
        x = pool[s - 1]
        if x is None:
            continue
        nls = [(n, l) for n, l, c in x.coefflist]
        if len(set(nls)) != len(nls):
            fl.add("dup-labels")
        if any(not np.iscomplexobj(c) for n, l, c in x.coefflist):
            fl.add("real-dtype")
    return "+".join(sorted(fl)) or "plain"


def _execute(T, pool, cons, name, args, hist):
    H.apply_action(T, pool, cons, name, args, flav=sum(map(ord, hist)))


def _plain(v):
    """JSON-able copy (exponent tuples / radial orders as string keys) for replay files."""
    if isinstance(v, dict):
        return {(k if isinstance(k, str) else str(k)): _plain(x) for k, x in v.items()}
    if isinstance(v, (list, tuple)):
        return [_plain(x) for x in v]
    return v


def _unplain(cons):
    """Inverse of _plain for the constants of a configuration (replay files)."""
    import ast
    cons = dict(cons)
    pools = []
    for pool in cons["Inits"]:
        objs = []
        for o in pool:
            if o is not None:
                o = dict(o)
                o["E"] = {int(n): (t[0], {ast.literal_eval(e): m for e, m in t[1].items()}) for n, t in o["E"].items()}
            objs.append(o)
        pools.append(objs)
    cons["Inits"] = pools
    return cons


def replay(ctx):
    payload = json.load(open(ctx.replay))["payload"]
    if "constants" not in payload:           # a table clause: the tables are re-read and re-checked
        return check_tables(ctx)
    depth, npts, allt = payload["run"]
    r = _job((_unplain(payload["constants"]), depth, npts, allt))
    if "error" in r:
        raise tlc.TLCError(r["error"])
    for distinct, generated, cmd in r["models"]:
        ctx.states += distinct
        ctx.transitions += generated
    for key, nontrivial in r["cases"]:
        ctx.case(key, nontrivial=nontrivial)
    for key, what, pl in r["violations"]:
        ctx.violation(key, what, pl)


MENUS = {
    # the quick tier splits the calls over two menus (each with the in-place sums, copies and products that make
    # aliasing visible); the thorough tier issues every call everywhere
    "arith": ["Add", "Sub", "Mul", "IAdd", "ISub", "Neg", "Copy", "IScalar", "AddConst", "Truncate", "Reduce"],
    "struct": ["Add", "IAdd", "Mul", "Copy", "LDot", "RDot", "ILDot", "IRDot", "Reduce", "Separate", "Slice",
               "SetSlice", "Zeros", "Construct", "Truncate"],
    "blocks": ["IAdd", "ISub", "Copy", "Mul", "Reduce", "Separate", "Slice", "SetSlice", "Zeros", "Construct", "ILDot",
               "Scalar", "ITruncate"],
    # depth-3 menus (thorough tier)
    "alias3": ["Add", "IAdd", "ISub", "Copy", "Mul", "Reduce"],
    "struct3": ["IAdd", "Slice", "SetSlice", "Zeros", "Copy", "Separate", "Reduce"],
    "dot3": ["ILDot", "RDot", "IAdd", "ITruncate", "Neg", "Copy", "IScalar"],
}


def run(ctx):
    import multiprocessing as mp
    from concurrent.futures import ProcessPoolExecutor
    if ctx.replay:
        return replay(ctx)
    quick = ctx.tier == "quick"
    ctx.rule = ("index tables of both classes compared entry by entry with their definition; every call history of "
                "TaylorObj (pool of 3, depth %s, arithmetic calls and their in-place twins) replayed on real Taylor3D "
                "and Taylor2D objects, every object evaluated per radial order at Pythagorean points after every step "
                "and compared exactly by TLC (non-trivial = history with at least one call)"
                % ("2" if quick else "2 (all targets, 6 points) and 3"))
    plan = []   # (dim, family, variant, menu, depth, points, all targets)
    if quick:
        plan = [(3, "m22", 4, "arith", 2, 3, False), (3, "mix", 2, "struct", 2, 3, False),
                (2, "mix", 0, "arith", 2, 3, False), (2, "m11", 2, "blocks", 2, 3, False)]
    else:
        for dim in (3, 2):
            # depth 2, every call, larger menus of constants; variants 0 (free slot), 1 (empty accumulator), 2 (zeros())
            m22v, m11v = ((0, 1), (1,)) if dim == 3 else ((0, 2), (2,))
            for fam, variants, allt in (("s", (0,), True), ("s", (1,), False), ("m11", m11v, False),
                                        ("m22", m22v, False), ("mix", (0, 2), False)):
                for v in variants:
                    plan.append((dim, fam, v, None, 2, 4, allt))
            # depth 3 on focused menus
            plan += [(dim, "m22", 0, "alias3", 3, 3, False), (dim, "mix", 2, "struct3", 3, 3, False),
                     (dim, "m11", 0, "dot3", 3, 3, False)]
        plan.sort(key=lambda t: -t[4])      # the long depth-3 runs first
    jobs = []
    for dim, fam, variant, menu, depth, npts, allt in plan:
        cons = make_config(ctx.rng, dim, fam, quick or depth == 3, variant)
        if menu:
            cons["Menu"], cons["menu_name"] = MENUS[menu], menu
        jobs.append((cons, depth, npts, allt))
    with ProcessPoolExecutor(max_workers=min(len(jobs), 8), mp_context=mp.get_context("fork")) as ex:
        futs = [ex.submit(_job, j) for j in jobs]
        check_tables(ctx)            # meanwhile, in this process
        results = [f.result() for f in futs]
    summary = []
    for r in results:
        if "error" in r:
            raise tlc.TLCError(r["error"])
        for distinct, generated, cmd in r["models"]:
            ctx.states += distinct
            ctx.transitions += generated
            if len(ctx.checker_cmds) < 4:
                ctx.checker_cmds.append(cmd)
        for key, nontrivial in r["cases"]:
            ctx.case(key, nontrivial=nontrivial)
        ctx.traces += sum(1 for key, nt in r["cases"])
        for key, what, payload in r["violations"]:
            ctx.violation(key, what, payload)
        summary.append({k: r[k] for k in ("class", "family", "menu", "depth", "graph_states", "histories", "steps",
                                          "skipped")})
    calls = {}
    for r in results:
        for name, cnt in r["calls"].items():
            calls[name] = calls.get(name, 0) + cnt
    ctx.info("histories_by_last_call", dict(sorted(calls.items())))
    never = sorted(set(ROLE_ARGS) - set(calls))
    if never:
        raise tlc.TLCError("calls never issued by any configuration (vacuous): %s" % never)
    ctx.info("machine_runs", summary)
    ctx.info("skipped_calls", sum(s["skipped"] for s in summary))
    ctx.sample({"machine": summary[0], "example_history": "I1/Add(1,2,3)/IAdd(3,2)"})
    ctx.exhaustive = True
