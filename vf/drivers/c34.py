"""C34 -- kinetic barriers obey detailed balance.

Model level: TLC checks, for EVERY occupation of a small supercell, the invariants DetailedBalance (no
vacancy: the reverse jump is found in the same tables after the update) and DetailedBalanceVac (vacancy:
the final configuration is described by the tables of the sampler built with the vacancy moved to the
jump's end point) on the tables extracted from real samplers -- an exhaustive decision about the output of
jumpnetworkevaluator / jumpnetworkevaluator_vacancy for those supercells, cluster sets and values.
Code level: every state is replayed on the real samplers: transitions() must equal the model's
transition table, and for every reported transition the real reverse transition (opposite displacement)
from the real final configuration must satisfy Q - Qrev = Efinal - Einitial.
"""
import os

import numpy as np

from .. import samplers, tlc

LEVEL = "model_checking"


def run(ctx):
    quick = ctx.tier == "quick"
    ctx.rule = ("every occupation of a small supercell x every allowed transition (TLC invariants DetailedBalance / "
                "DetailedBalanceVac on extracted tables; real samplers replayed per state); random even cluster values, "
                "integer KRA and TS-cluster values, random spectators; non-trivial = distinct (config, occupation, "
                "transition) with a reported barrier")
    # hcp221p / hcp221v: two mobile sites per cell, jumps between DIFFERENT basis sites (without / with a vacancy)
    cfgs = ["sc221j", "b2s221", "fccnd", "sc221v", "b2s221v", "tet2_211", "tet2_211v", "hcp221v", "hcp221p", "fccndt", "fcc222t"]
    if not quick:
        cfgs += ["sc222j", "sc222v", "fcc222", "fcc222v", "hcp221", "b2s222", "b2s222v"]
    for rep in range(1 if quick else 2):
        for name in cfgs:
            db_check(ctx, name)


def db_check(ctx, name, stride=1):
    s = samplers.build(name, ctx.rng)
    tab = samplers.tables(s)
    NS, vac = tab["NS"], tab["Vac"]
    if not tab["Jumps"]:
        raise tlc.TLCError("configuration %s has no jumps" % name)
    sites = [i for i in range(1, NS + 1) if i != vac]
    mvs = [([i], []) for i in sites] + [([], [i]) for i in sites]
    start = [(-1 if i == vac else 0) for i in range(1, NS + 1)]
    alts, altS = None, {}
    if vac:
        alts = []
        for n, j in enumerate(tab["Jumps"]):
            jsite = j["j"]
            if jsite not in altS:
                s2 = samplers.build(name, ctx.rng, vacancy_override=jsite - 1, values=s.values)
                altS[jsite] = (s2, samplers.tables(s2))
            s2, t2 = altS[jsite]
            r = 0
            for n2, j2 in enumerate(t2["Jumps"]):
                if j2["i"] == jsite and j2["j"] == vac and np.allclose(j2["dx"], -np.array(j["dx"]), atol=1e-8):
                    r = n2 + 1
            alts.append(samplers.alt_record(t2, r))
    wd = tlc.scratch()
    mod, cfg = samplers.mc_module("MC_Sampler", "Sampler", tab, [], mvs, starts=[start], alt=alts)
    path = os.path.join(wd, "MC_Sampler.tla")
    open(path, "w").write(mod)
    inv = "DetailedBalanceVac" if vac else "DetailedBalance"
    cfg += "\nSPECIFICATION Spec\nINVARIANT %s\nINVARIANT CntIsFunctionOfOcc\n" % inv
    res = tlc.run(path, cfg, workers=8, dump=True, workdir=wd, timeout=3000)
    ctx.add_model(res)
    if res.invariant_violated:
        ctx.violation("model|%s|%s" % (name, res.invariant_violated),
                      "TLC: on the jump/interaction tables extracted from the real sampler(s) (%s), invariant %s fails "
                      "for some occupation: barrier(forward) - barrier(reverse) != E(final) - E(initial), or the reverse "
                      "transition is missing.\n%s" % (name, res.invariant_violated, res.out[-2500:]),
                      {"config": name, "values": s.values, "tlc": res.out[-6000:]})
        return
    tlc.require_clean(res, "Sampler/C34 %s" % name)
    nodes, edges, inits = tlc.parse_dot(res.dot)
    ctx.exhaustive = True
    ctx.sample({"config": name, "sites": NS, "vacancy": vac, "jumps": len(tab["Jumps"]),
                "occupations": len(nodes), "values": s.values})
    MC = s.MC
    for kk, (nid, n) in enumerate(sorted(nodes.items(), key=lambda kv: kv[1]["occ"])):
        if kk % stride:
            continue
        occ = np.array(n["occ"], dtype=int)
        MC.start(occ.copy())
        E0 = MC.E()
        try:
            E, T = samplers.observe(MC, tab)
        except AssertionError as ex:
            ctx.violation("state|%s|transitions" % name, "%s occ=%s: %s" % (name, n["occ"], ex),
                          {"config": name, "values": s.values, "occ": n["occ"]})
            continue
        if [list(map(float, t)) for t in T] != [list(map(float, t)) for t in n["obs"]["T"]] or E != n["obs"]["E"]:
            ctx.violation("state|%s|obs" % name,
                          "%s occ=%s: transitions()/E() = %s / %s, model %s" % (name, n["occ"], T, E, n["obs"]),
                          {"config": name, "values": s.values, "occ": n["occ"]})
            continue
        ij, Q, dx = MC.transitions()
        for (i, j), q, d in zip(ij, Q, dx):
            ctx.case((name, tuple(n["occ"]), int(i), int(j), tuple(np.round(d, 6)), str(s.values)), nontrivial=True)
            occ2 = occ.copy()
            if vac:
                occ2[i], occ2[j] = occ[j], occ[i]
                MC2 = altS[j + 1][0].MC
            else:
                occ2[i], occ2[j] = 0, 1
                MC2 = MC
            MC2.start(occ2.copy())
            E2 = MC2.E()
            qrev = None
            for (i2, j2), q2, d2 in zip(*MC2.transitions()):
                if i2 == j and j2 == i and np.allclose(d2, -d, atol=1e-8):
                    qrev = q2
            if qrev is None or (q - qrev) != (E2 - E0):
                ctx.violation("db|%s|%s" % (name, "missing-reverse" if qrev is None else "imbalance"),
                              "%s occ=%s transition %d->%d dx=%s: Q=%s, reverse Q=%s, E0=%s, E1=%s" % (
                                  name, n["occ"], i, j, list(d), q, qrev, E0, E2),
                              {"config": name, "values": s.values, "occ": n["occ"], "jump": [int(i), int(j)]})
            if not vac:
                MC.start(occ.copy())
    ctx.traces += len(nodes)
