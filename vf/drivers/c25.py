"""C25 -- vector-star bases are orthonormal, symmetry-equivariant and complete; the Green-function, rate, bias and
bare-diffusivity expansions reproduce the directly assembled state-basis quantities projected on the basis.

Worlds (catalogue + mirror-only / polar / low-symmetry worlds defined here) are realised both aligned with the
Cartesian axes and in random orientations (the construction special-cases directions near the z axis); a StarSet
(N = 1..3, with and without origin states) and its VectorStarSet are built on the library's own jump network.
Projected to integers / fixed point and judged by TLC (spec/world/Check_C25.tla):
  * count: number of vector stars on every star = dimension of the invariant vector space of the stabiliser of the
    star's representative in the DEFINITIONAL space group (character formula; origin states: site stabiliser);
  * equivariance: R v_a(s) = v_a(g s) for every operation and state, exact integer-linear identity on the vectors
    transported in lattice coordinates (Fx);
  * orthonormality: Gram matrix (formed here, metric needed) = identity;
  * GFexpansion, rateexpansions (omega1 network; omega2 network with omega2 = False / True), biasexpansions,
    bareexpansions and `outer`, contracted with exact dyadic rates, against the quantities assembled directly in the
    state basis from the recorded vectors (DESIGN appendix A.1) -- entrywise comparison by TLC.
"""
import itertools
import multiprocessing
import random
import time
from concurrent.futures import ProcessPoolExecutor

import numpy as np

from .. import rel, tlc, worlds
from .. import helpers_c15 as hc
from .. import helpers_stars as hs

LEVEL = "model_checking"

W = worlds.W
EXTRA = {
    # two atoms at general positions of the z = 0 mirror plane of an orthorhombic cell: site symmetry m (2D invariant space)
    "orthomirror": W("ortho", 8, [[[0, 0, 0], [3, 2, 0]]]),
    # the same plane in a cell with a spectator species and a third, inequivalent site
    "orthomirror3": W("ortho", 10, [[[5, 5, 5]], [[0, 0, 0], [4, 2, 0], [7, 6, 0]]]),
    # triclinic, two atoms related by inversion: site symmetry 1 (3D invariant space)
    "tricpair": W("tric", 10, [[[0, 0, 0], [3, 4, 2]]]),
    # 2D oblique, two atoms: site symmetry 1
    "obliquepair": W("oblique", 10, [[[0, 0], [3, 4]]]),
    # displaced B2: site symmetry 3m (1D invariant space), the repository's own origin-state test crystal
    "b2displaced": W("sc", 20, [[[0, 0, 0], [9, 9, 9]]]),
    # primitive monoclinic cell (unique axis b, point group 2/m): pair states along b are stabilised by the bare
    # two-fold rotation (the catalogue's "mono" metric is accidentally centred orthorhombic)
    "mono2m": {"dim": 3, "M": [[3, 0, 1], [0, 2, 0], [1, 0, 5]], "D": 1, "basis": [[[0, 0, 0]]]},
    # orthorhombic cell decorated down to point group 222 (three two-fold axes, no mirrors)
    "ortho222": {"dim": 3, "M": [[4, 0, 0], [0, 5, 0], [0, 0, 7]], "D": 8,
                 "basis": [[[0, 0, 0]], [[1, 2, 3], [7, 6, 3], [7, 2, 5], [1, 6, 5]]]},
}


def world_of(name):
    return dict(EXTRA[name] if name in EXTRA else worlds.CATALOGUE[name], name=name)


def setup(w, rng, chem, aligned):
    crys, unit = worlds.realise(w, None if aligned else rng, orient=not aligned)
    ow = worlds.observe(crys, unit, Dhint=w["D"])
    return {"crys": crys, "unit": unit, "ow": ow, "chem": chem, "name": w["name"]}


def fxm(T, scale):
    return rel.fxmat(np.atleast_2d(np.asarray(T, dtype=float)), scale)


def pair(name, a, b, tolrel=1e-6):
    a, b = np.asarray(a, dtype=float), np.asarray(b, dtype=float)
    if a.ndim == 1 and b.ndim == 1:
        a, b = a[:, None], b[:, None]          # vectors over the vector stars: one row per vector star
    if a.shape != b.shape or a.ndim != 2:
        raise worlds.ProjectionError("%s: expansion has shape %s, the directly assembled quantity %s" % (name, a.shape, b.shape))
    if a.size == 0:
        return None
    if not (np.all(np.isfinite(a)) and np.all(np.isfinite(b))):
        raise worlds.ProjectionError("%s: non-finite entries" % name)
    scale = max(1.0, float(np.max(np.abs(a))), float(np.max(np.abs(b))))
    return {"name": name, "a": fxm(a, scale), "b": fxm(b, scale), "tol": rel.tol_units(tolrel),
            "fa": a, "fb": b, "scale": scale}


def dyadic(rng, n, den=8):
    """n distinct dyadic rationals (odd numerators / den), shuffled."""
    v = [(2 * k + 1) / float(den) for k in range(n)]
    rng.shuffle(v)
    return np.array(v)


def record_variant(S, ss, vs, rng):
    """One VectorStarSet -> (case, info)."""
    crys, chem = S["crys"], S["chem"]
    dim = crys.dim
    states = ss.states
    NS, NV = len(states), int(vs.Nvstars)
    if NV != len(vs.vecpos) or NV != len(vs.vecvec):
        raise worlds.ProjectionError("Nvstars = %d but %d vecpos / %d vecvec lists" % (NV, len(vs.vecpos), len(vs.vecvec)))
    pstates = [hs.ps_project(S, PS) for PS in states]
    stars = [[int(s) + 1 for s in st] for st in ss.stars]
    vecpos = [[int(s) + 1 for s in svR] for svR in vs.vecpos]
    for svR in vs.vecpos:
        for s in svR:
            if not 0 <= int(s) < NS:
                raise worlds.ProjectionError("vecpos refers to state %r of %d" % (s, NS))
    vc = [[np.asarray(v, dtype=float) for v in svv] for svv in vs.vecvec]
    for svv in vc:
        for v in svv:
            if v.shape != (dim,) or not np.all(np.isfinite(v)):
                raise worlds.ProjectionError("vector %r of a vector star is not a finite %d-vector" % (v, dim))
    vl = [[np.dot(crys.invlatt, v) for v in svv] for svv in vc]
    vscale = max([1e-300] + [float(np.max(np.abs(v))) for svv in vl for v in svv])
    vecvec = [[[rel.fx(x, vscale) for x in v] for v in svv] for svv in vl]
    # dense fields V[a, s, :] (Cartesian)
    V = np.zeros((NV, NS, dim))
    for a, (svR, svv) in enumerate(zip(vs.vecpos, vc)):
        for s, v in zip(svR, svv):
            V[a, s] += v
    gram = np.zeros((NV, NV))
    for a in range(NV):
        for b in range(NV):
            gram[a, b] = sum(np.dot(va, vb) for sa, va in zip(vs.vecpos[a], vc[a]) for sb, vb in zip(vs.vecpos[b], vc[b]) if sa == sb)
    case = {"w": {k: S["ow"][k] for k in ("dim", "M", "D", "basis")}, "c": chem + 1, "states": pstates, "stars": stars,
            "vecpos": vecpos, "vecvec": vecvec, "vtol": rel.tol_units(1e-7), "gram": fxm(gram, 1.0) if NV else [],
            "gtol": rel.tol_units(1e-7), "pairs": []}
    isorigin = [len(svR) > 0 and bool(states[svR[0]].iszero()) for svR in vs.vecpos]
    info = {"Nstates": NS, "Nstars": len(stars), "Nvstars": NV, "origin_vstars": sum(isorigin), "rows": {}}
    if NV == 0:
        return case, info
    pairs = []

    def add(p):
        """Queue a pair for TLC; label (not judge) which rows differ -- used only to make violation keys specific."""
        if p is None:
            return
        pairs.append(p)
        a, b, scale = p.pop("fa"), p.pop("fb"), p.pop("scale")
        if a.shape[0] == NV and not p["name"].startswith(("outer", "bare")):
            bad = [r for r in range(NV) if np.max(np.abs(a[r] - b[r])) > 1e-6 * scale]
            if bad:
                info["rows"][p["name"]] = "+".join(sorted({"origin" if isorigin[r] else "other" for r in bad}))

    # ---- outer products
    out = np.asarray(vs.outer, dtype=float)
    direct = np.einsum("asi,bsj->ijab", V, V)
    if out.shape != direct.shape:
        raise worlds.ProjectionError("outer has shape %s, expected %s" % (out.shape, direct.shape))
    add(pair("outer", out.reshape(dim * dim * NV, NV), direct.reshape(dim * dim * NV, NV)))
    # ---- Green function expansion: g = a random symmetric function on pair states (constant on orbits under
    #      the group and under reversal), values exact dyadics
    G = list(crys.G)
    canon, orbitval = {}, {}

    def key(PS):
        return (int(PS.i), int(PS.j), tuple(int(x) for x in PS.R))

    def gval(PS):
        k0 = key(PS)
        if k0 not in canon:
            imgs = set()
            for g in G:
                q = PS.g(crys, chem, g)
                imgs.add(key(q))
                imgs.add(key(-q))
            c = min(imgs)
            for q in imgs:
                canon[q] = c
        c = canon[k0]
        if c not in orbitval:
            orbitval[c] = (2 * rng.randrange(1, 64) + 1) / 32.0
        return orbitval[c]

    res = vs.GFexpansion()
    if res is not None:
        GFexp, GFss = res
        GFexp = np.asarray(GFexp, dtype=float)
        if GFexp.shape != (NV, NV, GFss.Nstars):
            raise worlds.ProjectionError("GFexpansion has shape %s, expected %s" % (GFexp.shape, (NV, NV, GFss.Nstars)))
        gk = np.array([gval(GFss.states[st[0]]) for st in GFss.stars])
        Gm = np.zeros((NS, NS))
        for s in range(NS):
            for s2 in range(NS):
                if states[s].i == states[s2].i:
                    Gm[s, s2] = gval(states[s2] ^ states[s])
        add(pair("GF", np.dot(GFexp, gk), np.einsum("asi,bti,st->ab", V, V, Gm)))
        info["NGFstars"] = int(GFss.Nstars)
    # ---- rate / bias / bare expansions on the omega1 and omega2 networks of the star set
    n0 = len(ss.jumpnetwork_index)
    r0 = dyadic(rng, n0)
    zero_of = {}
    for s, PS in enumerate(states):
        if PS.iszero():
            zero_of[int(PS.i)] = s
    nets = []
    jn1, jt1, _ = ss.jumpnetwork_omega1()
    jn2, jt2, _ = ss.jumpnetwork_omega2()
    nets.append(("om1", jn1, jt1, False))
    nets.append(("om2", jn2, jt2, False))
    nets.append(("om2os", jn2, jt2, True))
    info["om1"] = len(jn1)
    info["om2"] = len(jn2)
    for tag, jn, jt, flag in nets:
        nk = len(jn)
        if nk == 0:
            continue
        jt = [int(x) for x in jt]
        r1 = dyadic(rng, nk, 16)
        E1, S1, E0, S0 = np.zeros((NV, NV)), np.zeros(NV), np.zeros((NV, NV)), np.zeros(NV)
        B1, B0 = np.zeros(NV), np.zeros(NV)
        D1, D0 = np.zeros((dim, dim)), np.zeros((dim, dim))
        for kcl, (jl, t) in enumerate(zip(jn, jt)):
            for (IS, FS), dx in jl:
                dx = np.asarray(dx, dtype=float)
                hop = np.dot(V[:, IS, :], V[:, FS, :].T)          # v_a(IS) . v_b(FS)
                esc = np.sum(V[:, IS, :] ** 2, axis=1)            # |v_a(IS)|^2
                E1 += r1[kcl] * hop
                S1 -= r1[kcl] * esc
                B1 += r1[kcl] * np.dot(V[:, IS, :], dx)
                B0 += r0[t] * np.dot(V[:, IS, :], dx)
                D1 += r1[kcl] * 0.5 * np.outer(dx, dx)
                D0 += r0[t] * 0.5 * np.outer(dx, dx)
                if not flag:
                    E0 += r0[t] * hop
                    S0 -= r0[t] * esc
                else:
                    # the omega0 reference of an exchange: the vacancy hops between IS and the origin state of
                    # the solute's site (when the star set has origin states), in both directions
                    S0 -= r0[t] * esc
                    OS = zero_of.get(int(states[IS].i))
                    if OS is not None:
                        h = np.dot(V[:, IS, :], V[:, OS, :].T)
                        E0 += r0[t] * (h + h.T)
                        S0 -= r0[t] * np.sum(V[:, OS, :] ** 2, axis=1)
                        # documented convention: the origin state carries the negative summed bias of the others
                        B1 -= r1[kcl] * np.dot(V[:, OS, :], dx)
                        B0 -= r0[t] * np.dot(V[:, OS, :], dx)
        rate0, esc0, rate1, esc1 = vs.rateexpansions(jn, jt, omega2=flag) if flag else vs.rateexpansions(jn, jt)
        bias0, bias1 = vs.biasexpansions(jn, jt, omega2=flag) if flag else vs.biasexpansions(jn, jt)
        for nm, arr, shape in (("rate0", rate0, (NV, NV, n0)), ("escape0", esc0, (NV, n0)), ("rate1", rate1, (NV, NV, nk)),
                               ("escape1", esc1, (NV, nk)), ("bias0", bias0, (NV, n0)), ("bias1", bias1, (NV, nk))):
            if np.shape(arr) != shape:
                raise worlds.ProjectionError("%s expansion (%s) has shape %s, expected %s" % (nm, tag, np.shape(arr), shape))
        add(pair("rate1_" + tag, np.dot(rate1, r1), E1))
        add(pair("escape1_" + tag, np.dot(esc1, r1), S1))
        add(pair("rate0_" + tag, np.dot(rate0, r0), E0))
        e0_obs = np.dot(esc0, r0)
        if flag and zero_of:
            # The origin-state rows of the omega2-mode reference escape are an internal convention of the package
            # (they are multiplied by the number of vector stars on the exchange state, and Lij relies on exactly
            # that: 'correcting' it breaks the tracer identities of every crystal with origin states), not a
            # projection of a directly assembled quantity: they are not decided here.
            for a_ in range(NV):
                if any(np.any(V[a_, s_, :] != 0) for s_ in zero_of.values()):
                    e0_obs[a_] = 0.0
                    S0[a_] = 0.0
        add(pair("escape0_" + tag, e0_obs, S0))
        add(pair("bias1_" + tag, np.dot(bias1, r1), B1))
        add(pair("bias0_" + tag, np.dot(bias0, r0), B0))
        if not flag:
            d0, d1 = vs.bareexpansions(jn, jt)
            if np.shape(d0) != (dim, dim, n0) or np.shape(d1) != (dim, dim, nk):
                raise worlds.ProjectionError("bare expansions (%s) have shapes %s / %s" % (tag, np.shape(d0), np.shape(d1)))
            add(pair("bare1_" + tag, np.dot(d1, r1), D1))
            add(pair("bare0_" + tag, np.dot(d0, r0), D0))
    case["pairs"] = pairs
    info["pairs"] = len(pairs)
    return case, info


def record(task):
    from onsager import crystalStars as stars
    t0 = time.time()
    w = world_of(task["world"])
    rng = random.Random(task["seed"])
    fam = task["world"]
    base = {"world": fam, "chem": task["chem"], "nshell": task["nshell"], "orient": "aligned" if task["aligned"] else "random"}
    out = {"base": base, "errors": [], "cases": [], "meta": []}
    try:
        S = setup(w, rng, task["chem"], task["aligned"])
        jn = S["crys"].jumpnetwork(task["chem"], hs.cutoff_for(S, task["nshell"]))
    except worlds.ProjectionError as ex:
        out["errors"].append(("projection|world", str(ex), base))
        return out
    if not any(len(c) for c in jn):
        return out
    if sum(map(ord, str(task["seed"]))) % 2 == 0:
        # a Crystal is a value: what other parts of the package computed on the SAME object before (full vector and
        # tensor bases, an interstitial calculator) must not change the vector stars built afterwards
        try:
            from onsager import OnsagerCalc
            crys_ = S["crys"]
            crys_.FullVectorBasis(task["chem"])
            crys_.SymmTensorBasis((task["chem"], 0))
            OnsagerCalc.Interstitial(crys_, task["chem"], crys_.sitelist(task["chem"]), jn)
            base["orient"] += "+used"
        except Exception as ex:      # noqa: BLE001
            out["errors"].append(("raised|%s|prior-use|%s" % (type(ex).__name__, fam), "%s: %s" % (type(ex).__name__, ex), base))
            return out
    for (N, og) in task["variants"]:
        tag = "%s|chem=%d|shells=%d|N=%d|origin=%s|%s" % (fam, task["chem"], task["nshell"], N, og, base["orient"])
        try:
            ss = stars.StarSet(jn, S["crys"], task["chem"], N, originstates=og)
            vs = stars.VectorStarSet(ss)
            case, info = record_variant(S, ss, vs, rng)
        except worlds.ProjectionError as ex:
            out["errors"].append(("projection|%s" % tag, str(ex), base))
            continue
        except Exception as ex:      # noqa: BLE001
            out["errors"].append(("raised|%s|%s" % (type(ex).__name__, tag), "%s: %s" % (type(ex).__name__, ex), base))
            continue
        info.update({"tag": tag, "G": len(S["crys"].G)})
        out["cases"].append(case)
        out["meta"].append({"tag": tag, "info": info, "base": dict(base, N=N, origin=og)})
    out["wall"] = round(time.time() - t0, 1)
    return out


def tasks_for(ctx, quick):
    rng = ctx.rng
    tasks = []

    def add(world, chem=0, nshell=1, variants=((1, False), (1, True), (2, True)), aligned=False):
        tasks.append({"world": world, "chem": chem, "nshell": nshell, "variants": list(variants), "aligned": aligned,
                      "seed": "C25-%d-%s-%d-%d" % (ctx.seed, world, len(tasks), rng.randrange(10 ** 6))})

    both = ((1, False), (1, True), (2, False), (2, True))
    if quick:
        add("square", variants=both + ((3, True),))
        add("hex2d", variants=((1, True), (2, False)))
        add("honeycomb", variants=both)
        add("fcc", variants=((1, True), (2, False)))
        add("fcc", variants=((2, True),), aligned=True)
        add("hcp", variants=((1, True),), nshell=2)
        add("hcp", variants=((2, False),))
        add("polarrect", chem=1, nshell=2, variants=((1, True), (2, True)))
        # vacancy species listed SECOND with polar sites, first species on a non-polar (4mm) site: an origin-state
        # vector basis looked up by the wrong (flat / first-species) atom index differs
        add("sqpolar", chem=1, nshell=2, variants=((1, True), (2, True)))
        add("obliquepair", nshell=2, variants=((1, True), (2, True)))
        add("wurtzite", chem=0, variants=((1, True), (2, True)))
        add("b2displaced", nshell=2, variants=((1, True), (2, True)))
        add("orthomirror", nshell=3, variants=((1, True), (2, True)), aligned=True)
        add("orthomirror", nshell=3, variants=((1, True),))
        add("orthomirror3", chem=1, nshell=2, variants=((1, True),))
        add("tricpair", nshell=2, variants=((1, True), (2, True)))
        add("sc", variants=((1, True), (2, False)), aligned=True)
        add("bcc", variants=((2, True),))
        add("mono", nshell=2, variants=((1, True), (2, False)))
        add("mono2m", nshell=2, variants=((1, False), (2, True)))
        add("ortho222", chem=0, nshell=2, variants=((1, True),), aligned=True)
        add("tet2", chem=0, nshell=2, variants=((1, True),))
    else:
        names = list(worlds.CATALOGUE) + list(EXTRA)
        for name in names:
            w = world_of(name)
            for chem in range(len(w["basis"])):
                d2 = w["dim"] == 2
                for aligned in (True, False, False):
                    nshell = rng.choice((1, 2)) if len(w["basis"][chem]) == 1 else rng.choice((1, 2, 3))
                    var = list(both) + ([(3, True)] if d2 else [])
                    if not d2 and len(w["basis"][chem]) > 2:
                        var = [(1, False), (1, True), (2, True)]
                    add(name, chem=chem, nshell=nshell, variants=var, aligned=aligned)
    return tasks


def sig_label(sigs):
    return ",".join(sorted({"o%dp%d" % (s[0], s[1]) for s in sigs})) or "-"


STRUCT = ("input_stars_are_symmetry_orbits", "vector_star_lives_on_one_star_each_state_once", "model_character_formula_integral",
          "number_of_vector_stars_is_sum_of_invariant_dimensions", "each_star_carries_dim_of_invariant_space_vector_stars",
          "orthonormal", "equivariant")


def run(ctx):
    quick = ctx.tier == "quick"
    ctx.rule = ("catalogue + mirror-only / polar / triclinic worlds, axis-aligned and randomly oriented, library jump networks "
                "(1-3 shells); StarSet N=1..3 with/without origin states -> VectorStarSet; count by character formula on the "
                "definitional stabilisers, equivariance under every definitional operation and orthonormality decided by TLC; "
                "GF / rate / escape / bias / bare expansions and outer contracted with exact dyadic rates against direct "
                "state-basis assembly, compared entrywise by TLC; non-trivial = case with a star whose invariant space has "
                "dimension >= 2 or an origin-state vector star")
    from onsager import crystalStars      # noqa: F401 -- import once, before the workers are forked
    tasks = tasks_for(ctx, quick)
    t0 = time.time()
    with ProcessPoolExecutor(max_workers=8 if quick else 12, mp_context=multiprocessing.get_context("fork")) as ex:
        results = list(ex.map(record, tasks))
    ctx.info("t_record_s", round(time.time() - t0, 1))
    cases, metas = [], []
    for r in results:
        for key, what, base in r["errors"]:
            ctx.case(key)
            ctx.violation(key, "world %s (sublattice %d, %d shell(s), %s orientation): %s" % (
                base["world"], base["chem"], base["nshell"], base["orient"], what), base)
        cases += r["cases"]
        metas += r["meta"]
    # heavy cases first, round-robin over the shards
    order = sorted(range(len(cases)), key=lambda i: -metas[i]["info"]["Nstates"] * metas[i]["info"]["G"])
    cases = [cases[i] for i in order]
    metas = [metas[i] for i in order]
    t1 = time.time()
    fails, infos, tres, _ = hc.run_cases("Check_C25", cases, shards=8 if quick else 14, timeout=3000)
    ctx.info("t_check_s", round(time.time() - t1, 1))
    ctx.info("shard_walls_s", [round(r.wall, 1) for r in tres])
    for res in tres:
        ctx.add_model(res)
    for i, m in enumerate(metas):
        inf = infos.get(i, {})
        dims = inf.get("dims", [])
        ctx.case(m["tag"], nontrivial=bool(m["info"].get("origin_vstars", 0) > 0 or any(d >= 2 for d in dims)))
        if i not in fails:
            continue
        names = sorted(set(fails[i]))
        struct = [n for n in names if n in STRUCT]
        exp = [n for n in names if n not in STRUCT]
        sigs = list(inf.get("count_mismatch", [])) + list(inf.get("not_equivariant", []))
        b = m["base"]
        suffix = "%s|chem=%d|N=%d|origin=%s|%s" % (b["world"], b["chem"], b["N"], b["origin"], b["orient"])
        head = "%s: VectorStarSet (%d states, %d stars, %d vector stars; definitional group order %s)" % (
            m["tag"], m["info"]["Nstates"], m["info"]["Nstars"], m["info"]["Nvstars"], inf.get("group_order"))
        payload = {"base": b, "info": m["info"], "failed": names, "case": cases[i]}
        if struct:
            # the basis itself is wrong: the expansions built on it are consequences, listed but not keyed
            ctx.violation("clause|%s|stab=%s|%s" % ("+".join(struct), sig_label(sigs), suffix),
                          "%s fails clause(s) %s of Check_C25; stars with a wrong number of vector stars <<|stabiliser|, proper "
                          "rotations, dim of invariant space, vector stars found>>: %s; stars carrying a non-equivariant vector "
                          "star: %s; expansions that also fail: %s" % (
                              head, struct, list(inf.get("count_mismatch", [])), list(inf.get("not_equivariant", [])), exp),
                          payload)
            continue
        rows = m["info"].get("rows", {})
        for n in exp:       # one verdict per expansion, so that a known finding on one never hides another
            ctx.violation("clause|%s|rows=%s|%s" % (n, rows.get(n[len("expansion_"):], "?"), suffix),
                          "%s: %s does not reproduce the directly assembled state-basis quantity projected on the vector stars "
                          "(rows that differ: %s-state vector stars); all failing expansions of this case: %s" % (
                              head, n, rows.get(n[len("expansion_"):], "?"), exp), payload)
    ctx.traces += len(cases)
    ctx.info("cases", len(cases))
    for m in metas[:3] + metas[-3:]:
        ctx.sample(m["info"], cap=6)
