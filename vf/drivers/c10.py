"""C10 -- the lattice Green function solves the diffusion equation.

For dyadic data whose symmetrised rates are exact powers of two (even site levels and prefactor
exponents), the lattice diffusion equation at a field point (k, x) for a source (i, 0),
    sum_{jumps i->j, dx} ws_ij G(j, k, x - dx) - esc_i G(i, k, x) = delta_{ik} delta_{x0},
is an INTEGER-linear form in the recorded Green-function values; spec/rel/Check_Rel.tla decides it (two-limb
exact fixed point) at every point of a ball, on two k-point meshes (Nmax = 4 and 6) with the measured
tolerances, together with endpoint symmetry G(i,j,dx) = G(j,i,-dx), invariance under space-group operations,
inverse scaling under a uniform rate scaling, and (3D) the continuum pole at separations the mesh resolves.

The calculator is also an OBJECT (spec/obj/GFObj.tla: SetRates / Eval / SaveLoad / Copy; lemmas LastInputWins,
EvalAnswersInstalled model-checked): every path of the TLC state graph (depth 3-4, three inputs of which two share
their symmetrised jump rates and one is a uniform rescaling) is replayed on a real GFCrystalcalc, and at every Eval
G at probe points, D and the bias correction must be those of a fresh calculator given only the last input.
"""
import itertools

import numpy as np

from .. import calc, rel, worlds

LEVEL = "model_checking"
TOL_EQ = {4: 1e-3, 6: 2e-4}


def even_data(s, rng):
    d = {"eneL": [2 * rng.randint(0, 1) for _ in range(s.Nsite)], "preL": [2 * rng.randint(0, 1) for _ in range(s.Nsite)],
         "eneTL": [rng.randint(3, 5) for _ in range(s.Njump)], "preTL": [rng.randint(0, 1) for _ in range(s.Njump)]}
    return d


def run(ctx):
    quick = ctx.tier == "quick"
    rng = ctx.rng
    from onsager import GFcalc
    ctx.rule = ("(world, percolating network, dyadic rates) x k-mesh Nmax in {4,6} x all field points with |R|_inf <= 1 "
                "(equation), random pairs (endpoint symmetry, space-group invariance), uniform rate scaling, far-field "
                "pole in 3D; non-trivial = distinct (world, data, mesh) with non-uniform rates or several sites")
    wl = [("fcc", 0, 1), ("hcp", 0, 2), ("square", 0, 1), ("honeycomb", 0, 1), ("polarrect", 1, 2), ("b2", 0, 1),
          ("fccoct", 2, 1), ("hex2d", 0, 1)]
    if not quick:
        wl += [("bcc", 0, 1), ("tet2", 0, 2), ("rect2site", 0, 2), ("diamond", 0, 1), ("hcpoct", 1, 1), ("sc", 0, 2),
               ("kagome", 0, 1), ("wurtzite", 1, 1)]
    cases, metas = [], []
    for name, chem, shell in wl:
        v = calc.vacancy(name, chem, shell, 1, rng)        # reuse the percolating-network selection
        s = calc.Setup()
        s.crys, s.w, s.sitelist, s.jumpnetwork, s.chem = v.crys, v.w, v.sitelist, v.jumpnetwork, chem
        s.Nsite, s.Njump = len(s.sitelist), len(s.jumpnetwork)
        crys = s.crys
        N = len(crys.basis[chem])
        inv = {}
        for ci, cl in enumerate(s.sitelist):
            for i in cl:
                inv[i] = ci
        for rep in range(1 if quick else 4):
            d = even_data(s, rng)
            args = calc.interstitial_args(d)
            # exact exponents
            def e_rate(i, k):   # physical rate i -> (via class k)
                return d["preTL"][k] - d["preL"][inv[i]] + d["eneL"][inv[i]] - d["eneTL"][k]
            jumps = [(i, j, dx, k) for k, cls in enumerate(s.jumpnetwork) for (i, j), dx in cls]
            es = [(e_rate(i, k) + e_rate(j, k)) for i, j, dx, k in jumps]
            assert all(x % 2 == 0 for x in es)
            emin = min([e_rate(i, k) for i, j, dx, k in jumps] + [x // 2 for x in es])
            for Nmax in ((4, 6) if rep == 0 else (4,)):
                G = GFcalc.GFCrystalcalc(crys, chem, s.sitelist, s.jumpnetwork, Nmax)
                if Nmax == 4:
                    # the calculator is a function of its LAST SetRates input: first set different site energies
                    # whose symmetrised jump rates coincide with the final ones (site class c shifted by a_c, the
                    # barrier of a jump between classes c, c' by (a_c + a_c')/2) -- only the escape rates differ
                    a = [2 * rng.randint(0, 1) for _ in range(s.Nsite)]
                    if s.Nsite > 1 and len(set(a)) == 1:
                        a[0] = 2 - a[0]
                    dprev = dict(d, eneL=[e + x for e, x in zip(d["eneL"], a)],
                                 eneTL=[e + (a[inv[cls[0][0][0]]] + a[inv[cls[0][0][1]]]) // 2
                                        for e, cls in zip(d["eneTL"], s.jumpnetwork)])
                    G.SetRates(*calc.interstitial_args(dprev))
                G.SetRates(*args)
                tens, asserts = {"delta": np.array([[2.0 ** (-emin)]])}, []
                vals, exact = {}, {}

                def g(i, j, dx):
                    key = (i, j, tuple(np.round(dx, 6)))
                    if key not in vals:
                        nm = "G%d" % len(vals)
                        vals[key] = nm
                        exact[key] = np.array(dx, dtype=float)
                        tens[nm] = np.array([[G(i, j, dx)]])
                    return vals[key]
                zero = np.zeros(crys.dim, dtype=int)
                pts = [np.array(R) for R in itertools.product((-1, 0, 1), repeat=crys.dim)]
                if quick and crys.dim == 3:
                    pts = [R for R in pts if np.sum(np.abs(R)) <= 2]
                for i in range(N):
                    for k in range(N):
                        for R in pts:
                            x = crys.pos2cart(R, (chem, k)) - crys.pos2cart(zero, (chem, i))
                            terms = {}
                            esc = 0
                            for (a, b, dx, kk), e2 in zip(jumps, es):
                                if a != i:
                                    continue
                                nm = g(b, k, x - dx)
                                terms[nm] = terms.get(nm, 0) + 2 ** (e2 // 2 - emin)
                                esc += 2 ** (e_rate(a, kk) - emin)
                            nm = g(i, k, x)
                            terms[nm] = terms.get(nm, 0) - esc
                            tl = [(c, n_) for n_, c in terms.items() if c != 0]
                            isdelta = (i == k and not np.any(R))
                            if isdelta:
                                tl.append((-1, "delta"))
                            asserts.append(("eq", "diffusion_equation@%s" % ("source" if isdelta else "field"), tl))
                # endpoint symmetry, group invariance
                G_ops = sorted(crys.G, key=lambda g_: (g_.rot.tolist(), g_.trans.tolist()))
                for _ in range(6):
                    i, k = rng.randrange(N), rng.randrange(N)
                    R = np.array([rng.randint(-2, 2) for _ in range(crys.dim)])
                    x = crys.pos2cart(R, (chem, k)) - crys.pos2cart(zero, (chem, i))
                    asserts.append(("sym", "endpoint_symmetry", [(1, g(i, k, x)), (-1, g(k, i, -x))]))
                    gop = rng.choice(G_ops)
                    i2, k2 = gop.indexmap[chem][i], gop.indexmap[chem][k]
                    asserts.append(("sym", "space_group_invariance", [(1, g(i, k, x)), (-1, g(i2, k2, np.dot(gop.cartrot, x)))]))
                # rate scaling by 2^3
                if Nmax == 4:
                    G2 = GFcalc.GFCrystalcalc(crys, chem, s.sitelist, s.jumpnetwork, Nmax)
                    a2 = (args[0], args[1], args[2], args[3] - 3 * calc.LN2)
                    G2.SetRates(*a2)
                    for key in list(vals)[:6]:
                        nm = "S" + vals[key]
                        tens[nm] = np.array([[G2(key[0], key[1], exact[key])]])
                        asserts.append(("sym", "scales_inversely_with_rates", [(8, nm), (-1, vals[key])]))
                # continuum pole (3D): g_ij(x) -> -sqrt(rho_i rho_j) Vcell / (4 pi sqrt(det D) sqrt(x D^-1 x))
                if crys.dim == 3:
                    rho = np.array([2.0 ** (d["preL"][inv[i]] - d["eneL"][inv[i]]) for i in range(N)])
                    rho /= rho.sum()
                    Dm = G.D
                    for _ in range(3):
                        i, k = rng.randrange(N), rng.randrange(N)
                        axis = rng.randrange(3)
                        R = np.zeros(3, dtype=int)
                        R[axis] = max(2, G.kptgrid[axis] // 4) if hasattr(G, "kptgrid") else 3
                        x = crys.pos2cart(R, (chem, k)) - crys.pos2cart(zero, (chem, i))
                        pole = -np.sqrt(rho[i] * rho[k]) * crys.volume / (
                            4 * np.pi * np.sqrt(np.linalg.det(Dm)) * np.sqrt(np.dot(x, np.linalg.solve(Dm, x))))
                        pn = "P%d" % len(tens)
                        tens[pn] = np.array([[pole]])
                        asserts.append(("pole", "continuum_pole", [(1, g(i, k, x)), (-1, pn)], abs(pole)))
                scale = max(float(np.max(np.abs(T))) for T in tens.values())
                alist = []
                for a in asserts:
                    kind, nm, terms = a[0], a[1], a[2]
                    if kind == "eq":
                        # 2D two-site rectangular cells: measured residuals up to 2.3e-4 at Nmax = 6 (other seeds)
                        tolrel = TOL_EQ[Nmax] * (2.0 if name in ("polarrect", "rect2site") else 1.0) * 2.0 ** (-emin) / scale
                    elif kind == "pole":
                        tolrel = 0.08 * a[3] / scale
                    else:
                        tolrel = 1e-8
                    alist.append(rel.a_zero(nm, terms, tolrel))
                cases.append(rel.make_case(s.w, tens, alist, usegroup=False, scale=scale))
                nonuni = len(set(es)) > 1 or N > 1
                metas.append(("gf|%s|Nmax%d#%d" % (name, Nmax, rep), "Green function on %s, Nmax=%d, data %s" % (name, Nmax, d),
                              {"world": name, "Nmax": Nmax, "data": d}, nonuni))
    object_histories(ctx, quick, rng, cases, metas)
    rel.run_rel(ctx, cases, metas, shards=8 if quick else 14)
    ctx.sample({"case": metas[0][0], "n_values": len(cases[0]["tensors"]), "asserts": sorted({a["name"] for a in cases[0]["asserts"]})})


# ---------------------------------------------------------------------------------- object histories (GFObj.tla)

def history_graph(ctx, ninputs, depth):
    import os
    from .. import tlc
    cfg = """CONSTANTS
  Inputs = {%s}
  MaxDepth = %d
SPECIFICATION Spec
INVARIANT LastInputWins
INVARIANT EvalAnswersInstalled
CHECK_DEADLOCK FALSE
""" % (", ".join(str(k) for k in range(1, ninputs + 1)), depth)
    res = tlc.run("GFObj", cfg, workers=4, dump=True, timeout=600)
    tlc.require_clean(res, "GFObj")
    ctx.add_model(res)
    nodes, edges, inits = tlc.parse_dot(res.dot)
    out = {}
    for src, dst, lab in edges:
        out.setdefault(src, []).append((dst, lab))
    return nodes, out, inits[0]


def object_histories(ctx, quick, rng, cases, metas):
    """Every path of the GFObj.tla state graph on a real GFCrystalcalc: the answers at an Eval are those of a fresh
    calculator given only the last SetRates input (G at probe points, D, bias correction)."""
    import copy
    import h5py
    from onsager import GFcalc
    from .. import tlc
    nodes, out, root = history_graph(ctx, 3, 3 if quick else 4)
    wl = [("polarrect", 1, 2), ("fccoct", 1, 1)] if quick else [("polarrect", 1, 2), ("fccoct", 1, 1), ("hcpoct", 1, 1),
                                                                 ("squarelieb", 1, 1), ("fcc", 0, 1), ("rect2site", 0, 2)]
    f = h5py.File("vf_c10_mem.h5", "w", driver="core", backing_store=False)
    nsave = [0]
    for name, chem, shell in wl:
        v = calc.vacancy(name, chem, shell, 1, rng)
        crys, sitelist, jn = v.crys, v.sitelist, v.jumpnetwork
        s = calc.Setup()
        s.Nsite, s.Njump = len(sitelist), len(jn)
        inv = {i: ci for ci, cl in enumerate(sitelist) for i in cl}
        d1 = even_data(s, rng)
        # input 2: other site energies with the SAME symmetrised jump rates; input 3: input 1 with all rates x 8
        a = [2 * rng.randint(0, 1) for _ in range(s.Nsite)]
        if s.Nsite > 1 and len(set(a)) == 1:
            a[0] = 2 - a[0]
        d2 = dict(d1, eneL=[e + x for e, x in zip(d1["eneL"], a)],
                  eneTL=[e + (a[inv[cls[0][0][0]]] + a[inv[cls[0][0][1]]]) // 2 for e, cls in zip(d1["eneTL"], jn)])
        d3 = dict(d1, eneTL=[e - 3 for e in d1["eneTL"]])
        inputs = {k: calc.interstitial_args(d) for k, d in ((1, d1), (2, d2), (3, d3))}
        N = len(crys.basis[chem])
        zero = np.zeros(crys.dim, dtype=int)
        probes = []
        for _ in range(5):
            i, k = rng.randrange(N), rng.randrange(N)
            R = np.array([rng.randint(-1, 1) for _ in range(crys.dim)])
            probes.append((i, k, crys.pos2cart(R, (chem, k)) - crys.pos2cart(zero, (chem, i))))

        def answers(G):
            return [np.array([[G(i, k, x)]]) for i, k, x in probes] + [np.array(G.D)] + \
                   [np.atleast_2d(np.asarray(G.biascorrection(), dtype=float))]
        F = {}
        for k in inputs:
            G = GFcalc.GFCrystalcalc(crys, chem, sitelist, jn, 4)
            G.SetRates(*inputs[k])
            F[k] = answers(G)
        start = GFcalc.GFCrystalcalc(crys, chem, sitelist, jn, 4)

        def dfs(node, G, hist):
            for dst, lab in out.get(node, []):
                aname, args = tlc.parse_action_label(lab)
                G2 = G
                h2 = hist + [lab]
                try:
                    if aname == "SetRates":
                        G2 = copy.deepcopy(G)
                        G2.SetRates(*inputs[int(args[0])])
                    elif aname == "SaveLoad":
                        nsave[0] += 1
                        G.addhdf5(f.create_group("g%d" % nsave[0]))
                        G2 = GFcalc.GFCrystalcalc.loadhdf5(crys, f["g%d" % nsave[0]])
                    elif aname == "Copy":
                        G2 = copy.deepcopy(G)
                    elif aname == "Eval":
                        obs = answers(G)
                        exp = F[nodes[dst]["expect"]]
                        tens, asserts = {}, []
                        for n_, (o, e) in enumerate(zip(obs, exp)):
                            tens["obs%d" % n_], tens["F%d" % n_] = o, e
                        for n_ in range(len(obs)):
                            what = ("G_value" if n_ < len(probes) else "D" if n_ == len(probes) else "bias_correction")
                            asserts.append(rel.a_zero("%s_is_function_of_last_SetRates" % what,
                                                      [(1, "obs%d" % n_), (-1, "F%d" % n_)], 1e-9))
                        scale = max(float(np.max(np.abs(T))) for T in tens.values()) or 1.0
                        case = rel.make_case(v.w, {}, asserts, usegroup=False, scale=scale)
                        case["tensors"] = {n_: rel.fxmat(np.asarray(T, dtype=float), scale) for n_, T in tens.items()}
                        cases.append(case)
                        kinds = sorted({tlc.parse_action_label(x)[0] for x in hist})
                        metas.append(("gfobj|%s|%s#%s" % (name, "+".join(kinds), h2), "GF object history %s on %s" % (h2, name),
                                      {"world": name, "history": h2}, len(hist) > 1))
                except Exception as ex:      # noqa: BLE001
                    ctx.case("gfobj|%s|%s" % (name, h2))
                    ctx.violation("gfobj-raise|%s|%s|%s" % (name, aname, type(ex).__name__),
                                  "GF object history %s on %s: %s raised %s: %s" % (hist, name, lab, type(ex).__name__, ex),
                                  {"world": name, "history": h2})
                    continue
                dfs(dst, G2, h2)
        dfs(root, start, [])
    f.close()
