"""C31 -- cluster enumeration is complete and cluster identity is geometric.

Worlds (catalogue, random decorations, layered long-cell compounds) are realised as Crystals in random
orientations and read back as exact integer worlds.  Cutoffs are placed midway between consecutive exact shell
values of the squared distance (integer metric), so nothing is ever at the cutoff.  The real
`makeclusters / makeVacancyClusters / makeTSclusters` (the latter on plain and on vacancy expansions, with the
crystal's own jump network) are called and every returned Cluster is projected to integer sites.  TLC evaluates
spec/world/Check_C31.tla (on Clusters.tla / World.tla): the complete set of site sets (<= K sites, pairwise
within the cutoff, excluded species absent) modulo translation and its orbits under the DEFINITIONAL space group
are computed from the world alone and compared with the implementation's sets (soundness, completeness,
disjointness, each set exactly one orbit); vacancy / transition-state expansions must be closed under the group
(and reversal), disjoint single orbits, and exactly the expansion derived from their input.  Equality / hash laws:
tables of ==, != and hash over all orderings, translates, near misses and kinds of small clusters are decided by
TLC against `SameGeom`.
"""
import itertools
import math

import numpy as np

from .. import tlc, worlds

LEVEL = "model_checking"

LAYERED = {
    "tetl": [[1, 0, 0], [0, 1, 0], [0, 0, 9]],
    "hexl": [[2, -1, 0], [-1, 2, 0], [0, 0, 20]],
    "ortl": [[1, 0, 0], [0, 2, 0], [0, 0, 12]],
    "rectl": [[1, 0], [0, 9]],
    "monl": [[2, 0, 1], [0, 3, 0], [1, 0, 16]],
}
KINDS = {"plain": (False, False), "vac": (False, True), "ts": (True, False), "vts": (True, True)}


def layered_world(rng):
    """A layered compound: 2-4 atoms at random heights along a long axis, in-plane positions on a coarse grid."""
    lat = rng.choice(sorted(LAYERED))
    M = LAYERED[lat]
    d = len(M)
    D = 12
    inplane = {"tetl": [(0, 0), (6, 6)], "hexl": [(0, 0), (4, 8), (8, 4)], "ortl": [(0, 0), (6, 0), (6, 6)],
               "rectl": [(0,), (6,)], "monl": [(0, 0), (6, 0), (0, 6)]}[lat]
    nat = rng.randint(2, 4)
    ns = rng.choice((1, 2, 2))
    used, basis = set(), [[] for _ in range(ns)]
    while sum(len(b) for b in basis) < nat:
        u = tuple(rng.choice(inplane)) + (rng.randrange(D),)
        if u in used:
            continue
        used.add(u)
        c = rng.randrange(ns) if all(basis) else [i for i, b in enumerate(basis) if not b][0]
        basis[c].append(list(u))
    return {"name": "layered-%s-%s" % (lat, "_".join(str(len(b)) for b in basis)), "dim": d,
            "M": [list(r) for r in M], "D": D, "basis": basis}


# ------------------------------------------------------------------ exact geometry of the observed world (inputs only)

def quad(M, v):
    return sum(int(M[i][j]) * int(v[i]) * int(v[j]) for i in range(len(v)) for j in range(len(v)))


def adj_diag_det(M):
    M = [[int(x) for x in r] for r in M]
    if len(M) == 2:
        return [M[1][1], M[0][0]], M[0][0] * M[1][1] - M[0][1] * M[1][0]
    c = lambda i, j: (M[(i + 1) % 3][(j + 1) % 3] * M[(i + 2) % 3][(j + 2) % 3]
                      - M[(i + 1) % 3][(j + 2) % 3] * M[(i + 2) % 3][(j + 1) % 3])
    return [c(i, i) for i in range(3)], sum(M[0][j] * c(0, j) for j in range(3))


def box_for(ow, cut2):
    """Smallest B with 2 det D^2 B^2 >= adj_ii cut2 (verified again by TLC, Clusters!BoxOK)."""
    ad, dt = adj_diag_det(ow["M"])
    B = 1
    while any(2 * dt * ow["D"] ** 2 * B * B < a * cut2 for a in ad):
        B += 1
    return B


def pair_values(ow, B, species=None):
    """{(atom0, atom1, L): squared distance in grid units} for atom0 in cell 0, atom1 in cell L, |L_i| <= B."""
    d, D = ow["dim"], ow["D"]
    atoms = [(c, i) for c, sp in enumerate(ow["basis"]) for i in range(len(sp)) if species is None or c in species]
    out = {}
    for (c0, i0) in atoms:
        u0 = ow["basis"][c0][i0]
        for (c1, i1) in atoms:
            u1 = ow["basis"][c1][i1]
            for L in itertools.product(range(-B, B + 1), repeat=d):
                dx = [D * L[k] + u1[k] - u0[k] for k in range(d)]
                q = quad(ow["M"], dx)
                if q > 0:
                    out[((c0, i0), (c1, i1), L)] = q
    return out


def shells(ow, nshell, species=None):
    """The first nshell+1 exact shell values (squared distance, grid units), with a box certified to contain them."""
    B = 2
    while True:
        vals = sorted(set(pair_values(ow, B, species).values()))
        if len(vals) <= nshell:
            B += 1
            if B > 8:
                return vals, B
            continue
        top = vals[nshell]
        need = box_for(ow, 2 * top + 2)
        if need <= B:
            return vals[:nshell + 1], B
        B = need
        if B > 8:
            return None, B


def neighbour_count(ow, cut2, B, species):
    pv = pair_values(ow, B, species)
    per = {}
    for (a0, a1, L), q in pv.items():
        if 2 * q < cut2:
            per[a0] = per.get(a0, 0) + 1
    return max(per.values()) if per else 0, sum(per.values())


def far_cut(ow, factor):
    """(shell index, 2, cut2, B) for a cutoff of about `factor` times the shortest lattice vector, midway between
    two consecutive exact shells."""
    amin2 = min(ow["M"][i][i] for i in range(ow["dim"])) * ow["D"] ** 2        # grid units
    target = int(factor * factor * amin2)
    B = box_for(ow, 3 * target)                                              # covers squared distances <= 1.5 target
    vals = sorted(set(pair_values(ow, B).values()))
    below = [v for v in vals if v <= target]
    above = [v for v in vals if v > target]
    if not below or not above or 2 * above[0] + 2 > 3 * target:
        return None
    cut2 = below[-1] + above[0]
    return len(below), 2, cut2, box_for(ow, cut2)


def lowsym_world(lat, M, far):
    d = len(M)
    basis = [[[0] * d], [[1, 3] if d == 2 else [1, 2, 4]]]
    return {"name": "lowsym-%s" % lat, "dim": d, "M": [list(r) for r in M], "D": 7, "basis": basis, "far": far}


def plan_cut(ow, allowed, nshell, K, budget, rng):
    """(nshell, K, cut2, B) with the cutoff midway between shells nshell and nshell+1, shrunk until the number of
    candidate site sets TLC has to look at is within budget; None if nothing is left."""
    while nshell >= 1:
        sh, B = shells(ow, nshell)
        if sh is None or len(sh) <= nshell:
            nshell -= 1
            continue
        cut2 = sh[nshell - 1] + sh[nshell]
        B = box_for(ow, cut2)
        nmax, ntot = neighbour_count(ow, cut2, B, set(allowed))
        work = sum(math.comb(nmax, n) for n in range(K)) * sum(len(ow["basis"][c]) for c in allowed)
        big = max(abs(x) for r in ow["M"] for x in r) * (ow["D"] * (B + 2)) ** 2 * ow["dim"] ** 2
        if work <= budget and big < 2 ** 30 and B <= 4:
            return nshell, K, cut2, B
        if K > 2 and (nshell == 1 or rng.random() < 0.5):
            K -= 1
        else:
            nshell -= 1
    return None


# ------------------------------------------------------------------ projection

def proj_cluster(cl):
    return [[[int(cs.ci[0]) + 1, int(cs.ci[1]) + 1], [int(x) for x in cs.R]] for cs in cl.sites]


def kind_of(cl):
    for k, (t, v) in KINDS.items():
        if bool(cl.__transition__) == t and bool(cl.__vacancy__) == v:
            return k


def proj_sets(exp, kind):
    out = []
    for clset in exp:
        lst = []
        for cl in clset:
            if kind_of(cl) != kind:
                raise worlds.ProjectionError("a cluster of kind %s appears in an expansion of kind %s" % (kind_of(cl), kind))
            lst.append(proj_cluster(cl))
        lst.sort()
        out.append(lst)
    return out


def proj_jumps(crys, chem, jn):
    out = set()
    for lst in jn:
        for (i, j), dx in lst:
            R = np.dot(crys.invlatt, dx) - crys.basis[chem][j] + crys.basis[chem][i]
            R = worlds.iround(R, 1e-6, "lattice vector of a jump")
            out.add((int(i) + 1, int(j) + 1, tuple(int(x) for x in R)))
    return [[i, j, list(R)] for (i, j, R) in sorted(out)]


# ------------------------------------------------------------------ equality / hash tables

def make_cluster(cluster, sites, kind):
    t, v = KINDS[kind]
    lst = [cluster.ClusterSite((s[0][0] - 1, s[0][1] - 1), np.array(s[1], dtype=int)) for s in sites]
    return cluster.Cluster(lst, transition=t, vacancy=v)


def eq_items(rng, ow, bases, cap=80):
    """Raw site lists + kinds: for every base cluster its reorderings, translates and near misses."""
    d = ow["dim"]
    nsp = {"plain": 0, "vac": 1, "ts": 2, "vts": 2}
    items = []

    def add(sites, kind):
        if len(sites) >= max(1, nsp[kind]):
            items.append({"sites": [[list(s[0]), list(s[1])] for s in sites], "kind": kind})

    def shift(sites, T):
        return [[s[0], [a + b for a, b in zip(s[1], T)]] for s in sites]

    for sites, kind in bases:
        k0 = nsp[kind]
        special, rest = sites[:k0], sites[k0:]
        perms = list(itertools.permutations(rest))
        rng.shuffle(perms)
        add(sites, kind)
        for p in perms[:3]:
            T = [rng.randint(-2, 2) for _ in range(d)]
            add(shift(special + list(p), T), kind)
        if kind in ("ts", "vts"):                      # ends exchanged (same cluster for "ts", a different one for "vts")
            add(shift([special[1], special[0]] + rest, [rng.randint(-1, 1) for _ in range(d)]), kind)
        # near misses
        if len(sites) >= 2:                            # every lattice vector negated (the cluster inverted through a cell)
            add([[s[0], [-x for x in s[1]]] for s in sites], kind)
        if k0 == 2 and len(sites) >= 3 and len(set(map(str, sites))) == len(sites):
            # the same set of sites with another pair of them as the two ends of the transition
            alts = [(p, r) for p in range(len(sites)) for r in range(len(sites)) if p != r and (p, r) != (0, 1)]
            rng.shuffle(alts)
            for p, r in alts[:4]:
                add([sites[p], sites[r]] + [s for n, s in enumerate(sites) if n not in (p, r)], kind)
        if rest:
            j = rng.randrange(len(rest))
            e = [0] * d
            e[rng.randrange(d)] = rng.choice((-1, 1))
            moved = [list(s) for s in rest]
            moved[j] = [rest[j][0], [a + b for a, b in zip(rest[j][1], e)]]
            if moved[j] not in special and moved[j] not in rest:
                add(special + moved, kind)
            if k0 >= 1:                                # another site plays the special role
                sw = [rest[j]] + special[1:] + [special[0]] + rest[:j] + rest[j + 1:]
                if kind != "vts" or sw[0] != sw[1]:
                    add(sw, kind)
        c, i = sites[-1][0]
        n = len(ow["basis"][c - 1])
        if n > 1:                                      # same cell, another atom of the species
            alt = [list(s) for s in sites]
            alt[-1] = [[c, i % n + 1], sites[-1][1]]
            if alt[-1] not in alt[:-1]:
                add(alt, kind)
        # the same sites under the other kinds
        for k2 in ("plain", "vac", "ts", "vts"):
            if k2 != kind and len(sites) >= max(1, nsp[k2]) and len(set(map(str, sites))) == len(sites):
                add(sites, k2)
    rng.shuffle(items)
    return items[:cap]


def eq_case(cluster, rng, ow, bases):
    items = eq_items(rng, ow, bases)
    objs = [make_cluster(cluster, it["sites"], it["kind"]) for it in items]
    hs = [hash(o) for o in objs]
    rank = {h: n for n, h in enumerate(sorted(set(hs)))}
    eq = [[1 if a == b else 0 for b in objs] for a in objs]
    ne = [[1 if a != b else 0 for b in objs] for a in objs]
    return {"type": "eq", "w": ow, "items": items, "eq": eq, "ne": ne, "hid": [rank[h] for h in hs]}


def eq_witness(case, kind=None):
    """A pair of table entries on which == disagrees with the geometry (for the message only; TLC gave the verdict)."""
    nsp = {"plain": 0, "vac": 1, "ts": 2, "vts": 2}

    def form(it):
        s, k = it["sites"], it["kind"]
        n = len(s)
        c = [sum(x[1][d] for x in s) for d in range(len(s[0][1]))]
        sh = [(tuple(x[0]), tuple(n * a - b for a, b in zip(x[1], c))) for x in s]
        sp = sh[:nsp[k]]
        return (k, n, frozenset(sp) if k == "ts" else tuple(sp), frozenset(sh[nsp[k]:]))

    items = case["items"]
    fs = [form(it) for it in items]
    for a in range(len(items)):
        for b in range(len(items)):
            if a == b or (kind and items[a]["kind"] != kind):
                continue
            same = fs[a] == fs[b]
            if same != bool(case["eq"][a][b]) or (case["eq"][a][b] and case["hid"][a] != case["hid"][b]):
                return "e.g. %s %s vs %s %s: == is %s, hashes %s, same geometry is %s" % (
                    items[a]["kind"], items[a]["sites"], items[b]["kind"], items[b]["sites"], bool(case["eq"][a][b]),
                    "equal" if case["hid"][a] == case["hid"][b] else "differ", same)
    return "(no witness pair found by the harness)"


# ------------------------------------------------------------------ main

def run(ctx):
    from onsager import cluster
    quick = ctx.tier == "quick"
    rng = ctx.rng
    ctx.rule = ("catalogue + random decorated + layered long-cell worlds x cutoff between exact shells 1..4 x maximum "
                "order 2..4 x species exclusion, random orientation; makeclusters / makeVacancyClusters / makeTSclusters "
                "outputs projected to integer sites and compared by TLC with the definitional cluster set and orbits "
                "(Check_C31 on Clusters/World); ==/!=/hash tables over reorderings, translates, near misses; non-trivial = "
                "distinct input with an orbit of more than one cluster of order >= 2 (enumeration) / table with both "
                "equal and unequal pairs (equality)")
    ctx.assumptions.append("the jump network given to makeTSclusters is the crystal's own (crys.jumpnetwork); its closure "
                           "under symmetry and reversal is checked by the spec and is a precondition of the TS clauses")
    wl = [dict(w, name=n) for n, w in worlds.CATALOGUE.items()]
    for _ in range(8 if quick else 70):
        wl.append(worlds.random_world(rng, maxatoms=4))
    for _ in range(10 if quick else 70):
        wl.append(layered_world(rng))
    # no symmetry at all, cutoff of many lattice constants (pairs only): the range of lattice vectors that matters
    wl.append(lowsym_world("hex2d", worlds.LATTICES["hex2d"], 7.1))
    wl.append(lowsym_world("oblique", worlds.LATTICES["oblique"], 6.3))
    if not quick:
        wl.append(lowsym_world("bcc", worlds.LATTICES["bcc"], 5.3))
        wl.append(lowsym_world("fcc", worlds.LATTICES["fcc"], 5.3))
        wl.append(lowsym_world("crect", worlds.LATTICES["crect"], 8.2))
    budget = 2500 if quick else 12000            # bound on the number of candidate subsets TLC has to look at
    sizecap = 350 if quick else 1200             # bound on the number of clusters (all four families) per case
    cases, meta = [], []
    for w in wl:
        wkey = w["name"]
        try:
            crys, unit = worlds.realise(w, rng)
            ow = worlds.observe(crys, unit, Dhint=w["D"])
        except worlds.ProjectionError as ex:
            ctx.case(wkey)
            ctx.violation("projection|crystal|%s" % wkey, "world %s: %s" % (w["name"], ex), {"world": w})
            continue
        q = ow.pop("q")
        nspec = len(ow["basis"])
        ntrial = 1 if quick else 2
        for trial in range(ntrial):
            excl = []
            if nspec > 1 and rng.random() < 0.4:
                excl = [rng.randrange(nspec)]
            allowed = [c for c in range(nspec) if c not in excl]
            # 2D worlds are cheap: go to the shell that contains twice a jump vector; 3D worlds stay close
            nshell = rng.choice((3, 3, 4) if ow["dim"] == 2 else ((1, 2, 2, 3) if quick else (1, 2, 3, 4)))
            K = rng.choice((2, 3, 3) if quick else (2, 3, 3, 4))
            chem = rng.choice(allowed)
            jsh, _ = shells(ow, 2, {chem})
            jcutoff = None
            if jsh and len(jsh) >= 2:        # jump cutoff midway between the first (or second) and the next shell of chem
                js = rng.choice((1, 1, 2)) if len(jsh) >= 3 else 1
                jcutoff = unit * math.sqrt((jsh[js - 1] + jsh[js]) / (2.0 * q)) / ow["D"]
            case = None
            far = w.get("far") if trial == 0 else None
            if far:                              # pairs only, cutoff of several lattice constants
                excl, allowed, K = [], list(range(nspec)), 2
            while True:
                pl = far_cut(ow, far) if far else plan_cut(ow, allowed, nshell, K, budget, rng)
                if pl is None:
                    break
                nshell, K, cut2, B = pl
                cutoff = unit * math.sqrt(cut2 / (2.0 * q)) / ow["D"]
                key = "%s|K=%d|shell=%d|excl=%s|chem=%d" % (wkey, K, nshell, ",".join(map(str, excl)) or "-", chem)
                try:
                    cexp = cluster.makeclusters(crys, cutoff, K, exclude=tuple(excl))
                    vexp = cluster.makeVacancyClusters(crys, chem, cexp)
                    jn = crys.jumpnetwork(chem, jcutoff) if jcutoff is not None else []
                    texp = cluster.makeTSclusters(crys, chem, jn, cexp)
                    vtexp = cluster.makeTSclusters(crys, chem, jn, vexp)
                    total = sum(len(x) for e in (cexp, vexp, texp, vtexp) for x in e)
                    if total > sizecap and (K > 2 or nshell > 1) and not far:      # too much for TLC in this tier: come closer
                        if K > 2 and (nshell == 1 or rng.random() < 0.5):
                            K -= 1
                        else:
                            nshell -= 1
                        continue
                    case = {"type": "enum", "w": ow, "cut2": cut2, "B": B, "K": K, "excl": [c + 1 for c in excl],
                            "chem": chem + 1, "clusters": proj_sets(cexp, "plain"), "vac": proj_sets(vexp, "vac"),
                            "jumps": proj_jumps(crys, chem, jn), "ts": proj_sets(texp, "ts"),
                            "vts": proj_sets(vtexp, "vts")}
                except worlds.ProjectionError as ex:
                    ctx.case(key)
                    ctx.violation("projection|%s" % key, "world %s: %s" % (w["name"], ex), {"world": w, "observed": ow})
                except Exception as ex:
                    ctx.case(key)
                    ctx.violation("raises|%s|%s" % (type(ex).__name__, key),
                                  "world %s cutoff %.6f K=%d exclude=%s chem=%d: %s: %s" % (
                                      w["name"], cutoff, K, excl, chem, type(ex).__name__, ex),
                                  {"world": w, "observed": ow})
                break
            if case is None:
                continue
            cases.append(case)
            meta.append(("enum", key, w, {"cutoff": cutoff, "jcutoff": jcutoff, "K": K, "excl": excl, "chem": chem}))
            # equality / hash table on clusters of this world
            if trial == 0 and (not quick or wl.index(w) % 4 == 0):
                bases = []
                flat = [c for s in case["clusters"] for c in s]
                for kind, src in (("plain", flat), ("vac", [c for s in case["vac"] for c in s]),
                                  ("ts", [c for s in case["ts"] for c in s]), ("vts", [c for s in case["vts"] for c in s])):
                    src = list(src)
                    rng.shuffle(src)
                    src.sort(key=lambda c: -len(c))          # the largest clusters of the family, in random order
                    bases += [(c, kind) for c in src[:1]]
                # regular arrangements built by hand: equally spaced collinear sites of one atom (their site sets map
                # onto themselves under translations combined with inversion: the hardest near misses)
                atom = [chem + 1, rng.randrange(len(ow["basis"][chem])) + 1]
                e = [0] * ow["dim"]
                e[rng.randrange(ow["dim"])] = rng.choice((-1, 1))
                if rng.random() < 0.3:
                    e[rng.randrange(ow["dim"])] = rng.choice((-1, 1))
                chain = lambda ns: [[atom, [n * x for x in e]] for n in ns]
                bases += [(chain((0, 1, -1)), "ts"), (chain((0, 1, -1)), "vts"), (chain((0, 1, 2, 3)), rng.choice(("ts", "vac"))),
                          (chain((0, 1, 2)), "plain")]
                try:
                    ec = eq_case(cluster, rng, ow, bases)
                except Exception as ex:
                    ctx.case("eq|" + key)
                    ctx.violation("raises|%s|eq|%s" % (type(ex).__name__, wkey),
                                  "building / comparing clusters of world %s raised %s: %s" % (w["name"], type(ex).__name__, ex),
                                  {"world": w, "bases": bases})
                    continue
                cases.append(ec)
                meta.append(("eq", "eq|" + wkey, w, {}))

    fails, infos, results = tlc.run_cases("Check_C31", cases, shards=8 if quick else 14,
                                          timeout=900 if quick else 3000)
    for r in results:
        ctx.add_model(r)
    unclosed = 0
    for i, (typ, key, w, opt) in enumerate(meta):
        inf = infos.get(i, {})
        fl = sorted(fails.get(i, []))
        if any(f.startswith("MACHINERY") for f in fl):
            raise tlc.TLCError("model-level lemma rejected by the spec (%s) for %s: B=%s cut2=%s" % (
                fl, key, cases[i].get("B"), cases[i].get("cut2")))
        if typ == "enum":
            ctx.case(str((cases[i]["w"], cases[i]["cut2"], cases[i]["K"], cases[i]["excl"], cases[i]["chem"])),
                     nontrivial=inf.get("maxorbit", 0) > 1 and inf.get("nclusters", 0) > len(cases[i]["w"]["basis"]))
            if not inf.get("jumps_closed", True):
                unclosed += 1
                fl = [f for f in fl if not f.startswith("ts_")]
            # one violation per family of clauses: the plain expansion, the vacancy expansion, the transition states
            for fam, pre in (("clusters", ("clusters_", "no_cluster", "every_cluster", "cluster_sets")),
                             ("vacancy", ("vacancy_",)), ("ts", ("ts_",))):
                names = [f for f in fl if f.startswith(pre)]
                if not names:
                    continue
                ctx.violation("enum|%s|%s|%s" % (fam, "+".join(names), key),
                              "world %s (observed %s), cutoff %.6f (between exact shells, 2*d^2 < %d in grid units), maxorder "
                              "%d, exclude %s, chem %d, jump cutoff %s: clause(s) %s of Check_C31 fail; %s orbits / %s clusters "
                              "returned, %s vacancy, %s TS, %s vacancy-TS clusters; definitional group order %s" % (
                                  w["name"], cases[i]["w"], opt["cutoff"], cases[i]["cut2"], opt["K"], opt["excl"],
                                  opt["chem"], opt["jcutoff"], names, inf.get("norbits"), inf.get("nclusters"),
                                  inf.get("nvac"), inf.get("nts"), inf.get("nvts"), inf.get("ops")),
                              {"world": w, "options": opt, "case": cases[i]})
        else:
            n = inf.get("items", 0)
            ctx.case(str((cases[i]["w"], cases[i]["items"])), nontrivial=1 < inf.get("classes", 0) < n)
            for f in fl:        # Cluster ==/hash do not depend on the crystal: one key per law and kind
                ctx.violation("eq|%s" % f,
                              "clause %s of Check_C31 fails on a table of %d clusters (%d geometric classes) built for world "
                              "%s: %s" % (f, n, inf.get("classes", 0), w["name"], eq_witness(cases[i], f.partition("@")[2])),
                              {"world": w, "case": cases[i]})
        ctx.traces += 1
    ctx.info("cases_with_unclosed_jump_network", unclosed)
    for c in cases:
        if c["type"] == "enum" and c["ts"]:
            ctx.sample({"world": c["w"], "cut2": c["cut2"], "K": c["K"], "orbit_sizes": [len(s) for s in c["clusters"]][:12],
                        "first_ts_cluster": c["ts"][0][0]})
            break
    for c in cases:
        if c["type"] == "eq":
            ctx.sample({"items": c["items"][:3], "eq_row": c["eq"][0][:12], "hash_rank": c["hid"][:12]})
            break
