"""C29 -- calculation-setup supercells contain the right defects, pair up into single-atom transitions, and carry
mappings that really transform a relaxed state into a transition endpoint; too-small supercells warn.

Interstitial and VacancyMediated calculators are built on worlds realised in a random orientation (interstitial
species listed first, multi-species hosts, host species on several inequivalent Wyckoff positions, vacancy
sublattices with inequivalent sites) and the REAL makesupercells is called with diagonal, non-diagonal and too-small
supercell matrices, the "too small" warnings being recorded.  Every returned supercell is projected to integers
(occupation vector, presentation order), every tag to the defects it names (grid points), every recorded
(tag, g, mapping) to (state index, site permutation + rotation/translation, mapping).  spec/world/Check_C29.tla (TLC)
decides every clause against the definitional contents of spec/world/SetupW.tla; the mapping clause uses the C28
semantics (spec/obj/OccOps.tla, bound to SupercellOcc.tla by a TLC model run, MC_OccOps).  Python judges nothing.
"""
import os

import numpy as np

from .. import helpers_setup as hs
from .. import superlat, tlc, worlds

LEVEL = "model_checking"

D2 = [[2, 0, 0], [0, 2, 0], [0, 0, 2]]
D3 = [[3, 0, 0], [0, 3, 0], [0, 0, 3]]
D221 = [[2, 0, 0], [0, 2, 0], [0, 0, 1]]
D212 = [[2, 0, 0], [0, 1, 0], [0, 0, 2]]
D122 = [[1, 0, 0], [0, 2, 0], [0, 0, 2]]
I1 = [[1, 0, 0], [0, 1, 0], [0, 0, 1]]
CUB = [[-1, 1, 1], [1, -1, 1], [1, 1, -1]]            # conventional cube of the fcc primitive cell
CUB2 = [[-2, 2, 2], [2, -2, 2], [2, 2, -2]]
ROT45 = [[1, 1, 0], [-1, 1, 0], [0, 0, 2]]
SHEAR = [[2, 1, 0], [0, 2, 0], [0, 0, 1]]              # lowers the symmetry of the supercell
SKEW = [[2, 0, 1], [0, 2, 0], [0, 1, 2]]
ORTHOHEX = [[1, 1, 0], [-1, 1, 0], [0, 0, 1]]          # orthohexagonal cell of a hexagonal lattice
D5 = [[5, 0, 0], [0, 5, 0], [0, 0, 5]]
D543 = [[5, 0, 0], [0, 4, 0], [0, 0, 3]]               # too small in ONE direction only: only some members of a star alias
D354 = [[3, 0, 0], [0, 5, 0], [0, 0, 4]]

# (world, diffuser species, jump shell, supercell matrices)
QUICK_I = [
    ("i_tet3", 0, 1, [D221, ROT45, I1, SHEAR]),        # interstitial first; host species on 2 Wyckoff positions; 3 species
    ("i_b2", 0, 1, [D2, SKEW, I1]),                    # interstitial first; binary host
    ("i_hex", 0, 2, [D221, ORTHOHEX, SHEAR]),
    ("fccoct", 2, 1, [D221, CUB, I1]),                 # tetrahedral diffuser; host and octahedral species stay filled
    ("hcpoct", 1, 1, [D221, SKEW]),
    ("monodeco", 1, 2, [D122, SKEW]),
]
# (world, vacancy sublattice, jump shell, Nthermo, supercell matrices)
QUICK_V = [
    ("fcc", 0, 1, 1, [D3, CUB2, I1, SKEW]),
    ("b2", 0, 1, 1, [D3, ROT45]),                      # binary host
    ("sc", 0, 1, 1, [D5, D2, D543]),                   # D5: large enough, no warning expected
    ("hcp", 0, 2, 1, [D543, D354]),
    ("omega", 0, 1, 1, [D221, D2]),                    # vacancy sublattice with two inequivalent sites
    ("i_hex", 1, 1, 1, [D221]),                        # ternary crystal, vacancy species listed second, 2 Wyckoff positions
]

THOROUGH_I = [
    ("fccoct", 1, 1, [D2, CUB, SKEW]), ("hcpoct", 2, 2, [D2, ORTHOHEX]), ("wurtzite", 1, 1, [D221, SKEW]),
    ("tet2", 0, 1, [D2, ROT45, I1]), ("tet2", 1, 1, [D2, SHEAR]), ("tric2", 0, 2, [D2, SKEW]), ("l12", 1, 1, [D2, ROT45]),
    ("perov", 2, 1, [D2, ROT45, I1]), ("perov", 0, 1, [D2, SKEW]), ("rocksalt", 1, 1, [D2, CUB]),
    ("i_fcc", 0, 1, [D3, CUB2, I1]), ("diamond", 0, 1, [D2, CUB]), ("b2", 1, 1, [D3, SKEW]),
    ("i_ortho", 0, 2, [D212, SHEAR]), ("omega", 0, 2, [D221, SHEAR]), ("hcpoct", 1, 1, [ORTHOHEX]),
]
THOROUGH_V = [
    ("bcc", 0, 1, 1, [D3, SKEW]), ("diamond", 0, 1, 1, [D2, CUB]), ("rocksalt", 1, 1, 1, [D3, CUB2]),
    ("perov", 2, 1, 1, [D2, ROT45]), ("fcc", 0, 1, 2, [D3, CUB2]), ("sc", 0, 1, 2, [D3, ROT45]),
    ("hcp", 0, 2, 2, [D221]), ("tetra", 0, 2, 1, [D3, SKEW]), ("wurtzite", 0, 2, 1, [D2]), ("i_tet3", 1, 1, 1, [D2, ROT45]),
    ("tet2", 0, 2, 1, [D2, ROT45]), ("b2", 0, 1, 1, [D221]), ("l12", 1, 1, 1, [D2, SHEAR]), ("hcp", 0, 2, 1, [D3, SKEW]),
    ("i_hex", 1, 1, 1, [ORTHOHEX]),
    ("fccoct", 0, 1, 1, [D2, CUB2]), ("b2", 1, 1, 1, [D2, SKEW]),
]


# ------------------------------------------------------------------ recording one call

def record(s, S):
    """Call the real makesupercells and project its output.  Raises ProjectionError for anything off the grid."""
    sd, nwarn, wkinds = hs.make_superdict(s, S)
    ow = {k: v for k, v in s.ow.items() if k != "q"}
    D = ow["D"]
    sups = list(sd["states"].values()) + [x for ab in sd["transitions"].values() for x in ab]
    if "reference" in sd:
        sups.append(sd["reference"])
    sup0 = sups[0]
    Dn = D * sup0.size
    sites = hs.sites_of(sup0, Dn)
    for x in sups:
        if x.pos is not sup0.pos and not np.array_equal(np.asarray(x.pos), np.asarray(sup0.pos)):
            raise worlds.ProjectionError("the supercells of one call do not share one site list")
    stags = list(sd["states"].keys())
    states = [dict(tag=t, defs=hs.named_defects(t, D), **hs.state(sd["states"][t])) for t in stags]
    trans = []
    for t, (a, b) in sd["transitions"].items():
        typ, ini, fin = hs.parse_transition_tag(t, D)
        tm = []
        for m in sd["transmapping"][t]:
            if m is None:
                tm.append({"none": True, "st": 0, "op": hs.DUMMY_OP, "map": []})
            else:
                tagk, g, mapping = m
                tm.append({"none": False, "st": stags.index(tagk) + 1 if tagk in stags else 0,
                           "op": hs.project_op(sup0, g, Dn), "map": [[int(i) + 1 for i in cm] for cm in mapping]})
        trans.append({"tag": t, "typ": typ, "ini": ini, "fin": fin, "a": hs.state(a), "b": hs.state(b),
                      "ntm": len(tm), "tm": tm})
    calc = s.calc
    classes = [{"type": ty, "idx": i, "rep": tl[0]} for ty, lst in calc.tags.items() for i, tl in enumerate(lst)]
    indices = []
    for t, v in sd["indices"].items():
        if s.kind == "interstitial":
            indices.append({"tag": t, "type": "states" if t in sd["states"] else "transitions", "idx": int(v)})
        else:
            indices.append({"tag": t, "type": str(v[0]), "idx": int(v[1])})
    kin = []
    if s.kind == "vacancy":
        for PS in calc.kinetic.states:
            kin.append({"i": int(PS.i) + 1, "dX": worlds.vec_lattice(s.crys, np.asarray(PS.dx), D,
                                                                      "separation of a kinetic pair state")})
    return {"w": ow, "S": np.array(S).tolist(), "sites": sites, "kind": s.kind, "chem": s.chem + 1,
            "nchem": int(s.crys.Nchem), "states": states, "trans": trans, "kin": kin, "nwarn": int(nwarn),
            "classes": classes, "indices": indices, "hasref": "reference" in sd,
            "ref": hs.state(sd["reference"]) if "reference" in sd else hs.DUMMY_STATE}, wkinds


# ------------------------------------------------------------------ model-level binding of OccOps to SupercellOcc

MC_OCCOPS = r"""---- MODULE MC_OccOps ----
EXTENDS SupercellOcc
O == INSTANCE OccOps
MCFills == << [chem |-> 1, sites |-> <<1, 2>>] >>
MCGPerms == << <<2, 3, 1>>, <<2, 1, 3>> >>
MCPoscars == << >>
IdMaps(o) == [d \in Chem |-> [n \in 1..Len(order[o][d]) |-> n]]
\* the pure operators of OccOps are the actions of SupercellOcc
ApplyGIsGApply ==
  [][\A o \in Obj, g \in DOMAIN GPerms : ApplyG(o, g) => StateOf(o)' = O!GApply(GPerms[g], StateOf(o))]_vars
ReorderIsReordered ==
  [][\A o \in Obj, c \in Chem : \A p \in AllMaps :
        Reorder(o, c, p) => /\ O!ValidMap(StateOf(o), [IdMaps(o) EXCEPT ![c] = p])
                            /\ StateOf(o)' = O!Reordered(StateOf(o), [IdMaps(o) EXCEPT ![c] = p])]_vars
InvalidMapIsRejected ==
  [][\A o \in Obj, c \in Chem : \A p \in AllMaps :
        ReorderErr(o, c, p) => ~O!ValidMap(StateOf(o), [IdMaps(o) EXCEPT ![c] = p])]_vars
SaneIsSane == \A o \in Obj : SaneObj(o) <=> O!Sane(StateOf(o), NC)
====
"""
MC_OCCOPS_CFG = """
CONSTANTS
  NS = 3
  NC = 2
  NObj = 1
  CLo = 0
  CHi = 2
  Fills <- MCFills
  GPerms <- MCGPerms
  Poscars <- MCPoscars
SPECIFICATION Spec
INVARIANT Sane
INVARIANT SaneIsSane
PROPERTY ApplyGIsGApply
PROPERTY ReorderIsReordered
PROPERTY InvalidMapIsRejected
"""


def model_binding(ctx):
    wd = tlc.scratch()
    path = os.path.join(wd, "MC_OccOps.tla")
    with open(path, "w") as f:
        f.write(MC_OCCOPS)
    res = tlc.run(path, MC_OCCOPS_CFG, workers=2, workdir=wd, timeout=600)
    tlc.require_clean(res, "OccOps = SupercellOcc actions")
    ctx.add_model(res)
    ctx.info("model_OccOps_equals_SupercellOcc_states", res.distinct)


# ------------------------------------------------------------------ configurations

def configurations(ctx):
    rng = ctx.rng
    conf_i, conf_v = list(QUICK_I), list(QUICK_V)
    if ctx.tier != "quick":
        conf_i += THOROUGH_I
        conf_v += THOROUGH_V
    out = []
    for (name, chem, shell, mats) in conf_i:
        out.append(("interstitial", hs.world(name), chem, shell, 0, [np.array(S) for S in mats]))
    for (name, chem, shell, nth, mats) in conf_v:
        out.append(("vacancy", hs.world(name), chem, shell, nth, [np.array(S) for S in mats]))
    # random decorated 3D worlds (2-3 species, low symmetry: many inequivalent Wyckoff positions), random
    # sublattices of index 1..8 in a random description
    nrand_i, nrand_v = (4, 1) if ctx.tier == "quick" else (60, 14)
    for n in range(nrand_i + nrand_v):
        # (vacancy calculators on low-symmetry crystals with many atoms take minutes to build: at most 3 atoms)
        w = worlds.random_world(rng, dim=3, maxatoms=4 if n < nrand_i else 3, nspecies=rng.choice((2, 2, 3)))
        chem = rng.randrange(len(w["basis"]))
        mats = []
        for _ in range(2 if ctx.tier == "quick" else 3):
            idx = rng.choice((1, 2, 2, 3, 4, 4, 6, 8))
            mats.append(superlat.redescribe(rng, rng.choice(superlat.hnfs(3, idx)), maxentry=3))
        if n < nrand_i:
            out.append(("interstitial", w, chem, rng.choice((1, 2)), 0, mats))
        else:
            out.append(("vacancy", w, chem, 1, 1, mats))
    return out


# ------------------------------------------------------------------ the check

def run(ctx):
    rng = ctx.rng
    ctx.rule = ("real Interstitial / VacancyMediated calculators (interstitial species first, binary/ternary hosts, "
                "several inequivalent Wyckoff positions, random decorated worlds; random orientation) x diagonal, "
                "non-diagonal, symmetry-lowering and too-small supercells; every state supercell, transition pair and "
                "recorded (tag, g, mapping) of makesupercells decided by TLC against SetupW.tla; non-trivial = state "
                "record in a supercell with more than one cell, or transition record with a recorded non-identity "
                "operation or an unmapped endpoint")
    model_binding(ctx)
    cases, meta = [], []
    built = {"interstitial": 0, "vacancy": 0}
    for (kind, w, chem, shell, nth, mats) in configurations(ctx):
        s = None
        for attempt in range(4):
            try:
                s = hs.interstitial(w, chem, shell, rng) if kind == "interstitial" else hs.vacancy(w, chem, shell, nth, rng)
                break
            except Exception as ex:      # noqa: BLE001 -- building the calculator is not C29's subject
                ctx.info("skipped_%s_%s_chem%d" % (kind, w.get("name"), chem), "%s: %s" % (type(ex).__name__, str(ex)[:80]))
                if not w.get("name", "").startswith("rnd-"):
                    break
                # a random decoration without a percolating first-shells network: draw another one
                w = worlds.random_world(rng, dim=3, maxatoms=3, nspecies=rng.choice((2, 2, 3)))
                chem = rng.randrange(len(w["basis"]))
        if s is None:
            continue
        fam = hs.family(w.get("name", "?"))
        built[kind] += 1
        for S in mats:
            setting = "%s|%s|chem%d|%s" % (kind, fam, chem, hs.smat_tag(S))
            try:
                case, wkinds = record(s, S)
            except worlds.ProjectionError as ex:
                ctx.case(setting)
                ctx.violation("projection|%s" % setting, "makesupercells %s (world %s): %s" % (setting, w, ex),
                              {"world": w, "S": np.array(S).tolist(), "chem": chem})
                continue
            except Exception as ex:      # noqa: BLE001 -- the call itself failed
                import traceback
                where = [f.name for f in traceback.extract_tb(ex.__traceback__) if "onsager" in f.filename]
                ctx.case(setting)
                ctx.violation("call|%s|%s|%s" % (where[-1] if where else "?", type(ex).__name__, setting),
                              "makesupercells %s (world %s) raised %s: %s" % (setting, w, type(ex).__name__, ex),
                              {"world": w, "S": np.array(S).tolist(), "chem": chem})
                continue
            cases.append(case)
            meta.append((kind, fam, setting, w, wkinds, s.nWyckoff_other))
    import time
    t_tlc = time.time()
    ctx.info("wall_s_recording", round(t_tlc - ctx.t0, 1))
    fails, infos, results = tlc.run_cases("Check_C29", cases, shards=8 if ctx.tier == "quick" else 14, timeout=2400)
    ctx.info("wall_s_tlc", round(time.time() - t_tlc, 1))
    ctx.info("wall_s_tlc_shards", [round(r.wall, 1) for r in results])
    for r in results:
        ctx.add_model(r)
    hs.require_all_fails_read(results)
    model = sorted({cl for v in fails.values() for cl in v if cl.startswith("model_")})
    if model:
        raise tlc.TLCError("model-level theorem(s) %s failed" % model)
    stats = {"states": 0, "transitions": 0, "entries_mapped": 0, "entries_unmapped": 0, "entries_nonidentity": 0,
             "settings_too_small": 0, "settings_warned": 0, "settings_warned_without_aliasing": 0,
             "settings_aliased_only_on_the_cell_boundary": 0, "records_with_content_clauses_demanded": 0,
             "settings_host_species_on_several_Wyckoff_positions": 0, "settings_three_or_more_species": 0}
    for ci, (kind, fam, setting, w, wkinds, nwy) in enumerate(meta):
        c = cases[ci]
        inf = infos.get(ci, {})
        small = bool(inf.get("toosmall", False))
        stats["settings_too_small"] += small
        stats["settings_aliased_only_on_the_cell_boundary"] += bool(inf.get("aliased", False)) and not small
        stats["records_with_content_clauses_demanded"] += int(inf.get("fits", 0))
        stats["settings_warned"] += c["nwarn"] > 0
        stats["settings_warned_without_aliasing"] += (c["nwarn"] > 0 and not small)
        stats["settings_host_species_on_several_Wyckoff_positions"] += nwy > 1
        stats["settings_three_or_more_species"] += (c["nchem"] + (kind == "vacancy")) >= 3
        ncell = len(c["sites"]) // max(1, sum(len(b) for b in c["w"]["basis"]))
        ident = list(range(1, len(c["sites"]) + 1))
        ctx.case("setting|" + setting, nontrivial=ncell > 1)
        for j, st in enumerate(c["states"]):
            stats["states"] += 1
            ctx.case("%s|s|%s" % (setting, st["tag"]), nontrivial=ncell > 1)
        for j, t in enumerate(c["trans"]):
            stats["transitions"] += 1
            nonid = False
            for e in t["tm"]:
                stats["entries_unmapped" if e["none"] else "entries_mapped"] += 1
                if not e["none"] and e["op"]["perm"] != ident:
                    stats["entries_nonidentity"] += 1
                    nonid = True
                nonid = nonid or e["none"]
            ctx.case("%s|t|%s" % (setting, t["tag"]), nontrivial=nonid)
        for cl in sorted(set(fails.get(ci, []))):
            name, lev, j, end = hs.split_clause(cl)
            if end:
                name += {"i": "(initial)", "f": "(final)"}.get(end, end)
            if lev == "s":
                rec = c["states"][j - 1]
                level, what = "state", "state %r: occ=%s order=%s" % (rec["tag"], rec["occ"], rec["order"])
            elif lev == "t":
                rec = c["trans"][j - 1]
                level = rec["typ"]
                what = "transition %r: initial %s / final %s / transmapping %s" % (
                    rec["tag"], rec["a"], rec["b"],
                    [("None" if e["none"] else (e["st"], e["op"]["rot"], e["op"]["t"], e["map"])) for e in rec["tm"]])
            else:
                rec, level = None, "setting"
                what = "%d 'too small' warnings %s; TLC: supercell too small = %s" % (c["nwarn"], wkinds, small)
            ctx.violation("clause|%s|%s|%s|%s|%s" % (name, kind, level, fam, hs.smat_tag(c["S"])),
                          "makesupercells %s (world %s, S=%s): clause %s of Check_C29 fails; %s" % (
                              setting, w.get("name"), c["S"], name, what),
                          {"world": w, "observed_world": c["w"], "S": c["S"], "chem": c["chem"], "record": rec,
                           "sites": c["sites"], "nwarn": c["nwarn"]})
    ctx.traces += len(cases)
    for kk, v in stats.items():
        ctx.info(kk, int(v))
    ctx.info("calculators", built)
    ctx.info("makesupercells_calls", len(cases))
    if cases:
        c = cases[0]
        ctx.sample({"setting": meta[0][2], "sites": len(c["sites"]), "state": c["states"][0]["tag"],
                    "defs": c["states"][0]["defs"], "occ": c["states"][0]["occ"]})
        for ci, c in enumerate(cases):
            if c["kind"] == "vacancy" and c["trans"]:
                t = c["trans"][-1]
                ctx.sample({"setting": meta[ci][2], "transition": t["tag"], "ini": t["ini"], "fin": t["fin"],
                            "nwarn": c["nwarn"]})
                break
