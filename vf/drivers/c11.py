"""C11 -- the derivative outputs of the interstitial calculator are true derivatives; dipoles are populated by
symmetric projection on the representative and carried by the group operations.

spec/rel/Check_C11.tla (+ spec/world/Dipoles.tla, Fx.tla) decides three kinds of named clauses on exactly
transported observations of the real calculator, on worlds realised in random orientations:

* Db_is_minus_beta_derivative: central differences with the exact step h = 2^-12,
      2048 D(beta(1+h)) - 2048 D(beta(1-h)) + Db = 0;
* elastodiffusion_is_strain_derivative@E_ab for EVERY strain component: the harness builds the strained crystal
  (1 + eps) A itself (eps = +-h A^-T E_ab A^-1, E_ab integer in lattice coordinates), lets the library find its lower
  symmetry, carries the jump network over in lattice form, gives every site / transition state the parent's energy
  minus P:eps with P the POPULATED dipoles, evaluates the library's own diffusivity there, and TLC checks
      2048 D(+hE) - 2048 D(-hE) - sum_kl E_kl dD^{..kl} = 0     (lattice components);
* site_dipoles / jump_dipoles: from the exact integer (non-symmetric) input dipole TLC computes the definitional
  stabiliser of the representative site / transition state (a jump or its reverse) in the definitional space group of
  the observed world and the Reynolds average of the symmetric part, and compares it with siteDipoles / jumpDipoles
  on the representative; every group operation must carry the representative's dipole onto the dipole reported for the
  image; populating the populated values changes nothing.
"""
import numpy as np

from .. import calc, rel, tlc
from .. import helpers_c11 as hp

LEVEL = "model_checking"

QUICK = [("fccoct", 2, 1), ("hcpoct", 2, 2), ("polarrect", 1, 2), ("wurtzite", 1, 1), ("monodeco", 1, 2), ("tet2", 0, 1),
         ("honeycomb", 0, 1), ("orthomm2", 1, 3), ("hcpOT", 1, 2), ("fccOT", 1, 2), ("monogen", 1, 2)]
MORE = [("fccoct", 1, 1), ("hcpoct", 1, 1), ("omega", 0, 2), ("tric2", 0, 2), ("kagome", 0, 1), ("squarelieb", 1, 1),
        ("l12", 1, 1), ("rect2site", 0, 2), ("bccOT", 1, 2), ("orthogen", 1, 2), ("tricgen", 1, 2), ("tetm", 1, 2),
        ("polarrect3", 1, 3), ("hcpOT", 1, 3), ("wurtzite", 1, 2), ("orthomm2", 1, 2), ("monogen", 1, 3), ("tet2", 0, 2)]

SUBCLAUSES = {"proj": "symmetric_projection_on_representative", "carried": "carried_by_group_operation",
              "listed": "listed_jumps_are_equivalent_to_representative",
              "covered": "every_equivalent_jump_has_a_dipole", "LEMMA": "MODEL_LEMMA"}
TOL_DERIV = 5e-5
TOL_POP = 1e-8


def A(name, kind, terms=(), tol=1e-8, rep=0, pin=(), items=()):
    return {"name": name, "kind": kind, "terms": [[int(c), t] for c, t in terms], "tol": rel.tol_units(tol),
            "rep": rep, "pin": [list(map(int, r)) for r in pin], "items": list(items)}


def wjson(s):
    return {q: s.w[q] for q in ("dim", "M", "D", "basis")}


def dipole_case(s, dipL, dipTL, sd, jd, sdL, jdL, stl):
    """The population clauses for one set of input dipoles."""
    chem = s.chem
    sd2 = s.calc.siteDipoles([sd[cls[0]] for cls in s.sitelist])
    jd2 = s.calc.jumpDipoles([cls[0] for cls in jd])
    lj = hp.lattice_jumps(s)
    tens, asserts = {}, []
    for i in range(s.calc.N):
        tens["S%d" % i] = sdL[i]
        tens["Sagain%d" % i] = rel.to_latt(s.crys, sd2[i])
    for k, cls in enumerate(jdL):
        for m, P in enumerate(cls):
            tens["J%d_%d" % (k, m)] = P
            tens["Jagain%d_%d" % (k, m)] = rel.to_latt(s.crys, jd2[k][m])
    for n, cls in enumerate(s.sitelist):
        nm = "site_dipoles@site%d" % cls[0]
        asserts.append(A(nm, "sitepop", tol=TOL_POP, rep=cls[0] + 1, pin=dipL[n],
                         items=["S%d" % i for i in range(s.calc.N)]))
        for i in cls:
            asserts.append(A(nm + "/populating_populated_changes_nothing", "zero",
                             [(1, "S%d" % i), (-1, "Sagain%d" % i)], TOL_POP))
    len2 = [hp.jump_len2(s.w, chem, cls[0]) for cls in lj]
    for k, cls in enumerate(lj):
        # canonical place of a jump class: exact squared length, end sites, ordinal among classes of that length
        tag = "jump_dipoles@len2=%d:%d-%d#%d" % (len2[k], min(cls[0][:2]), max(cls[0][:2]),
                                                sum(1 for q in len2[:k] if q == len2[k]))
        i0, j0, L0 = cls[0]
        asserts.append(A(tag, "jumppop", tol=TOL_POP, rep=[i0 + 1, j0 + 1, list(L0)], pin=dipTL[k],
                         items=[[i + 1, j + 1, list(L), "J%d_%d" % (k, m)] for m, (i, j, L) in enumerate(cls)]))
        for m in range(len(cls)):
            asserts.append(A(tag + "/populating_populated_changes_nothing", "zero",
                             [(1, "J%d_%d" % (k, m)), (-1, "Jagain%d_%d" % (k, m))], TOL_POP))
    kk = hp.pow2_at_least(max(float(np.max(np.abs(T))) for T in tens.values()))
    if kk > 10:
        raise RuntimeError("dipole magnitude out of the exact transport range")
    one = list(divmod(10 ** 10 // 2 ** kk, rel.BASE))
    names = hp.shorten(asserts)
    return {"w": wjson(s), "chem": chem + 1, "one": one, "scale": 2.0 ** kk, "strains": stl,
            "tensors": {n: rel.fxmat(T, 2.0 ** kk) for n, T in tens.items()}, "asserts": asserts}, names


def evaluate(s, twins, stl, args, dipL, dipTL, dip, dipT, meta, payload, label, name, chem, ori, rep, quick,
             pcases, pmetas, dcases, dmetas, pre_violations):
    """One (orientation, data set): the population case (optional) and the derivative case."""
    pre, be, preT, beT = args
    dim = s.crys.dim
    sd = s.calc.siteDipoles(dip)
    jd = s.calc.jumpDipoles(dipT)
    sdL = [rel.to_latt(s.crys, P) for P in sd]
    jdL = [[rel.to_latt(s.crys, P) for P in cls] for cls in jd]
    if rep == 0 or not quick:
        case, names = dipole_case(s, dipL, dipTL, sd, jd, sdL, jdL, stl)
        pcases.append(case)
        pmetas.append(dict(meta, kind="dipoles", key="dipoles|%s#%d.%d" % (label, ori, rep), names=names))
    # ---------------- derivatives
    D, Db = s.calc.diffusivity(pre, be, preT, beT, CalcDeriv=True)
    Dbp = s.calc.diffusivity(pre, be * (1 + hp.H), preT, beT * (1 + hp.H))
    Dbm = s.calc.diffusivity(pre, be * (1 - hp.H), preT, beT * (1 - hp.H))
    D0, dD = s.calc.elastodiffusion(pre, be, dip, preT, beT, dipT)
    dDL = rel.to_latt4(s.crys, dD)
    tens = {"Db": rel.to_latt(s.crys, Db), "D_beta_plus": rel.to_latt(s.crys, Dbp),
            "D_beta_minus": rel.to_latt(s.crys, Dbm)}
    asserts = [A("Db_is_minus_beta_derivative", "zero",
                 [(hp.HALF_INV_H, "D_beta_plus"), (-hp.HALF_INV_H, "D_beta_minus"), (1, "Db")], TOL_DERIV)]
    for a_ in range(dim):
        for b_ in range(dim):
            tens["dD_%d%d" % (a_, b_)] = dDL[:, :, a_, b_]
    for nm, E, tp, tm in twins:
        Dp, sp1 = tp.diffusivity(args, sdL, jdL)
        Dm, sp2 = tm.diffusivity(args, sdL, jdL)
        if max(sp1, sp2) > 1e-7:
            pre_violations.append((
                "clause|dipole_coupling_is_a_function_of_the_site_or_transition_state|%s|chem%d|%s" % (
                    name, chem, nm),
                "%s: under strain %s the populated dipoles give different P:eps (spread %.3g) to sites / jumps "
                "that are equivalent in the strained crystal, or to a jump and its reverse" % (
                    label, nm, max(sp1, sp2)), payload))
        tens["D_plus_" + nm] = rel.to_latt(s.crys, Dp)
        tens["D_minus_" + nm] = rel.to_latt(s.crys, Dm)
        terms = [(hp.HALF_INV_H, "D_plus_" + nm), (-hp.HALF_INV_H, "D_minus_" + nm)]
        terms += [(-int(E[a_, b_]), "dD_%d%d" % (a_, b_)) for a_ in range(dim) for b_ in range(dim)
                  if E[a_, b_]]
        asserts.append(A("elastodiffusion_is_strain_derivative@" + nm, "zero", terms, TOL_DERIV))
    scale = max(float(np.max(np.abs(T))) for T in tens.values())
    names = hp.shorten(asserts)
    dcases.append({"w": wjson(s), "chem": chem + 1, "one": [0, 0], "scale": scale, "strains": stl,
                   "tensors": {n: rel.fxmat(T, scale) for n, T in tens.items()}, "asserts": asserts})
    dmetas.append(dict(meta, kind="deriv", key="deriv|%s#%d.%d" % (label, ori, rep), names=names))


def run(ctx):
    if ctx.replay:
        return hp.replay(ctx, "Check_C11")
    quick = ctx.tier == "quick"
    rng = ctx.rng
    ctx.rule = ("(world in a random orientation, random dyadic energies/prefactors, random NON-symmetric integer dipoles): "
                "beta derivative + every strain component by exact-step central differences on the strained crystal, and "
                "every site / jump class's populated dipoles against the definitional stabiliser average; non-trivial = "
                "derivative case with a non-empty vector basis (correlated path), or population case with a stabiliser "
                "of order > 1")
    setups = QUICK if quick else QUICK + MORE
    norient, nrep = (1, 4) if quick else (2, 6)
    dcases, dmetas, pcases, pmetas = [], [], [], []
    pre_violations, solver_refusals = [], []
    for name, chem, shell in setups:
        for ori in range(norient):
            s = hp.interstitial(name, chem, shell, rng)
            dim = s.crys.dim
            Alat = s.crys.lattice
            strains = hp.strains(dim)
            stl = [[nm, E.tolist()] for nm, E in strains]
            twins = [(nm, E, hp.StrainedTwin(s, E, +1), hp.StrainedTwin(s, E, -1)) for nm, E in strains]
            label = "%s|chem%d|shell%d" % (name, chem, s.shell)
            for rep in range(nrep):
                d = calc.interstitial_data(s, rng, 0, 2 if rep % 2 == 0 else 4)
                if rep % 4 == 3:
                    # realistic absolute barriers: every rate of order 2^-40 ~ 1e-12 (derivatives scale exactly)
                    d["eneTL"] = [e + 40 for e in d["eneTL"]]
                args = calc.interstitial_args(d)
                pre, be, preT, beT = args
                dipL = [hp.int_dipole(rng, dim) for _ in range(s.Nsite)]
                dipTL = [hp.int_dipole(rng, dim) for _ in range(s.Njump)]
                dip = [np.dot(Alat, np.dot(P, Alat.T)) for P in dipL]
                dipT = [np.dot(Alat, np.dot(P, Alat.T)) for P in dipTL]
                payload = {"world": name, "chem": chem, "shell": s.shell, "data": d, "lattice": Alat.tolist(),
                           "site_dipoles_lattice": [P.tolist() for P in dipL],
                           "jump_dipoles_lattice": [P.tolist() for P in dipTL]}
                vb = np.asarray(s.calc.VectorBasis, dtype=float).reshape(-1, dim)
                meta = dict(label=label, name=name, chem=chem, payload=payload, ngroup=len(s.crys.G), nv=s.calc.NV,
                            real=(label, ori), dim=dim, vbrank=int(np.linalg.matrix_rank(vb, tol=1e-8)) if vb.size else 0,
                            orders=[t[2].ngroup for t in twins])
                try:
                    evaluate(s, twins, stl, args, dipL, dipTL, dip, dipT, meta, payload, label, name, chem, ori, rep, quick,
                             pcases, pmetas, dcases, dmetas, pre_violations)
                except np.linalg.LinAlgError as ex:
                    # the calculator itself refuses the network (singular projected rate matrix): whether it may is the
                    # subject of C02, not of the derivative outputs; counted in the evidence, never silently dropped
                    solver_refusals.append("%s#%d.%d: %s" % (label, ori, rep, ex))
                except (ValueError, OverflowError, FloatingPointError) as ex:
                    pre_violations.append(("clause|outputs_are_finite|%s|chem%d" % (name, chem),
                                           "%s: an output cannot be transported (%s: %s)" % (label, type(ex).__name__, ex),
                                           payload))
    # population cases first: they are the expensive ones and the sharding is round-robin
    cases, metas = pcases + dcases, pmetas + dmetas
    # (few shards: one warmed-up JVM does all quick population cases in ~25 s; JVM start-up dominates otherwise)
    fails, infos, results = tlc.run_cases("Check_C11", cases, shards=3 if quick else 10)
    for r in results:
        ctx.add_model(r)
    ctx.traces += len(cases)
    for key, what, payload in pre_violations:
        ctx.violation(key, what, payload)
    mismatch, nbreaking, reversing, strained_orders = 0, 0, 0, {}
    # TLC's classification of every strain component of a realisation: does it keep the definitional point group?
    keeps = {}
    for i, m in enumerate(metas):
        info = infos.get(i, {})
        if m["kind"] == "dipoles" and info.get("strainstab"):
            keeps.setdefault(m["real"], {nm: order == info["grouporder"]
                                         for (nm, E), order in zip(hp.strains(m["dim"]), info["strainstab"])})
    for i, m in enumerate(metas):
        info = infos.get(i, {})
        names = sorted(set(hp.expand(f, m["names"], SUBCLAUSES) for f in fails.get(i, [])))
        if any(n.endswith("MODEL_LEMMA") or n.endswith("UNKNOWN_KIND") for n in names):
            raise tlc.TLCError("model-level lemma of Dipoles.tla fails on %s: %s" % (m["key"], names))
        if m["kind"] == "deriv":
            ctx.case(m["key"], nontrivial=m["nv"] > 0)
        else:
            if info.get("grouporder") != m["ngroup"]:
                mismatch += 1
            st = list(info.get("strainstab", []))
            nbreaking += sum(1 for x in st if x < info.get("grouporder", 0))
            if st != list(m["orders"]):
                strained_orders[m["key"]] = [st, m["orders"]]
            facts = [v for q, v in info.items() if q.startswith("facts:")]
            reversing += sum(1 for f in facts if f[1] > 0)
            ctx.case(m["key"], nontrivial=any(f[0] > 1 for f in facts))
        if not names:
            continue
        # one violation per clause; the key carries the clause, the world and the places (strain components, classes)
        byclause = {}
        for n in names:
            head, _, sub = n.partition("/")
            base, _, place = head.partition("@")
            byclause.setdefault(base + ("/" + sub if sub else ""), []).append(place)
        if "elastodiffusion_is_strain_derivative" in byclause:
            # split by TLC's strain classification, so that a finding about symmetry-breaking strains with a site vector
            # basis spanning several directions cannot mask a failure under a symmetry-keeping strain or elsewhere
            kp = keeps.get(m["real"], {})
            for nm in byclause.pop("elastodiffusion_is_strain_derivative"):
                cls = {True: "symmetry_keeping_strain", False: "symmetry_breaking_strain"}.get(kp.get(nm), "strain")
                byclause.setdefault("elastodiffusion_is_strain_derivative|%s+vector_basis_rank%d" % (cls, m["vbrank"]),
                                    []).append(nm)
        for clause, places in sorted(byclause.items()):
            ctx.violation("clause|%s|%s|chem%d|%s" % (clause, m["name"], m["chem"], "+".join(sorted(set(places)))),
                          "%s: TLC rejects %s at %s (definitional group order %s, library %d; vector basis %d; tolerance "
                          "%g of scale %g)" % (m["label"], clause, sorted(set(places)),
                                               info.get("grouporder") or "n/a", m["ngroup"],
                                               m["nv"], TOL_DERIV if m["kind"] == "deriv" else TOL_POP, cases[i]["scale"]),
                          {"meta": m["payload"], "failed": names, "case": cases[i]})
    ctx.info("calculator_refused_network_LinAlgError", solver_refusals)
    if solver_refusals:
        ctx.assumptions.append("%d evaluations skipped because the calculator raised LinAlgError" % len(solver_refusals))
    ctx.info("definitional_vs_library_group_order_mismatches", mismatch)
    ctx.info("symmetry_breaking_strains", nbreaking)
    ctx.info("jump_classes_with_reversing_operations", reversing)
    ctx.info("strained_group_order_differs_from_strain_stabiliser", strained_orders)
    ctx.sample({"case": pmetas[0]["key"], "asserts": [n for n, a in zip(pmetas[0]["names"], pcases[0]["asserts"])
                                                      if a["kind"] != "zero"]})
    ctx.sample({"case": dmetas[0]["key"], "asserts": dmetas[0]["names"]})
