"""C02 -- interstitial diffusivity equals the exact long-time diffusivity; the GF calculator agrees.

(a) Exact oracle.  For dyadic data the periodic jump process on the unit cell is a finite Markov chain with
    rational rates; its long-time diffusivity is D = 1/2 sum_i rho_i sum_j w_ij dx dx^T + sym(sum_i rho_i b_i eta_i^T)
    with Q eta = -(b - <b>) (Poisson equation), in lattice (grid) coordinates where every dx is an integer
    vector.  The harness solves the Poisson equation with Python fractions -- UNTRUSTED -- and ships eta as
    integers over a common denominator; spec/rel/Check_C02.tla (TLC, exact big-integer arithmetic of
    spec/lib/BigInt.tla) VERIFIES the certificate (Q eta den = -b' den, sum rho eta = 0 gauge irrelevant),
    recomputes D exactly from it and compares the transported Interstitial.diffusivity with the exact value.
(b) Agreement.  GFCrystalcalc.SetRates(...).D for the same network equals Interstitial.diffusivity
    (spec/rel/Check_Rel.tla), on percolating networks.
"""
import itertools
from fractions import Fraction

import numpy as np

from .. import calc, rel, tlc, worlds

LEVEL = "model_checking"
BASE = 10 ** 4


def limbs(n):
    """Signed big integer -> [sign, limb0, limb1, ...] base 10^4 little endian."""
    s = -1 if n < 0 else 1
    n = abs(int(n))
    out = []
    while n:
        out.append(n % BASE)
        n //= BASE
    return [s] + (out or [0])


def exact_case(s, d, Dobs):
    """Build the exact finite-chain description + certificate for setup s and dyadic data d."""
    crys, w = s.crys, s.w
    Dg = w["D"]
    N = sum(len(c) for c in s.sitelist)
    invmap = {}
    for ci, cl in enumerate(s.sitelist):
        for i in cl:
            invmap[i] = ci
    # integer exponents: rate(i->j via class k) = 2^(preT_k - pre_i) * 2^(ene_i - eneT_k)
    maxe = max(d["eneTL"]) + max(d["preL"]) + 4
    jumps = []      # (i, j, dx grid vector, rate exponent e: rate = 2^e)
    for k, cls in enumerate(s.jumpnetwork):
        for (i, j), dx in cls:
            dxg = worlds.vec_lattice(crys, dx, Dg, "jump vector")
            e = d["preTL"][k] - d["preL"][invmap[i]] + d["eneL"][invmap[i]] - d["eneTL"][k]
            jumps.append((i, j, dxg, e))
    emin = min(e for _, _, _, e in jumps)
    W = [(i, j, dx, 2 ** (e - emin)) for i, j, dx, e in jumps]      # integer rates (times 2^-emin)
    # site probabilities: rho_i ~ pre_i 2^-ene_i
    pmin = min(d["preL"][invmap[i]] - d["eneL"][invmap[i]] for i in range(N))
    R = [2 ** (d["preL"][invmap[i]] - d["eneL"][invmap[i]] - pmin) for i in range(N)]   # integer weights
    Z = sum(R)
    dim = crys.dim
    # generator and bias
    Q = [[Fraction(0)] * N for _ in range(N)]
    b = [[Fraction(0)] * dim for _ in range(N)]
    for i, j, dx, wr in W:
        Q[i][j] += wr
        Q[i][i] -= wr
        for a in range(dim):
            b[i][a] += wr * dx[a]
    # Poisson equation Q eta = b (solvable: sum_i R_i b_i = 0 by detailed balance); pin eta_0 = 0 per component
    # solve on each connected component of the chain
    eta = [[Fraction(0)] * dim for _ in range(N)]
    comp = components(N, W)
    for nodes in comp:
        nodes = sorted(nodes)
        free = nodes[1:]
        if not free:
            continue
        A = [[Q[i][j] for j in free] for i in free]
        for a in range(dim):
            rhs = [b[i][a] for i in free]
            sol = solve_frac(A, rhs)
            for i, v in zip(free, sol):
                eta[i][a] = v
    den = 1
    for row in eta:
        for v in row:
            den = lcm(den, v.denominator)
    etan = [[int(v * den) for v in row] for row in eta]
    case = {
        "N": N, "dim": dim, "Z": Z,
        "R": R, "jumps": [[i + 1, j + 1, dx, wr] for i, j, dx, wr in W],
        "den": limbs(den), "eta": [[limbs(v) for v in row] for row in etan],
        "emin": emin,
    }
    # exact D in grid coordinates, times 2 Z den / 2^emin:  numerators as integers
    return case


def lcm(a, b):
    from math import gcd
    return a * b // gcd(a, b)


def components(N, W):
    adj = {i: set() for i in range(N)}
    for i, j, _, _ in W:
        adj[i].add(j)
        adj[j].add(i)
    seen, out = set(), []
    for i in range(N):
        if i in seen:
            continue
        st, c = [i], set()
        while st:
            x = st.pop()
            if x in c:
                continue
            c.add(x)
            st.extend(adj[x] - c)
        seen |= c
        out.append(c)
    return out


def solve_frac(A, rhs):
    n = len(A)
    M = [row[:] + [r] for row, r in zip(A, rhs)]
    for c in range(n):
        p = next(r for r in range(c, n) if M[r][c] != 0)
        M[c], M[p] = M[p], M[c]
        inv = 1 / M[c][c]
        M[c] = [v * inv for v in M[c]]
        for r in range(n):
            if r != c and M[r][c] != 0:
                f = M[r][c]
                M[r] = [vr - f * vc for vr, vc in zip(M[r], M[c])]
    return [M[r][n] for r in range(n)]


def run(ctx):
    quick = ctx.tier == "quick"
    rng = ctx.rng
    ctx.rule = ("interstitial worlds (1-3 Wyckoff sets, with/without vector basis and inversion: solve and pinv "
                "branches; disconnected networks) x jump shells x random dyadic energies/prefactors; exact finite-chain "
                "diffusivity verified and recomputed by TLC from a certificate; non-trivial = distinct case with a "
                "non-zero bias correction")
    from onsager import GFcalc
    exact_cases, exact_meta = [], []
    rel_cases, rel_meta = [], []
    iw = calc.INTERSTITIAL_WORLDS if not quick else calc.INTERSTITIAL_WORLDS[:10]
    for name, chem, shell in iw:
        for sh in ((shell,) if quick else (shell, shell + 1)):
            s = calc.interstitial(name, chem, sh, rng)
            if s.Njump == 0:
                continue
            for rep in range(3 if quick else 10):
                d = calc.interstitial_data(s, rng, 0, 3 if rep else 1, 0, 2)
                if rep % 4 == 2:
                    # realistic absolute barriers (beta E ~ 28..32): every rate is of order 1e-12 (the exact value
                    # scales by exactly 2^-40; any absolute cut-off in the bias correction shows up here)
                    d["eneTL"] = [e + 40 for e in d["eneTL"]]
                args = calc.interstitial_args(d)
                D = s.calc.diffusivity(*args)
                Dl = rel.to_latt(s.crys, D) * s.w["D"] ** 2          # grid units
                c = exact_case(s, d, D)
                # exact D (Python side, only to decide non-triviality; the verdict is TLC's)
                scale = float(np.max(np.abs(Dl))) or 1.0
                c["obs"] = rel.fxmat(Dl, scale)
                # scale as an exact rational  scale = sn / 2^sk  (floats are dyadic)
                fr = Fraction(scale)
                c["scale_num"], c["scale_den"] = limbs(fr.numerator), limbs(fr.denominator)
                c["tol"] = 2000           # units of 1e-10 * scale  (2e-7 relative)
                exact_cases.append(c)
                exact_meta.append(("exact|%s|%d|shell%d#%d" % (name, chem, sh, rep),
                                   "Interstitial.diffusivity on %s species %d shell %d, data %s" % (name, chem, sh, d),
                                   {"world": name, "chem": chem, "shell": sh, "data": d}))
                # agreement with the Green-function calculator on percolating networks
                if rep == 0:
                    Dsym = 0.5 * (D + D.T)
                    if np.min(np.linalg.eigvalsh(Dsym)) > 1e-6 * np.max(np.abs(D)):
                        try:
                            g = GFcalc.GFCrystalcalc(s.crys, chem, s.sitelist, s.jumpnetwork, 4)
                            g.SetRates(*args)
                            tens = {"D_interstitial": rel.to_latt(s.crys, D), "D_GF": rel.to_latt(s.crys, g.D)}
                            rel_cases.append(rel.make_case(s.w, tens, [rel.a_zero("GF_calculator_reports_same_D", [
                                (1, "D_interstitial"), (-1, "D_GF")], 1e-8)], usegroup=False))
                            rel_meta.append(("gf|%s|%d|shell%d#%d" % (name, chem, sh, rep),
                                             "GFCrystalcalc.D vs Interstitial.diffusivity on %s" % name,
                                             {"world": name, "data": d}, True))
                        except ArithmeticError as ex:
                            ctx.case("gf|%s|%d|shell%d" % (name, chem, sh))
                            ctx.violation("gfraise|%s|%d|shell%d|%s" % (name, chem, sh, type(ex).__name__),
                                          "GFCrystalcalc.SetRates raised %s on a percolating network of %s" % (ex, name),
                                          {"world": name, "data": d})
    fails, infos, results = tlc.run_cases("Check_C02", exact_cases, shards=8 if quick else 14, timeout=2400)
    for r in results:
        ctx.add_model(r)
    for i, (key, desc, payload) in enumerate(exact_meta):
        ctx.case(key, nontrivial=bool(infos.get(i, {}).get("correction_nonzero", False)))
        if i in fails:
            names = sorted(set(fails[i]))
            if any(n.startswith("certificate") for n in names):
                raise tlc.TLCError("certificate rejected by TLC for %s: %s" % (key, names))
            ctx.violation("exact|%s|%s" % ("+".join(names), key.split("#")[0]),
                          "%s: TLC rejects %s (exact finite-chain diffusivity vs transported result)" % (desc, names),
                          {"meta": payload, "case": exact_cases[i]})
    ctx.traces += len(exact_cases)
    if rel_cases:
        rel.run_rel(ctx, rel_cases, rel_meta, shards=4)
    ctx.sample({"case": exact_meta[0][0], "N": exact_cases[0]["N"], "jumps": exact_cases[0]["jumps"][:3],
                "den": exact_cases[0]["den"]})
