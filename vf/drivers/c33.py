"""C33 -- Monte Carlo sampler state is a function of the occupation.

spec/obj/Sampler.tla, parameterised by the interaction tables of a real MonteCarloSampler, is
model-checked exhaustively (all occupations, all single / swap / multi-site updates): invariants
CntIsFunctionOfOcc, SetsPartition, ObsIsFunctionOfOcc, DeltaEExact.  Every edge of the state graph is
replayed on the real sampler (start / deltaE_trial / update) with the full projection and the
observations (E, transitions) compared; random long histories on larger supercells are validated by
TLC against the same module (Trace_C33).
"""
import json
import os

import numpy as np

from .. import samplers, tlc

LEVEL = "model_checking"

INVARIANTS = ["CntIsFunctionOfOcc", "SetsPartition", "ObsIsFunctionOfOcc", "DeltaEExact"]


def run(ctx):
    quick = ctx.tier == "quick"
    ctx.rule = ("TLC state graph of Sampler.tla over ALL occupations of small supercells (tables extracted from the "
                "real sampler); each Start/Update edge replayed on the real MonteCarloSampler; non-trivial = edge "
                "whose update changes at least one site or must raise; plus random 200-step histories on 18-site "
                "supercells validated by TLC")
    cfgs = ["sc221", "sc221j", "sc221v", "b2s221", "fccnd", "tet2_211v"]
    if not quick:
        # (hcp221p: pair clusters only; the triplet expansion on hcp221 ran into the TLC time limit)
        # fcc222 / fcc222v (8 sites, 2849 interactions) exceed it as well: they stay in C34's thorough tier only
        cfgs += ["sc222j", "sc222v", "b2s221v", "hcp221p", "tet2_211"]
    for name in cfgs:
        graph_check(ctx, name, INVARIANTS, "C33")
    for name in (["sc332", "sc332v"] if quick else ["sc332", "sc332v", "hcp221p"]):
        trace_check(ctx, name, 6 if quick else 40, 200)


def graph_check(ctx, name, invariants, pid, check_obs=True, check_delta=True, pairs=None):
    s = samplers.build(name, ctx.rng)
    tab = samplers.tables(s)
    inst = samplers.brute_instances(s)
    mvs = samplers.moves(tab["NS"], tab["Vac"], ctx.rng, multi=4, pairs=pairs)
    wd = tlc.scratch()
    mod, cfg = samplers.mc_module("MC_Sampler", "Sampler", tab, inst, mvs)
    path = os.path.join(wd, "MC_Sampler.tla")
    open(path, "w").write(mod)
    cfg += "\nSPECIFICATION Spec\n" + "".join("INVARIANT %s\n" % i for i in invariants)
    if tab["NI"] * tab["NS"] < 20000:
        cfg += "INVARIANT MemConsistent\n"
    res = tlc.run(path, cfg, workers=8, dump=True, workdir=wd, timeout=3000)
    if res.invariant_violated:
        # the model itself (the algorithm of the code on the code's own tables) violates the property
        ctx.add_model(res)
        ctx.violation("model|%s|%s" % (name, res.invariant_violated),
                      "TLC: invariant %s of Sampler.tla is violated on the tables extracted from the real sampler "
                      "for configuration %s (values %s)\n%s" % (res.invariant_violated, name, s.values,
                                                                  res.out[-3000:]),
                      {"config": name, "values": s.values, "tlc": res.out[-6000:]})
        return
    tlc.require_clean(res, "Sampler %s" % name)
    ctx.add_model(res)
    ctx.exhaustive = True
    nodes, edges, inits = tlc.parse_dot(res.dot)
    ctx.sample({"model": "Sampler", "config": name, "sites": tab["NS"], "interactions": tab["NI"],
                "jumps": len(tab["Jumps"]), "states": res.distinct, "edges": len(edges), "values": s.values})
    MC = s.MC
    seen = set()
    for src, dst, lab in edges:
        if (src, lab) in seen:
            continue
        seen.add((src, lab))
        aname, args = tlc.parse_action_label(lab)
        sn, dn = nodes[src], nodes[dst]
        MC.start(np.array(sn["occ"], dtype=int))
        pre = samplers.project(MC)
        if not same_state(pre, sn):
            ctx.violation("start|%s" % name, "start(%s) gives %s, model %s" % (sn["occ"], pre, short(sn)),
                          {"config": name, "values": s.values, "occ": sn["occ"]})
            continue
        raised, dE = None, None
        try:
            if aname == "Start":
                MC.start(np.array(args[0], dtype=int))
            else:
                os_, us_ = [i - 1 for i in args[0]], [i - 1 for i in args[1]]
                if check_delta and aname == "Update":
                    dE = MC.deltaE_trial(occsites=os_, unoccsites=us_)
                MC.update(occsites=os_, unoccsites=us_)
        except (ValueError, RuntimeError, RuntimeWarning, IndexError, KeyError) as ex:
            raised = type(ex).__name__
        must_raise = aname.endswith("Err")
        post = samplers.project(MC)
        ok = same_state(post, dn) and (bool(raised) == must_raise)
        what = ""
        if ok and check_obs:
            E, T = samplers.observe(MC, tab)
            if E != dn["obs"]["E"] or [list(map(float, t)) for t in T] != [list(map(float, t)) for t in dn["obs"]["T"]]:
                ok = False
                what = "observations E=%s T=%s differ from model %s" % (E, T, dn["obs"])
        if ok and dE is not None and dE != dn["obs"]["E"] - sn["obs"]["E"]:
            ok = False
            what = "deltaE_trial=%s but the energy changes by %s" % (dE, dn["obs"]["E"] - sn["obs"]["E"])
        nontriv = src != dst or must_raise
        ctx.case((name, src, lab), nontrivial=nontriv)
        if not ok:
            ctx.violation("edge|%s|%s|%s" % (name, aname, "raise" if raised else "state"),
                          "%s: from occ=%s, %s%s -> %s raised=%s; model expects %s %s. %s" % (
                              name, sn["occ"], aname, args, post, raised, short(dn),
                              "and an exception" if must_raise else "", what),
                          {"config": name, "values": s.values, "from": sn, "action": lab, "expected": dn})
    ctx.traces += len(seen)


def short(n):
    return {k: n[k] for k in ("occ", "cnt", "occset", "unoccset") if k in n}


def same_state(p, n):
    return (p["occ"] == list(n["occ"]) and p["cnt"] == list(n["cnt"]) and p["occset"] == sorted(n["occset"])
            and p["unoccset"] == sorted(n["unoccset"]))


def trace_check(ctx, name, ntr, length):
    """Random API-only histories on a larger supercell, validated by TLC (Trace_C33)."""
    s = samplers.build(name, ctx.rng)
    tab = samplers.tables(s)
    NS, vac = tab["NS"], tab["Vac"]
    MC = s.MC
    sites = [i for i in range(1, NS + 1) if i != vac]
    traces, starts, mvs = [], [], []
    for t in range(ntr):
        ev = []
        for step in range(length):
            if step == 0 or ctx.rng.random() < 0.03:
                o = [(-1 if i == vac else ctx.rng.choice((0, 1))) for i in range(1, NS + 1)]
                MC.start(np.array(o, dtype=int))
                e = {"ev": "Start", "o": o, "os": [], "us": [], "raised": False, "dE": 0}
            else:
                k = ctx.rng.choice((1, 1, 2, 2, 2, 3, 4))
                sel = ctx.rng.sample(sites, k)
                cut = ctx.rng.randint(0, k)
                os_, us_ = sel[:cut], sel[cut:]
                if vac and ctx.rng.random() < 0.05:
                    us_ = us_ + [vac]
                raised = False
                dE = 0
                try:
                    dE = MC.deltaE_trial(occsites=[i - 1 for i in os_], unoccsites=[i - 1 for i in us_])
                    MC.update(occsites=[i - 1 for i in os_], unoccsites=[i - 1 for i in us_])
                except ValueError:
                    raised = True
                e = {"ev": "Update", "o": [], "os": os_, "us": us_, "raised": raised, "dE": int(round(dE))}
            p = samplers.project(MC)
            e.update(p)
            e["E"] = int(round(MC.E()))
            ev.append(e)
        traces.append(ev)
    wd = tlc.scratch()
    mod, cfg = samplers.mc_module("MCT_C33", "Trace_C33", tab, [], [])
    path = os.path.join(wd, "MCT_C33.tla")
    open(path, "w").write(mod)
    tf = os.path.join(wd, "traces.json")
    json.dump(traces, open(tf, "w"))
    cfg += "\nINIT TInit\nNEXT TNext\n"
    res = tlc.run(path, cfg, workers=1, workdir=wd, env={"TRACE_FILE": tf, "TRACE_VERBOSE": "0"}, timeout=3000)
    tlc.require_clean(res, "Trace_C33 %s" % name)
    ctx.states += res.distinct
    ctx.transitions += res.generated
    accepted = {p[1] for p in res.prints("ACCEPT")}
    for t, tr in enumerate(traces, 1):
        ctx.case(("trace", name, t, ctx.seed), nontrivial=True)
        if t in accepted:
            ctx.traces += 1
            continue
        json.dump([tr], open(tf, "w"))
        r2 = tlc.run(path, cfg, workers=1, workdir=wd, env={"TRACE_FILE": tf, "TRACE_VERBOSE": "1"}, timeout=600)
        steps = [p[2] for p in r2.prints("STEP")]
        bad = (max(steps) + 1) if steps else 1
        e = tr[bad - 1]
        ctx.violation("trace|%s|%s" % (name, e["ev"]),
                      "history on %s rejected by Sampler.tla at event %d: %s" % (name, bad, json.dumps(e)[:800]),
                      {"config": name, "values": s.values, "trace": tr[:bad]})
    ctx.sample({"trace_config": name, "length": length, "first_events": [
        {k: e[k] for k in ("ev", "os", "us", "raised", "dE", "E")} for e in traces[0][:4]]})
