"""C01 -- vacancy-mediated coefficients are exact in the dilute limit (exactly solvable sub-families).

(i)   L0vv equals the lone-vacancy diffusivity: the periodic vacancy network is a finite Markov chain with
      dyadic rates; spec/rel/Check_C02.tla (TLC, exact big integers) verifies a Poisson-equation certificate,
      recomputes the exact diffusivity and compares the transported L0vv returned by Lij (for arbitrary
      solute data, which must not influence it).
(ii)  tracer limit (shared with C06): Lsv = -L0vv, L1vv = 0 with the exact L0vv of (i).
(iii) bound-pair limit: with dissociation forbidden the pair chain is finite; TLC verifies it exactly.
(iv)  general interacting data: the one-solute/one-vacancy chain on periodic n^dim tori (vf/chain.py), three
      sizes Richardson-extrapolated in n^-dim, n^-(dim+2); Lss, Lsv and L1vv are compared by Check_Rel with the
      oracle's measured resolution (3e-4 / 3e-3 of the largest coefficient; cases the oracle does not resolve
      are not judged).
(v)   spec/rel/PairChain.tla defines that chain (hop / exchange actions on the torus, quotient by translations);
      TLC checks its invariants on the real jump networks and its state graph must equal the transition list of
      the oracle (a discrepancy is a machinery failure, exit 2, never a finding).
"""
import numpy as np
from fractions import Fraction

from .. import calc, rel, tlc
from . import c02

LEVEL = "model_checking"


def run(ctx):
    quick = ctx.tier == "quick"
    rng = ctx.rng
    ctx.rule = ("vacancy worlds (Bravais, multi-site, multi-Wyckoff with non-zero bias correction) x Nthermo x random "
                "dyadic vacancy/solute/interaction data; exact lone-vacancy chain verified by TLC vs L0vv; non-trivial = "
                "distinct (world, data) with non-uniform vacancy data")
    vw = calc.VACANCY_WORLDS[:8] + [("sqpolar", 1, 1)] if quick else calc.VACANCY_WORLDS
    cases, metas = [], []
    rcases, rmetas = [], []
    for name, chem, shell in vw:
        for nth in ((1,) if quick else (1, 2)):
            if nth == 2 and name in ("diamond", "hcp", "tet2", "b2"):
                continue
            v = calc.vacancy(name, chem, shell, nth, rng)
            s = calc.Setup()
            s.crys, s.w, s.sitelist, s.jumpnetwork = v.crys, v.w, v.sitelist, v.jumpnetwork
            for rep in range(3 if quick else 8):
                # dyadic vacancy data with integer exponents
                dV = {"eneL": calc.levels(rng, len(s.sitelist), 0, 2), "preL": calc.levels(rng, len(s.sitelist), 0, 1),
                      "eneTL": calc.levels(rng, len(s.jumpnetwork), 3, 5), "preTL": calc.levels(rng, len(s.jumpnetwork), 0, 1)}
                d = calc.vacancy_data(v, rng, 0, 2, tracer=(rep == 1))
                d["preV"] = np.array([2.0 ** m for m in dV["preL"]])
                d["eneV"] = np.array([k * calc.LN2 for k in dV["eneL"]])
                d["preT0"] = np.array([2.0 ** m for m in dV["preTL"]])
                d["eneT0"] = np.array([k * calc.LN2 for k in dV["eneTL"]])
                if rep == 1:
                    d.update(v.calc.maketracerpreene(**d))
                else:
                    d.update({k_: v_ for k_, v_ in v.calc.makeLIMBpreene(**d).items()})
                    d["eneT1"] = d["eneT1"] + np.array([k * calc.LN2 for k in calc.levels(rng, len(d["eneT1"]), 0, 1)])
                L = calc.Lij(v, d)
                L0 = rel.to_latt(s.crys, L[0]) * s.w["D"] ** 2
                c = c02.exact_case(s, dV, L[0])
                scale = float(np.max(np.abs(L0))) or 1.0
                c["obs"] = rel.fxmat(L0, scale)
                fr = Fraction(scale)
                c["scale_num"], c["scale_den"] = c02.limbs(fr.numerator), c02.limbs(fr.denominator)
                c["tol"] = 2000
                cases.append(c)
                metas.append(("L0vv|%s|N%d#%d" % (name, nth, rep), "L0vv on %s Nthermo=%d, vacancy data %s" % (name, nth, dV),
                              {"world": name, "Nthermo": nth, "data": dV}))
                if rep == 1:
                    tens = {n: rel.to_latt(s.crys, T) for n, T in zip(calc.NAMES4, L)}
                    tol = {"polarrect": 1e-4, "rect2site": 2e-5, "tet2": 2e-5, "sqpolar": 2e-5}.get(name, 1e-7)
                    rcases.append(rel.make_case(s.w, tens, [rel.a_zero("tracer_Lsv_equals_minus_exact_L0vv", [(1, "Lsv"), (1, "L0vv")], tol),
                                                            rel.a_zero("tracer_L1vv_vanishes", [(1, "L1vv")], tol)],
                                                usegroup=False, scale=float(np.max(np.abs(tens["L0vv"])))))
                    rmetas.append(("tracer|%s|N%d#%d" % (name, nth, rep), "tracer limit on %s" % name, {"world": name}, True))
    # ---- (iii) bound-pair limit: Lss = Lsv = exact finite pair chain
    pw = [("fcc", 0, 1, 1), ("hcp", 0, 2, 1), ("honeycomb", 0, 1, 1), ("square", 0, 1, 2), ("polarrect", 1, 2, 1), ("bcc", 0, 1, 1)]
    if not quick:
        pw += [("hex2d", 0, 1, 2), ("b2", 0, 1, 1), ("fcc", 0, 1, 2), ("rect2site", 0, 2, 1), ("sc", 0, 1, 2), ("diamond", 0, 1, 1)]
    for name, chem, shell, nth in pw:
        v = calc.vacancy(name, chem, shell, nth, rng)
        for rep in range(2 if quick else 6):
            c, args, lv = pair_case(v, rng)
            L = v.calc.Lij(*args)
            scale = float(np.max(np.abs(rel.to_latt(v.crys, L[0])))) * v.w["D"] ** 2
            fr = Fraction(scale)
            # Bravais lattices: 2e-6; several sites per cell: the k-mesh integration error of the default mesh
            # (measured 2e-6 relative at NGFmax=4, falling tenfold per mesh step) dominates
            tolrel = {"polarrect": 1e-4, "rect2site": 2e-5, "tet2": 2e-5, "honeycomb": 2e-5, "hcp": 2e-5,
                      "diamond": 2e-5, "b2": 2e-5}.get(name, 2e-6)
            for which, T in (("Lss", L[1]), ("Lsv", L[2])):
                cc = dict(c)
                cc["obs"] = rel.fxmat(rel.to_latt(v.crys, T) * v.w["D"] ** 2, scale)
                cc["scale_num"], cc["scale_den"] = c02.limbs(fr.numerator), c02.limbs(fr.denominator)
                cc["tol"] = int(tolrel * 1e10)
                cases.append(cc)
                metas.append(("boundpair|%s|%s|N%d#%d" % (which, name, nth, rep),
                              "%s in the bound-pair limit on %s Nthermo=%d, levels %s" % (which, name, nth, lv),
                              {"world": name, "Nthermo": nth, "data": {"eneL": [0, 1], "eneTL": [0, 1]}, "levels": lv}))
    # ---- (iv) general interacting data: the periodic one-solute/one-vacancy chain, Richardson-extrapolated
    chain_cases(ctx, quick, rng, rcases, rmetas)
    # ---- (v) the chain that (iv) solves is the chain spec/rel/PairChain.tla defines (TLC state graph == recorded
    #          transitions, invariants and action properties checked by TLC on the real jump network)
    from .. import chainspec
    sw = [("honeycomb", 0, 1), ("polarrect", 1, 2), ("fcc", 0, 1)]
    if not quick:
        sw += [("sqpolar", 1, 1), ("hcp", 0, 2), ("wurtzite", 0, 2), ("bcc", 0, 1), ("square", 0, 1), ("b2", 0, 1)]
    for name, chem, shell in sw:
        v = calc.vacancy(name, chem, shell, 1, rng)
        rmax = max(int(np.max(np.abs(PS.R))) for PS in v.calc.kinetic.states)
        n = 2 * rmax + 1
        out, info = chainspec.check_structure(ctx, v, chem, n, name)
        ctx.case("chainspec|%s|n%d" % (name, n), nontrivial=info["exchanges"] > 0)
        ctx.info("chainspec_%s" % name, info)
        if out:
            raise tlc.TLCError("the pair-chain oracle does not implement spec/rel/PairChain.tla on %s: %s" % (name, out))
    fails, infos, results = tlc.run_cases("Check_C02", cases, shards=8 if quick else 14, timeout=2400)
    for r in results:
        ctx.add_model(r)
    for i, (key, desc, payload) in enumerate(metas):
        ctx.case(key, nontrivial=len(set(payload["data"]["eneL"])) > 1 or len(set(payload["data"]["eneTL"])) > 1
                 or bool(infos.get(i, {}).get("correction_nonzero", False)))
        if i in fails:
            names = sorted(set(fails[i]))
            if any(n.startswith("certificate") for n in names):
                raise tlc.TLCError("certificate rejected by TLC for %s: %s" % (key, names))
            ctx.violation("exact|%s|%s" % ("+".join(names), key.split("#")[0]),
                          "%s: TLC rejects %s (exact lone-vacancy diffusivity vs L0vv)" % (desc, names),
                          {"meta": payload, "case": cases[i]})
    ctx.traces += len(cases)
    rel.run_rel(ctx, rcases, rmetas, shards=4)
    ctx.sample({"case": metas[0][0], "N": cases[0]["N"], "den": cases[0]["den"]})


# ---------------------------------------------------------------------------------- periodic pair chain

# omega: two Wyckoff positions on the vacancy sublattice WITHOUT origin states (solute site energies differ)
CHAIN_WORLDS_QUICK = [("fcc", 0, 1, 1), ("square", 0, 1, 1), ("honeycomb", 0, 1, 1), ("wurtzite", 0, 2, 1),
                      ("polarrect", 1, 2, 1), ("bcc", 0, 1, 1), ("omega", 0, 1, 1)]
CHAIN_WORLDS_MORE = [("hcp", 0, 2, 1), ("hex2d", 0, 1, 1), ("b2", 0, 1, 1), ("sc", 0, 1, 1), ("diamond", 0, 1, 1),
                     ("rect2site", 0, 2, 1), ("tet2", 0, 2, 1), ("square", 0, 1, 2), ("hex2d", 0, 1, 2),
                     ("fcc", 0, 1, 2), ("wurtzite", 0, 1, 1), ("polarrect", 1, 2, 2), ("sqpolar", 1, 1, 1)]


def chain_sizes(v):
    """Three torus sizes: large enough for the kinetic shell, small enough for a dense solve."""
    N = len(v.crys.basis[v.chem])
    rmax = max(int(np.max(np.abs(PS.R))) for PS in v.calc.kinetic.states)
    lo = 2 * rmax + 2
    if v.crys.dim == 2:
        base = (10, 14, 18) if N * N * 18 * 18 <= 3000 else (8, 12, 16)
    else:
        base = (6, 8, 10) if N * N * 1000 <= 4100 else (5, 6, 7)
    shift = max(0, lo - base[0])
    return tuple(b + shift for b in base)


def chain_cases(ctx, quick, rng, rcases, rmetas):
    from .. import chain
    worlds_ = CHAIN_WORLDS_QUICK if quick else CHAIN_WORLDS_QUICK + CHAIN_WORLDS_MORE
    for name, chem, shell, nth in worlds_:
        v = calc.vacancy(name, chem, shell, nth, rng)
        v.chem = chem
        sizes = chain_sizes(v)
        for rep in range(2 if quick else 3):
            d = calc.vacancy_data(v, rng, 0, 2)
            if rep % 2 == 1:
                # stronger, symmetry-distinct exchange and association/dissociation rates
                d["eneT2"] = d["eneT2"] - np.array([k * calc.LN2 for k in calc.levels(rng, len(d["eneT2"]), 0, 2)])
                d["eneT1"] = d["eneT1"] + np.array([k * calc.LN2 for k in calc.levels(rng, len(d["eneT1"]), 0, 2)])
            args = v.calc.preene2betafree(1.0, **d)
            L = v.calc.Lij(*args)
            best, prev, info = chain.extrapolate(v.calc, v.crys, chem, args, sizes)
            scale = max(float(np.max(np.abs(T))) for T in L)
            tol = {"Lss": 3e-4, "Lsv": 3e-4, "L1vv": 3e-3}
            tens, asserts = {}, []
            resolved = True
            for k, nm in enumerate(("Lss", "Lsv", "L1vv")):
                # the oracle's own resolution: the last two extrapolation orders must agree well within tolerance
                if float(np.max(np.abs(best[k] - prev[k]))) > 0.3 * tol[nm] * scale:
                    resolved = False
                tens[nm] = rel.to_latt(v.crys, L[k + 1])
                tens[nm + "_chain"] = rel.to_latt(v.crys, best[k])
                asserts.append(rel.a_zero("%s_equals_exact_pair_chain" % nm, [(1, nm), (-1, nm + "_chain")], tol[nm]))
            if not resolved:
                ctx.case("chain|%s|N%d#%d-unresolved" % (name, nth, rep), nontrivial=False)
                continue
            rcases.append(rel.make_case(v.w, tens, asserts, usegroup=False, scale=scale))
            rmetas.append(("chain|%s|N%d#%d" % (name, nth, rep),
                           "Lss/Lsv/L1vv vs the periodic pair chain (tori %s, %d states, Richardson) on %s Nthermo=%d" % (
                               sizes, info["states"], name, nth),
                           {"world": name, "Nthermo": nth, "sizes": list(sizes),
                            "data": {k_: np.asarray(v_).tolist() for k_, v_ in d.items()}}, True))


# ---------------------------------------------------------------------------------- bound-pair limit

def pair_case(v, rng):
    """Exact bound-pair chain: every omega1 class with an endpoint outside the thermodynamic shell gets an infinite
    barrier, so solute and vacancy stay bound and the chain over the shell's pair states is finite.  In that limit
    Lss = Lsv = the exact finite-chain value (the pair moves as one).  Returns (case for Check_C02, Lij inputs)."""
    from .. import worlds
    c = v.calc
    crys = c.crys
    Dg = v.w["D"]
    kin, th = c.kinetic, c.thermo
    N = c.N
    inv = [int(x) for x in c.invmap]
    thermo_idx = {}
    for ki, PS in enumerate(kin.states):
        ti = th.stateindex(PS)
        if ti is not None:
            thermo_idx[ki] = ti
    ids = sorted(thermo_idx)                       # kinetic indices of shell states
    num = {ki: n for n, ki in enumerate(ids)}
    ES = calc.levels(rng, len(c.sitelist), 1, 2)      # non-zero solute reference on purpose
    EV = calc.levels(rng, len(c.sitelist), 1, 2)
    ESV = calc.levels(rng, th.Nstars, -1, 1)
    ET0 = calc.levels(rng, len(c.om0_jn), 3, 4)

    def level(ki):
        PS = kin.states[ki]
        return ES[inv[PS.i]] + EV[inv[PS.j]] + ESV[th.starindex(PS)]
    jumps, ET1, ET2 = [], [], []
    for cls in c.om1_jn:
        inside = all(a in num and b in num for (a, b), dx in cls)
        if not inside:
            ET1.append(None)
            continue
        lev = max(level(a) for (a, b), dx in cls) + rng.randint(2, 4)
        ET1.append(lev)
        for (a, b), dx in cls:
            jumps.append((num[a], num[b], [0] * crys.dim, level(a) - lev))
    for cls in c.om2_jn:
        lev = max(level(a) for (a, b), dx in cls) + rng.randint(1, 4)
        ET2.append(lev)
        for (a, b), dx in cls:
            jumps.append((num[a], num[b], worlds.vec_lattice(crys, -np.asarray(dx), Dg, "exchange displacement"),
                          level(a) - lev))
    emin = min(e for _, _, _, e in jumps)
    W = [[a + 1, b + 1, dx, 2 ** (e - emin)] for a, b, dx, e in jumps]
    # weights: P_a / N = N 2^-E_a / (sum_sites 2^-ES)(sum_sites 2^-EV)
    sumS = sum(Fraction(1, 2 ** ES[inv[i]]) if ES[inv[i]] >= 0 else Fraction(2 ** -ES[inv[i]]) for i in range(N))
    sumV = sum(Fraction(1, 2 ** EV[inv[i]]) if EV[inv[i]] >= 0 else Fraction(2 ** -EV[inv[i]]) for i in range(N))
    P = [Fraction(N) * Fraction(2) ** (-level(ki)) / (sumS * sumV) for ki in ids]
    den = 1
    for p in P:
        den = c02.lcm(den, p.denominator)
    R = [int(p * den) for p in P]
    # Poisson equation per connected component (fractions; verified by TLC)
    n = len(ids)
    Q = [[Fraction(0)] * n for _ in range(n)]
    b = [[Fraction(0)] * crys.dim for _ in range(n)]
    for a, b_, dx, w in W:
        Q[a - 1][b_ - 1] += w
        Q[a - 1][a - 1] -= w
        for k in range(crys.dim):
            b[a - 1][k] += w * dx[k]
    eta = [[Fraction(0)] * crys.dim for _ in range(n)]
    for nodes in c02.components(n, [(a - 1, b_ - 1, dx, w) for a, b_, dx, w in W]):
        nodes = sorted(nodes)
        free = nodes[1:]
        if not free:
            continue
        A = [[Q[i][j] for j in free] for i in free]
        for k in range(crys.dim):
            sol = c02.solve_frac(A, [b[i][k] for i in free])
            for i, val in zip(free, sol):
                eta[i][k] = val
    eden = 1
    for row in eta:
        for val in row:
            eden = c02.lcm(eden, val.denominator)
    case = {"N": n, "dim": crys.dim, "Z": den, "R": R, "jumps": W, "den": c02.limbs(eden),
            "eta": [[c02.limbs(int(val * eden)) for val in row] for row in eta], "emin": emin}
    LN2 = calc.LN2
    # inputs as energies through the documented path Lij(*preene2betafree(kT, **data)); levels are absolute
    data = {"preV": np.ones(len(EV)), "eneV": np.array(EV, dtype=float) * LN2,
            "preS": np.ones(len(ES)), "eneS": np.array(ES, dtype=float) * LN2,
            "preSV": np.ones(len(ESV)), "eneSV": np.array(ESV, dtype=float) * LN2,
            "preT0": np.ones(len(ET0)), "eneT0": np.array(ET0, dtype=float) * LN2,
            "preT1": np.ones(len(ET1)), "eneT1": np.array([np.inf if x is None else x * LN2 for x in ET1]),
            "preT2": np.ones(len(ET2)), "eneT2": np.array(ET2, dtype=float) * LN2}
    args = c.preene2betafree(1.0, **data)
    return case, args, {"ES": ES, "EV": EV, "ESV": ESV, "ET0": ET0, "ET1": ET1, "ET2": ET2}
