"""C04 -- results are invariant under reference choices and scale with the rates.

spec/rel/Invariance.tla is the protocol: TLC enumerates every sequence (depth <= MaxDepth) of species
reference shifts, joint prefactor scalings, kT co-scalings, rate scalings and site displacements, checks
the model-level lemma RateExponent (only the rate scaling changes physical rates) and dumps the state
graph.  Every node is replayed as one evaluation of the real calculator (Interstitial.diffusivity /
VacancyMediated.Lij(*preene2betafree(...))) with the transformed input; spec/rel/Check_Rel.tla decides
result(node) = 2^rate * result(root) entrywise on the transported tensors.
"""
import copy
import os

import numpy as np

from .. import calc, rel, tlc, worlds

LEVEL = "model_checking"
LN2 = calc.LN2


def protocol_graph(ctx, ndisp, depth):
    cfg = """
CONSTANTS
  Shifts <- MCShifts
  PreScales <- MCPre
  KTScales <- MCKT
  RateScales <- MCRates
  NDisp = %d
  MaxDepth = %d
SPECIFICATION Spec
INVARIANT RateExponent
""" % (ndisp, depth)
    wd = tlc.scratch()
    path = os.path.join(wd, "MC_Invariance.tla")
    open(path, "w").write("""---- MODULE MC_Invariance ----
EXTENDS Invariance
MCShifts == {-1, 3}
MCPre == {1, -2}
MCKT == {1, -1}
MCRates == {1, -2, 3, -40}
====
""")
    res = tlc.run(path, cfg, workers=4, dump=True, workdir=wd, timeout=600)
    tlc.require_clean(res, "Invariance protocol")
    ctx.add_model(res)
    nodes, edges, inits = tlc.parse_dot(res.dot)
    return nodes, inits[0]


def transform_vacancy(d, st):
    """Apply the accumulated transformation st to a pre*/ene* dictionary; returns (dict, kT)."""
    t = {k: np.array(v, dtype=float) for k, v in d.items()}
    shV, shS, prV, prS, kt, rate = (st[k] for k in ("shV", "shS", "prV", "prS", "kt", "rate"))
    t["eneV"] += shV * LN2
    t["eneS"] += shS * LN2
    t["eneT0"] += (shV - rate) * LN2
    t["eneT1"] += (shV + shS - rate) * LN2
    t["eneT2"] += (shV + shS - rate) * LN2
    t["preV"] *= 2.0 ** prV
    t["preS"] *= 2.0 ** prS
    t["preT0"] *= 2.0 ** prV
    t["preT1"] *= 2.0 ** (prV + prS)
    t["preT2"] *= 2.0 ** (prV + prS)
    kT = 2.0 ** kt
    for k in ("eneV", "eneS", "eneSV", "eneT0", "eneT1", "eneT2"):
        t[k] *= kT
    return t, kT


def transform_interstitial(d, st):
    t = copy.deepcopy(d)
    sh, pr, rate = st["shV"] + st["shS"], st["prV"] + st["prS"], st["rate"]
    t["eneL"] = [e + sh for e in t["eneL"]]
    t["eneTL"] = [e + sh - rate for e in t["eneTL"]]
    t["preL"] = [p + pr for p in t["preL"]]
    t["preTL"] = [p + pr for p in t["preTL"]]
    return t


DISPLACED = {   # world -> displaced variants (same topology, same symmetry): only the polar coordinate moves
    "polarrect": [worlds.W("rect", 20, [[[0, 0]], [[10, 5], [10, 12]]]), worlds.W("rect", 20, [[[0, 0]], [[10, 3], [10, 11]]])],
    "wurtzite": [worlds.W("hexp", 24, [[[8, 16, 0], [16, 8, 12]], [[8, 16, 10], [16, 8, 22]]]),
                 worlds.W("hexp", 24, [[[8, 16, 0], [16, 8, 12]], [[8, 16, 8], [16, 8, 20]]])],
}


def displaced_interstitial(s, wnew, rngseed):
    """The same network (lattice form: same (i, j, R) per class) on the displaced crystal."""
    import random
    from onsager import OnsagerCalc
    r = random.Random(rngseed)
    crys2, unit = worlds.realise(wnew, r, orient=True)
    lat = s.crys.jumpnetwork2lattice(s.chem, s.jumpnetwork)
    jn2 = []
    for cls in lat:
        lst = []
        for (i, j), R in cls:
            dx = crys2.pos2cart(np.array(R), (s.chem, j)) - crys2.pos2cart(np.zeros(crys2.dim, dtype=int), (s.chem, i))
            lst.append(((i, j), dx))
        jn2.append(lst)
    calc2 = OnsagerCalc.Interstitial(crys2, s.chem, s.sitelist, jn2)
    return crys2, calc2


def run(ctx):
    quick = ctx.tier == "quick"
    rng = ctx.rng
    ctx.rule = ("every node of the TLC state graph of Invariance.tla (all sequences of <= MaxDepth reference shifts, "
                "prefactor scalings, kT co-scalings, rate scalings, displacements) replayed on real calculators for "
                "several worlds and random dyadic base data; non-trivial = node with at least one transformation")
    nodes, root = protocol_graph(ctx, 2, 2 if quick else 3)
    ids = sorted(nodes, key=lambda n: str(sorted(nodes[n].items())))
    cases, metas = [], []

    def pick(k):
        sel = [n for n in ids if n != root]
        rng.shuffle(sel)
        # always include realistic absolute rates (all rates x 2^-40 ~ 1e-12), alone and combined with a displacement
        slow = [n for n in sel if nodes[n]["rate"] <= -40]
        slow.sort(key=lambda n: (sum(1 for k_ in ("shV", "shS", "prV", "prS", "kt") if nodes[n][k_]), str(sorted(nodes[n].items()))))
        must = slow[:2] + [n for n in slow if nodes[n]["disp"]][:2]
        return list(dict.fromkeys(must + sel[:k]))

    # ---- interstitial
    iw = [("fccoct", 2, 1), ("hcpoct", 2, 2), ("polarrect", 1, 2), ("wurtzite", 1, 1), ("monodeco", 1, 2)]
    if not quick:
        iw = calc.INTERSTITIAL_WORLDS
    for name, chem, shell in iw:
        oseed = rng.randrange(10 ** 6)
        import random
        s = calc.interstitial(name, chem, shell, random.Random(oseed))
        d = calc.interstitial_data(s, rng, 0, 2)
        if s.Nsite > 1:
            # inequivalent sites get DIFFERENT energies and prefactors (symmetrised rates between them are then not
            # the plain forward rates)
            d["eneL"] = rng.sample(range(0, max(3, s.Nsite)), s.Nsite)
            d["preL"] = rng.sample(range(0, max(2, s.Nsite)), s.Nsite)
            d["eneTL"] = [max(e, max(d["eneL"]) + 1) for e in d["eneTL"]]
        D0 = s.calc.diffusivity(*calc.interstitial_args(d))
        disp_calcs = {}
        for n in pick(25 if quick else 120):
            st = nodes[n]
            if st["disp"] and name not in DISPLACED:
                continue
            t = transform_interstitial(d, st)
            if st["disp"]:
                if st["disp"] not in disp_calcs:
                    disp_calcs[st["disp"]] = displaced_interstitial(s, DISPLACED[name][st["disp"] - 1], oseed)
                crys2, c2 = disp_calcs[st["disp"]]
                D1 = c2.diffusivity(*calc.interstitial_args(t))
                # same orientation seed => same Cartesian frame
                T0, T1 = D0, D1
            else:
                T0, T1 = D0, s.calc.diffusivity(*calc.interstitial_args(t))
            add_case(cases, metas, s, {"D": (T0, T1)}, st, "interstitial|%s|%d" % (name, chem), d)
    # ---- vacancy mediated
    vw = [("fcc", 0, 1, 1), ("hcp", 0, 2, 1), ("honeycomb", 0, 1, 1), ("polarrect", 1, 2, 1)]
    if not quick:
        vw += [("square", 0, 1, 2), ("bcc", 0, 1, 1), ("b2", 0, 1, 1), ("hex2d", 0, 1, 2), ("rect2site", 0, 2, 1)]
    for name, chem, shell, nth in vw:
        if name in DISPLACED:
            # displacement of the vacancy sublattice's sites inside the cell (orientation fixed by a seed)
            import random
            oseed = rng.randrange(10 ** 6)
            sd = calc.vacancy(name, chem, shell, nth, random.Random(oseed), cache=False)
            # data sets: three fixed ones (so that the recorded finding is exercised on every run) and one from the seed
            datasets = [calc.vacancy_data(sd, random.Random(20260922 + j), 0, 2) for j in range(3)] + \
                       [calc.vacancy_data(sd, rng, 0, 2)]
            for dd, (k, wnew) in [(dd_, kw) for dd_ in datasets for kw in enumerate(DISPLACED[name])]:
                Ld = calc.Lij(sd, dd)
                st = dict(nodes[root], disp=k + 1)
                try:
                    L2 = displaced_vacancy(sd, wnew, oseed, dd)
                except worlds.ProjectionError as ex:
                    ctx.case("vacancy-disp|%s|%d" % (name, k))
                    ctx.violation("dispmatch|%s|%d" % (name, k), str(ex), {"world": name})
                    continue
                add_case(cases, metas, sd, {nm: (a, b) for nm, a, b in zip(calc.NAMES4, Ld, L2)}, st,
                         "namelast:vacancy-displaced|%s|N%d|variant%d" % (name, nth, k + 1),
                         {k_: np.asarray(v).tolist() for k_, v in dd.items()}, tol=1e-4)
        s = calc.vacancy(name, chem, shell, nth, rng)
        d = calc.vacancy_data(s, rng, 0, 2)
        L0 = calc.Lij(s, d)
        for n in pick(20 if quick else 100):
            st = nodes[n]
            if st["disp"]:
                continue
            t, kT = transform_vacancy(d, st)
            L1 = calc.Lij(s, t, kT)
            add_case(cases, metas, s, {nm: (a, b) for nm, a, b in zip(calc.NAMES4, L0, L1)}, st,
                     "vacancy|%s|N%d" % (name, nth), {k: np.asarray(v).tolist() for k, v in d.items()})
    rel.run_rel(ctx, cases, metas, shards=8 if quick else 14)
    ctx.sample({"protocol_nodes": len(nodes), "example_node": nodes[ids[-1]], "case": metas[0][0]})


def add_case(cases, metas, s, pairs, st, label, data, tol=2e-7):
    r = st["rate"]
    tens, asserts = {}, []
    for nm, (T0, T1) in pairs.items():
        tens[nm + "_root"] = rel.to_latt(s.crys, T0)
        tens[nm + "_node"] = rel.to_latt(s.crys, T1)
        if abs(r) > 8:
            # large exponents: multiply by the power of two in floating point (exact) before handing to TLC
            tens[nm + "_node"] = rel.to_latt(s.crys, np.asarray(T1) * 2.0 ** (-r))
            terms = [(1, nm + "_node"), (-1, nm + "_root")]
        elif r >= 0:
            terms = [(1, nm + "_node"), (-(2 ** r), nm + "_root")]
        else:
            terms = [(2 ** (-r), nm + "_node"), (-1, nm + "_root")]
        asserts.append(rel.a_zero("%s_scales_as_2^rate" % nm, terms, tol))
    kinds = [k for k in ("shV", "shS", "prV", "prS", "kt", "rate", "disp") if st[k]]
    cases.append(rel.make_case(s.w, tens, asserts, usegroup=False))
    metas.append(("%s|%s#%s" % (label, "+".join(kinds), sorted(st.items())),
                  "%s under transformation %s" % (label, {k: st[k] for k in kinds}),
                  {"transformation": st, "data": data}, bool(kinds)))


def displaced_vacancy(s, wnew, oseed, d0):
    """The same vacancy network and the same data on a crystal whose sites are displaced inside the cell
    (connectivity in lattice form and all rates unchanged).  Classes are matched by lattice-form geometry, never by
    index (stars are ordered by distance, which a displacement can reorder)."""
    import random
    from onsager import OnsagerCalc
    from onsager import crystalStars as stars
    c0, crys0, chem = s.calc, s.crys, s.chem
    crys2, unit = worlds.realise(wnew, random.Random(oseed), orient=True)
    zero = np.zeros(crys2.dim, dtype=int)
    lat = crys0.jumpnetwork2lattice(chem, s.jumpnetwork)
    jn2 = [[((i, j), crys2.pos2cart(np.array(R), (chem, j)) - crys2.pos2cart(zero, (chem, i))) for (i, j), R in cls]
           for cls in lat]
    c2 = OnsagerCalc.VacancyMediated(crys2, chem, s.sitelist, jn2, s.Nthermo)

    def latt(PS):
        return (int(PS.i), int(PS.j), tuple(int(x) for x in PS.R))
    d2 = {k: np.array(v, dtype=float).copy() for k, v in d0.items()}
    sv, psv = np.zeros(c2.thermo.Nstars), np.ones(c2.thermo.Nstars)
    for k0, st in enumerate(c0.thermo.stars):
        PS = c0.thermo.states[st[0]]
        k2 = c2.thermo.starindex(stars.PairState.fromcrys_latt(crys2, chem, (PS.i, PS.j), PS.R))
        if k2 is None:
            raise worlds.ProjectionError("displacement changed the thermodynamic shell")
        sv[k2], psv[k2] = d0["eneSV"][k0], d0["preSV"][k0]
    d2["eneSV"], d2["preSV"] = sv, psv
    for om, jn0, jnn in (("T1", c0.om1_jn, c2.om1_jn), ("T2", c0.om2_jn, c2.om2_jn)):
        if len(jn0) != len(jnn):
            raise worlds.ProjectionError("displacement changed the number of omega classes")
        e, p = np.zeros(len(jnn)), np.ones(len(jnn))
        key2 = {}
        for k2, cls in enumerate(jnn):
            for (a, b), dx in cls:
                key2[(latt(c2.kinetic.states[a]), latt(c2.kinetic.states[b]))] = k2
        for k0, cls in enumerate(jn0):
            (a, b), dx = cls[0]
            k2 = key2[(latt(c0.kinetic.states[a]), latt(c0.kinetic.states[b]))]
            e[k2], p[k2] = d0["ene" + om][k0], d0["pre" + om][k0]
        d2["ene" + om], d2["pre" + om] = e, p
    return c2.Lij(*c2.preene2betafree(1.0, **d2))
