"""C23 -- coordinate conversions and symmetry actions are mutually consistent.

Worlds (catalogue + random decorations) are realised as Crystals in random orientations, read back as exact
integer worlds, and for every reported operation g (also lattice-translated copies, products and inverses) a
set of integer probes -- sites (atom, lattice vector), arbitrary grid points, directions, tensors, pair states --
is pushed through EVERY provided route of the real API (pos2cart / unit2cart / cart2unit / cart2pos, g_pos /
g_vect / g_cart / g_direc / g_tensor, PairState.g, ClusterSite.g, g*h, g.inv(), g+L).  Each result is projected
onto grid integers; spec/world/Check_C23.tla (TLC) computes THE geometric result from the definitional model
(spec/world/Geom.tla) and demands that every route equals it.
"""
import numpy as np

from .. import helpers_c23 as H
from .. import tlc, worlds

LEVEL = "model_checking"


class Reporter:
    """At most `cap` reported violations per clause / route (keys stay input-specific: the world family is part
    of the key); the rest are counted.  Known findings do not use up the budget."""

    def __init__(self, ctx, cap=3):
        self.ctx, self.cap, self.count, self.suppressed = ctx, cap, {}, 0

    def __call__(self, group, key, what, payload):
        if key in [v[0] for v in self.ctx.violations]:
            return
        if self.count.get(group, 0) >= self.cap:
            self.suppressed += 1
            return
        if self.ctx.violation(key, what, payload):
            self.count[group] = self.count.get(group, 0) + 1


def rvec(rng, dim, lo, hi):
    return np.array([rng.randint(lo, hi) for _ in range(dim)], dtype=int)


def build_case(crys, ow, g, h, L0, rng, nprobe, R):
    """All probes of one (g, h) pair.  R = Routes recorder."""
    from onsager import cluster, crystalStars
    PairState, ClusterSite = crystalStars.PairState, cluster.ClusterSite
    dim, D = crys.dim, ow["D"]
    K = rng.choice((1, 2, 3, 4, 5))
    N = D * K
    gh, ginv, gL = g * h, g.inv(), g + L0
    c = {"w": {k: ow[k] for k in ("dim", "M", "D", "basis")}, "K": K, "L0": [int(x) for x in L0],
         "g": H.full_op(crys, g, D), "h": H.full_op(crys, h, D), "gh": H.full_op(crys, gh, D),
         "ginv": H.full_op(crys, ginv, D), "gL": H.full_op(crys, gL, D),
         "pos": [], "pts": [], "dirs": [], "tens": [], "pairs": []}
    G = lambda x, n=D: H.grid(crys, x, n)
    S = lambda Lci: H.site(Lci[1], Lci[0], dim)          # library order (lattvec, ind) -> [[c,i],[L]]
    SP = lambda Lu: H.split(Lu, N, dim)
    for _ in range(nprobe["pos"]):
        ci = rng.choice(crys.atomindices)
        L = rvec(rng, dim, -2, 2)
        u = crys.basis[ci[0]][ci[1]]
        pr = {"a": [ci[0] + 1, ci[1] + 1], "L": [int(x) for x in L],
              "x": [], "back": [], "img": [], "imgx": [], "comp": [], "inv": [], "invimg": [], "trl": []}
        x = crys.pos2cart(L, ci)
        R.obs(pr["x"], "pos2cart", lambda: G(x))
        R.obs(pr["x"], "unit2cart(L, basis)", lambda: G(crys.unit2cart(L, u)))
        R.obs(pr["back"], "cart2pos(pos2cart)", lambda: S(crys.cart2pos(x)))
        R.obs(pr["back"], "ClusterSite.fromcryscart(pos2cart)",
              lambda: (lambda cs: H.site(cs.ci, cs.R, dim))(ClusterSite.fromcryscart(crys, x)))
        R.obs(pr["img"], "g_pos", lambda: S(crys.g_pos(g, L, ci)))
        R.obs(pr["img"], "cart2pos(g_cart(pos2cart))", lambda: S(crys.cart2pos(crys.g_cart(g, x))))
        R.obs(pr["img"], "ClusterSite.g",
              lambda: (lambda cs: H.site(cs.ci, cs.R, dim))(ClusterSite(ci=ci, R=L).g(crys, g)))
        R.obs(pr["imgx"], "g_cart(pos2cart)", lambda: G(crys.g_cart(g, x)))
        R.obs(pr["imgx"], "pos2cart(g_pos)", lambda: G(crys.pos2cart(*crys.g_pos(g, L, ci))))
        R.obs(pr["imgx"], "unit2cart(g_vect(L, basis))", lambda: G(crys.unit2cart(*crys.g_vect(g, L, u))))
        R.obs(pr["comp"], "g_pos(g*h)", lambda: S(crys.g_pos(gh, L, ci)))
        R.obs(pr["comp"], "g_pos(g, g_pos(h))", lambda: S(crys.g_pos(g, *crys.g_pos(h, L, ci))))
        R.obs(pr["comp"], "cart2pos(g_cart(g, g_cart(h)))",
              lambda: S(crys.cart2pos(crys.g_cart(g, crys.g_cart(h, x)))))
        R.obs(pr["comp"], "cart2pos(g_cart(g*h))", lambda: S(crys.cart2pos(crys.g_cart(gh, x))))
        R.obs(pr["inv"], "g_pos(g.inv(), g_pos(g))", lambda: S(crys.g_pos(ginv, *crys.g_pos(g, L, ci))))
        R.obs(pr["inv"], "g_pos(g, g_pos(g.inv()))", lambda: S(crys.g_pos(g, *crys.g_pos(ginv, L, ci))))
        R.obs(pr["inv"], "cart2pos(g_cart(g.inv(), g_cart(g)))",
              lambda: S(crys.cart2pos(crys.g_cart(ginv, crys.g_cart(g, x)))))
        R.obs(pr["invimg"], "g_pos(g.inv())", lambda: S(crys.g_pos(ginv, L, ci)))
        R.obs(pr["invimg"], "cart2pos(g_cart(g.inv()))", lambda: S(crys.cart2pos(crys.g_cart(ginv, x))))
        R.obs(pr["trl"], "g_pos(g+L)", lambda: S(crys.g_pos(gL, L, ci)))
        R.obs(pr["trl"], "cart2pos(g_cart(g+L))", lambda: S(crys.cart2pos(crys.g_cart(gL, x))))
        c["pos"].append(pr)
    for _ in range(nprobe["pts"]):
        p = rvec(rng, dim, -2 * N, 2 * N - 1)
        L, un = p // N, p % N
        u = un / float(N)
        pr = {"p": [int(v) for v in p], "x": [], "split": [], "img": [], "imgx": []}
        x = crys.unit2cart(L, u)
        R.obs(pr["x"], "unit2cart", lambda: G(x, N))
        R.obs(pr["x"], "unit2cart(cart2unit(x))", lambda: G(crys.unit2cart(*crys.cart2unit(x)), N))
        R.obs(pr["split"], "cart2unit(unit2cart)", lambda: SP(crys.cart2unit(x)))
        R.obs(pr["img"], "g_vect", lambda: SP(crys.g_vect(g, L, u)))
        R.obs(pr["img"], "cart2unit(g_cart)", lambda: SP(crys.cart2unit(crys.g_cart(g, x))))
        R.obs(pr["imgx"], "g_cart", lambda: G(crys.g_cart(g, x), N))
        R.obs(pr["imgx"], "unit2cart(g_vect)", lambda: G(crys.unit2cart(*crys.g_vect(g, L, u)), N))
        c["pts"].append(pr)
    x0 = np.dot(crys.lattice, np.array([rng.uniform(-1, 1) for _ in range(dim)]))
    for _ in range(nprobe["dirs"]):
        v = rvec(rng, dim, -3, 3)
        xv = np.dot(crys.lattice, v.astype(float))
        pr = {"v": [int(t) for t in v], "img": []}
        R.obs(pr["img"], "g_direc", lambda: G(crys.g_direc(g, xv), 1))
        R.obs(pr["img"], "g_cart(x+v)-g_cart(x)", lambda: G(crys.g_cart(g, x0 + xv) - crys.g_cart(g, x0), 1))
        c["dirs"].append(pr)
    for n in range(nprobe["tens"]):
        if n % 2 == 0:
            T = np.array([[rng.randint(-3, 3) for _ in range(dim)] for _ in range(dim)], dtype=int)
            pr = {"T": T.tolist(), "img": []}
        else:
            v1, v2 = rvec(rng, dim, -2, 2), rvec(rng, dim, -2, 2)
            T = np.outer(v1, v2)
            pr = {"T": T.tolist(), "img": []}
            x1, x2 = np.dot(crys.lattice, v1.astype(float)), np.dot(crys.lattice, v2.astype(float))
            R.obs(pr["img"], "outer(g_direc, g_direc)",
                  lambda: H.tensor_lattice(crys, np.outer(crys.g_direc(g, x1), crys.g_direc(g, x2))))
        Tc = np.dot(crys.lattice, np.dot(T.astype(float), crys.lattice.T))
        R.obs(pr["img"], "g_tensor", lambda: H.tensor_lattice(crys, crys.g_tensor(g, Tc)))
        c["tens"].append(pr)
    for _ in range(nprobe["pairs"]):
        chem = rng.randrange(crys.Nchem)
        i, j = rng.randrange(len(crys.basis[chem])), rng.randrange(len(crys.basis[chem]))
        Rv = rvec(rng, dim, -2, 2)
        pr = {"c": chem + 1, "ps": [i + 1, j + 1, [int(t) for t in Rv]], "made": [], "madedx": [], "img": [], "imgdx": []}
        holder = {}

        def make():
            holder["ps"] = PairState.fromcrys_latt(crys, chem, (i, j), Rv)
            return H.ps_fields(holder["ps"], dim)
        R.obs(pr["made"], "PairState.fromcrys_latt", make)
        ps = holder.get("ps")
        if ps is not None:
            R.obs(pr["madedx"], "PairState.fromcrys_latt.dx", lambda: G(ps.dx))
            R.obs(pr["madedx"], "pos2cart(j,R)-pos2cart(i,0)",
                  lambda: G(crys.pos2cart(Rv, (chem, j)) - crys.pos2cart(np.zeros(dim, dtype=int), (chem, i))))
            R.obs(pr["made"], "PairState.fromcrys(dx)",
                  lambda: H.ps_fields(PairState.fromcrys(crys, chem, (i, j), ps.dx), dim))

            def act():
                holder["gps"] = ps.g(crys, chem, g)
                return H.ps_fields(holder["gps"], dim)
            R.obs(pr["img"], "PairState.g", act)
            gps = holder.get("gps")
            if gps is not None:
                R.obs(pr["imgdx"], "PairState.g.dx", lambda: G(gps.dx))

            def endpoints():
                Li, (ci_, gi) = crys.g_pos(g, np.zeros(dim, dtype=int), (chem, i))
                Lj, (cj_, gj) = crys.g_pos(g, Rv, (chem, j))
                return [int(gi) + 1, int(gj) + 1, H.ints(Lj - Li)]
            R.obs(pr["img"], "g_pos(endpoints)", endpoints)
            R.obs(pr["img"], "PairState.fromcrys(g_direc(dx))",
                  lambda: H.ps_fields(PairState.fromcrys(crys, chem, (g.indexmap[chem][i], g.indexmap[chem][j]),
                                                         crys.g_direc(g, ps.dx)), dim))
            R.obs(pr["imgdx"], "g_direc(dx)", lambda: G(crys.g_direc(g, ps.dx)))
            R.obs(pr["imgdx"], "g_cart(xj)-g_cart(xi)",
                  lambda: G(crys.g_cart(g, crys.pos2cart(Rv, (chem, j))) -
                            crys.g_cart(g, crys.pos2cart(np.zeros(dim, dtype=int), (chem, i)))))
        c["pairs"].append(pr)
    return c


def run(ctx):
    quick = ctx.tier == "quick"
    rng = ctx.rng
    ctx.rule = ("catalogue + random decorated worlds (2D/3D) x {default, noreduce}, random orientation; for every "
                "reported operation g (plain / lattice-translated / product / inverse) and a random partner h: site, "
                "grid-point, direction, tensor and pair-state probes through every API route; TLC compares every route "
                "with the definitional image (Geom.tla); non-trivial = (world, option, operation) with g not the "
                "identity map")
    wl = [dict(w, name=n) for n, w in worlds.CATALOGUE.items()]
    for _ in range(12 if quick else 450):
        wl.append(worlds.random_world(rng, maxatoms=4))
    maxops = 16 if quick else 48
    nprobe = ({"pos": 3, "pts": 3, "dirs": 2, "tens": 2, "pairs": 2} if quick else
              {"pos": 8, "pts": 8, "dirs": 4, "tens": 4, "pairs": 6})
    cases, meta = [], []
    nroute_err = 0
    report = Reporter(ctx)
    for wi, w in enumerate(wl):
        opts = [{}]
        if wi % 4 == 0 or not quick:
            opts.append({"noreduce": True})
        for o in opts:
            oname = ",".join(sorted(o)) or "default"
            fam = H.family(w)
            try:
                crys, unit = worlds.realise(w, rng, **dict(o))
                ow = worlds.observe(crys, unit, Dhint=w["D"])
            except Exception as ex:      # construction / read-back is C18/C19's subject; not a C23 verdict
                ctx.info("skipped_world_%s_%s" % (w["name"], oname), "%s: %s" % (type(ex).__name__, ex))
                continue
            G = H.sorted_ops(crys)
            chosen = G if len(G) <= maxops else [G[0]] + rng.sample(G[1:], maxops - 1)
            for gi, g0 in enumerate(chosen):
                dim = crys.dim
                variant = rng.choice(("plain", "plain", "translated", "product", "inverse"))
                if variant == "translated":
                    g = g0 + H_rvec_nonzero(rng, dim)
                elif variant == "product":
                    g = g0 * rng.choice(G)
                elif variant == "inverse":
                    g = g0.inv()
                else:
                    g = g0
                h = rng.choice(G)
                if rng.random() < 0.3:
                    h = h + rvec(rng, dim, -1, 1)
                L0 = H_rvec_nonzero(rng, dim)
                R = H.Routes()
                key = "%s|%s|op%d|%s" % (w["name"], oname, gi, variant)
                try:
                    c = build_case(crys, ow, g, h, L0, rng, nprobe, R)
                except Exception as ex:
                    ctx.case(key)
                    report("algebra|" + type(ex).__name__,
                           "operation_algebra_error|%s|%s|%s" % (type(ex).__name__, fam, oname),
                                  "world %s (%s): forming/projecting g*h, g.inv() or g+L for a %s operation raised "
                                  "%s: %s" % (w["name"], oname, variant, type(ex).__name__, ex),
                                  {"world": w, "options": o, "variant": variant})
                    continue
                for (route, etype, msg) in R.errors:
                    nroute_err += 1
                    report("route|" + route, "route_error|%s|%s|%s|%s" % (route, etype, fam, oname),
                                  "world %s (%s), %s operation rot=%s t=%s/%d: route %s gave no usable result: %s: %s" % (
                                      w["name"], oname, variant, c["g"]["rot"], c["g"]["t"], ow["D"], route, etype, msg),
                                  {"world": w, "options": o, "case": c})
                cases.append(c)
                meta.append((key, w, o, fam, oname, variant))
    fails, infos, results = tlc.run_cases("Check_C23", cases, shards=8 if quick else 14, timeout=2400)
    for r in results:
        ctx.add_model(r)
    for i, (key, w, o, fam, oname, variant) in enumerate(meta):
        ident = infos.get(i, {}).get("identity", False)
        ctx.case(key, nontrivial=not ident)
        for clause in sorted(set(fails.get(i, []))):
            if clause.startswith("MODEL"):
                raise tlc.TLCError("model-level lemma failed in Check_C23 (%s) on case %s" % (clause, key))
            report("clause|" + clause, "clause|%s|%s|%s" % (clause, fam, oname),
                          "world %s (%s), %s operation rot=%s t=%s/%d (partner h rot=%s t=%s): the real API disagrees "
                          "with the geometric result on clause '%s'" % (
                              w["name"], oname, variant, cases[i]["g"]["rot"], cases[i]["g"]["t"], cases[i]["w"]["D"],
                              cases[i]["h"]["rot"], cases[i]["h"]["t"], clause),
                          {"world": w, "options": o, "case": cases[i], "clauses": fails[i]})
    ctx.traces += len(cases)
    ctx.info("route_errors", nroute_err)
    ctx.info("further_violations_not_listed", report.suppressed)
    ctx.info("probes_per_case", nprobe)
    if cases:
        ctx.sample({"world": cases[0]["w"], "g": cases[0]["g"], "first_site_probe": cases[0]["pos"][:1]})
        ctx.sample({"world": cases[-1]["w"], "g": cases[-1]["g"], "first_pair_probe": cases[-1]["pairs"][:1]})


def H_rvec_nonzero(rng, dim):
    while True:
        v = rvec(rng, dim, -2, 2)
        if np.any(v != 0):
            return v
