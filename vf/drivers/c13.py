"""C13 -- saved and reloaded calculators reproduce results exactly.

(a) spec/obj/VMCalc.tla restricted to {Lij, SaveLoad, ClearCache}: every history of calculations over a
    pool of inputs with ONE save/reload (before or after the cache is populated, in any insertion order)
    is replayed; after the reload the original object (a deep copy taken before saving) and the reloaded
    one receive the same further calls and spec/rel/Check_Rel.tla decides bit-for-bit equality of all four
    tensors and equality of the tags, plus result = F(range, input).
(b) value-level round trips: GFCrystalcalc, StarSet, VectorStarSet, Taylor expansions through HDF5 and
    Crystal, GroupOp, PairState, ClusterSite, Cluster through YAML; TLC compares the canonical byte/text
    projection of the reloaded object (or of the results it produces) with the original's.
"""
import numpy as np

from .. import calc, rel, tlc, worlds
from . import c14

LEVEL = "model_checking"


def canon(x):
    """Canonical text of a nested structure of floats/ints/arrays (floats as IEEE-754 hex)."""
    if isinstance(x, (list, tuple)):
        return "[" + ",".join(canon(v) for v in x) + "]"
    if isinstance(x, dict):
        return "{" + ",".join("%s:%s" % (k, canon(x[k])) for k in sorted(x)) + "}"
    if isinstance(x, np.ndarray):
        if x.dtype.kind in "iub":
            return "i" + str(x.astype(int).tolist())
        return "f" + np.ascontiguousarray(x, dtype=float).tobytes().hex()
    if isinstance(x, (float, np.floating)):
        return "f" + np.array([x], dtype=float).tobytes().hex()
    if isinstance(x, (int, np.integer)):
        return "i%d" % int(x)
    return repr(x)


def same(name, a, b):
    return {"name": name, "kind": "bits", "t": "", "terms": [], "tol": 0, "e": [], "s1": canon(a), "s2": canon(b)}


def roundtrips(ctx, quick):
    import h5py
    import yaml
    from onsager import GFcalc, crystal, cluster
    from onsager import crystalStars as stars
    from onsager import PowerExpansion as PE
    rng = ctx.rng
    cases, metas = [], []
    names = ["square", "honeycomb", "fcc", "hcp", "tet2", "b2", "polarrect"]
    if not quick:
        names += ["bcc", "diamond", "wurtzite", "kagome", "rect2site", "l12", "tric2"]
    f = h5py.File("vf_c13_mem.h5", "w", driver="core", backing_store=False)
    for n, name in enumerate(names):
        w = worlds.CATALOGUE[name]
        # a reducible description (supercell) goes through Crystal.reduce(): its threshold becomes a numpy scalar
        reducible = n % 2 == 0
        wr = worlds.supercell_world(w, np.diag([2] + [1] * (w["dim"] - 1))) if reducible else w
        crys, unit = worlds.realise(wr, rng)
        ow = worlds.observe(crys, unit, Dhint=wr["D"])
        chem = 0 if name not in ("polarrect",) else 1
        asserts = []

        def attempt(label, fn):
            try:
                fn()
            except Exception as ex:
                asserts.append(same("%s_roundtrip_raises_%s" % (label, type(ex).__name__), 0, 1))

        # ---- YAML: crystal, group operations
        def y_crystal():
            c2 = yaml.load(yaml.dump(crys), Loader=yaml.Loader)
            asserts.append(same("crystal_yaml", [crys.lattice, crys.basis, crys.chemistry],
                                [c2.lattice, c2.basis, c2.chemistry]))
            asserts.append(same("crystal_yaml_group_equal", True, bool(crys.G == c2.G)))
            c3 = crystal.Crystal.fromdict(yaml.load(crys.simpleYAML(), Loader=yaml.Loader))
            # the simplified dump re-runs the construction (which may re-centre the basis): same lattice, chemistry,
            # atoms per species and threshold; positions are compared through the symmetry group order below
            asserts.append(same("crystal_simpleyaml", [crys.lattice, crys.chemistry, [len(sp) for sp in crys.basis],
                                                       float(crys.threshold)],
                                [c3.lattice, c3.chemistry, [len(sp) for sp in c3.basis], float(c3.threshold)]))
            asserts.append(same("crystal_simpleyaml_group_order", len(crys.G), len(c3.G)))
        attempt("crystal_yaml", y_crystal)

        def y_groupops():
            G = sorted(crys.G, key=lambda g: (g.rot.tolist(), g.trans.tolist()))[:6]
            G2 = [yaml.load(yaml.dump(g), Loader=yaml.Loader) for g in G]
            asserts.append(same("groupop_yaml_equal", [True] * len(G), [bool(a == b) for a, b in zip(G, G2)]))
            asserts.append(same("groupop_yaml_fields", [[g.rot, g.trans, g.cartrot, list(map(list, g.indexmap))] for g in G],
                                [[np.asarray(g.rot), np.asarray(g.trans), np.asarray(g.cartrot),
                                  list(map(list, g.indexmap))] for g in G2]))
        attempt("groupop_yaml", y_groupops)
        cutoff = rel.cutoff_for(ow, chem, 2 if name in ("polarrect", "tet2", "hcp") else 1, unit)
        sitelist, jn = crys.sitelist(chem), crys.jumpnetwork(chem, cutoff)

        # ---- star sets / vector star sets / pair states
        def h_stars():
            ss = stars.StarSet(jn, crys, chem, 2 if crys.dim == 2 else 1)
            ss.addhdf5(f.create_group("ss%d" % n))
            s2 = stars.StarSet.loadhdf5(crys, f["ss%d" % n])
            proj = lambda s: [[(p.i, p.j, p.R.tolist()) for p in s.states], [list(x) for x in s.stars], s.Nshells]
            asserts.append(same("starset_hdf5", proj(ss), proj(s2)))
            asserts.append(same("starset_hdf5_dx", [p.dx for p in ss.states], [p.dx for p in s2.states]))
            ps = ss.states[:5]
            ps2 = [yaml.load(yaml.dump(p), Loader=yaml.Loader) for p in ps]
            asserts.append(same("pairstate_yaml_equal", [True] * len(ps), [bool(a == b) for a, b in zip(ps, ps2)]))
            vs = stars.VectorStarSet(ss)
            vs.addhdf5(f.create_group("vs%d" % n))
            v2 = stars.VectorStarSet.loadhdf5(ss, f["vs%d" % n])
            asserts.append(same("vectorstarset_hdf5", [[list(x) for x in vs.vecpos], [list(v) for v in vs.vecvec]],
                                [[list(x) for x in v2.vecpos], [list(v) for v in v2.vecvec]]))
        attempt("starset_hdf5", h_stars)

        # ---- Green function calculator: results of the reloaded calculator
        def h_gf():
            from onsager import OnsagerCalc
            D1 = OnsagerCalc.Interstitial(crys, chem, sitelist, jn).diffusivity(
                np.ones(len(sitelist)), np.zeros(len(sitelist)), np.ones(len(jn)), np.zeros(len(jn)))
            if np.min(np.linalg.eigvalsh(0.5 * (D1 + D1.T))) < 1e-6:
                return
            g = GFcalc.GFCrystalcalc(crys, chem, sitelist, jn, 4)
            pre, bE = np.array([2.0 ** rng.randint(0, 1) for _ in sitelist]), np.array([rng.randint(0, 2) * calc.LN2 for _ in sitelist])
            preT, bET = np.ones(len(jn)), np.array([rng.randint(3, 4) * calc.LN2 for _ in jn])
            if n % 3 == 0:
                g.SetRates(pre, bE, preT, bET)     # saved after rates were set
            g.addhdf5(f.create_group("gf%d" % n))
            g2 = GFcalc.GFCrystalcalc.loadhdf5(crys, f["gf%d" % n])
            g.SetRates(pre, bE, preT, bET)
            g2.SetRates(pre, bE, preT, bET)
            pts = [(i, j, dx) for jl in jn for (i, j), dx in jl[:2]] + [(0, 0, np.zeros(crys.dim))]
            asserts.append(same("gfcalc_hdf5_values", [g(i, j, dx) for i, j, dx in pts], [g2(i, j, dx) for i, j, dx in pts]))
            asserts.append(same("gfcalc_hdf5_D", g.D, g2.D))
        attempt("gfcalc_hdf5", h_gf)

        # ---- clusters
        if crys.dim == 3:
            def y_clusters():
                base_ = cluster.makeclusters(crys, cutoff, 3)
                cl = [c for cs in base_ for c in sorted(cs, key=str)[:2]][:8]
                # every flavour: vacancy clusters, transition-state clusters, and transition-state clusters of the
                # vacancy expansion (both flags at once)
                vac_ = cluster.makeVacancyClusters(crys, chem, base_)
                jn_ = crys.jumpnetwork(chem, cutoff)
                for expn in (vac_, cluster.makeTSclusters(crys, chem, jn_, base_),
                             cluster.makeTSclusters(crys, chem, jn_, vac_)):
                    cl += [c for cs in expn for c in sorted(cs, key=str)[:1]][:6]
                cl2 = [yaml.load(yaml.dump(c), Loader=yaml.Loader) for c in cl]
                asserts.append(same("cluster_yaml_equal", [True] * len(cl), [bool(a == b) for a, b in zip(cl, cl2)]))
                asserts.append(same("cluster_yaml_equal_hash", [hash(a) for a in cl], [hash(b) for b in cl2]))
                asserts.append(same("cluster_yaml_flavour", [str(a) for a in cl], [str(b) for b in cl2]))
                sites = [cs for c in cl for cs in c][:8]
                sites2 = [yaml.load(yaml.dump(cs), Loader=yaml.Loader) for cs in sites]
                asserts.append(same("clustersite_yaml_equal", [True] * len(sites),
                                    [bool(a == b) for a, b in zip(sites, sites2)]))
            attempt("cluster_yaml", y_clusters)

        # ---- vacancy-mediated calculator: the reloaded object has the same networks (before and after use)
        if name in ("fcc", "honeycomb", "hcp", "b2", "polarrect", "square", "bcc"):
            def h_vm():
                from onsager import OnsagerCalc
                v1 = OnsagerCalc.VacancyMediated(crys, chem, sitelist, jn, 1)
                D1 = OnsagerCalc.Interstitial(crys, chem, sitelist, jn).diffusivity(
                    np.ones(len(sitelist)), np.zeros(len(sitelist)), np.ones(len(jn)), np.zeros(len(jn)))
                percolates = np.min(np.linalg.eigvalsh(0.5 * (D1 + D1.T))) > 1e-6     # precondition of the Green function
                if n % 2 == 0 and percolates:
                    td = {t: (1.0, 0.0) for tt in v1.tags.values() for tl in tt for t in list(tl)[:1]}
                    v1.Lij(*v1.preene2betafree(1.0, **v1.tags2preene(td)))       # populate the caches first
                v1.addhdf5(f.create_group("vm%d" % n))
                v2 = OnsagerCalc.VacancyMediated.loadhdf5(f["vm%d" % n])
                net = lambda c: [[[[int(i), int(j), np.asarray(dx, dtype=float)] for (i, j), dx in jl] for jl in jn_]
                                 for jn_ in (c.om0_jn, c.om1_jn, c.om2_jn)]
                asserts.append(same("vacancymediated_hdf5_networks", net(v1), net(v2)))
                asserts.append(same("vacancymediated_hdf5_jumptypes", [list(map(int, v1.om1_jt)), list(map(int, v1.om2_jt))],
                                    [list(map(int, v2.om1_jt)), list(map(int, v2.om2_jt))]))
                asserts.append(same("vacancymediated_hdf5_tags", repr(sorted(v1.tagdict.items())), repr(sorted(v2.tagdict.items()))))
            attempt("vacancymediated_hdf5", h_vm)

        # ---- Taylor expansions
        def h_taylor():
            T = PE.Taylor3D if crys.dim == 3 else PE.Taylor2D
            T()
            c = T([(n_, l_, np.array([[[float(rng.randint(-3, 3))] * 1] * 1 for _ in range(T.powlrange[l_])]))
                   for n_, l_ in ((0, 0), (1, 1), (2, 2))])
            c.addhdf5(f.create_group("T%d" % n))
            c2 = T.loadhdf5(f["T%d" % n])
            u = np.array([[1., 2., 2.][:crys.dim]]) / (3. if crys.dim == 3 else np.sqrt(5.))
            fn = {(n_, l_): (lambda r, n_=n_: r ** n_) for n_ in range(3) for l_ in range(T.Lmax + 1)}
            asserts.append(same("taylor_hdf5_coeff", [(n_, l_, a) for n_, l_, a in c.coefflist],
                                [(n_, l_, a) for n_, l_, a in c2.coefflist]))
        attempt("taylor_hdf5", h_taylor)
        cases.append(rel.make_case(ow, {}, asserts, usegroup=False, scale=1.0))
        metas.append(("roundtrip|%s|%s#%d" % (name, "reduced" if reducible else "plain", n),
                      "HDF5/YAML round trips on %s%s" % (name, " (described as a 2x supercell, reduced)" if reducible else ""),
                      {"world": name, "reducible": reducible}, True))
    f.close()
    rel.run_rel(ctx, cases, metas, shards=4)
    ctx.sample({"roundtrip_asserts": [a["name"] for a in cases[0]["asserts"]]})


def run(ctx):
    c14.run(ctx, only_saveload=True, pid="C13")
    roundtrips(ctx, ctx.tier == "quick")
    ctx.rule = ("histories {Lij, one SaveLoad, ClearCache} of VMCalc.tla (depth 4-6) replayed with original and reloaded "
                "object in lockstep, bit-for-bit comparison decided by TLC; plus HDF5/YAML round trips of every "
                "persistable type on 7-14 worlds incl. crystals that went through reduce()")
