"""C03 -- transport tensors are symmetric, non-negative and crystal-invariant.

Every tensor the package returns (interstitial diffusivity, elastodiffusion tensor, and the four
vacancy-mediated coefficients, both omega2 algorithms) is transported to TLC as exact fixed-point
numbers in LATTICE coordinates; spec/rel/Check_Rel.tla decides symmetry, invariance under every rotation
of the definitional point group of the crystal (integer matrices, computed by TLC from the exact world)
and positive semidefiniteness (quadratic form on all integer directions in -3..3 plus a certificate
direction).  Crystals are realised in random orientations; data are dyadic with small and extreme
levels (rate ratios up to 2^+-40).
"""
import numpy as np

from .. import calc, rel

LEVEL = "model_checking"


def run(ctx):
    quick = ctx.tier == "quick"
    rng = ctx.rng
    ctx.rule = ("catalogue worlds in random orientations x random dyadic data (levels 0..2 and extreme +-20); every "
                "returned tensor checked by TLC for symmetry, point-group invariance (definitional group of the observed "
                "world) and PSD; non-trivial = distinct (world, data) whose point group has order > 2 or whose tensor is "
                "anisotropic")
    cases, metas = [], []
    iw = calc.INTERSTITIAL_WORLDS if not quick else calc.INTERSTITIAL_WORLDS[:9]
    for name, chem, shell in iw:
        for rep in range(2 if quick else 6):
            s = calc.interstitial(name, chem, shell, rng)
            extreme = rep % 2 == 1
            d = calc.interstitial_data(s, rng, 0, 20 if extreme else 2)
            args = calc.interstitial_args(d)
            D = s.calc.diffusivity(*args)
            tens = {"D": rel.to_latt(s.crys, D)}
            asserts = [rel.a_sym("D_symmetric", "D"), rel.a_inv("D_invariant", "D"),
                       rel.a_psd("D_psd", [(1, "D")], tensors=tens)]
            cases.append(rel.make_case(s.w, tens, asserts))
            metas.append(("interstitial|%s|%d|%s#%d" % (name, chem, "extreme" if extreme else "plain", rep),
                          "Interstitial.diffusivity on %s species %d, data %s" % (name, chem, d),
                          {"world": name, "chem": chem, "data": d}, True))
            if rep == 0:
                # elastodiffusion: rank 4, symmetric in each index pair, invariant
                dim = s.crys.dim
                dip = [np.array([[rng.randint(-2, 2) for _ in range(dim)] for _ in range(dim)], dtype=float)
                       for _ in range(s.Nsite)]
                dipT = [np.array([[rng.randint(-2, 2) for _ in range(dim)] for _ in range(dim)], dtype=float)
                        for _ in range(s.Njump)]
                dip = [0.5 * (x + x.T) for x in dip]
                dipT = [0.5 * (x + x.T) for x in dipT]
                Dd, dD = s.calc.elastodiffusion(args[0], args[1], dip, args[2], args[3], dipT)
                T4 = rel.to_latt4(s.crys, dD)
                tens4, grid = {}, []
                for c_ in range(dim):
                    row = []
                    for d_ in range(dim):
                        nm = "X%d%d" % (c_, d_)
                        tens4[nm] = T4[:, :, c_, d_]
                        row.append(nm)
                    grid.append(row)
                asserts = [rel.a_sym("dD_symmetric_ab@%s" % nm, nm, 1e-7) for nm in tens4]
                asserts += [rel.a_zero("dD_symmetric_cd@%d%d" % (c_, d_), [(1, grid[c_][d_]), (-1, grid[d_][c_])], 1e-7)
                            for c_ in range(dim) for d_ in range(c_)]
                asserts.append(rel.a_inv4("dD_invariant", grid, 1e-7))
                cases.append(rel.make_case(s.w, tens4, asserts))
                metas.append(("elastodiffusion|%s|%d#%d" % (name, chem, rep),
                              "Interstitial.elastodiffusion on %s species %d" % (name, chem),
                              {"world": name, "chem": chem, "data": d}, True))
    vw = calc.VACANCY_WORLDS if not quick else calc.VACANCY_WORLDS[:6] + [("wurtzite", 0, 1)]
    for name, chem, shell in vw:
        for nth in ((1,) if quick else (1, 2)):
            if nth == 2 and name in ("diamond", "hcp", "tet2", "b2"):
                continue
            for rep in range(2 if quick else 5):
                # a new random orientation of the lattice vectors for every data set (roundoff-level quantities
                # inside the calculator change with it; the results must not)
                s = calc.vacancy(name, chem, shell, nth, rng)
                d = calc.vacancy_data(s, rng, 0, 2)
                mode = "default"
                kw = {}
                if rep % 3 == 1:
                    d["eneT2"] = d["eneT2"] - 30 * calc.LN2       # very fast exchange: large-omega2 regime
                    # symmetry-distinct exchanges of very different speed (factors 8, 64) inside that regime
                    extra = [(0, 6, 3)[(k_ + rep) % 3] for k_ in range(len(d["eneT2"]))]
                    d["eneT2"] = d["eneT2"] - np.array(extra) * calc.LN2
                    mode = "fast-omega2"
                if rep % 3 == 2:
                    kw = {"large_om2": 0.0}
                    mode = "forced-large"
                L = calc.Lij(s, d, **kw)
                tens = {n: rel.to_latt(s.crys, T) for n, T in zip(calc.NAMES4, L)}
                asserts = []
                for n in calc.NAMES4:
                    asserts += [rel.a_sym(n + "_symmetric", n, 1e-7), rel.a_inv(n + "_invariant", n, 1e-7)]
                asserts += [rel.a_psd("L0vv_psd", [(1, "L0vv")], 1e-7, tens),
                            rel.a_psd("Lss_psd", [(1, "Lss")], 1e-7, tens)]
                cases.append(rel.make_case(s.w, tens, asserts))
                metas.append(("vacancy|%s|N%d|%s#%d" % (name, nth, mode, rep),
                              "VacancyMediated.Lij on %s Nthermo=%d (%s)" % (name, nth, mode),
                              {"world": name, "Nthermo": nth, "mode": mode,
                               "data": {k: np.asarray(v).tolist() for k, v in d.items()}}, True))
    rel.run_rel(ctx, cases, metas, shards=8 if quick else 14)
    ctx.sample({"case": metas[0][0], "tensors": cases[0]["tensors"], "asserts": [a["name"] for a in cases[0]["asserts"]]})
    ctx.sample({"case": metas[-1][0], "asserts": [a["name"] for a in cases[-1]["asserts"]]})
