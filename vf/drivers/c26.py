"""C26 -- omega1 / omega2 jump networks classify every solute-vacancy transition exactly once.

Worlds (catalogue + random decorations, 2D and 3D, 1- and multi-site sublattices) are realised in a random
orientation; the library's own jump network (crys.jumpnetwork, optionally thinned to a subset of its classes,
Cartesian or lattice form) is projected to integer pair states and is the INPUT of the definitional model
(spec/world/Omega.tla).  Recorded and judged by TLC (spec/world/Check_C26.tla):
  * StarSet(N, originstates).jumpnetwork_omega1() / jumpnetwork_omega2() for N = 1..3,
  * VacancyMediated(Nthermo).om1_jn / om2_jn / omegalist(1|2) for Nthermo = 1, 2 (pruned omega1 list),
against J1 (vacancy jumps between non-zero states with an endpoint in the thermodynamic range) and J2 (exchanges):
every transition in exactly one class, classes = orbits under the space group and reversal, displacement =
vacancy displacement, jump type = class of the vacancy jump.
"""
import os
import multiprocessing
import random
import time
from concurrent.futures import ProcessPoolExecutor

from .. import tlc, worlds
from .. import helpers_stars as hs

LEVEL = "model_checking"


def project_network(S, starset, jn, jt):
    """jumpnetwork [( (i,f), dx ), ...] over starset.states -> classes of [s, f, dxgrid] (+ 1-based jump types)."""
    states = starset.states
    cache = {}

    def ps(ind):
        if ind is None or not (0 <= int(ind) < len(states)):
            raise worlds.ProjectionError("jump refers to state index %r (star set has %d states)" % (ind, len(states)))
        if ind not in cache:
            cache[ind] = hs.ps_project(S, states[ind])
        return cache[ind]

    out = []
    for cl in jn:
        out.append([[ps(i), ps(f), hs.dx_project(S, dx, "displacement of an omega jump")] for (i, f), dx in cl])
    return out, [int(x) + 1 for x in jt]


def record_world(task):
    w, seed, opts = task
    from onsager import crystalStars as stars
    from onsager import OnsagerCalc
    rng = random.Random(seed)
    t0 = time.time()
    try:
        S = hs.setup_world(w, rng, chem=opts.get("chem"), jitter=opts.get("jitter", 0.0))
        jn, proj = hs.network(S, rng, opts.get("nshell", 1), subset=opts.get("subset", False))
    except worlds.ProjectionError as ex:
        return {"error": "projection", "what": str(ex), "name": w["name"], "variant": "jump network"}
    crys, chem = S["crys"], S["chem"]
    if not any(len(cl) for cl in jn):
        return {"error": "empty", "name": w["name"]}
    lattice = bool(opts.get("lattice"))
    jn_in = hs.lattice_form(S, jn) if lattice else jn
    netkind = "%dshell%s%s" % (opts.get("nshell", 1), "-subset" if opts.get("subset") else "", "-latt" if lattice else "")
    base = {"world": w["name"], "family": hs.family(w["name"]), "net": netkind, "chem": chem}
    variants, vmeta, errors = [], [], []
    maxn = 1
    for (N, og) in opts.get("starsets", []):
        tag = "starset|N=%d|origin=%s" % (N, og)
        try:
            ss = stars.StarSet(jn_in, crys, chem, N, originstates=og, lattice=lattice)
            o1, o2 = ss.jumpnetwork_omega1(), ss.jumpnetwork_omega2()
            om1, jt1 = project_network(S, ss, o1[0], o1[1])
            om2, jt2 = project_network(S, ss, o2[0], o2[1])
        except worlds.ProjectionError as ex:
            errors.append((tag, "projection", str(ex)))
            continue
        except Exception as ex:      # noqa: BLE001
            errors.append((tag, "raised", "%s: %s" % (type(ex).__name__, ex)))
            continue
        variants.append({"kind": "starset", "n": N, "og": bool(og), "om1": om1, "jt1": jt1, "om2": om2, "jt2": jt2})
        vmeta.append(tag)
        maxn = max(maxn, N)
    if not opts.get("saturating_ok") and hs.saturates(proj):
        calcs = []        # a network that does not percolate has no transport; the calculator is not defined for it
    else:
        calcs = opts.get("calcs", [])
    for nth in calcs:
        tag = "calc|Nthermo=%d" % nth
        try:
            if lattice:     # VacancyMediated takes the Cartesian form only
                calc = OnsagerCalc.VacancyMediated(crys, chem, crys.sitelist(chem), jn, nth)
            else:
                calc = OnsagerCalc.VacancyMediated(crys, chem, crys.sitelist(chem), jn_in, nth)
        except Exception as ex:      # noqa: BLE001
            errors.append((tag, "raised", "%s: %s" % (type(ex).__name__, ex)))
            continue
        # the same clauses on the calculator as built and on its HDF5 reload (the networks are stored, not regenerated)
        for mode in ("built", "reloaded"):
            tag = "calc|Nthermo=%d" % nth if mode == "built" else "calc-reloaded|Nthermo=%d" % nth
            try:
                if mode == "reloaded":
                    import h5py
                    f5 = h5py.File("vf_c26_%d.h5" % os.getpid(), "w", driver="core", backing_store=False)
                    calc.addhdf5(f5.create_group("c"))
                    calc = OnsagerCalc.VacancyMediated.loadhdf5(f5["c"])
                    f5.close()
                om1, jt1 = project_network(S, calc.kinetic, calc.om1_jn, calc.om1_jt)
                om2, jt2 = project_network(S, calc.kinetic, calc.om2_jn, calc.om2_jt)
                l1, lj1 = calc.omegalist(1)
                l2, lj2 = calc.omegalist(2)
                ol1 = [[hs.ps_project(S, a), hs.ps_project(S, b)] for a, b in l1]
                ol2 = [[hs.ps_project(S, a), hs.ps_project(S, b)] for a, b in l2]
            except worlds.ProjectionError as ex:
                errors.append((tag, "projection", str(ex)))
                continue
            except Exception as ex:      # noqa: BLE001
                errors.append((tag, "raised", "%s: %s" % (type(ex).__name__, ex)))
                continue
            variants.append({"kind": "calc", "n": nth, "og": True, "om1": om1, "jt1": jt1, "om2": om2, "jt2": jt2,
                             "ol1": ol1, "ojt1": [int(x) + 1 for x in lj1], "ol2": ol2, "ojt2": [int(x) + 1 for x in lj2]})
            vmeta.append(tag)
            maxn = max(maxn, nth + 1)
    case = {"w": S["ow"], "c": chem + 1, "jn": proj, "maxn": maxn, "variants": variants}
    return {"case": case, "vmeta": vmeta, "errors": errors, "base": base, "name": w["name"],
            "info": {"variants": len(variants), "njumps": sum(len(c) for c in proj), "nsites": len(crys.basis[chem]),
                     "G": len(crys.G), "wall": round(time.time() - t0, 2),
                     "om1_classes": [len(v["om1"]) for v in variants], "om1_jumps": [sum(len(c) for c in v["om1"]) for v in variants]}}


def world_tasks(ctx, quick):
    rng = ctx.rng
    C = worlds.CATALOGUE
    tasks = []

    def add(name, w=None, **opts):
        w = dict(w if w is not None else C[name], name=name)
        tasks.append((w, "C26-%d-%s-%d" % (ctx.seed, name, len(tasks)), opts))

    both = [(1, False), (1, True), (2, False), (2, True)]
    if quick:
        add("square", chem=0, starsets=both + [(3, True)], calcs=[1, 2])
        add("honeycomb", chem=0, starsets=both + [(3, False)], calcs=[1, 2], lattice=True)
        add("rect2site", chem=0, starsets=both, calcs=[1, 2], nshell=2)
        add("kagome", chem=0, starsets=[(1, True), (2, False)], calcs=[1, 2])
        add("hex2d", chem=0, starsets=[(2, True)], calcs=[2], nshell=2, subset=True)
        add("fcc", chem=0, starsets=[(1, False), (2, True)], calcs=[1, 2])
        add("hcp", chem=0, starsets=[(1, True), (2, False)], calcs=[1, 2], lattice=True)
        add("b2", chem=rng.randrange(2), starsets=[(2, True)], calcs=[1, 2], nshell=2)
        add("diamond", chem=0, starsets=[(2, False), (3, True)], calcs=[1, 2], jitter=1e-10)   # noise below the symmetry threshold
        add("bcc", chem=0, starsets=[(2, True)], calcs=[2], nshell=2, subset=True)
        add("fccoct", chem=2, starsets=[(1, True), (2, False)], calcs=[1])
        add("tric2", chem=0, starsets=both, calcs=[])
        for n in range(4):
            w = worlds.random_world(rng, dim=2 if n % 2 == 0 else 3, maxatoms=3)
            add(w["name"], w=w, starsets=[(1, bool(n % 2)), (2, not n % 2)], calcs=[1, 2] if n < 2 else [1],
                subset=bool(n % 2), lattice=bool(n == 2))
    else:
        allss = both + [(3, False), (3, True)]
        for name in C:
            dim = C[name]["dim"]
            for v in range(2):
                add(name, chem=0 if v == 0 else None, starsets=allss if (dim == 2 or v == 0) else both,
                    calcs=[1, 2] if v == 0 else [1], nshell=1 + v, subset=bool(v), lattice=bool(v))
        for n in range(160):
            w = worlds.random_world(rng, maxatoms=4)
            add(w["name"], w=w, starsets=both, calcs=[1, 2] if n % 3 == 0 else [1], nshell=1 + (n % 2),
                subset=bool(n % 2), lattice=bool(n % 3 == 1), jitter=1e-10 if n % 4 == 1 else 0.0)
    return tasks


def run(ctx):
    quick = ctx.tier == "quick"
    ctx.rule = ("catalogue + random worlds (2D/3D, 1..4-site sublattices, random orientation), library-built jump networks "
                "(1-2 shells, subsets of classes, Cartesian/lattice form); StarSet.jumpnetwork_omega1/omega2 for N<=3 with and "
                "without origin states and VacancyMediated om1_jn/om2_jn/omegalist for Nthermo 1,2, judged by TLC against the "
                "definitional J1/J2; non-trivial = recorded network with a class of more than two jumps")
    tasks = world_tasks(ctx, quick)
    from onsager import OnsagerCalc, crystalStars      # noqa: F401 -- import once, before the workers are forked
    t0 = time.time()
    with ProcessPoolExecutor(max_workers=8 if quick else 12, mp_context=multiprocessing.get_context("fork")) as ex:
        results = list(ex.map(record_world, tasks))
    ctx.info("t_record_s", round(time.time() - t0, 1))
    cases, metas = [], []
    for r in results:
        if r.get("error") == "empty":
            continue
        if r.get("error") == "projection":
            ctx.case(r["name"])
            ctx.violation("projection|%s|%s" % (r["variant"], hs.family(r["name"])), "world %s: %s" % (r["name"], r["what"]), r)
            continue
        for tag, kind, what in r["errors"]:
            ctx.case((r["name"], tag))
            ctx.violation("%s|%s|%s|%s" % (kind, tag, r["base"]["family"], r["base"]["net"]),
                          "world %s (sublattice %d, network %s): recording %s failed: %s" % (
                              r["name"], r["base"]["chem"], r["base"]["net"], tag, what), r["base"])
        cases.append(r["case"])
        metas.append(r)
    t1 = time.time()
    fails, infos, tres = tlc.run_cases("Check_C26", cases, shards=8 if quick else 12, timeout=3000)
    ctx.info("t_check_s", round(time.time() - t1, 1))
    for res in tres:
        ctx.add_model(res)
    nvar = 0
    for ci, r in enumerate(metas):
        several = infos.get(ci, {}).get("classes_with_several_jumps", [])
        for vi, tag in enumerate(r["vmeta"]):
            nvar += 1
            ctx.case((r["name"], r["base"]["net"], r["base"]["chem"], tag),
                     nontrivial=vi < len(several) and several[vi] > 0)
        byvar = {}
        for f in fails.get(ci, []):
            byvar.setdefault((f[0], f[1]), []).append(f[2])
        for (kind, vi), clauses in sorted(byvar.items()):
            base = r["base"]
            if kind == "model":
                ctx.violation("input|%s|%s|%s" % ("+".join(sorted(clauses)), base["family"], base["net"]),
                              "world %s (sublattice %d, network %s): %s fails for the library's jump network / the model" % (
                                  r["name"], base["chem"], base["net"], clauses),
                              {"base": base, "w": r["case"]["w"], "jn": r["case"]["jn"]})
                continue
            tag = r["vmeta"][vi - 1]
            v = r["case"]["variants"][vi - 1]
            ctx.violation("clause|%s|%s|%s|%s" % ("+".join(sorted(clauses)), tag, base["family"], base["net"]),
                          "world %s (sublattice %d, network %s, %d jumps in %d classes), %s: clause(s) %s of Check_C26 fail; "
                          "recorded omega1: %d classes / %d jumps, omega2: %d classes / %d jumps" % (
                              r["name"], base["chem"], base["net"], sum(len(c) for c in r["case"]["jn"]), len(r["case"]["jn"]),
                              tag, sorted(clauses), len(v["om1"]), sum(len(c) for c in v["om1"]),
                              len(v["om2"]), sum(len(c) for c in v["om2"])),
                          {"base": base, "w": r["case"]["w"], "c": r["case"]["c"], "jn": r["case"]["jn"], "variant": v})
        ctx.sample({"world": r["name"], "net": r["base"]["net"], **r["info"]}, cap=6)
    ctx.traces += nvar
    ctx.info("worlds", len(metas))
    ctx.info("networks_recorded", nvar)
