"""C22 -- k-point meshes lie in the Brillouin zone; symmetry reduction integrates invariant functions exactly.

Worlds (all catalogue crystals, every bare lattice family, extra body-/face-centred and random integer lattices,
random decorations) are realised as Crystals in random orientations; `fullkptmesh(N)` and `reducekptmesh` are
called for even / odd / anisotropic divisions; every returned k-point is projected onto the exact mesh grid
(reciprocal-lattice coordinates in units of 1/(2N_i)), weights onto integers (weight * Nkpt).  TLC evaluates
spec/world/Check_C22.tla (on KMesh.tla + World.tla): the full mesh is the uniform grid modulo the reciprocal
lattice, every point satisfies 2 k.G <= G.G for a certified-sufficient finite set of G (integers via the
adjugate of the metric), weights are positive and sum to one, and for every class of mesh points under the
DEFINITIONAL point group (World!OpsRT, contragredient action, modulo reciprocal lattice vectors) the reduced
weights in that class add up to the class size -- which is equivalent to exact integration of every
space-group-invariant lattice-periodic function.
"""
import math

import numpy as np

from .. import tlc, worlds

LEVEL = "model_checking"

MESH3 = [(4, 4, 4), (5, 5, 5), (6, 6, 6), (2, 3, 4), (4, 5, 6), (4, 4, 2)]
MESH2 = [(4, 4), (5, 5), (6, 6), (8, 8), (4, 6), (3, 5)]
MESH3_T = MESH3 + [(3, 3, 3), (6, 6, 4), (8, 8, 8), (7, 7, 7), (6, 8, 8), (5, 6, 8), (1, 1, 6), (2, 2, 7), (8, 4, 2), (3, 6, 5),
                   (7, 7, 2), (6, 5, 4), (1, 5, 5), (8, 8, 3)]
MESH2_T = MESH2 + [(7, 7), (2, 9), (12, 12), (9, 9), (10, 4), (1, 8), (11, 3), (6, 10), (5, 12), (16, 16)]

# lattice families beyond worlds.LATTICES (integer metrics): centred cells in their primitive description
def _gram(vecs):
    return [[sum(a * b for a, b in zip(u, v)) for v in vecs] for u in vecs]


EXTRA_LATTICES = {
    "bctlong": _gram([(-2, 2, 3), (2, -2, 3), (2, 2, -3)]),      # body-centred tetragonal, c/a = 1.5
    "bctshort": _gram([(-2, 2, 1), (2, -2, 1), (2, 2, -1)]),     # body-centred tetragonal, c/a = 0.5
    "fco": _gram([(0, 2, 3), (1, 0, 3), (1, 2, 0)]),             # face-centred orthorhombic a,b,c = 2,4,6
    "bco": _gram([(-1, 2, 3), (1, -2, 3), (1, 2, -3)]),          # body-centred orthorhombic a,b,c = 2,4,6
    "rhombflat": [[4, -1, -1], [-1, 4, -1], [-1, -1, 4]],        # rhombohedral, obtuse
    "rhombsharp": [[4, 3, 3], [3, 4, 3], [3, 3, 4]],             # rhombohedral, very acute
    "cmono": _gram([(2, 1, 0), (2, -1, 0), (1, 0, 3)]),          # base-centred monoclinic
    "hextilt": [[2, -1, 1], [-1, 2, 1], [1, 1, 5]],              # hexagonal P described with c' = c + a1 + a2
    "sctilt": _gram([(1, 0, 0), (0, 1, 0), (1, 1, 1)]),          # simple cubic described with a skewed third vector
    "obl2": [[5, 2], [2, 7]],
    "crect2": _gram([(2, 1), (2, -1)]),
}


def lattice_world(name, M):
    d = len(M)
    return {"name": name, "dim": d, "M": [list(r) for r in M], "D": 1, "basis": [[[0] * d]]}


def random_lattice(rng, d):
    for _ in range(100):
        A = np.array([[rng.randint(-2, 3) for _ in range(d)] for _ in range(d)])
        if abs(round(np.linalg.det(A))) >= 1:
            return np.dot(A.T, A).tolist()
    return np.eye(d, dtype=int).tolist()


# ------------------------------------------------------------------ exact helpers (harness side: inputs/certificates)

def adj(M):
    M = [[int(x) for x in r] for r in M]
    if len(M) == 2:
        return [[M[1][1], -M[0][1]], [-M[1][0], M[0][0]]]
    c = lambda i, j: (M[(i + 1) % 3][(j + 1) % 3] * M[(i + 2) % 3][(j + 2) % 3]
                      - M[(i + 1) % 3][(j + 2) % 3] * M[(i + 2) % 3][(j + 1) % 3])
    return [[c(j, i) for j in range(3)] for i in range(3)]


def det(M):
    if len(M) == 2:
        return M[0][0] * M[1][1] - M[0][1] * M[1][0]
    return sum(M[0][j] * adj(M)[j][0] for j in range(3))


def recip_form(M):
    A = adj(M)
    g = 0
    for r in A:
        for x in r:
            g = math.gcd(g, x)
    return [[x // g for x in r] for r in A]


def certificate(Q):
    """(sq, B): sq_i^2 >= Q_ii, B^2 det(Q) >= adj(Q)_ii (sum sq)^2 -- verified again by TLC (KMesh!BoxSufficient)."""
    d = len(Q)
    sq = [math.isqrt(Q[i][i] - 1) + 1 if Q[i][i] > 0 else 0 for i in range(d)]
    S = sum(sq)
    A2, dt = adj(Q), det(Q)
    B = 1
    while any(B * B * dt < A2[i][i] * S * S for i in range(d)):
        B += 1
    return sq, B


def lcm_list(xs):
    l = 1
    for x in xs:
        l = l * x // math.gcd(l, x)
    return l


def overflow_risk(M, Q, sq, B, N):
    """Largest intermediate the spec forms for this (world, mesh); must stay below 2^31 (TLC integers)."""
    d = len(Q)
    L = lcm_list([2 * n for n in N])
    qmax = max(abs(x) for r in Q for x in r)
    pmax = 3 * L                                   # |kappa| <= 3 is enforced by the driver before sending
    gq = qmax * B * B * d * d                      # n^T Q n
    S = sum(sq)
    return max(4 * qmax * pmax * pmax * d * d, L * L * S * S, L * L * gq, 2 * pmax * qmax * B * d * d,
               B * B * abs(det(Q)), max(abs(x) for r in adj(Q) for x in r) * S * S,
               max(abs(x) for r in adj(M) for x in r) * d * max(abs(x) for r in M for x in r))


def kappa(crys, k):
    return np.dot(crys.lattice.T, k) / (2 * np.pi)


# ------------------------------------------------------------------ one world

def observe_meshes(crys, ow, meshes):
    """Call the real API for every mesh and project the results. Returns (mesh records, per-mesh facts)."""
    out, facts = [], []
    for N in meshes:
        Nk = int(np.prod(N))
        L = lcm_list([2 * n for n in N])
        kfull = crys.fullkptmesh(N)
        kfull = np.array(kfull, copy=True)
        kred, wts = crys.reducekptmesh(kfull)
        twoN = np.array([2 * n for n in N], dtype=float)
        full, folded = [], 0
        for kp in kfull:
            kap = kappa(crys, kp)
            if np.max(np.abs(kap)) > 3:
                raise worlds.ProjectionError("mesh point %r is more than 3 reciprocal cells from the origin" % (kap.tolist(),))
            m = worlds.iround(kap * twoN, 1e-6, "mesh point in units of 1/(2N)")
            if any(not (-n < x <= n) for x, n in zip(m, N)):
                folded += 1
            full.append([int(x) for x in m])
        red = []
        for kp in kred:
            kap = kappa(crys, kp)
            if np.max(np.abs(kap)) > 3:
                raise worlds.ProjectionError("reduced point %r is more than 3 reciprocal cells from the origin" % (kap.tolist(),))
            red.append([int(x) for x in worlds.iround(kap * L, 1e-6, "reduced mesh point on the common grid")])
        cnt = [int(x) for x in worlds.iround(np.asarray(wts, dtype=float) * Nk, 1e-6, "weight * Nkpt")]
        out.append({"N": list(N), "full": full, "red": red, "cnt": cnt})
        facts.append({"folded": folded, "nred": len(red), "nk": Nk})
    return out, facts


def run(ctx):
    quick = ctx.tier == "quick"
    rng = ctx.rng
    ctx.rule = ("every lattice family (catalogue + centred / rhombohedral / random integer lattices) x even, odd and "
                "anisotropic meshes, plus decorated (lower point group, non-centrosymmetric) crystals, random orientation; "
                "points and weights projected to integers and decided by TLC (Check_C22 on KMesh/World); non-trivial = "
                "distinct (metric, basis, mesh) whose reduction has a class with more than one mesh point")
    ctx.assumptions.append("reciprocal-space geometry uses the integer metric read back from the constructed Crystal; "
                           "the finite set of reciprocal vectors deciding BZ membership is certified sufficient inside TLC")
    m3, m2 = (MESH3, MESH2) if quick else (MESH3_T, MESH2_T)
    wl = []      # (world, family, list of meshes)
    fams = dict(worlds.LATTICES)
    fams.update(EXTRA_LATTICES)
    for name, M in fams.items():
        wl.append((lattice_world(name, M), name, list(m3 if len(M) == 3 else m2)))
    for name, w in worlds.CATALOGUE.items():
        if w["D"] == 1:
            continue                                 # bare lattices are already in
        ml = m3 if w["dim"] == 3 else m2
        pick = [rng.choice(ml[:3]), rng.choice(ml[3:])] if quick else rng.sample(ml, 8)
        wl.append((dict(w, name=name), w["name"], pick))
    for i in range(8 if quick else 40):               # random integer lattices ("all systems")
        d = 3 if i % 4 else 2
        ml = m3 if d == 3 else m2
        w = lattice_world("rnd%dd" % d, random_lattice(rng, d))
        wl.append((w, "rnd%dd" % d, rng.sample(ml, 3 if quick else 8)))
    for i in range(8 if quick else 60):               # random decorations: smaller point groups
        w = worlds.random_world(rng, maxatoms=3)
        ml = m3 if w["dim"] == 3 else m2
        fam = w["name"].split("-")[1]
        wl.append((w, fam, rng.sample(ml, 2 if quick else 5)))

    cases, meta, nrots, skipped = [], [], [], 0
    for w, fam, meshes in wl:
        okey = "lat=%s" % fam
        try:
            crys, unit = worlds.realise(w, rng)
        except Exception as ex:
            ctx.case(okey, nontrivial=False)
            ctx.violation("construct|%s|%s" % (okey, type(ex).__name__),
                          "constructing the Crystal for world %s raised %s: %s" % (w["name"], type(ex).__name__, ex),
                          {"world": w})
            continue
        try:
            ow = worlds.gcd_reduce(worlds.observe(crys, unit, Dhint=w["D"]))
        except worlds.ProjectionError as ex:
            ctx.case(okey)
            ctx.violation("projection|crystal|%s" % okey, "world %s: %s" % (w["name"], ex), {"world": w})
            continue
        g = 0
        for r in ow["M"]:
            for x in r:
                g = math.gcd(g, x)
        ow["M"] = [[x // g for x in r] for r in ow["M"]]           # the unit of length is irrelevant here
        reduced = (sum(len(s) for s in ow["basis"]) != sum(len(s) for s in w["basis"]))
        if reduced:
            okey += "/reduced"
        Q = recip_form(ow["M"])
        sq, B = certificate(Q)
        good = []
        for N in meshes:
            if overflow_risk(ow["M"], Q, sq, B, N) >= 2 ** 31 or B > 7:
                skipped += 1
                continue
            good.append(N)
        if not good:
            continue
        try:
            ms, facts = observe_meshes(crys, ow, good)
        except worlds.ProjectionError as ex:
            ctx.case(okey)
            ctx.violation("projection|mesh|%s" % okey, "world %s: %s" % (w["name"], ex), {"world": w, "meshes": good})
            continue
        except Exception as ex:
            ctx.case(okey)
            ctx.violation("raises|%s|%s" % (okey, type(ex).__name__),
                          "world %s meshes %s: %s: %s" % (w["name"], good, type(ex).__name__, ex), {"world": w})
            continue
        cases.append({"w": {k: ow[k] for k in ("dim", "M", "D", "basis")}, "sq": sq, "B": B, "meshes": ms})
        meta.append((w, okey, good, facts))
        nrots.append(len({tuple(int(x) for x in np.asarray(g.rot).flatten()) for g in crys.G}))

    # big cases first inside each shard does not matter; shard round-robin balances them
    fails, infos, results = tlc.run_cases("Check_C22", cases, shards=8 if quick else 14,
                                          timeout=900 if quick else 3000)
    for r in results:
        ctx.add_model(r)
    nfolded = 0
    for i, (w, okey, meshes, facts) in enumerate(meta):
        byc = {}
        for f in fails.get(i, []):
            name, _, j = f.partition("#")
            if name.startswith("MACHINERY"):
                raise tlc.TLCError("certificate rejected by the spec for world %s: %s" % (w["name"], cases[i]))
            byc.setdefault(int(j) - 1, []).append(name)
        for j, N in enumerate(meshes):
            ncls = infos.get(i, {}).get("classes#%d" % (j + 1), facts[j]["nk"])
            ctx.case(str((cases[i]["w"]["M"], cases[i]["w"]["basis"], N)), nontrivial=ncls < facts[j]["nk"])
            nfolded += 1 if facts[j]["folded"] else 0
            ctx.traces += 1
            if j in byc:
                mesh = cases[i]["meshes"][j]
                npg = infos.get(i, {}).get("pointgroup")
                # the clauses about the mesh itself and those about its reduction are reported separately; the latter
                # carry a tag telling whether the crystal's own operation list has the definitional point group's size
                gtag = "G=def" if nrots[i] == npg else "G=impl%s/def%s" % (nrots[i], npg)
                parts = [("mesh", [c for c in byc[j] if c.startswith("full_mesh")], ""),
                         ("reduction", [c for c in byc[j] if not c.startswith("full_mesh")], gtag + "|")]
                for kind, names, tag in parts:
                    if not names:
                        continue
                    ctx.violation("%s|%s%s|%s|mesh=%s" % (kind, tag, "+".join(sorted(names)), okey, "x".join(map(str, N))),
                                  "world %s (observed metric %s; definitional point group order %s, crystal reports %s "
                                  "distinct rotations), mesh %s: clause(s) %s of Check_C22 fail; %d full points, %d reduced "
                                  "points, weight*Nkpt = %s" % (
                                      w["name"], cases[i]["w"]["M"], npg, nrots[i], list(N), sorted(names),
                                      len(mesh["full"]), len(mesh["red"]), mesh["cnt"][:16]),
                                  {"world": w, "observed": cases[i]["w"], "mesh": mesh})
    ctx.info("meshes_with_folded_points", nfolded)
    ctx.info("meshes_skipped_for_integer_range", skipped)
    if cases:
        c = cases[0]
        ctx.sample({"world": c["w"], "N": c["meshes"][0]["N"], "reduced": c["meshes"][0]["red"][:4],
                    "counts": c["meshes"][0]["cnt"][:4]})
        c = cases[-1]
        ctx.sample({"world": c["w"], "N": c["meshes"][-1]["N"], "n_reduced": len(c["meshes"][-1]["red"])})
