"""C17 -- change of variables (rotate / irotate) and inversion (inv) of Taylor expansions are exact.

Cases are random integer expansions (coefficients in {-1,0,1,2}; scalar, 1x1, 2x2 and 3x3 matrix valued; Taylor3D and
Taylor2D):
 * rotation: parity-consistent expansions, small invertible NON-orthogonal integer matrices M chosen so that both p
   and M p have integer norms; rotate(M), irotate(M) and rotate(M).rotate(M2) are evaluated at p per radial order
   with f_n(r) = r^n, the original at M p; spec/world/Check_C17.tla computes T(M p) exactly (integers) and decides.
 * inversion: T = A r^n0 + B1 r^(n0+1) + B2 r^(n0+2) with invertible leading matrices that do not commute with the
   higher-order coefficients, orders Nmax with 0 <= Nmax + n0 <= 2; inv(Nmax)*T and T*inv(Nmax) are evaluated per
   order at Pythagorean unit vectors and must be the identity through order Nmax + n0 (TLC, exact); for unimodular
   A the spec computes the truncated series itself in integers (and proves it an inverse) and inv() must equal it.
"""
import numpy as np

from .. import tlc
from .. import helpers_taylor as H

LEVEL = "model_checking"

RPTS = {3: [((1, 2, 2), 3), ((-2, 1, 2), 3), ((2, 3, 6), 7), ((-6, 2, 3), 7), ((1, -4, 8), 9), ((4, 4, -7), 9),
            ((0, 3, 4), 5), ((2, -2, 1), 3)],
        2: [((3, 4), 5), ((-4, 3), 5), ((5, 12), 13), ((-12, 5), 13), ((4, -3), 5), ((0, 1), 1), ((1, 0), 1)]}


def isqrt_exact(n):
    r = int(round(n ** 0.5))
    return r if r * r == n else None


def rowsum(M):
    return max(sum(abs(x) for x in row) for row in M)


def find_matrices(rng, dim, tries=4000):
    """(p, |p|, M, |M p|, M2): M, M2 integer invertible, M not orthogonal (M^T M not a multiple of 1), integer norms,
    and magnitudes small enough for exact 32-bit arithmetic in the spec."""
    for _ in range(tries):
        p, d = rng.choice(RPTS[dim])
        M = [[rng.choice((-2, -1, 0, 1, 2)) for _ in range(dim)] for _ in range(dim)]
        A = np.array(M)
        if round(np.linalg.det(A)) == 0:
            continue
        G = A.T @ A
        if np.array_equal(G, G[0, 0] * np.eye(dim, dtype=int)):
            continue
        q = A @ np.array(p)
        nq = isqrt_exact(int(q @ q))
        if nq is None or nq == 0:
            continue
        if rowsum(M) * d > 54:
            continue
        M2 = [[rng.choice((-1, 0, 1)) for _ in range(dim)] for _ in range(dim)]
        if round(np.linalg.det(np.array(M2))) == 0 or rowsum(M) * rowsum(M2) * d > 60:
            continue
        return list(p), d, M, nq, M2
    raise RuntimeError("no admissible transformation found")


def json_expansion(o):
    return [{"n": n, "l": l, "mono": [list(e) for e in sorted(p)], "coef": [p[e] for e in sorted(p)]}
            for n, (l, p) in sorted(o["E"].items())]


def obs_at(x, u, ns_hint=()):
    """Per-n values at the (non-unit) vector u with f_n(r) = r^n, alternating the callable and the value form."""
    nls = [(n, l) for n, l, c in x.coefflist]
    ns = sorted({n for n, l in nls})
    umag = float(np.sqrt(np.dot(u, u)))
    out = []
    for k, n in enumerate(ns):
        if k % 2:
            fnu = {nl: (umag ** nl[0] if nl[0] == n else 0.0) for nl in nls}
        else:
            fnu = {nl: (lambda r, m=nl[0], on=(nl[0] == n): r ** m if on else 0.0) for nl in nls}
        val = x(u, fnu)
        out.append({"n": int(n), "v": [[H.num(z, 1.0) for z in row] for row in H.as_matrix(val)]})
    return out


SHAPES = [(True, 1, 1), (False, 1, 1), (False, 2, 2), (False, 3, 3)]


def rot_case(rng, dim, shape):
    sc, r, c = shape
    T = H.taylor_class(dim)
    # parity-consistent labels: l = n mod 2, l <= n <= 4 ; "reduced" forms (l < n) included
    nl = []
    for n in rng.sample(range(0, 5), rng.choice((2, 3, 4))):
        nl.append((n, rng.choice([l for l in range(n % 2, n + 1, 2)])))
    o = H.rand_object(rng, dim, sc, r, c, sorted(nl), parity=True)
    p, d, M, nq, M2 = find_matrices(rng, dim)
    case = {"kind": "rot", "dim": dim, "sc": sc, "r": r, "c": c, "E": json_expansion(o), "M": M, "M2": M2, "p": p,
            "np": d, "nq": nq, "flip": rng.random() < 0.5}
    return case


def object_of(case):
    """Abstract object of a case (from its JSON expansion)."""
    E = {t["n"]: (t["l"], {tuple(e): m for e, m in zip(t["mono"], t["coef"])}) for t in case["E"]}
    return {"sc": case["sc"], "r": case["r"], "c": case.get("c", case["r"]), "ex": True, "full": False, "E": E}


def rot_observe(case):
    """Drive the real code for a rotation case (deterministic in the case's inputs)."""
    T = H.taylor_class(case["dim"])
    a = H.build(T, object_of(case))
    pv = np.array(case["p"], dtype=float)
    Mf, M2f = np.array(case["M"], dtype=float), np.array(case["M2"], dtype=float)
    qv = Mf @ pv
    case["orig"] = obs_at(a, qv)
    rot = a.rotate(T.rotatedirections(Mf))
    case["rot"] = obs_at(rot, pv)
    case["orig_after"] = obs_at(a, qv)
    b = a.copy()
    ret = b.irotate(T.rotatedirections(Mf))
    case["irot"] = obs_at(ret if case["flip"] else b, pv)
    case["rot2"] = obs_at(rot.rotate(T.rotatedirections(M2f)), pv)
    return case


def unimodular(rng, r):
    """Random integer matrix with determinant +-1 that is neither symmetric nor diagonal (products of shears)."""
    while True:
        A = np.eye(r, dtype=int)
        for _ in range(4):
            i, j = rng.sample(range(r), 2) if r > 1 else (0, 0)
            if r == 1:
                break
            S = np.eye(r, dtype=int)
            S[i, j] = rng.choice((-1, 1, 2))
            A = A @ S
        if rng.random() < 0.5:
            A[0] = -A[0]
        if r == 1 or (not np.array_equal(A, A.T) and np.abs(A).max() <= 4):
            return A.tolist()


def inv_case(rng, dim, shape, n0, Nmax, uni):
    sc, r, c = shape
    T = H.taylor_class(dim)
    while True:
        if uni:
            A = unimodular(rng, r) if not sc else [[rng.choice((-1, 1))]]
        else:
            A = H.rand_matrix(rng, r, r, vals=(-2, -1, 1, 2, 3)) if not sc else [[rng.choice((-2, 2, 4))]]
        if abs(round(np.linalg.det(np.array(A, dtype=float)))) >= 1:
            break
    E = {n0: (0, {(0,) * dim: A})}
    # higher orders: l <= n - n0 (so that the inverse through relative order K needs l <= K) ; sometimes no n0+1 term
    tails = [(n0 + 1, rng.choice((0, 1, 1))), (n0 + 2, rng.choice((0, 1, 2, 2)))]
    if rng.random() < 0.2:
        tails = tails[1:]
    for n, l in tails:
        E[n] = (l, H.rand_poly(rng, dim, l, r, r))
    o = {"sc": sc, "r": r, "c": r, "ex": True, "full": False, "E": E}
    if not sc and r > 1:
        # the property's hard case: the leading matrix must not commute with the higher-order coefficients
        An = np.array(A)
        if all(np.array_equal(An @ np.array(m), np.array(m) @ An) for n, (l, p) in E.items() if n != n0
               for m in p.values()):
            return inv_case(rng, dim, shape, n0, Nmax, uni)
    pts = rng.sample(H.PTS[dim][:2] + H.PTS[dim][3:5], 2)
    pts = [pt for pt in pts if pt[1] <= 13] or [H.PTS[dim][0]]
    case = {"kind": "inv", "dim": dim, "L": H.LMAX, "sc": sc, "r": r, "E": json_expansion(o), "n0": n0, "Nmax": Nmax,
            "pts": [{"v": list(v), "d": d} for v, d in pts]}
    case["noncommuting"] = bool(not sc and r > 1)
    return case


def inv_observe(case):
    """Drive the real code for an inversion case (deterministic in the case's inputs)."""
    T = H.taylor_class(case["dim"])
    pts = [(tuple(pt["v"]), pt["d"]) for pt in case["pts"]]
    a = H.build(T, object_of(case))
    x = a.inv(case["Nmax"])
    left, right = x * a, a * x
    for name, obj in (("left", left), ("right", right), ("inv", x), ("after", a)):
        case[name] = [H.observe(obj, [pt], use_fnu=(name == "inv"))["t"] for pt in pts]
    return case


def replay(ctx):
    import json
    payload = json.load(open(ctx.replay))["payload"]
    case = {k: v for k, v in payload.items()
            if k not in ("orig", "rot", "orig_after", "irot", "rot2", "left", "right", "inv", "after")}
    case = rot_observe(case) if case["kind"] == "rot" else inv_observe(case)
    _, infos, results = tlc.run_cases("Check_C17", [case], shards=1, timeout=600)
    ctx.add_model(results[0])
    ctx.case("replay", nontrivial=True)
    for clause in H.case_fails(results, 1).get(0, []):
        ctx.violation("replay|" + clause, "replayed %s case violates: %s" % (case["kind"], clause), case)


def run(ctx):
    if ctx.replay:
        return replay(ctx)
    quick = ctx.tier == "quick"
    ctx.rule = ("rotation: random parity-consistent integer expansions x invertible non-orthogonal integer M with "
                "integer |p|, |M p| (non-trivial = M not orthogonal and expansion with a reduced (l < n) or l >= 2 term); "
                "inversion: leading orders 0..2, Nmax + n0 in 0..2, scalar/1x1/2x2/3x3 (non-trivial = at least one "
                "series term beyond the leading one; 2x2/3x3 leading matrices never commute with the tails)")
    nrot, ninv = (36, 60) if quick else (2500, 3500)
    cases, meta = [], []
    for i in range(nrot):
        dim = 3 if i % 2 == 0 else 2
        shape = SHAPES[(i // 2) % 3]          # scalar, 1x1, 2x2
        c = rot_case(ctx.rng, dim, shape)      # inputs only; the real code runs in rot_observe
        try:
            c = rot_observe(c)
        except Exception as ex:
            ctx.case(("rot", i), nontrivial=True)
            ctx.violation("raised|rot|Taylor%dD|%s|%s" % (dim, _shape_name(shape), type(ex).__name__),
                          "rotate/irotate raised %r on a parity-consistent expansion" % (ex,), c)
            continue
        cases.append(c)
        meta.append(("rot", dim, shape, any(t["l"] < t["n"] or t["l"] >= 2 for t in c["E"]), None))
    combos = [(n0, Nmax) for n0 in (0, 1, 2) for Nmax in range(-n0, 3 - n0)]
    for i in range(ninv):
        dim = 3 if i % 2 == 0 else 2
        shape = SHAPES[(i // 2) % 4]
        n0, Nmax = combos[(i // 8) % len(combos)] if quick else ctx.rng.choice(combos)
        if quick and i % 3 == 0:
            n0, Nmax = ctx.rng.choice([(0, 2), (2, 0), (1, 1)])     # at least two series terms
        uni = (i // 4) % 2 == 0
        c = inv_case(ctx.rng, dim, shape, n0, Nmax, uni)      # inputs only
        try:
            c = inv_observe(c)
        except Exception as ex:
            ctx.case(("inv", i), nontrivial=True)
            ctx.violation("raised|inv|Taylor%dD|%s|%s" % (dim, _shape_name(shape), type(ex).__name__),
                          "inv(%d) or the product with the inverse raised %r (leading order %d)" % (Nmax, ex, n0), c)
            continue
        cases.append(c)
        meta.append(("inv", dim, shape, n0 + Nmax >= 1, (n0, Nmax, uni)))
    _, infos, results = tlc.run_cases("Check_C17", cases, shards=8 if quick else 16, timeout=2400)
    fails = H.case_fails(results, len(results))      # (clause names are long: TLC wraps them over several lines)
    for r in results:
        ctx.add_model(r)
    for i, (c, m) in enumerate(zip(cases, meta)):
        kind, dim, shape, nontrivial, extra = m
        sig = (kind, dim, _shape_name(shape), str(c["E"]), str(c.get("M")), str(extra))
        ctx.case(sig, nontrivial=nontrivial)
        ctx.traces += 1
        for clause in fails.get(i, []):
            if kind == "rot":
                key = "rot|%s|Taylor%dD|%s" % (clause, dim, _shape_name(shape))
                what = ("Taylor%dD, %s coefficients: %s. Expansion %s, M = %s, M2 = %s, p = %s"
                        % (dim, _shape_name(shape), clause, c["E"], c["M"], c["M2"], c["p"]))
            else:
                n0, Nmax, uni = extra
                series = (Nmax + n0) // max(1, min(t["n"] for t in c["E"] if t["n"] > n0) - n0)
                key = "inv|%s|Taylor%dD|%s|series-terms=%d" % (clause, dim, _shape_name(shape), min(series, 2))
                what = ("Taylor%dD, %s coefficients, leading order %d, inv(Nmax=%d): %s. Expansion %s"
                        % (dim, _shape_name(shape), n0, Nmax, clause, c["E"]))
            ctx.violation(key, what, {k: v for k, v in c.items()})
    if cases:
        ctx.sample({k: cases[0][k] for k in ("kind", "dim", "E", "M", "p")})
        ctx.sample({k: cases[-1][k] for k in ("kind", "dim", "E", "n0", "Nmax")})


def _shape_name(shape):
    sc, r, c = shape
    return "scalar" if sc else "%dx%d" % (r, c)
