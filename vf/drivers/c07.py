"""C07 -- results do not depend on the thermodynamic range beyond the interactions.

Two calculators with thermodynamic ranges N and N+1 are built on the same crystal; ONE tag dictionary
(random dyadic data for every class of the smaller calculator, each supplied under a random member tag of
its class) is given to both through tags2preene (missing omega1/omega2 transitions back-filled by the
package's default); spec/rel/Check_Rel.tla decides that all four tensors are equal.
"""
import numpy as np

from .. import calc, rel

LEVEL = "model_checking"
TAGTYPES = (("vacancy", 0, 1), ("solute", 0, 1), ("solute-vacancy", -1, 1), ("omega0", 3, 5),
            ("omega1", 3, 6), ("omega2", 2, 6))


def run(ctx):
    quick = ctx.tier == "quick"
    rng = ctx.rng
    ctx.rule = ("(world, N, N+1) x random dyadic tag data on every class of the smaller calculator, random member "
                "tags, random subsets of omega1/omega2 classes left to the default back-fill; non-trivial = data with a "
                "non-zero binding level and non-unit solute prefactor")
    from onsager import OnsagerCalc
    cases, metas = [], []
    vw = [("fcc", 0, 1, 1), ("hcp", 0, 2, 1), ("square", 0, 1, 1), ("square", 0, 1, 2), ("honeycomb", 0, 1, 1),
          ("hex2d", 0, 1, 1), ("b2", 0, 1, 1)]
    if not quick:
        vw += [("bcc", 0, 1, 1), ("hex2d", 0, 1, 2), ("honeycomb", 0, 1, 2), ("polarrect", 1, 2, 1),
               ("rect2site", 0, 2, 1), ("sc", 0, 1, 1), ("sc", 0, 1, 2), ("diamond", 0, 1, 1)]
    for name, chem, shell, N in vw:
        small = calc.vacancy(name, chem, shell, N, rng)
        big = OnsagerCalc.VacancyMediated(small.crys, chem, small.sitelist, small.jumpnetwork, N + 1)
        for rep in range(3 if quick else 12):
            tagdict, desc = {}, {}
            for ttype, lo, hi in TAGTYPES:
                for ci, tags in enumerate(small.calc.tags[ttype]):
                    if ttype in ("omega1", "omega2") and rng.random() < 0.3:
                        continue        # left to the package's default back-fill in BOTH calculators
                    pre = 2.0 ** rng.randint(0, 1) if ttype != "solute" else 2.0 ** rng.randint(0, 2)
                    ene = rng.randint(lo, hi) * calc.LN2
                    t = rng.choice(list(tags))
                    tagdict[t] = (pre, ene)
                    desc[t] = (pre, round(ene / calc.LN2))
            missing = [t for t in tagdict if t not in big.tagdict]
            key = "range|%s|N%d#%d" % (name, N, rep)
            if missing:
                ctx.case(key)
                ctx.violation("tags|%s|N%d" % (name, N),
                              "tags of the Nthermo=%d calculator are not recognised by the Nthermo=%d one: %s" % (
                                  N, N + 1, missing[:4]), {"world": name, "tags": missing})
                continue
            Ls = small.calc.Lij(*small.calc.preene2betafree(1.0, **small.calc.tags2preene(tagdict)))
            Lb = big.Lij(*big.preene2betafree(1.0, **big.tags2preene(tagdict)))
            tens, asserts = {}, []
            for nm, a, b in zip(calc.NAMES4, Ls, Lb):
                tens[nm + "_N"] = rel.to_latt(small.crys, a)
                tens[nm + "_N1"] = rel.to_latt(small.crys, b)
                asserts.append(rel.a_zero("%s_independent_of_range" % nm, [(1, nm + "_N"), (-1, nm + "_N1")], 1e-7))
            cases.append(rel.make_case(small.w, tens, asserts, usegroup=False))
            metas.append((key, "range independence on %s: Nthermo %d vs %d" % (name, N, N + 1),
                          {"world": name, "N": N, "tags": desc}, True))
    rel.run_rel(ctx, cases, metas, shards=8 if quick else 14)
    ctx.sample({"case": metas[0][0], "tags": metas[0][2]["tags"]})
