"""C05 -- faster transitions never reduce diffusivity (Rayleigh monotonicity).

For base data (dyadic) and each single transition-state class lowered by 1 or 3 levels (all site and
interaction energies fixed), spec/rel/Check_Rel.tla decides that T(lowered) - T(base) is positive
semidefinite for the interstitial diffusivity, the bare vacancy coefficient and the solute-solute
coefficient; bases with very fast exchange exercise the large-omega2 algorithm (default selection and
forced).
"""
import numpy as np

from .. import calc, rel

LEVEL = "model_checking"


def run(ctx):
    quick = ctx.tier == "quick"
    rng = ctx.rng
    ctx.rule = ("(world, base dyadic data, one transition-state class, decrement in {1,3}) enumerated over every class; "
                "PSD of the difference decided by TLC; non-trivial = distinct (world, class, base) where the tensor "
                "actually changes")
    cases, metas = [], []
    iw = calc.INTERSTITIAL_WORLDS[:6] if quick else calc.INTERSTITIAL_WORLDS
    for name, chem, shell in iw:
        s = calc.interstitial(name, chem, shell, rng)
        for rep in range(2 if quick else 4):
            d = calc.interstitial_data(s, rng, 0, 2)
            if rep % 2 == 1:
                # realistic absolute barriers: all rates ~ 2^-35..2^-30; one lowered class may cross any
                # absolute threshold inside the calculator
                d["eneTL"] = [e + 30 + rng.randint(0, 5) for e in d["eneTL"]]
            D0 = s.calc.diffusivity(*calc.interstitial_args(d))
            for k in range(s.Njump):
                for dec in ((1,) if quick and rep % 2 == 0 else (1, 3)):
                    t = dict(d, eneTL=[e - (dec if i == k else 0) for i, e in enumerate(d["eneTL"])])
                    D1 = s.calc.diffusivity(*calc.interstitial_args(t))
                    add(cases, metas, s, {"D": (D0, D1)}, "interstitial|%s|%d" % (name, chem), "jump%d-%d" % (k, dec),
                        {"data": d, "class": k, "dec": dec})
    # omega: two connected Wyckoff positions on the vacancy sublattice (solute site preference matters), no origin states
    vw = [("fcc", 0, 1, 1), ("hcp", 0, 2, 1), ("honeycomb", 0, 1, 1), ("b2", 0, 1, 1), ("omega", 0, 1, 1)]
    if not quick:
        vw += [("square", 0, 1, 2), ("bcc", 0, 1, 1), ("polarrect", 1, 2, 1), ("hex2d", 0, 1, 2), ("fcc", 0, 1, 2)]
    for name, chem, shell, nth in vw:
        s = calc.vacancy(name, chem, shell, nth, rng)
        for rep in range(2 if quick else 6):
            d = calc.vacancy_data(s, rng, 0, 2)
            if s.sizes["S"] > 1:
                # a solute site preference between the inequivalent positions (and the matching LIMB barriers)
                d["eneS"] = np.array(rng.sample(range(0, max(3, s.sizes["S"])), s.sizes["S"])) * calc.LN2
                d.update(s.calc.makeLIMBpreene(**{k_: d[k_] for k_ in ("preV", "eneV", "preS", "eneS", "preSV", "eneSV",
                                                                       "preT0", "eneT0")}))
            mode, kw = "default", {}
            if rep % 3 == 1:
                d["eneT2"] = d["eneT2"] - 32 * calc.LN2
                mode = "fast-omega2"
            elif rep % 3 == 2:
                kw, mode = {"large_om2": 0.0}, "forced-large"
            L0 = calc.Lij(s, d, **kw)
            for kind in ("eneT0", "eneT1", "eneT2"):
                idx = list(range(len(d[kind])))
                if quick and len(idx) > 3:
                    idx = rng.sample(idx, 3)
                for k in idx:
                    dec = rng.choice((1, 3))
                    t = {kk: np.array(v, dtype=float) for kk, v in d.items()}
                    t[kind][k] -= dec * calc.LN2
                    L1 = calc.Lij(s, t, **kw)
                    pairs = {"Lss": (L0[1], L1[1])}
                    if kind == "eneT0":
                        pairs["L0vv"] = (L0[0], L1[0])
                    add(cases, metas, s, pairs, "vacancy|%s|N%d|%s" % (name, nth, mode), "%s[%d]-%d" % (kind, k, dec),
                        {"data": {kk: np.asarray(v).tolist() for kk, v in d.items()}, "kind": kind, "class": k,
                         "dec": dec, "mode": mode})
    rel.run_rel(ctx, cases, metas, shards=8 if quick else 14)
    ctx.sample({"case": metas[0][0], "asserts": [a["name"] for a in cases[0]["asserts"]]})
    ctx.sample({"case": metas[-1][0], "asserts": [a["name"] for a in cases[-1]["asserts"]]})


def add(cases, metas, s, pairs, label, what, payload):
    tens, asserts, changed = {}, [], False
    for nm, (T0, T1) in pairs.items():
        tens[nm + "_base"] = rel.to_latt(s.crys, T0)
        tens[nm + "_lowered"] = rel.to_latt(s.crys, T1)
        changed = changed or not np.allclose(T0, T1, rtol=1e-9, atol=0)
        asserts.append(rel.a_psd("%s_does_not_decrease" % nm, [(1, nm + "_lowered"), (-1, nm + "_base")], 1e-7, tens))
    cases.append(rel.make_case(s.w, tens, asserts, usegroup=False))
    metas.append(("%s#%s" % (label, what), "%s, lowering %s" % (label, what), payload, changed))
