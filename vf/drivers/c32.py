"""C32 -- all cluster-expansion evaluators agree on every configuration.

Sampler.tla's invariant EnergyIsBrute compares, for EVERY mobile occupation of a small supercell, the
energy given by the interaction tables of the real sampler (the interaction-list evaluator's output,
evaluated by the model's Energy rule) with the brute-force sum over cluster instances that the harness
enumerates from positions alone.  Each state of the TLC graph is then replayed on the real code: the
cluster counter (evalcluster . values), the index-matrix expansion (expandcluster_matrices) and the
Monte Carlo sampler's E() must all equal the model's energy for that occupation.
"""
import os

import numpy as np

from .. import samplers, tlc

LEVEL = "model_checking"


def run(ctx):
    quick = ctx.tier == "quick"
    ctx.rule = ("every mobile occupation of a small supercell (TLC state graph of Sampler.tla, single-site moves, "
                "invariant EnergyIsBrute against geometry-enumerated cluster instances) x random spectator occupation "
                "and even-integer cluster values; each state replayed through evalcluster, expandcluster_matrices and "
                "MonteCarloSampler.E(); non-trivial = occupation with at least one interaction switched on")
    cfgs = ["sc221", "sc221v", "b2s221", "b2s221v", "fccnd", "tet2_211", "tet2_211v", "b2s222v"]
    if not quick:
        cfgs += ["sc222", "sc222v", "fcc222", "fcc222v", "hcp221", "sc222j", "b2s222"]
    for rep in range(1 if quick else 3):
        for name in cfgs:
            state_check(ctx, name)


def matrix_energy(s, mats, mocc):
    E = 0.0
    for k, cllist in enumerate(mats):
        n = 0
        for clmat in cllist:
            clmat = np.asarray(clmat)
            if clmat.ndim < 2:
                continue
            if clmat.shape[1] == 0:
                n += clmat.shape[0]
            else:
                n += sum(1 for ind in clmat if np.all(mocc[ind] == 1))
        E += s.Evalues[k] * n
    if len(s.Evalues) > len(mats):
        E += s.Evalues[-1] * s.sup.size
    return E


def state_check(ctx, name):
    s = samplers.build(name, ctx.rng)
    tab = samplers.tables(s)
    inst = samplers.brute_instances(s)
    NS, vac = tab["NS"], tab["Vac"]
    sites = [i for i in range(1, NS + 1) if i != vac]
    mvs = [([i], []) for i in sites] + [([], [i]) for i in sites]
    start = [(-1 if i == vac else 0) for i in range(1, NS + 1)]
    wd = tlc.scratch()
    mod, cfg = samplers.mc_module("MC_Sampler", "Sampler", tab, inst, mvs, starts=[start])
    path = os.path.join(wd, "MC_Sampler.tla")
    open(path, "w").write(mod)
    cfg += "\nSPECIFICATION Spec\nINVARIANT EnergyIsBrute\nINVARIANT CntIsFunctionOfOcc\n"
    res = tlc.run(path, cfg, workers=8, dump=True, workdir=wd, timeout=3000)
    ctx.add_model(res)
    if res.invariant_violated:
        ctx.violation("model|%s|%s" % (name, res.invariant_violated),
                      "TLC: on the interaction tables extracted from the real sampler (%s), invariant %s fails: the "
                      "interaction-list energy differs from the brute-force sum over cluster instances.\n%s" % (
                          name, res.invariant_violated, res.out[-2500:]),
                      {"config": name, "values": s.values, "tlc": res.out[-6000:]})
        return
    tlc.require_clean(res, "Sampler/C32 %s" % name)
    nodes, edges, inits = tlc.parse_dot(res.dot)
    if len(nodes) != 2 ** len(sites):
        raise tlc.TLCError("expected %d occupations, graph has %d" % (2 ** len(sites), len(nodes)))
    ctx.exhaustive = True
    ctx.sample({"config": name, "sites": NS, "vacancy": vac, "interactions": tab["NI"], "instances": len(inst),
                "occupations": len(nodes), "values": s.values})
    mats = s.sup.expandcluster_matrices(s.socc, s.clusterexp)
    from onsager import cluster
    MC2 = cluster.MonteCarloSampler(s.sup, s.socc, s.clusterexp, s.Evalues)   # sampler without jump network
    for nid, n in nodes.items():
        occ = np.array(n["occ"], dtype=int)
        want = n["obs"]["E"]
        got = {}
        mocc = occ.copy()
        if vac:
            mocc[vac - 1] = 0
        got["evalcluster"] = float(np.dot(s.Evalues, s.sup.evalcluster(mocc, s.socc, s.clusterexp)))
        got["matrices"] = float(matrix_energy(s, mats, occ))
        s.MC.start(occ.copy())
        got["sampler"] = float(s.MC.E())
        MC2.start(occ.copy())
        got["sampler_nojumps"] = float(MC2.E())
        ctx.case((name, tuple(n["occ"]), str(s.values)), nontrivial=any(c == 0 for c in n["cnt"][:tab["NE"] - 1]))
        bad = {k: v for k, v in got.items() if v != want}
        if bad:
            ctx.violation("state|%s|%s" % (name, "+".join(sorted(bad))),
                          "%s occupation %s (spectators %s): brute-force/model energy %s but %s" % (
                              name, n["occ"], list(s.socc), want, bad),
                          {"config": name, "values": s.values, "occ": n["occ"], "expected": want, "got": got})
    ctx.traces += len(nodes)
