"""Shared machinery of the Taylor-expansion checks (C16, C17).

* abstract expansions (what spec/world/Poly.tla and spec/obj/TaylorObj.tla compute with) as plain Python data:
  an object is {"sc": bool, "r": int, "c": int, "ex": bool, "full": bool, "E": {n: (l, {exponent tuple: matrix})}}
* emitters of TLA+ literals for them,
* builders of the real Taylor3D / Taylor2D objects, the executor of one model action on a real pool,
* the projection of a real object onto integers: per radial order n the value at Pythagorean points, as
  <<I, F, G>> (nearest integer of the numerator over d^Lmax, residual and imaginary part in units of 1e-9);
  the comparison with the exact value is made by TLC, never here.
"""
import itertools
import re

import numpy as np

LMAX = 4
PTS = {3: [((1, 2, 2), 3), ((-6, 2, 3), 7), ((1, -4, 8), 9), ((2, -1, 2), 3), ((3, 6, -2), 7), ((-7, 4, 4), 9)],
       2: [((3, 4), 5), ((-5, 12), 13), ((8, -15), 17), ((-4, 3), 5), ((12, 5), 13), ((-3, -4), 5)]}


def taylor_class(dim):
    import onsager.PowerExpansion as PE
    T = PE.Taylor3D if dim == 3 else PE.Taylor2D
    T()  # class-wide tables
    return T


# ------------------------------------------------------------------ TLA+ literals

def tla(v):
    if isinstance(v, bool):
        return "TRUE" if v else "FALSE"
    if isinstance(v, (int, np.integer)):
        return str(int(v))
    if isinstance(v, str):
        return '"%s"' % v
    if isinstance(v, (list, tuple)):
        return "<<" + ", ".join(tla(x) for x in v) + ">>"
    if isinstance(v, (set, frozenset)):
        return "{" + ", ".join(tla(x) for x in sorted(v)) + "}"
    if isinstance(v, dict):
        if len(v) == 0:
            return "<<>>"
        if all(isinstance(k, str) for k in v):
            return "[" + ", ".join("%s |-> %s" % (k, tla(x)) for k, x in v.items()) + "]"
        return "(" + " @@ ".join("%s :> %s" % (tla(k), tla(x)) for k, x in sorted(v.items())) + ")"
    raise TypeError("no TLA+ literal for %r" % (v,))


def tla_expansion(E):
    return tla({n: {"l": l, "p": {tuple(e): m for e, m in p.items()}} for n, (l, p) in E.items()})


def tla_object(o):
    if o is None:
        return '[k |-> "none"]'
    return ('[k |-> "val", sc |-> %s, r |-> %d, c |-> %d, ex |-> %s, full |-> %s, wr |-> {}, E |-> %s]'
            % (tla(o["sc"]), o["r"], o["c"], tla(o["ex"]), tla(o["full"]), tla_expansion(o["E"])))


def tla_points(pts):
    return "<<" + ", ".join("[v |-> %s, d |-> %d]" % (tla(list(v)), d) for v, d in pts) + ">>"


# ------------------------------------------------------------------ random abstract expansions

def monos(dim, l):
    return [e for e in itertools.product(range(l + 1), repeat=dim) if sum(e) <= l]


def rand_matrix(rng, r, c, vals=(-1, 0, 1, 2)):
    return [[rng.choice(vals) for _ in range(c)] for _ in range(r)]


def rand_poly(rng, dim, l, r, c, parity=None, fill=0.6):
    """Random polynomial of degree <= l (a monomial of degree exactly l is always present)."""
    p = {}
    ms = monos(dim, l)
    if parity is not None:
        ms = [e for e in ms if (sum(e) - parity) % 2 == 0]
    top = [e for e in ms if sum(e) == l] or ms
    forced = rng.choice(top)
    for e in ms:
        if e == forced or rng.random() < fill:
            m = rand_matrix(rng, r, c)
            if e == forced and not any(any(row) for row in m):
                m[rng.randrange(r)][rng.randrange(c)] = rng.choice((-1, 1, 2))
            if any(any(row) for row in m):
                p[e] = m
    return p


def rand_object(rng, dim, sc, r, c, nl, parity=False):
    """Abstract object with the given (n, l) labels (one term per n)."""
    E = {}
    for n, l in nl:
        E[n] = (l, rand_poly(rng, dim, l, r, c, parity=(n if parity else None)))
    return {"sc": sc, "r": r, "c": c, "ex": True, "full": False, "E": E}


# ------------------------------------------------------------------ real objects

def coeff_array(T, l, p, sc, r, c):
    shape = () if sc else (r, c)
    a = np.zeros((T.powlrange[l],) + shape, dtype=complex)
    for e, m in p.items():
        a[T.pow2ind[tuple(e)]] = m[0][0] if sc else np.array(m)
    return a


def build(T, o):
    """Real object for an abstract one, through the public constructor."""
    if o is None:
        return None
    if o["full"]:
        ns = sorted(o["E"])
        return T.zeros(ns[0], ns[-1], (o["r"], o["c"]))
    return T([(n, l, coeff_array(T, l, p, o["sc"], o["r"], o["c"])) for n, (l, p) in sorted(o["E"].items())])


def key_index(key):
    if key["sc"]:
        return (key["r1"] - 1, key["c1"] - 1)
    return (slice(key["r1"] - 1, key["r2"]), slice(key["c1"] - 1, key["c2"]))


def max_l(x):
    return max([l for n, l, c in x.coefflist], default=0)


class Skip(Exception):
    """The real objects do not satisfy the documented precondition of the call (never expected)."""


def apply_action(T, pool, cons, name, args, flav):
    """One model action on the real pool (list, slot s at index s-1).  Returns None, or raises."""
    A = lambda s: pool[s - 1]

    def arr(m, sc=False):
        return np.array(float(m[0][0])) if sc else np.array(m, dtype=float)

    if name in ("Add", "Sub", "Mul"):
        a, b, t = args
        x, y = A(a), A(b)
        if name == "Add":
            res = (x + y) if flav % 3 else (sum([x, y]) if flav % 2 else T(T.sumcoeff(x, y)))
        elif name == "Sub":
            res = (x - y) if flav % 2 else T(T.sumcoeff(x, y, 1, -1))
        else:
            if max_l(x) + max_l(y) > T.Lmax:
                raise Skip("combined angular order")
            res = x * y
        pool[t - 1] = res
    elif name == "IAdd":
        x = A(args[0])
        x += A(args[1])
        pool[args[0] - 1] = x
    elif name == "ISub":
        x = A(args[0])
        x -= A(args[1])
        pool[args[0] - 1] = x
    elif name == "Neg":
        pool[args[1] - 1] = -A(args[0])
    elif name == "Copy":
        pool[args[1] - 1] = A(args[0]).copy() if flav % 2 else +A(args[0])
    elif name == "Scalar":
        a, s, t = args
        pool[t - 1] = (A(a) * s, s * A(a), A(a) * float(s), T(T.scalarproductcoeff(s, A(a))))[flav % 4]
    elif name == "IScalar":
        a, s = args
        if flav % 2:
            T.scalarproductcoeff(s, A(a), inplace=True)
        else:
            x = A(a)
            x *= s      # no __imul__: rebinding to a new object
            pool[a - 1] = x
    elif name == "AddConst":
        a, k, t = args
        x = A(a)
        m = cons["Consts"][k - 1]
        pool[t - 1] = x + arr(m, sc=(len(x.coefflist) > 0 and x.coefflist[0][2].ndim == 1))
    elif name in ("LDot", "RDot"):
        a, k, t = args
        m = arr(cons["Mats"][k - 1])
        pool[t - 1] = A(a).ldot(m) if name == "LDot" else A(a).rdot(m)
    elif name in ("ILDot", "IRDot"):
        a, k = args
        m = arr(cons["Mats"][k - 1])
        pool[a - 1] = A(a).ildot(m) if name == "ILDot" else A(a).irdot(m)
    elif name == "Truncate":
        a, N, t = args
        pool[t - 1] = A(a).truncate(N) if flav % 2 else T(T.truncatecoeff(A(a), N))
    elif name == "ITruncate":
        a, N = args
        pool[a - 1] = A(a).truncate(N, inplace=True)
    elif name == "Reduce":
        pool[args[0] - 1] = A(args[0]).reduce()
    elif name == "Separate":
        pool[args[0] - 1] = A(args[0]).separate()
    elif name == "Slice":
        a, k, t = args
        pool[t - 1] = A(a)[key_index(cons["Keys"][k - 1])]
    elif name == "SetSlice":
        a, k, b = args
        x, y = A(a), A(b)
        have = [(n, l) for n, l, c in x.coefflist]
        for n, l, c in y.coefflist:
            if (n, l) not in have:
                raise Skip("item assignment with a term the target does not have")
        x[key_index(cons["Keys"][k - 1])] = y
    elif name == "Zeros":
        k, t = args
        pool[t - 1] = T.zeros(cons["ZMin"], cons["ZMax"], tuple(cons["ZShapes"][k - 1]))
    elif name == "Construct":
        k, t = args
        B = cons["Bases"][k - 1]
        basis = [(np.array(b["m"], dtype=float), np.array(b["v"], dtype=float)) for b in B["basis"]]
        terms = T.constructexpansion(basis, N=B["N"], pre=[float(p) for p in B["pre"]])
        if flav % 2:
            res = T([c[0] for c in terms])
        else:
            res = T()
            for c in terms:
                res.addterms(c)
        pool[t - 1] = res
    else:
        raise RuntimeError("unknown action " + name)


# ------------------------------------------------------------------ observation

BIG = 2000000000


def num(z, scale):
    """float (complex) -> [I, F, G] ; all |.| < 2^31."""
    x = float(np.real(z)) * scale
    y = float(np.imag(z)) * scale
    if not np.isfinite(x) or abs(x) > BIG:
        return [BIG, 0, 0]
    i = int(round(x))
    f = int(round((x - i) * 1e9))
    g = BIG if (not np.isfinite(y) or abs(y) > 1.0) else int(round(y * 1e9))
    return [i, f, g]


def as_matrix(val):
    val = np.asarray(val)
    if val.ndim == 0:
        return np.array([[val]])
    if val.ndim == 2:
        return val
    raise ValueError("value of rank %d" % val.ndim)


def observe(x, pts, use_fnu=False, lmax=LMAX):
    """Projection of one real object: shape + per-n values at the points."""
    if x is None:
        return {"sh": [-1], "t": []}
    if len(x.coefflist) == 0:
        return {"sh": [-2], "t": []}
    shape = x.coefflist[0][2].shape[1:]
    sh = [0] if len(shape) == 0 else [int(s) for s in shape]
    nls = [(n, l) for n, l, c in x.coefflist]
    ns = sorted({n for n, l in nls})
    dup = len(set(nls)) != len(nls)
    t = []
    vals = {n: [] for n in ns}
    for v, d in pts:
        u = np.array(v, dtype=float)
        scale = float(d) ** lmax
        if use_fnu or dup:
            for n in ns:
                if (len(vals[n]) + n) % 2:
                    fnu = {nl: (1.0 if nl[0] == n else 0.0) for nl in nls}
                else:
                    fnu = {nl: (lambda r, on=(nl[0] == n): 1.0 if on else 0.0) for nl in nls}
                vals[n].append([[num(z, scale) for z in row] for row in as_matrix(x(u, fnu))])
        else:
            dct = x(u)
            for n in ns:
                tot = sum(as_matrix(val) for (nn, l), val in dct.items() if nn == n)
                vals[n].append([[num(z, scale) for z in row] for row in tot])
    for n in ns:
        t.append({"n": int(n), "v": vals[n]})
    return {"sh": sh, "t": t}


# ------------------------------------------------------------------ TLC output

def prints(res, tag):
    """PrintT tuples <<"TAG", ...>> of a TLC run, INCLUDING those TLC wrapped over several lines (it wraps at
    ~80 columns, so a long clause name or history would otherwise be lost)."""
    from . import tlc
    out, buf, depth = [], None, 0
    for line in res.out.splitlines():
        s = line.strip()
        if buf is None:
            if not re.match(r'^<<\s*"%s"' % tag, s):
                continue
            buf, depth = "", 0
        buf += (" " if buf else "") + s
        bare = re.sub(r'"(?:[^"\\]|\\.)*"', '""', s)
        depth += bare.count("<<") - bare.count(">>")
        if depth <= 0:
            out.append(tlc.parse_tla_value(buf))
            buf = None
    if buf is not None:
        raise tlc.TLCError("unterminated %s tuple in TLC output" % tag)
    return out


def case_fails(results, shards_used):
    """FAIL clauses per global case index from the shard results of tlc.run_cases (shard i holds cases i, i+S, ...)."""
    fails = {}
    for i, res in enumerate(results):
        for p in prints(res, "FAIL"):
            fails.setdefault(i + (p[1] - 1) * shards_used, []).append(p[2])
    return fails


# ------------------------------------------------------------------ TLC graph -> walks

_edge = re.compile(r'^(-?\d+) -> (-?\d+) \[label="([^"]*)"')
_node = re.compile(r'^(-?\d+) \[label="')
_hist = re.compile(r'hist = \\"(I\d+)')


def read_graph(path):
    """edges: src -> [(label, dst)] (deduplicated), inits: {node id: root history}."""
    edges, inits = {}, {}
    with open(path) as f:
        for line in f:
            line = line.strip()
            m = _edge.match(line)
            if m:
                lst = edges.setdefault(m.group(1), [])
                if (m.group(3), m.group(2)) not in lst:
                    lst.append((m.group(3), m.group(2)))
                continue
            m = _node.match(line)
            if m and "style = filled" in line:
                h = _hist.search(line)
                inits[m.group(1)] = h.group(1)
    return edges, inits


def walks(edges, inits, depth):
    """All maximal walks (lists of labels) of length <= depth from every init node, with their root."""
    out = []

    def rec(node, path, root):
        nxt = edges.get(node, []) if len(path) < depth else []
        if not nxt:
            out.append((root, list(path)))
            return
        for lab, dst in nxt:
            path.append(lab)
            rec(dst, path, root)
            path.pop()

    for nid, root in sorted(inits.items(), key=lambda kv: kv[1]):
        rec(nid, [], root)
    return out


def canon_label(lab):
    """'Add(1, 2, 3)' -> ('Add', [1,2,3], 'Add(1,2,3)')"""
    m = re.match(r"^([A-Za-z_0-9]+)(?:\((.*)\))?$", lab.strip())
    name = m.group(1)
    args = [int(x) for x in m.group(2).split(",")] if m.group(2) else []
    return name, args, "%s(%s)" % (name, ",".join(str(a) for a in args))
