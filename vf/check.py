"""Entry point:  python -m vf.check C28 --tier quick|thorough [--replay PATH]

exit 0: property held on everything explored (KNOWN-FINDING lines may have been printed)
exit 1: VIOLATION property=<id> replay=<path> printed
exit 2: machinery failure (TLC crash / timeout / harness bug) -- not a verdict
"""
import argparse
import importlib
import os
import sys
import traceback
import warnings

os.environ.setdefault("PYTHONHASHSEED", "0")
os.environ.setdefault("ONSAGER_VERIF", "1")

from . import core, tlc  # noqa: E402


def main(argv=None):
    ap = argparse.ArgumentParser()
    ap.add_argument("pid")
    ap.add_argument("--tier", default=os.environ.get("VERIF_TIER", "quick"))
    ap.add_argument("--seed", type=int, default=int(os.environ.get("VERIF_SEED", "0") or 0))
    ap.add_argument("--replay", default=None)
    a = ap.parse_args(argv)
    if a.tier not in ("quick", "thorough"):
        a.tier = "quick"
    core.onsager_path()
    warnings.simplefilter("ignore")
    ctx = core.Ctx(a.pid, a.tier, a.seed, a.replay)
    try:
        mod = importlib.import_module("vf.drivers." + a.pid.lower())
        mod.run(ctx)
        rc = ctx.finish(getattr(mod, "LEVEL", "model_checking"))
    except tlc.TLCError as ex:
        print("MACHINERY-FAILURE property=%s: %s" % (a.pid, ex), file=sys.stderr)
        rc = 2
    except Exception as ex:
        traceback.print_exc()
        frames = traceback.extract_tb(ex.__traceback__)
        inner = frames[-1] if frames else None
        libframes = [f for f in frames if os.sep + "onsager" + os.sep in f.filename]
        if inner is not None and libframes and (os.sep + "onsager" + os.sep in inner.filename or
                                                os.sep + "site-packages" + os.sep in inner.filename or
                                                "numpy" in inner.filename or "scipy" in inner.filename):
            # raised INSIDE the library (or in numpy/scipy called from it) on an input of the check that is legal and
            # works on the reference tree: the package failed, not the harness
            where = libframes[-1]
            ctx.case("raised-in-library")
            ctx.violation("raised|%s|%s:%s" % (type(ex).__name__, os.path.basename(where.filename), where.name),
                          "the package raised %s: %s in %s (%s line %s) while the check was driving it with a legal "
                          "input" % (type(ex).__name__, ex, where.name, os.path.basename(where.filename), where.lineno),
                          {"traceback": traceback.format_exc()[-4000:]})
            try:
                rc = ctx.finish(getattr(sys.modules.get("vf.drivers." + a.pid.lower()), "LEVEL", "model_checking"))
            except Exception:      # noqa: BLE001
                traceback.print_exc()
                rc = 1
        else:
            print("MACHINERY-FAILURE property=%s (harness exception)" % a.pid, file=sys.stderr)
            rc = 2
    finally:
        tlc.cleanup()
    print("%s tier=%s seed=%d: %s (evaluations=%d, nontrivial=%d, states=%d, traces=%d, %.1fs)" % (
        a.pid, a.tier, a.seed, {0: "OK", 1: "VIOLATION", 2: "MACHINERY-FAILURE"}[rc], ctx.evaluations,
        len(ctx.nontrivial), ctx.states, ctx.traces, __import__("time").time() - ctx.t0))
    return rc


if __name__ == "__main__":
    sys.exit(main())
