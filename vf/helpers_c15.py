"""Case runner shared by the C15 and C25 drivers.

Same contract as tlc.run_cases, but TLC's PrintT wraps every value wider than 80 columns over several lines
(`<< "FAIL",` / `   12,` / `   <<"clause", 3>> >>`), which TLCResult.prints (one line = one value) does not see.
Here wrapped values are re-joined before parsing, so clause names and payloads may have any length.
"""
import json
import os
from concurrent.futures import ThreadPoolExecutor

from . import tlc


def prints_ml(out, tag=None):
    """All PrintT outputs that are tuples starting with a string tag, wrapped or not."""
    res, buf, depth = [], None, 0
    for line in out.splitlines():
        s = line.strip()
        if buf is None:
            if not (s.startswith('<<"') or s.startswith('<< "')):
                continue
            buf, depth = [], 0
        buf.append(s)
        depth += _depth(s)
        if depth <= 0:
            text = " ".join(buf)
            buf = None
            if depth == 0:
                try:
                    v = tlc.parse_tla_value(text)
                except Exception:      # noqa: BLE001 -- not a value printed by a check
                    continue
                if isinstance(v, list) and v and isinstance(v[0], str) and (tag is None or v[0] == tag):
                    res.append(v)
    return res


def _depth(s):
    """Net bracket depth of a line, ignoring brackets inside string literals."""
    d, i, instr = 0, 0, False
    while i < len(s):
        ch = s[i]
        if instr:
            if ch == "\\":
                i += 1
            elif ch == '"':
                instr = False
        elif ch == '"':
            instr = True
        elif s.startswith("<<", i):
            d += 1
            i += 1
        elif s.startswith(">>", i):
            d -= 1
            i += 1
        elif ch in "{[(":
            d += 1
        elif ch in "}])":
            d -= 1
        i += 1
    return d


def run_cases(spec, cases, shards=8, timeout=1800, extra_env=None, keep=()):
    """Returns (fails: {case index: [payloads]}, infos: {case index: {name: value}}, results, kept) where
    kept[tag] = [(case index, parsed tuple), ...] for every tag in `keep` (second element of the tuple = case number)."""
    n = len(cases)
    kept = {t: [] for t in keep}
    if n == 0:
        return {}, {}, [], kept
    shards = max(1, min(shards, n))
    parts = [list(range(i, n, shards)) for i in range(shards)]

    def one(part):
        wd = tlc.scratch()
        cf = os.path.join(wd, "cases.json")
        with open(cf, "w") as f:
            json.dump([cases[i] for i in part], f)
        env = {"CASE_FILE": cf}
        if extra_env:
            env.update(extra_env)
        res = tlc.run(spec, "INIT Init\nNEXT Next\n", workers=1, timeout=timeout, env=env, workdir=wd)
        res.ml = prints_ml(res.out)
        done = [p for p in res.ml if p[0] == "DONE"]
        if not res.clean() or not done or done[-1][1] != len(part):
            raise tlc.TLCError("case run of %s did not complete:\n%s" % (spec, res.out[-5000:]))
        return part, res

    fails, infos, results = {}, {}, []
    with ThreadPoolExecutor(max_workers=shards) as ex:
        for part, res in ex.map(one, parts):
            results.append(res)
            for p in res.ml:
                if p[0] == "FAIL":
                    fails.setdefault(part[p[1] - 1], []).append(p[2])
                elif p[0] == "INFO":
                    infos.setdefault(part[p[1] - 1], {})[p[2]] = p[3]
                elif p[0] in kept:
                    kept[p[0]].append((part[p[1] - 1], p))
    return fails, infos, results, kept
