"""Helpers shared by the C24 (star sets) and C26 (omega1/omega2 networks) drivers.

Everything here only prepares inputs and projects implementation objects onto exact integers
(pair states <<i, j, R>> 1-based, displacements in grid units); no verdict is computed here.
"""
import itertools

import numpy as np

from . import worlds
from .tlc import to_tla


def setup_world(w, rng, chem=None, jitter=0.0):
    """Realise world w in a random orientation; returns dict(crys, unit, ow, chem) with ow the world read
    back from the Crystal (the one all projections refer to).  chem = the species whose sublattice carries
    the vacancy (default: seeded choice among species)."""
    crys, unit = worlds.realise(w, rng, jitter=jitter)
    ow = worlds.observe(crys, unit, Dhint=w["D"])
    if chem is None:
        chem = rng.randrange(len(ow["basis"]))
    return {"crys": crys, "unit": unit, "ow": ow, "chem": chem, "name": w.get("name", "?")}


def shell_d2(ow, chem, box=3):
    """Sorted distinct squared site-site distances on sublattice chem, in integer units (grid^2 * metric)."""
    M = np.array(ow["M"])
    D = ow["D"]
    B = [np.array(u) for u in ow["basis"][chem]]
    d2 = set()
    for a in B:
        for b in B:
            for R in itertools.product(range(-box, box + 1), repeat=ow["dim"]):
                v = b - a + D * np.array(R)
                q = int(v @ M @ v)
                if q > 0:
                    d2.add(q)
    return sorted(d2)


def cutoff_for(S, nshell):
    """Cartesian cutoff that includes the first nshell distance shells; the squared cutoff is a half-integer in
    the exact units, so it can never lie on a shell."""
    ow = S["ow"]
    d2 = shell_d2(ow, S["chem"])
    a = d2[min(nshell, len(d2)) - 1]
    return float(np.sqrt((a + 0.5) / ow["q"]) / ow["D"] * S["unit"])


def ps_project(S, PS, what="pair state"):
    """PairState -> [i, j, R] (1-based sites) after checking the types the library promises."""
    R = np.asarray(PS.R)
    if R.shape != (S["ow"]["dim"],) or not np.issubdtype(R.dtype, np.integer):
        raise worlds.ProjectionError("%s has lattice vector %r (shape/dtype)" % (what, PS.R))
    return [int(PS.i) + 1, int(PS.j) + 1, [int(x) for x in R]]


def dx_project(S, dx, what="displacement"):
    return worlds.vec_lattice(S["crys"], np.asarray(dx, dtype=float), S["ow"]["D"], what)


def jump_project(S, ij, dx):
    """((i,j), dx) of a crystal jump network -> pair state [i, j, R]."""
    ow, chem = S["ow"], S["chem"]
    g = np.array(dx_project(S, dx, "jump vector"))
    ui, uj = np.array(ow["basis"][chem][ij[0]]), np.array(ow["basis"][chem][ij[1]])
    r = g - uj + ui
    if np.any(r % ow["D"] != 0):
        raise worlds.ProjectionError("jump %s %s does not connect the named sites" % (ij, g.tolist()))
    return [int(ij[0]) + 1, int(ij[1]) + 1, [int(x) for x in r // ow["D"]]]


def network(S, rng, nshell=1, subset=False):
    """The library's own jump network for the sublattice, optionally thinned to a subset of its symmetry
    classes (still a symmetric network); returns (jumpnetwork, projected classes)."""
    jn = S["crys"].jumpnetwork(S["chem"], cutoff_for(S, nshell))
    if subset and len(jn) > 1:
        keep = [k for k in range(len(jn)) if rng.random() < 0.6]
        if not keep:
            keep = [rng.randrange(len(jn))]
        jn = [jn[k] for k in keep]
    proj = [[jump_project(S, ij, dx) for ij, dx in cl] for cl in jn]
    return jn, proj


def lattice_form(S, jn):
    """The same network in the ((i,j), R) form accepted with lattice=True."""
    return [[(ij, np.array(jump_project(S, ij, dx)[2], dtype=int)) for ij, dx in cl] for cl in jn]


def saturates(proj, upto=5):
    """Does the set of reachable pair states stop growing (a network that does not percolate)?  Only used to
    label violation keys; the verdicts come from TLC."""
    J = [(s[0], s[1], tuple(s[2])) for cl in proj for s in cl]
    reach, shell = set(J), set(J)
    for _ in range(upto):
        nxt = set()
        for (i, j, R) in shell:
            for (a, b, R2) in J:
                if a == j:
                    s = (i, b, tuple(x + y for x, y in zip(R, R2)))
                    if not (s[0] == s[1] and not any(s[2])) and s not in reach:
                        nxt.add(s)
        if not nxt:
            return True
        reach |= nxt
        shell = nxt
    return False


def world_tla(ow):
    return "[dim |-> %d, M |-> %s, D |-> %d, basis |-> %s]" % (
        ow["dim"], to_tla(ow["M"]), ow["D"], to_tla(ow["basis"]))


def family(name):
    """World family for violation keys: catalogue name, or the lattice of a random world."""
    if name.startswith("rnd-"):
        return "rnd-" + name.split("-")[1]
    return name
