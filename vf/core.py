"""Check context: evidence, violations, known findings, replays."""
import fnmatch
import hashlib
import json
import os
import random
import sys
import time

VERIF = os.path.dirname(os.path.dirname(os.path.abspath(__file__)))
FINDINGS = os.path.join(VERIF, "KNOWN_FINDINGS.jsonl")
# runs against seeded changes (bin/mutant) must not overwrite the evidence of the real tree
OUT = "/tmp/vf_mutant_out" if os.environ.get("VF_NO_EVIDENCE") else VERIF


def load_findings():
    out = []
    if os.path.exists(FINDINGS):
        for line in open(FINDINGS):
            line = line.strip()
            if line and not line.startswith("#"):
                out.append(json.loads(line))
    return out


def canon(obj):
    return json.dumps(obj, sort_keys=True, separators=(",", ":"), default=str)


def sha(obj):
    return hashlib.sha1(canon(obj).encode()).hexdigest()[:16]


class Ctx:
    """One run of one property's check."""

    def __init__(self, pid, tier="quick", seed=0, replay=None):
        self.pid = pid
        self.tier = tier
        self.seed = seed
        self.replay = replay
        self.rng = random.Random("%s-%d" % (pid, seed))
        self.t0 = time.time()
        self.states = 0
        self.transitions = 0
        self.traces = 0
        self.evaluations = 0
        self.nontrivial = set()
        self.samples = []
        self.violations = []
        self.known_hits = []
        self.assumptions = []
        self.checker_cmds = []
        self.extra = {}
        self.rule = ""
        self.exhaustive = False
        self._findings = [f for f in load_findings() if f.get("property") == pid]

    # ---- accounting
    def add_model(self, res):
        """Account a TLC model-checking run."""
        self.states += res.distinct
        self.transitions += res.generated
        if len(self.checker_cmds) < 4:
            self.checker_cmds.append(res.cmd)

    def case(self, key=None, nontrivial=True):
        self.evaluations += 1
        if nontrivial and key is not None:
            self.nontrivial.add(key if isinstance(key, (str, int, tuple)) else sha(key))

    def sample(self, s, cap=4):
        if len(self.samples) < cap:
            self.samples.append(s)

    def info(self, k, v):
        self.extra[k] = v

    # ---- verdicts
    def violation(self, key, what, payload=None):
        """Record a violation. `key` identifies the failing input/call site/history canonically.

        If a 'known' entry of KNOWN_FINDINGS.jsonl has this key (or its key is a prefix ending in '*'),
        the violation is reported as KNOWN-FINDING and does not fail the run.
        """
        for f in self._findings:
            if f.get("status") != "known":
                continue
            fk = f["key"]
            if fk == key or ("*" in fk and fnmatch.fnmatchcase(key, fk.replace("[", "[[]"))):
                if fk not in [h["key"] for h in self.known_hits]:
                    self.known_hits.append(f)
                    print("KNOWN-FINDING: property=%s %s" % (self.pid, f["what"]), flush=True)
                return False
        rid = sha([key, what])
        d = os.path.join(OUT, "replays", self.pid)
        os.makedirs(d, exist_ok=True)
        path = os.path.join(d, rid + ".json")
        with open(path, "w") as fh:
            json.dump({"property": self.pid, "key": key, "what": what, "tier": self.tier,
                       "seed": self.seed, "payload": payload}, fh, indent=1, default=str)
        if key not in [v[0] for v in self.violations]:
            self.violations.append((key, what, path))
            print("VIOLATION property=%s replay=%s" % (self.pid, path), flush=True)
            print("  key=%s\n  what=%s" % (key, str(what)[:1500]), flush=True)
        return True

    def finish(self, level="model_checking"):
        cov = {
            "states": max(self.states, 0),
            "transitions": max(self.transitions, 0),
            "traces_validated_against_impl": self.traces,
            "evaluations": self.evaluations,
            "distinct_nontrivial": len(self.nontrivial),
            "rule": self.rule,
            "samples": self.samples or ["(no sample recorded)"],
            "exhaustive": self.exhaustive,
            "checker_cmd": " ;; ".join(self.checker_cmds)[:3000],
            "known_findings_hit": [h["key"] for h in self.known_hits],
        }
        cov.update(self.extra)
        ev = {
            "property_id": self.pid, "tier": self.tier, "seed": self.seed, "level": level,
            "coverage": cov, "assumptions": self.assumptions,
            "wall_s": round(time.time() - self.t0, 2), "violations": len(self.violations),
        }
        os.makedirs(os.path.join(OUT, "evidence"), exist_ok=True)
        with open(os.path.join(OUT, "evidence", self.pid + ".json"), "w") as fh:
            json.dump(ev, fh, indent=1, default=str)
        return 1 if self.violations else 0


def onsager_path():
    """Import onsager from /repo's working tree (env ONSAGER_REPO overrides, for scratch worktrees)."""
    repo = os.environ.get("ONSAGER_REPO", "/repo")
    if repo not in sys.path:
        sys.path.insert(0, repo)
    return repo
