"""Per-property registration used to generate MANIFEST.json (python -m vf.manifest)."""

CLAIMS = {
    "C28": dict(
        technique="TLA+ object state machine (SupercellOcc) model-checked by TLC; every state-graph edge replayed "
                  "on real Supercell objects; random histories trace-validated by TLC",
        text="Exhaustive TLC exploration of the occupancy state machine on 2-4-site supercells with 0-2 solutes and "
             "an interstitial sublattice (invariants Sane, Placeable, POSCAR round trip), each labelled edge replayed "
             "through the public API with the full (occ, chemorder) projection compared; random 60-80 step histories "
             "on 8-32-site supercells validated against the same module. Bounded-exhaustive plus sampled.",
        note="Trusts TLC, the DOT dump, and that Supercell behaviour depends only on (occ, chemorder) for state "
             "injection in edge replay (API-only random histories do not need that assumption). Symmetry "
             "permutations are taken from sup.G (their geometric correctness is C27).",
        design="4/C28"),
}

NOT_YET = "check not built yet in this round (planned in DESIGN.md section 4)"
