"""Per-property registration used to generate MANIFEST.json (python -m vf.manifest)."""

CLAIMS = {
    "C28": dict(
        technique="TLA+ object state machine (SupercellOcc) model-checked by TLC; every state-graph edge replayed "
                  "on real Supercell objects; random histories trace-validated by TLC",
        text="Exhaustive TLC exploration of the occupancy state machine on 2-4-site supercells with 0-2 solutes and "
             "an interstitial sublattice (invariants Sane, Placeable, POSCAR round trip), each labelled edge replayed "
             "through the public API with the full (occ, chemorder) projection compared; random 60-80 step histories "
             "on 8-32-site supercells validated against the same module. Bounded-exhaustive plus sampled.",
        note="Trusts TLC, the DOT dump, and that Supercell behaviour depends only on (occ, chemorder) for state "
             "injection in edge replay (API-only random histories do not need that assumption). Symmetry "
             "permutations are taken from sup.G (their geometric correctness is C27).",
        design="4/C28"),
    "C32": dict(
        technique="TLA+ model of the interaction-list evaluator (Sampler.tla) on tables extracted from the real "
                  "sampler; TLC invariant EnergyIsBrute over every occupation against geometry-enumerated cluster "
                  "instances; every state replayed through all four evaluators",
        text="For each small supercell (4-8 mobile sites; spectators; fixed vacancy; clusters that wrap through the "
             "periodic boundary) TLC visits EVERY mobile occupation and checks that the energy computed from the real "
             "sampler's interaction tables equals the brute-force sum over cluster instances enumerated from positions "
             "alone; each state is replayed on evalcluster, expandcluster_matrices and MonteCarloSampler.E(), which "
             "must all return the model value exactly (integer cluster values).",
        note="Trusts TLC and the harness's position-based cluster-instance enumerator (it uses the Cluster objects "
             "produced by makeclusters as the definition of 'the clusters', which is C31's subject). Cluster values are "
             "even integers so that all energies are exact in floating point.",
        design="4/C32"),
    "C33": dict(
        technique="TLA+ object state machine (Sampler.tla) mirroring start/update/deltaE_trial; TLC exhaustive over all "
                  "occupations and updates; every edge replayed on the real sampler; random histories trace-validated",
        text="Exhaustive reachable-state exploration (all occupations; all single-site, swap and sampled multi-site "
             "updates; vacancy error paths) of the model parameterised by the real sampler's tables, with invariants "
             "CntIsFunctionOfOcc, SetsPartition, ObsIsFunctionOfOcc, DeltaEExact; each labelled edge replayed on the "
             "real MonteCarloSampler comparing clustercount, occ, both site sets, E, transitions and the trial energy "
             "change; 200-step random histories on 18-site supercells validated by TLC.",
        note="Trusts TLC and the DOT dump; edge replay reaches a source state with start(occ) (API), so no state "
             "injection is used for the reference sampler.",
        design="4/C33"),
    "C34": dict(
        technique="TLC invariants DetailedBalance / DetailedBalanceVac of Sampler.tla on the jump tables extracted from "
                  "real samplers (one table per vacancy position), all occupations; every state replayed on the real "
                  "samplers",
        text="For every occupation of small supercells and every listed transition TLC checks barrier(fwd) - "
             "barrier(rev from the final configuration) = E(final) - E(initial) on the extracted tables, with and "
             "without vacancy, TS clusters and KRA values; the real samplers are then driven through every state and "
             "transition and must report the model's barriers, the reverse transition with opposite displacement, and "
             "exact balance.",
        note="Trusts TLC; integer values make all sums exact. Two too-narrow supercells are recorded as known findings "
             "(see KNOWN_FINDINGS.jsonl).",
        design="4/C34"),
    "C35": dict(
        technique="TLA+ refinement (SamplerJit.tla extends Sampler.tla with the compiled sampler's arrays); TLC "
                  "exhaustive; every edge replayed on compiled and reference samplers in lockstep; API-only random "
                  "histories trace-validated",
        text="TLC explores all occupations x array orders reachable by start, swap updates and Metropolis batches, "
             "checking IndexConsistent, JDeltaEqRef, JTransEqRef; each edge is replayed on a real "
             "MonteCarloSampler_jit and the reference sampler: arrays, index table, counters, E, deltaE_trial, "
             "transitions (forbidden = inf) and batch == move-by-move are compared with the model and each other; "
             "120-step API-only histories on 18-site supercells are validated by TLC.",
        note="Edge replay injects the source state into the compiled sampler's arrays (jitclass attributes); the "
             "API-only traces do not. Trusts TLC and numba attribute access.",
        design="4/C35"),
}

NOT_YET = "check not built yet in this round (planned in DESIGN.md section 4)"
