"""Per-property registration used to generate MANIFEST.json (python -m vf.manifest)."""

CLAIMS = {
    "C28": dict(
        technique="TLA+ object state machine (SupercellOcc) model-checked by TLC; every state-graph edge replayed "
                  "on real Supercell objects; random histories trace-validated by TLC",
        text="Exhaustive TLC exploration of the occupancy state machine on 2-4-site supercells with 0-2 solutes and "
             "an interstitial sublattice (invariants Sane, Placeable, POSCAR round trip), each labelled edge replayed "
             "through the public API with the full (occ, chemorder) projection compared; random 60-80 step histories "
             "on 8-32-site supercells validated against the same module. Bounded-exhaustive plus sampled.",
        note="Trusts TLC, the DOT dump, and that Supercell behaviour depends only on (occ, chemorder) for state "
             "injection in edge replay (API-only random histories do not need that assumption). Symmetry "
             "permutations are taken from sup.G (their geometric correctness is C27).",
        design="4/C28"),
    "C32": dict(
        technique="TLA+ model of the interaction-list evaluator (Sampler.tla) on tables extracted from the real "
                  "sampler; TLC invariant EnergyIsBrute over every occupation against geometry-enumerated cluster "
                  "instances; every state replayed through all four evaluators",
        text="For each small supercell (4-8 mobile sites; spectators; fixed vacancy; clusters that wrap through the "
             "periodic boundary) TLC visits EVERY mobile occupation and checks that the energy computed from the real "
             "sampler's interaction tables equals the brute-force sum over cluster instances enumerated from positions "
             "alone; each state is replayed on evalcluster, expandcluster_matrices and MonteCarloSampler.E(), which "
             "must all return the model value exactly (integer cluster values).",
        note="Trusts TLC and the harness's position-based cluster-instance enumerator (it uses the Cluster objects "
             "produced by makeclusters as the definition of 'the clusters', which is C31's subject). Cluster values are "
             "even integers so that all energies are exact in floating point.",
        design="4/C32"),
    "C33": dict(
        technique="TLA+ object state machine (Sampler.tla) mirroring start/update/deltaE_trial; TLC exhaustive over all "
                  "occupations and updates; every edge replayed on the real sampler; random histories trace-validated",
        text="Exhaustive reachable-state exploration (all occupations; all single-site, swap and sampled multi-site "
             "updates; vacancy error paths) of the model parameterised by the real sampler's tables, with invariants "
             "CntIsFunctionOfOcc, SetsPartition, ObsIsFunctionOfOcc, DeltaEExact; each labelled edge replayed on the "
             "real MonteCarloSampler comparing clustercount, occ, both site sets, E, transitions and the trial energy "
             "change; 200-step random histories on 18-site supercells validated by TLC.",
        note="Trusts TLC and the DOT dump; edge replay reaches a source state with start(occ) (API), so no state "
             "injection is used for the reference sampler.",
        design="4/C33"),
    "C34": dict(
        technique="TLC invariants DetailedBalance / DetailedBalanceVac of Sampler.tla on the jump tables extracted from "
                  "real samplers (one table per vacancy position), all occupations; every state replayed on the real "
                  "samplers",
        text="For every occupation of small supercells and every listed transition TLC checks barrier(fwd) - "
             "barrier(rev from the final configuration) = E(final) - E(initial) on the extracted tables, with and "
             "without vacancy, TS clusters and KRA values; the real samplers are then driven through every state and "
             "transition and must report the model's barriers, the reverse transition with opposite displacement, and "
             "exact balance.",
        note="Trusts TLC; integer values make all sums exact. Two too-narrow supercells are recorded as known findings "
             "(see KNOWN_FINDINGS.jsonl).",
        design="4/C34"),
    "C35": dict(
        technique="TLA+ refinement (SamplerJit.tla extends Sampler.tla with the compiled sampler's arrays); TLC "
                  "exhaustive; every edge replayed on compiled and reference samplers in lockstep; API-only random "
                  "histories trace-validated",
        text="TLC explores all occupations x array orders reachable by start, swap updates and Metropolis batches, "
             "checking IndexConsistent, JDeltaEqRef, JTransEqRef; each edge is replayed on a real "
             "MonteCarloSampler_jit and the reference sampler: arrays, index table, counters, E, deltaE_trial, "
             "transitions (forbidden = inf) and batch == move-by-move are compared with the model and each other; "
             "120-step API-only histories on 18-site supercells are validated by TLC.",
        note="Edge replay injects the source state into the compiled sampler's arrays (jitclass attributes); the "
             "API-only traces do not. Trusts TLC and numba attribute access.",
        design="4/C35"),
}

_REL_NOTE = ("Trusts TLC, spec/rel/Fx.tla two-limb arithmetic and the Python projection (A^-1 T A^-T, "
             "round(x/scale*1e10)); point group = definitional group of the observed world (World.OpsRT). PSD is decided "
             "on all integer directions in -3..3 plus a certificate direction, not by an exact eigenvalue bound.")

CLAIMS.update({
    "C18": dict(
        technique="definitional integer crystal model (World.tla) evaluated by TLC on the world read back from each "
                  "constructed Crystal; every reported operation projected to integers and checked clause by clause",
        text="Catalogue + random decorated 2D/3D worlds (1-3 species, scalar and vector spins, strained metrics) in "
             "random orientations x {default, noreduce, NOSYM, jitter}: TLC decides isometry, atom/species/spin mapping, "
             "indexmap = geometric permutation, Cartesian = lattice rotation, distinctness and the group axioms modulo "
             "lattice translations (Check_C18.tla). Completeness vs the definitional group is reported, not judged.",
        note="Trusts TLC and the projection (integrality asserted, never rounded silently). Spin compatibility is "
             "'up to one real global phase per operation' (the library's documented semantics).",
        design="4/C18"),
    "C03": dict(
        technique="transported tensors (exact fixed point) checked by TLC: symmetry, invariance under the definitional "
                  "point group (integer matrices), PSD (Check_Rel.tla)",
        text="Interstitial diffusivity, rank-4 elastodiffusion tensor and all four vacancy-mediated tensors (default, "
             "fast-exchange and forced large-omega2 algorithm) on catalogue worlds in random orientations with dyadic "
             "data incl. rate ratios 2^+-20; every clause decided by TLC in lattice coordinates.",
        note=_REL_NOTE, design="4/C03"),
    "C04": dict(
        technique="TLA+ protocol Invariance.tla (all transformation sequences, lemma RateExponent model-checked); every "
                  "node of its TLC state graph replayed on real calculators; scaling relation decided by Check_Rel.tla",
        text="Species reference shifts, joint prefactor scalings, kT co-scalings, rate scalings and symmetry-preserving "
             "site displacements (depth <= 2-3) on interstitial and vacancy-mediated calculators; result(node) = "
             "2^rate * result(root) entrywise.",
        note=_REL_NOTE + " Displacements are replayed for Interstitial only (network carried over in lattice form).",
        design="4/C04"),
    "C05": dict(
        technique="single-class transition-state decrements enumerated; PSD of the difference decided by TLC "
                  "(Check_Rel.tla)",
        text="Every interstitial / omega0 / omega1 / omega2 class lowered individually by 1 or 3 levels from random "
             "dyadic bases, including bases in the large-omega2 regime (default and forced).",
        note=_REL_NOTE, design="4/C05"),
    "C06": dict(
        technique="tracer data from maketracerpreene; identities Lsv=-L0vv, L1vv=0, 0<=Lss<=L0vv decided by TLC "
                  "(Check_Rel.tla)",
        text="All vacancy worlds (Bravais, multi-site, origin states), Nthermo 1-2, random vacancy site energies and "
             "omega0 barriers per class.",
        note=_REL_NOTE + " Worlds with origin states use the tolerance measured for the default k-mesh (1e-4..2e-5).",
        design="4/C06"),
    "C07": dict(
        technique="one tag dictionary given to calculators of range N and N+1; equality of all four tensors decided by "
                  "TLC (Check_Rel.tla)",
        text="Random dyadic data on every class of the smaller calculator under random member tags, random omega1/2 "
             "classes left to the default back-fill; (1,2) and (2,3) range pairs.",
        note=_REL_NOTE, design="4/C07"),
    "C08": dict(
        technique="omega2 prefactor sweep 1e-3..1e16 x {standard, large, default}; agreement, default-is-one-of, "
                  "finiteness/symmetry and smoothness decided by TLC (Check_Rel.tla)",
        text="Agreement of the two algorithms for k<=8 to 1e-6, default bit-equal to one forced result, default finite "
             "and symmetric, consecutive decades within 1e-4 for k>=9.",
        note=_REL_NOTE + " Smoothness of Lsv/L1vv is a recorded known finding (precision loss ~1e-17*omega2).",
        design="4/C08"),
})

_WORLD_NOTE = ("Trusts TLC, the definitional model spec/world/World.tla (validated on the model level: group axioms, "
               "orbit partitions) and the Python projection onto the integer grid (integrality asserted).")

CLAIMS.update({
    "C19": dict(
        technique="exact supercell descriptions (every sublattice of index 2..6, re-described by random unimodular "
                  "matrices) constructed as Crystals; invariants decided by TLC against the definitional model "
                  "(World/SuperW/Check_C19.tla)",
        text="For each primitive world and each supercell description (shuffled atoms, jitter <= 1e-10, either "
             "handedness, random orientation) TLC decides: construction succeeds, volume per atom and atoms per "
             "primitive cell per species preserved, result primitive, right-handed, pairwise and Minkowski reduced, "
             "group order equals that of the primitive description and the definitional order of the result.",
        note=_WORLD_NOTE, design="4/C19"),
    "C23": dict(
        technique="every API route for conversions and symmetry actions evaluated on real objects and compared by TLC "
                  "with the exact integer action of the definitional model (Geom.tla / Check_C23.tla)",
        text="~40 routes (pos2cart/cart2pos/unit2cart/cart2unit, g_pos/g_vect/g_cart/g_direc/g_tensor, PairState.g, "
             "ClusterSite.g, g*h, g.inv(), g+L) on catalogue and random worlds, plain / translated / product / inverse "
             "operations, site, grid-point, direction, tensor and pair-state probes.",
        note=_WORLD_NOTE, design="4/C23"),
    "C27": dict(
        technique="definitional supercell model (SuperW.tla): induced site permutations and Equivalent(a,b) decided by "
                  "TLC; real Supercell.G and equivalencemap results checked clause by clause (Check_C27.tla)",
        text="SC/FCC/HCP/B2/interstitial supercells (diagonal and non-diagonal, 0-2 solutes): every sup.G element is "
             "the geometric permutation; for related (lmul/rmul/imul, stale caches), unrelated, defect-free and random "
             "occupation pairs TLC decides soundness (g and mapping transform exactly) and completeness (None iff no "
             "operation exists).",
        note=_WORLD_NOTE, design="4/C27"),
    "C36": dict(
        technique="recorded ==, !=, hash and arithmetic tables of instance pools checked by TLC against the laws "
                  "(EqLaws.tla) and the definitional pair-state algebra (Geom.tla / Check_C36.tla)",
        text="Pools of GroupOp (incl. other crystals on the same lattice, translated copies), PairState, ClusterSite, "
             "Cluster, vacancyThermoKinetics instances incl. near-equal floats (1e-14 equal / 1e-3 different, never "
             "the tolerance boundary): equivalence relation, != negation, equal => equal hash, set semantics; "
             "pair-state identities and commutation with symmetry operations.",
        note=_WORLD_NOTE + " For vacancyThermoKinetics near-equal keys may compare either way (exact cache keys).",
        design="4/C36"),
    "C13": dict(
        technique="VMCalc.tla histories restricted to {Lij, one SaveLoad, ClearCache} replayed with the original and "
                  "the reloaded object in lockstep; bit patterns compared by TLC; HDF5/YAML value round trips",
        text="Every history (depth 4-6) over 2 inputs with one HDF5 save/reload before or after cache population; "
             "original (deep copy) and reloaded calculators receive the same later calls; all four tensors bit-identical "
             "and tags equal. Round trips of GFCrystalcalc, StarSet, VectorStarSet, Taylor (HDF5) and Crystal, GroupOp, "
             "PairState, ClusterSite, Cluster (YAML) on 7-14 worlds incl. crystals that went through reduce().",
        note="Trusts TLC (string equality of IEEE-754 hex), h5py in-memory files, copy.deepcopy as 'the original object'.",
        design="4/C13"),
    "C14": dict(
        technique="TLA+ object state machine VMCalc.tla; every path of its TLC state graph replayed on a real "
                  "calculator; results compared by TLC (Check_Rel.tla) with a fresh calculator's F(range, input)",
        text="All histories (depth 3 quick / 5 thorough) of Lij over a pool of inputs (one pair nearly identical), "
             "in-place overwrites of returned arrays, cache clears, range regeneration and save/reload.",
        note=_REL_NOTE + " Prefixes are shared through copy.deepcopy (preserves aliasing between returned arrays "
                         "and internals).",
        design="4/C14"),
})

CLAIMS.update({
    "C02": dict(
        technique="exact finite-Markov-chain oracle in TLA+ with big-integer arithmetic (BigInt.tla, Check_C02.tla): TLC "
                  "verifies a Poisson-equation certificate exactly, recomputes D and compares the transported result; "
                  "plus GF-calculator agreement (Check_Rel.tla)",
        text="Dyadic energies/prefactors make every rate rational and every jump vector an integer vector in grid "
             "coordinates; the harness's fraction solve is untrusted (TLC checks Q eta = b exactly); the exact D covers "
             "the solve and pinv branches, several Wyckoff sets, disconnected networks; Interstitial.diffusivity must "
             "agree to 2e-7 and GFCrystalcalc.D to 1e-8.",
        note="Trusts TLC, BigInt.tla (plain TLA+ limb arithmetic), the projection of jump vectors to grid integers. "
             "Decides the property on a dyadic input grid (levels 0..3, prefactor exponents 0..2), not on arbitrary reals.",
        design="4/C02"),
    "C09": dict(
        technique="equivalent descriptions (atom permutation, unimodular re-description, non-reduced supercell) with data "
                  "carried over by Cartesian class matching; equality decided by TLC (Check_Rel.tla)",
        text="Interstitial D on 7-15 worlds and the four vacancy-mediated tensors on 4-9 worlds (site/jump-class data, "
             "LIMB interactions), descriptions built with noreduce=True in the same Cartesian frame (rigid re-centring "
             "allowed).",
        note=_REL_NOTE + " Vacancy tolerance 5e-5 for sheared/supercell descriptions (coarser k-mesh), 2e-6 for "
                         "permutations; binding-energy data beyond site/jump classes are not carried over.",
        design="4/C09"),
})

CLAIMS.update({
    "C24": dict(
        technique="definitional pair-state model (Stars.tla: Reach, orbits, + - ^) and object state machine "
                  "StarSetObj.tla model-checked by TLC; every edge of its state graph replayed on real StarSet objects "
                  "with full projection of target, operands and bystanders (Check_C24.tla)",
        text="Generate / RegenerateSameN / Add / IAdd / Copy / CopyEmpty / DiffGenerate histories (ranges 2-4) on 13+ "
             "worlds (2D/3D, 1-4 site sublattices, with/without origin states, non-percolating networks): states = "
             "Reach, stars = complete orbits partitioning them, index/indexdict/stateindex/starindex consistent, sum = "
             "generation with the summed range, difference set contains every endpoint difference.",
        note=_WORLD_NOTE + " The jump network the library builds (projected to integers) is the input of the model; "
                           "its own correctness is C21.",
        design="4/C24"),
    "C26": dict(
        technique="definitional omega1/omega2 transition sets (Omega.tla) compared by TLC with the recorded networks "
                  "of StarSet.jumpnetwork_omega1/2 and VacancyMediated (Check_C26.tla)",
        text="J1 (vacancy jumps between non-zero states with an endpoint in the thermodynamic set) and J2 (exchanges) "
             "for N/Nthermo 1-3 on 15+ worlds: every transition in exactly one class, classes are single orbits closed "
             "under group and reversal, displacement = vacancy displacement, jump types and omegalist consistent.",
        note=_WORLD_NOTE, design="4/C26"),
})

CLAIMS.update({
    "C01": dict(
        technique="exact finite-Markov-chain oracles (lone vacancy; bound solute-vacancy pair with infinite dissociation "
                  "barriers) recomputed by TLC from exactly verified certificates (BigInt.tla, Check_C02.tla); tracer "
                  "identities by Check_Rel.tla; periodic one-solute/one-vacancy chain specified in PairChain.tla "
                  "(TLC: invariants, state graph = oracle's transitions), solved on three tori and "
                  "Richardson-extrapolated (vf/chain.py), compared by Check_Rel.tla",
        text="Claimed for the exactly solvable sub-families: (i) L0vv = exact lone-vacancy diffusivity for any dyadic "
             "vacancy data (multi-Wyckoff, non-zero bias correction); (ii) bound-pair limit (every omega1 class leaving "
             "the thermodynamic shell has an infinite barrier; data given through preene2betafree with non-zero solute "
             "reference): Lss = Lsv = exact finite pair-chain value for random binding / omega1 / omega2 levels, "
             "Nthermo 1-2; (iii) tracer limit; (iv) general interacting dyadic data with dissociation: Lss, Lsv and "
             "L1vv against the extrapolated periodic pair chain (resolution 3e-4 / 3e-4 / 3e-3 of the largest "
             "coefficient; unresolved cases are not judged) on Bravais, multi-site and polar worlds.",
        note="Trusts TLC, BigInt.tla; the bound-pair chain is built from the calculator's own omega1/omega2 networks "
             "(their correctness is C26). L1vv has no exact value in family (ii). Tolerances 2e-6 (Bravais) to 1e-4 "
             "(origin states) reflect the default k-mesh. Family (iv) is a numerical oracle (floating-point solve of "
             "a TLC-verified chain structure), not an exact one.",
        design="4/C01"),
    "C10": dict(
        technique="lattice diffusion equation as an integer-linear form in recorded Green-function values (dyadic "
                  "symmetrised rates), decided by TLC (Check_Rel.tla) on two k-meshes; symmetry, scaling, pole clauses; "
                  "GFObj.tla object machine (SetRates / Eval / SaveLoad / Copy) model-checked and every path replayed",
        text="Equation at every field point with |R|_inf <= 1 for every source/target site pair, Nmax 4 and 6 with "
             "measured tolerances (1e-3 / 2e-4 of the source term), endpoint symmetry, space-group invariance, inverse "
             "scaling under uniform rate scaling (1e-8), continuum pole within 8% at a quarter of the mesh period (3D). "
             "Object histories (depth 3-4, three inputs incl. one with identical symmetrised rates and one rescaled): "
             "G, D and the bias correction at every Eval equal those of a fresh calculator given the last input.",
        note=_REL_NOTE + " Space-group operations are taken from crys.G (sound by C18).",
        design="4/C10"),
    "C11": dict(
        technique="central differences with exact step 2^-12 in beta and in every lattice strain component on a strained "
                  "twin crystal; definitional dipole projection (Dipoles.tla, exact Reynolds average); decided by TLC "
                  "(Check_C11.tla)",
        text="Db = -dD/dbeta; elastodiffusion = strain derivative of the library's own diffusivity with E -> E - P:eps "
             "for populated dipoles, dx -> (1+eps)dx, on 11-29 networks incl. general-position monoclinic/orthorhombic "
             "sites; populated site/jump dipoles = symmetric projection on the representative carried by the group.",
        note=_REL_NOTE, design="4/C11"),
    "C12": dict(
        technique="moment identities (sum rule, first moment) as exact fractions, independently assembled symmetrised "
                  "rate matrix spectrum certified by exact traces; decided by TLC (Check_C12.tla)",
        text="Mode rates positive and equal to non-zero eigenvalues of the symmetrised rate matrix (and all such "
             "eigenvalues reported), compliance symmetries and PSD of each loss tensor, sum rule and first moment, on "
             "networks connecting inequivalent site types with different prefactors.",
        note=_REL_NOTE, design="4/C12"),
    "C15": dict(
        technique="TLA+ tag-dictionary model (TagMap.tla, TagMapObj.tla model-checked); TLC re-derives every scenario "
                  "dictionary and the expected arrays/reports and compares with tags2preene(VERBOSE) (Check_C15.tla)",
        text="Tag uniqueness and tag <-> symmetry-class binding by geometry (OpsRT orbits) for Interstitial and "
             "VacancyMediated; scenarios with 0/1/2 members supplied per class plus bogus tags (exhaustive 3^#classes "
             "on small structures, sampled on HCP, diamond, honeycomb, L1_2): array lengths, routed data, defaults, "
             "LIMB back-fill, missing / duplicate / bad reports.",
        note=_WORLD_NOTE, design="4/C15"),
    "C20": dict(
        technique="definitional stabilisers, orbits and character-formula dimensions (World/Sites.tla) vs pointG, Wyckoff, "
                  "Wyckoffpos, VectorBasis, SymmTensorBasis, addbasis; TLC-generated sweep over every subgroup of the "
                  "cubic / hexagonal / square / 2D-hexagonal holohedries (GenSiteSym.tla)",
        text="Catalogue, random, non-primitive and sweep worlds in random orientations (incl. the tilted-axis branches): "
             "pointG = stabiliser, Wyckoff sets = orbits, Wyckoffpos complete and duplicate free, bases of the right "
             "dimension, invariant under every stabiliser rotation and orthonormal, addbasis keeps the group.",
        note=_WORLD_NOTE + " Invariance is checked on fixed-point lattice coordinates to 8 units of 1e-8.",
        design="4/C20"),
    "C21": dict(
        technique="definitional jump set with rational point-segment obstruction (Jumps.tla) vs jumpnetwork / "
                  "jumpnetwork2lattice, decided by TLC (Check_C21.tla)",
        text="Every species, cutoffs midway between exact shells 1-4, scalar and per-species obstruction radii placed in "
             "gaps between exact distances: no jump beyond cutoff / obstructed / missing, each once, classes are single "
             "orbits closed under group and reversal, lattice form encodes the same jumps. Also skewed (unimodular, "
             "noreduce) descriptions of every catalogue world; there the two clauses that quantify over the group are "
             "judged only when TLC's bounded group enumeration is complete.",
        note=_WORLD_NOTE + " Where the obstruction reading is ambiguous (radius beyond the nearest site-atom distance) "
                           "the network must lie between the most and least obstructive readings.",
        design="4/C21"),
    "C22": dict(
        technique="mesh points as integers, Brillouin zone by the integer reciprocal metric with a TLC-verified box "
                  "certificate, orbit-weight identity equivalent to exact integration (KMesh.tla, Check_C22.tla)",
        text="All lattice families (incl. centred, rhombohedral, tilted, random integer lattices), even/odd/anisotropic "
             "meshes: full mesh is the uniform grid inside the zone, reduced weights positive, sum to one, and for every "
             "class of mesh points under the definitional point group weight*Nkpt sums to the class size.",
        note=_WORLD_NOTE, design="4/C22"),
    "C25": dict(
        technique="character-formula count and integer-rotation equivariance of transported vector stars (VecStars.tla), "
                  "expansions vs direct state-basis assembly with dyadic rates, decided by TLC (Check_C25.tla)",
        text="Number of vector stars = sum of invariant dimensions of star stabilisers (origin states included), "
             "orthonormality, equivariance under every definitional operation, GF / rate / escape / bias / bare "
             "expansions on omega1 and omega2 networks, aligned and random orientations.",
        note=_WORLD_NOTE + " The origin-state rows of the omega2-mode reference escape are a package convention and "
                           "are not decided.",
        design="4/C25"),
    "C31": dict(
        technique="definitional cluster sets modulo translation with orbits under OpsRT (Clusters.tla) vs makeclusters / "
                  "makeTSclusters / makeVacancyClusters; recorded ==/hash tables checked against geometric identity "
                  "(Check_C31.tla)",
        text="Complete, disjoint orbits of all clusters up to order K within cutoffs midway between shells, exclusions, "
             "vacancy and transition-state clusters closed under symmetry and reversal, equality/hash laws over "
             "reorderings, translates and near misses for all four cluster kinds.",
        note=_WORLD_NOTE, design="4/C31"),
})

CLAIMS.update({
    "C16": dict(
        technique="definitional polynomial algebra (Poly.tla) and object state machine TaylorObj.tla (pool of 3 expansions, "
                  "22 actions incl. in-place twins and slices); every history of its TLC graph replayed on live "
                  "Taylor3D and Taylor2D pools; exact evaluation at Pythagorean points decided by TLC; all class index "
                  "tables checked entry by entry (Check_C16.tla)",
        text="Sum, difference, negation, scalar/matrix products, product of expansions, slices and item assignment, "
             "truncate, reduce, separate, construction from direction/matrix pairs commute with evaluation (f_n = 2^n) "
             "for every object of the pool after every step (aliasing between operands, results and bystanders is "
             "visible); ind2pow/pow2ind/powlrange/directmult/powercoeff/Lproj verified exhaustively for Lmax.",
        note="Trusts TLC and the transport of floats as <<nearest integer, residual>> with a spec-level tolerance. "
             "Two thorough-tier known findings (real-dtype constant, duplicate labels in item assignment).",
        design="4/C16"),
    "C17": dict(
        technique="exact integer oracle in TLA+ (Poly.tla: substitution and truncated geometric series) for rotate / "
                  "irotate / inv, decided by TLC (Check_C17.tla)",
        text="rotate(M)(p) = T(Mp) for invertible non-orthogonal integer M mapping Pythagorean points onto Pythagorean "
             "points and parity-consistent expansions; inv(N)*T and T*inv(N) are the identity through order N for 1x1, "
             "2x2, 3x3 leading matrices that do not commute with the higher-order coefficients, N = 0..2, 2D and 3D.",
        note="Trusts TLC and the float transport; decides the property on small integer coefficients.",
        design="4/C17"),
    "C29": dict(
        technique="definitional setup model (SetupW.tla over SuperW + OccOps, the pure form of SupercellOcc's ApplyG / "
                  "Reorder proved equal by TLC) vs makesupercells of both calculators (Check_C29.tla)",
        text="Per state: exactly the named defects at the named sites; per transition: one moving atom of the jumping "
             "species displaced by the jump (minus the vacancy displacement for omega0/1/2); per recorded entry: g is a "
             "geometric supercell symmetry and (g.state).reorder(mapping) equals the endpoint, None only if no state is "
             "equivalent; too-small supercells warn. Hosts on several Wyckoff positions, >= 3 species, non-diagonal cells.",
        note=_WORLD_NOTE, design="4/C29"),
    "C30": dict(
        technique="archive model (Archive.tla: TagBijection, DepsResolvable, ApplyTrans = the perl script's semantics) vs "
                  "real tarballs, real runs of trans.pl and make -n (Check_C30.tla)",
        text="Tag map bijection onto state/transition directories, every POSCAR reads back to the given supercell, the "
             "transformation files map the relaxed state onto the endpoint both by the spec's ApplyTrans and by "
             "actually running trans.pl, every Makefile prerequisite exists or is produced.",
        note=_WORLD_NOTE + " Uses perl and make from the sandbox; archives are extracted to a temporary directory.",
        design="4/C30"),
})

NOT_YET ="check not built yet in this round (planned in DESIGN.md section 4)"
