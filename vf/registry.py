"""Per-property registration used to generate MANIFEST.json (python -m vf.manifest)."""

CLAIMS = {
    "C28": dict(
        technique="TLA+ object state machine (SupercellOcc) model-checked by TLC; every state-graph edge replayed "
                  "on real Supercell objects; random histories trace-validated by TLC",
        text="Exhaustive TLC exploration of the occupancy state machine on 2-4-site supercells with 0-2 solutes and "
             "an interstitial sublattice (invariants Sane, Placeable, POSCAR round trip), each labelled edge replayed "
             "through the public API with the full (occ, chemorder) projection compared; random 60-80 step histories "
             "on 8-32-site supercells validated against the same module. Bounded-exhaustive plus sampled.",
        note="Trusts TLC, the DOT dump, and that Supercell behaviour depends only on (occ, chemorder) for state "
             "injection in edge replay (API-only random histories do not need that assumption). Symmetry "
             "permutations are taken from sup.G (their geometric correctness is C27).",
        design="4/C28"),
    "C32": dict(
        technique="TLA+ model of the interaction-list evaluator (Sampler.tla) on tables extracted from the real "
                  "sampler; TLC invariant EnergyIsBrute over every occupation against geometry-enumerated cluster "
                  "instances; every state replayed through all four evaluators",
        text="For each small supercell (4-8 mobile sites; spectators; fixed vacancy; clusters that wrap through the "
             "periodic boundary) TLC visits EVERY mobile occupation and checks that the energy computed from the real "
             "sampler's interaction tables equals the brute-force sum over cluster instances enumerated from positions "
             "alone; each state is replayed on evalcluster, expandcluster_matrices and MonteCarloSampler.E(), which "
             "must all return the model value exactly (integer cluster values).",
        note="Trusts TLC and the harness's position-based cluster-instance enumerator (it uses the Cluster objects "
             "produced by makeclusters as the definition of 'the clusters', which is C31's subject). Cluster values are "
             "even integers so that all energies are exact in floating point.",
        design="4/C32"),
    "C33": dict(
        technique="TLA+ object state machine (Sampler.tla) mirroring start/update/deltaE_trial; TLC exhaustive over all "
                  "occupations and updates; every edge replayed on the real sampler; random histories trace-validated",
        text="Exhaustive reachable-state exploration (all occupations; all single-site, swap and sampled multi-site "
             "updates; vacancy error paths) of the model parameterised by the real sampler's tables, with invariants "
             "CntIsFunctionOfOcc, SetsPartition, ObsIsFunctionOfOcc, DeltaEExact; each labelled edge replayed on the "
             "real MonteCarloSampler comparing clustercount, occ, both site sets, E, transitions and the trial energy "
             "change; 200-step random histories on 18-site supercells validated by TLC.",
        note="Trusts TLC and the DOT dump; edge replay reaches a source state with start(occ) (API), so no state "
             "injection is used for the reference sampler.",
        design="4/C33"),
    "C34": dict(
        technique="TLC invariants DetailedBalance / DetailedBalanceVac of Sampler.tla on the jump tables extracted from "
                  "real samplers (one table per vacancy position), all occupations; every state replayed on the real "
                  "samplers",
        text="For every occupation of small supercells and every listed transition TLC checks barrier(fwd) - "
             "barrier(rev from the final configuration) = E(final) - E(initial) on the extracted tables, with and "
             "without vacancy, TS clusters and KRA values; the real samplers are then driven through every state and "
             "transition and must report the model's barriers, the reverse transition with opposite displacement, and "
             "exact balance.",
        note="Trusts TLC; integer values make all sums exact. Two too-narrow supercells are recorded as known findings "
             "(see KNOWN_FINDINGS.jsonl).",
        design="4/C34"),
    "C35": dict(
        technique="TLA+ refinement (SamplerJit.tla extends Sampler.tla with the compiled sampler's arrays); TLC "
                  "exhaustive; every edge replayed on compiled and reference samplers in lockstep; API-only random "
                  "histories trace-validated",
        text="TLC explores all occupations x array orders reachable by start, swap updates and Metropolis batches, "
             "checking IndexConsistent, JDeltaEqRef, JTransEqRef; each edge is replayed on a real "
             "MonteCarloSampler_jit and the reference sampler: arrays, index table, counters, E, deltaE_trial, "
             "transitions (forbidden = inf) and batch == move-by-move are compared with the model and each other; "
             "120-step API-only histories on 18-site supercells are validated by TLC.",
        note="Edge replay injects the source state into the compiled sampler's arrays (jitclass attributes); the "
             "API-only traces do not. Trusts TLC and numba attribute access.",
        design="4/C35"),
}

_REL_NOTE = ("Trusts TLC, spec/rel/Fx.tla two-limb arithmetic and the Python projection (A^-1 T A^-T, "
             "round(x/scale*1e10)); point group = definitional group of the observed world (World.OpsRT). PSD is decided "
             "on all integer directions in -3..3 plus a certificate direction, not by an exact eigenvalue bound.")

CLAIMS.update({
    "C18": dict(
        technique="definitional integer crystal model (World.tla) evaluated by TLC on the world read back from each "
                  "constructed Crystal; every reported operation projected to integers and checked clause by clause",
        text="Catalogue + random decorated 2D/3D worlds (1-3 species, scalar and vector spins, strained metrics) in "
             "random orientations x {default, noreduce, NOSYM, jitter}: TLC decides isometry, atom/species/spin mapping, "
             "indexmap = geometric permutation, Cartesian = lattice rotation, distinctness and the group axioms modulo "
             "lattice translations (Check_C18.tla). Completeness vs the definitional group is reported, not judged.",
        note="Trusts TLC and the projection (integrality asserted, never rounded silently). Spin compatibility is "
             "'up to one real global phase per operation' (the library's documented semantics).",
        design="4/C18"),
    "C03": dict(
        technique="transported tensors (exact fixed point) checked by TLC: symmetry, invariance under the definitional "
                  "point group (integer matrices), PSD (Check_Rel.tla)",
        text="Interstitial diffusivity, rank-4 elastodiffusion tensor and all four vacancy-mediated tensors (default, "
             "fast-exchange and forced large-omega2 algorithm) on catalogue worlds in random orientations with dyadic "
             "data incl. rate ratios 2^+-20; every clause decided by TLC in lattice coordinates.",
        note=_REL_NOTE, design="4/C03"),
    "C04": dict(
        technique="TLA+ protocol Invariance.tla (all transformation sequences, lemma RateExponent model-checked); every "
                  "node of its TLC state graph replayed on real calculators; scaling relation decided by Check_Rel.tla",
        text="Species reference shifts, joint prefactor scalings, kT co-scalings, rate scalings and symmetry-preserving "
             "site displacements (depth <= 2-3) on interstitial and vacancy-mediated calculators; result(node) = "
             "2^rate * result(root) entrywise.",
        note=_REL_NOTE + " Displacements are replayed for Interstitial only (network carried over in lattice form).",
        design="4/C04"),
    "C05": dict(
        technique="single-class transition-state decrements enumerated; PSD of the difference decided by TLC "
                  "(Check_Rel.tla)",
        text="Every interstitial / omega0 / omega1 / omega2 class lowered individually by 1 or 3 levels from random "
             "dyadic bases, including bases in the large-omega2 regime (default and forced).",
        note=_REL_NOTE, design="4/C05"),
    "C06": dict(
        technique="tracer data from maketracerpreene; identities Lsv=-L0vv, L1vv=0, 0<=Lss<=L0vv decided by TLC "
                  "(Check_Rel.tla)",
        text="All vacancy worlds (Bravais, multi-site, origin states), Nthermo 1-2, random vacancy site energies and "
             "omega0 barriers per class.",
        note=_REL_NOTE + " Worlds with origin states use the tolerance measured for the default k-mesh (1e-4..2e-5).",
        design="4/C06"),
    "C07": dict(
        technique="one tag dictionary given to calculators of range N and N+1; equality of all four tensors decided by "
                  "TLC (Check_Rel.tla)",
        text="Random dyadic data on every class of the smaller calculator under random member tags, random omega1/2 "
             "classes left to the default back-fill; (1,2) and (2,3) range pairs.",
        note=_REL_NOTE, design="4/C07"),
    "C08": dict(
        technique="omega2 prefactor sweep 1e-3..1e16 x {standard, large, default}; agreement, default-is-one-of, "
                  "finiteness/symmetry and smoothness decided by TLC (Check_Rel.tla)",
        text="Agreement of the two algorithms for k<=8 to 1e-6, default bit-equal to one forced result, default finite "
             "and symmetric, consecutive decades within 1e-4 for k>=9.",
        note=_REL_NOTE + " Smoothness of Lsv/L1vv is a recorded known finding (precision loss ~1e-17*omega2).",
        design="4/C08"),
})

NOT_YET ="check not built yet in this round (planned in DESIGN.md section 4)"
