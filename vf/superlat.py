"""Integer supercell matrices for C19 / C27: every sublattice of a given index exactly once (Hermite normal
forms) and seeded random re-descriptions of it (right-multiplication by a unimodular matrix, which changes
the description but not the lattice; determinant -1 allowed, so left-handed descriptions occur)."""
import itertools

import numpy as np


def hnfs(d, n):
    """All upper-triangular Hermite normal forms of determinant n in dimension d (columns = lattice vectors).
    Each sublattice of index n of Z^d occurs exactly once (3D: 7, 13, 35, 31, 91 for n = 2..6)."""
    out = []

    def diags(k, rest):
        if k == d - 1:
            yield (rest,)
            return
        for a in range(1, rest + 1):
            if rest % a == 0:
                for tail in diags(k + 1, rest // a):
                    yield (a,) + tail

    for dg in diags(0, n):
        slots = [(i, j) for i in range(d) for j in range(i + 1, d)]
        for vals in itertools.product(*[range(dg[i]) for (i, j) in slots]):
            S = np.diag(dg).astype(int)
            for (i, j), v in zip(slots, vals):
                S[i, j] = v
            out.append(S)
    return out


def random_unimodular(rng, d, steps=3):
    """Product of a signed permutation and a few elementary shears (entries stay small)."""
    perm = list(range(d))
    rng.shuffle(perm)
    U = np.zeros((d, d), dtype=int)
    for i, p in enumerate(perm):
        U[p, i] = rng.choice((1, -1))
    for _ in range(steps):
        i, j = rng.sample(range(d), 2)
        E = np.eye(d, dtype=int)
        E[i, j] = rng.choice((1, -1))
        U = np.dot(U, E)
    return U


def redescribe(rng, S, maxentry=4, tries=20):
    """S.U for a random unimodular U with all entries of the product bounded (else fewer shears)."""
    d = S.shape[0]
    for t in range(tries):
        U = random_unimodular(rng, d, steps=rng.randint(0, 3))
        SU = np.dot(S, U)
        if np.abs(SU).max() <= maxentry:
            return SU
    return S.copy()


def idet(S):
    return int(round(float(np.linalg.det(np.array(S, dtype=float)))))
