------------------------------- MODULE BigInt -------------------------------
(***************************************************************************)
(* Arbitrary-precision integers in plain TLA+ (TLC integers are 32 bit and *)
(* overflow is a hard error).  A big integer is a sequence                 *)
(*     <<sign, l_0, l_1, ..., l_k>>    sign in {1, -1}, 0 <= l_i < 10^4     *)
(* with value sign * sum l_i 10^(4 i), no leading zero limbs (zero is      *)
(* <<1, 0>>).  Long operations are folds (FoldLeft is iterative in TLC).   *)
(***************************************************************************)
EXTENDS Integers, Sequences, SequencesExt

BB == 10000
BIdx(n) == [k \in 1..n |-> k]
BMax(a, b) == IF a >= b THEN a ELSE b

\* ---- magnitudes: sequences of limbs
MTrim(m) ==
  LET n == CHOOSE k \in 1..Len(m) : (\A q \in (k + 1)..Len(m) : m[q] = 0) /\ (k = 1 \/ m[k] # 0)
  IN SubSeq(m, 1, n)
MLimb(m, k) == IF k <= Len(m) THEN m[k] ELSE 0
MAdd(a, b) ==
  LET n == BMax(Len(a), Len(b))
      r == FoldLeft(LAMBDA acc, k : LET s == MLimb(a, k) + MLimb(b, k) + acc[2]
                                    IN <<Append(acc[1], s % BB), s \div BB>>,
                    <<<<>>, 0>>, BIdx(n))
  IN MTrim(Append(r[1], r[2]))
MCmp(a, b) ==       \* -1, 0, 1   (a, b trimmed)
  IF Len(a) # Len(b) THEN (IF Len(a) < Len(b) THEN -1 ELSE 1)
  ELSE LET diff == {k \in 1..Len(a) : a[k] # b[k]}
       IN IF diff = {} THEN 0
          ELSE LET k == CHOOSE k \in diff : \A q \in diff : q <= k
               IN IF a[k] < b[k] THEN -1 ELSE 1
MSub(a, b) ==       \* a >= b
  LET r == FoldLeft(LAMBDA acc, k : LET s == MLimb(a, k) - MLimb(b, k) - acc[2]
                                    IN IF s < 0 THEN <<Append(acc[1], s + BB), 1>> ELSE <<Append(acc[1], s), 0>>,
                    <<<<>>, 0>>, BIdx(Len(a)))
  IN MTrim(r[1])
MMulSmall(a, c) ==  \* 0 <= c < 10^5
  LET r == FoldLeft(LAMBDA acc, k : LET s == a[k] * c + acc[2]
                                    IN <<Append(acc[1], s % BB), s \div BB>>,
                    <<<<>>, 0>>, BIdx(Len(a)))
  IN MTrim(r[1] \o <<r[2] % BB, r[2] \div BB>>)
MShift(a, n) == IF a = <<0>> THEN a ELSE [k \in 1..n |-> 0] \o a
MMul(a, b) ==
  FoldLeft(LAMBDA acc, k : MAdd(acc, MShift(MMulSmall(a, b[k]), k - 1)), <<0>>, BIdx(Len(b)))

\* ---- signed numbers
BSign(x) == x[1]
BMag(x) == Tail(x)
BMake(s, m) == IF m = <<0>> THEN <<1, 0>> ELSE <<s>> \o m
BZero == <<1, 0>>
BFromInt(n) ==      \* |n| < 2^31
  LET a == IF n < 0 THEN -n ELSE n
      m == MTrim(<<a % BB, (a \div BB) % BB, a \div (BB * BB)>>)
  IN BMake(IF n < 0 THEN -1 ELSE 1, m)
BNeg(x) == BMake(-BSign(x), BMag(x))
BAbs(x) == BMake(1, BMag(x))
BAdd(x, y) ==
  IF BSign(x) = BSign(y) THEN BMake(BSign(x), MAdd(BMag(x), BMag(y)))
  ELSE LET c == MCmp(BMag(x), BMag(y))
       IN IF c = 0 THEN BZero
          ELSE IF c > 0 THEN BMake(BSign(x), MSub(BMag(x), BMag(y)))
          ELSE BMake(BSign(y), MSub(BMag(y), BMag(x)))
BSub(x, y) == BAdd(x, BNeg(y))
BMul(x, y) == BMake(BSign(x) * BSign(y), MMul(BMag(x), BMag(y)))
BMulInt(x, n) == BMul(x, BFromInt(n))
BCmp(x, y) ==       \* -1, 0, 1
  IF BSign(x) # BSign(y) THEN (IF x = BZero /\ y = BZero THEN 0 ELSE IF BSign(x) < BSign(y) THEN -1 ELSE 1)
  ELSE BSign(x) * MCmp(BMag(x), BMag(y))
BLe(x, y) == BCmp(x, y) <= 0
BIsZero(x) == x = BZero
BSum(s) == FoldLeft(BAdd, BZero, s)
RECURSIVE BPow2(_)
BPow2(n) == IF n <= 0 THEN BFromInt(1) ELSE IF n <= 20 THEN BFromInt(2 ^ n) ELSE BMulInt(BPow2(n - 20), 2 ^ 20)
=============================================================================
