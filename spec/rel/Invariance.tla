----------------------------- MODULE Invariance -----------------------------
(***************************************************************************)
(* C04: the protocol of reference changes and rate scalings.               *)
(*                                                                         *)
(* State = the accumulated transformation of one input data set:           *)
(*   shV, shS : integer level shift (units of ln 2) of ALL free energies of *)
(*              the vacancy / solute species and of every transition state  *)
(*              that species takes part in;                                 *)
(*   prV, prS : joint scaling 2^pr of the species' site prefactors and of   *)
(*              its transition-state prefactors;                            *)
(*   kt       : energies and kT scaled together by 2^kt;                    *)
(*   rate     : every transition-state level lowered by `rate` (all jump    *)
(*              rates multiplied by 2^rate);                                *)
(*   disp     : index of a symmetry- and topology-preserving displacement   *)
(*              of the sites (0 = none);                                    *)
(* The expected result is 2^rate times the result for the untransformed     *)
(* data.  TLC enumerates all transformation sequences up to MaxDepth; every *)
(* node of the state graph is one evaluation of the real calculator, and    *)
(* RateExponent is the model-level lemma: only `rate` changes the physical  *)
(* rates (each action's effect on the exponent of any jump rate is checked  *)
(* on the symbolic rate expression below).                                  *)
(***************************************************************************)
EXTENDS Integers, Sequences, TLC

CONSTANTS Shifts, PreScales, KTScales, RateScales, NDisp, MaxDepth

VARIABLES shV, shS, prV, prS, kt, rate, disp, depth
vars == <<shV, shS, prV, prS, kt, rate, disp, depth>>

Init == shV = 0 /\ shS = 0 /\ prV = 0 /\ prS = 0 /\ kt = 0 /\ rate = 0 /\ disp = 0 /\ depth = 0

Step == depth < MaxDepth /\ depth' = depth + 1
ShiftV(d)    == Step /\ d # 0 /\ shV' = shV + d /\ UNCHANGED <<shS, prV, prS, kt, rate, disp>>
ShiftS(d)    == Step /\ d # 0 /\ shS' = shS + d /\ UNCHANGED <<shV, prV, prS, kt, rate, disp>>
ScalePreV(m) == Step /\ m # 0 /\ prV' = prV + m /\ UNCHANGED <<shV, shS, prS, kt, rate, disp>>
ScalePreS(m) == Step /\ m # 0 /\ prS' = prS + m /\ UNCHANGED <<shV, shS, prV, kt, rate, disp>>
ScaleKT(j)   == Step /\ j # 0 /\ kt' = kt + j /\ UNCHANGED <<shV, shS, prV, prS, rate, disp>>
ScaleRates(k) == Step /\ k # 0 /\ rate' = rate + k /\ UNCHANGED <<shV, shS, prV, prS, kt, disp>>
Displace(n)  == Step /\ disp = 0 /\ disp' = n /\ UNCHANGED <<shV, shS, prV, prS, kt, rate>>

Next == \/ \E d \in Shifts : ShiftV(d) \/ ShiftS(d)
        \/ \E m \in PreScales : ScalePreV(m) \/ ScalePreS(m)
        \/ \E j \in KTScales : ScaleKT(j)
        \/ \E k \in RateScales : ScaleRates(k)
        \/ \E n \in 1..NDisp : Displace(n)
Spec == Init /\ [][Next]_vars

\* ---- model-level lemma.  A jump rate has  log2(rate) = (TSpre - sitepre) - (TSlevel - sitelevel) * 2^kt / 2^kt
\* for a vacancy jump (omega0):  site (eV, pV), transition state (eV-type shift, pV-type prefactor);
\* for a complex jump (omega1/2): state carries both species' shifts/prefactors, and so does its transition state.
\* With E the untransformed levels, the transformed exponent is:
Log2RateOmega0(eSite, eTS, pSite, pTS) ==
  (pTS + prV) - (pSite + prV) - ((eTS + shV - rate) - (eSite + shV))
Log2RateOmega12(eState, eTS, pState, pTS) ==
  (pTS + prV + prS) - (pState + prV + prS) - ((eTS + shV + shS - rate) - (eState + shV + shS))
RateExponent ==
  \A eSite \in 0..1, eTS \in 2..3, pSite \in 0..1, pTS \in 0..1 :
     /\ Log2RateOmega0(eSite, eTS, pSite, pTS) = (pTS - pSite - (eTS - eSite)) + rate
     /\ Log2RateOmega12(eSite, eTS, pSite, pTS) = (pTS - pSite - (eTS - eSite)) + rate
=============================================================================
