----------------------------- MODULE Check_C02 -----------------------------
(***************************************************************************)
(* C02: exact long-time diffusivity of the periodic interstitial jump      *)
(* process (a finite continuous-time Markov chain with dyadic rates) from  *)
(* an exactly VERIFIED certificate, compared with the transported result   *)
(* of Interstitial.diffusivity.  All quantities are in grid coordinates    *)
(* (jump vectors are integer vectors), rates are integers W (real rate =   *)
(* W 2^emin), site weights are integers R (rho_i = R_i / Z).               *)
(*                                                                         *)
(*   b_i   = sum_{jumps i->j} W dx                     (bias, integer)      *)
(*   Q eta = b           (Poisson equation; eta = n / den is the           *)
(*                        certificate, solved by the harness, checked here)*)
(*   D     = 2^emin [ 1/2 sum_i rho_i sum_j W dx dx^T                      *)
(*                    + 1/2 sum_i rho_i (b_i eta_i^T + eta_i b_i^T) ]      *)
(*   NUM   = D * 2 Z den / 2^emin  is an integer matrix (computed below).  *)
(***************************************************************************)
EXTENDS BigInt, FiniteSets, Json, IOUtils, TLC

Cases == JsonDeserialize(IOEnv.CASE_FILE)
VARIABLE k

JumpsFrom(c, i) == SelectSeq(c.jumps, LAMBDA j : j[1] = i)
Bias(c, i, a) == FoldLeft(LAMBDA s, j : s + j[4] * j[3][a], 0, JumpsFrom(c, i))      \* small integers

\* sum_{jumps i->j} W (eta_j[a] - eta_i[a])
QEta(c, i, a) ==
  FoldLeft(LAMBDA s, j : BAdd(s, BMulInt(BSub(c.eta[j[2]][a], c.eta[i][a]), j[4])), BZero, JumpsFrom(c, i))

Poisson(c) == \A i \in 1..c.N : \A a \in 1..c.dim : QEta(c, i, a) = BMulInt(c.den, Bias(c, i, a))

Bare(c, a, b) ==    \* sum_i R_i sum_j W dx_a dx_b   (integer; may be large -> BigInt)
  FoldLeft(LAMBDA s, j : BAdd(s, BMulInt(BFromInt(c.R[j[1]] * j[4]), j[3][a] * j[3][b])), BZero, c.jumps)
Corr(c, a, b) ==    \* sum_i R_i (b_i[a] n_i[b] + b_i[b] n_i[a])
  FoldLeft(LAMBDA s, i : BAdd(s, BMulInt(BAdd(BMulInt(c.eta[i][b], Bias(c, i, a)),
                                               BMulInt(c.eta[i][a], Bias(c, i, b))), c.R[i])),
           BZero, BIdx(c.N))
Num(c, a, b) == BAdd(BMul(c.den, Bare(c, a, b)), Corr(c, a, b))

Ten10 == <<1, 0, 0, 100>>
ObsInt(x) == BAdd(BMulInt(BFromInt(x[1]), 100000), BFromInt(x[2]))

Agrees(c, a, b) ==
  LET P  == BPow2(c.emin)
      Qd == BPow2(-c.emin)
      common == BMul(BMul(BMulInt(c.scale_num, 2 * c.Z), c.den), Qd)      \* sn 2Z den Qd  (> 0)
      lhs == BMul(ObsInt(c.obs[a][b]), common)
      rhs == BMul(BMul(BMul(Num(c, a, b), P), c.scale_den), Ten10)
  IN BLe(BAbs(BSub(lhs, rhs)), BMulInt(BAbs(common), c.tol))

Clauses(c) == <<
   <<"certificate_poisson_equation", Poisson(c)>>,
   <<"certificate_denominator_positive", BSign(c.den) = 1 /\ ~BIsZero(c.den)>>,
   <<"diffusivity_equals_exact_finite_chain_value", \A a \in 1..c.dim, b \in 1..c.dim : Agrees(c, a, b)>>
  >>

Init == k = 0
Next == /\ k < Len(Cases)
        /\ k' = k + 1
        /\ LET c == Cases[k'] cl == Clauses(c) IN
             /\ \A j \in DOMAIN cl : cl[j][2] \/ PrintT(<<"FAIL", k', cl[j][1]>>)
             /\ PrintT(<<"INFO", k', "correction_nonzero",
                         \E a \in 1..c.dim, b \in 1..c.dim : ~BIsZero(Corr(c, a, b))>>)
        /\ (k' = Len(Cases) => PrintT(<<"DONE", k'>>))
=============================================================================
