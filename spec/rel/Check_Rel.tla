----------------------------- MODULE Check_Rel -----------------------------
(***************************************************************************)
(* Decides algebraic relations between transported floating-point tensors  *)
(* (C03-C09, C11, C13, C14 share it).  A case is                           *)
(*   [w |-> world (the crystal read back from the implementation),          *)
(*    usegroup |-> TRUE iff point-group invariance is asserted,             *)
(*    tensors |-> [name |-> d x d matrix of Fx numbers, LATTICE coordinates *)
(*                 (T_latt = A^-1 T A^-T), common scale],                   *)
(*    asserts |-> sequence of [name, kind, t, terms, tol, e]]               *)
(* kinds:  "sym"    t is symmetric                                          *)
(*         "inv"    R t R^T = t for every rotation R of the definitional    *)
(*                  point group of w (integer matrices)                     *)
(*         "zero"   sum_k terms[k][1] * tensor(terms[k][2]) = 0             *)
(*         "psd"    sum_k terms[k][1] * tensor(terms[k][2]) is positive     *)
(*                  semidefinite: quadratic form >= -tol on all integer     *)
(*                  directions in -3..3 and on the certificate direction e  *)
(*                  (the harness's guess of the most negative direction)    *)
(* Every assertion is a named clause; TLC prints the ones that fail.        *)
(***************************************************************************)
EXTENDS World, Fx, Json, IOUtils

Cases == JsonDeserialize(IOEnv.CASE_FILE)
VARIABLE k

Comb(c, a) == FxMatLin([n \in 1..Len(a.terms) |-> <<a.terms[n][1], c.tensors[a.terms[n][2]]>>])
Dirs(d) == {e \in [1..d -> -3..3] : \E i \in 1..d : e[i] # 0}

\* rank-4 tensor X^{ab cd} given as the d x d grid of rank-2 blocks terms[c][d] = name of X^{.. cd}:
\* invariance  sum_kl R_ck R_dl (R X_kl R^T) = X_cd  for every c, d
Inv4(c, a, R) ==
  LET d == Len(a.terms)
      CX == [kk \in 1..d |-> [ll \in 1..d |-> FxConj(R, c.tensors[a.terms[kk][ll]])]]
  IN \A cc \in 1..d, dd \in 1..d :
       FxMatAbsLe(FxMatLin(<<<<-1, c.tensors[a.terms[cc][dd]]>>>> \o
                           [n \in 1..(d * d) |->
                              LET kk == ((n - 1) \div d) + 1  ll == ((n - 1) % d) + 1
                              IN <<R[cc][kk] * R[dd][ll], CX[kk][ll]>>]), a.tol)

Holds(c, a, P) ==
  CASE a.kind = "sym"  -> FxMatSym(c.tensors[a.t], a.tol)
    [] a.kind = "bits" -> a.s1 = a.s2         \* bit patterns (hex strings of the IEEE-754 bytes) are identical
    [] a.kind = "inv4" ->\A R \in P : Inv4(c, a, R)
    [] a.kind = "inv"  -> \A R \in P : FxMatInv(R, c.tensors[a.t], a.tol)
    [] a.kind = "zero" -> FxMatAbsLe(Comb(c, a), a.tol)
    [] a.kind = "psd"  -> LET m == Comb(c, a) IN
                            /\ \A e \in Dirs(Len(m)) : FxGeMinus(FxQuad(e, m), a.tol * 9 * Len(m))
                            /\ (Len(a.e) > 0 => FxGeMinus(FxQuad(a.e, m), a.tol * 100 * Len(m)))
    [] OTHER -> FALSE

Init == k = 0
Next == /\ k < Len(Cases)
        /\ k' = k + 1
        /\ LET c == Cases[k']
               P == IF c.usegroup THEN RotsOf(OpsRT(c.w, 1)) ELSE {}
           IN /\ \A n \in DOMAIN c.asserts :
                    Holds(c, c.asserts[n], P) \/ PrintT(<<"FAIL", k', c.asserts[n].name>>)
              /\ PrintT(<<"INFO", k', "grouporder", Cardinality(P)>>)
        /\ (k' = Len(Cases) => PrintT(<<"DONE", k'>>))
=============================================================================
