----------------------------- MODULE PairChain -----------------------------
(***************************************************************************)
(* The one-solute / one-vacancy jump process on a periodic torus -- the    *)
(* oracle of property C01 (vf/chain.py solves exactly this chain).         *)
(*                                                                         *)
(* A configuration is the pair (solute site, vacancy site) of a crystal    *)
(* with NSites sites per cell on an n x ... x n torus.  Only the vacancy   *)
(* moves on its own: it hops along the lone-vacancy network Jumps; a hop   *)
(* that would land on the solute is an EXCHANGE (solute and vacancy swap   *)
(* places).  The chain used for transport is the quotient by lattice       *)
(* translations: state = <<a, b, R>>, a = solute site, b = vacancy site,   *)
(* R = cell of the vacancy relative to the solute's cell.                  *)
(*                                                                         *)
(* The spec keeps the absolute cells too (sc, vc) so that TLC can check    *)
(* that the quotient is well defined and that each step displaces the      *)
(* species the way the transport sums assume:                              *)
(*   Hop(k):      vacancy moves by jump k, solute does not move;           *)
(*   Exchange(k): vacancy moves by jump k, solute by MINUS jump k.         *)
(***************************************************************************)
EXTENDS Integers, Sequences, FiniteSets, TLC

CONSTANTS NSites,      \* sites per unit cell (1..NSites)
          Dim,         \* 2 or 3
          N,           \* torus size
          Jumps        \* sequence of [i |-> site, j |-> site, dR |-> <<cell shift>>]

VARIABLES a, b, sc, vc   \* solute site, vacancy site, solute cell, vacancy cell (tuples mod N)
vars == <<a, b, sc, vc>>

Cells == [1..Dim -> 0..(N - 1)]
Zero  == [d \in 1..Dim |-> 0]
Add(x, y) == [d \in 1..Dim |-> (x[d] + y[d]) % N]
Sub(x, y) == [d \in 1..Dim |-> (x[d] - y[d] + N) % N]
Neg(x)    == [d \in 1..Dim |-> (N - x[d]) % N]

Rel == Sub(vc, sc)                       \* the quotient coordinate
State == <<a, b, Rel>>

\* the network is given with every jump's reverse
Reverse(k) == CHOOSE m \in 1..Len(Jumps) :
                 /\ Jumps[m].i = Jumps[k].j /\ Jumps[m].j = Jumps[k].i
                 /\ \A d \in 1..Dim : (Jumps[m].dR[d] + Jumps[k].dR[d]) = 0
NetworkReversible == \A k \in 1..Len(Jumps) : \E m \in 1..Len(Jumps) :
                 /\ Jumps[m].i = Jumps[k].j /\ Jumps[m].j = Jumps[k].i
                 /\ \A d \in 1..Dim : (Jumps[m].dR[d] + Jumps[k].dR[d]) = 0
ASSUME NetworkReversible

Shift(k) == [d \in 1..Dim |-> (Jumps[k].dR[d] + N * 4) % N]
Lands(k) == <<Jumps[k].j, Add(vc, Shift(k))>>      \* where jump k takes the vacancy

Init == /\ sc = Zero
        /\ a \in 1..NSites /\ b \in 1..NSites /\ vc \in Cells
        /\ ~(a = b /\ vc = sc)

Hop(k) == /\ Jumps[k].i = b
          /\ Lands(k) # <<a, sc>>
          /\ b' = Jumps[k].j /\ vc' = Add(vc, Shift(k))
          /\ UNCHANGED <<a, sc>>

Exchange(k) == /\ Jumps[k].i = b
               /\ Lands(k) = <<a, sc>>
               /\ b' = a /\ vc' = sc          \* the vacancy takes the solute's place ...
               /\ a' = b /\ sc' = vc          \* ... and the solute the vacancy's: it moves by minus the jump

JumpIds == 1..Len(Jumps)
Next == \/ \E k \in JumpIds : Hop(k)
        \/ \E k \in JumpIds : Exchange(k)
Spec == Init /\ [][Next]_vars

---------------------------------------------------------------------------
NeverCoincident == ~(a = b /\ vc = sc)

\* an exchange maps the quotient state <<a, b, R>> to <<b, a, -R>>
ExchangeFlips == [][\A k \in 1..Len(Jumps) : Exchange(k) =>
                     /\ a' = b /\ b' = a /\ Sub(vc', sc') = Neg(Rel)]_vars
\* a hop leaves the solute alone and moves the quotient coordinate by the jump
HopMovesVacancy == [][\A k \in 1..Len(Jumps) : Hop(k) =>
                     /\ a' = a /\ sc' = sc /\ Sub(vc', sc') = Add(Rel, Shift(k))]_vars
\* every step can be undone by the reverse jump, and the undoing step is of the same kind
StepReversible == [][\A k \in 1..Len(Jumps) :
                     /\ Hop(k) => /\ Jumps[Reverse(k)].i = b'
                                  /\ <<Jumps[Reverse(k)].j, Add(vc', Shift(Reverse(k)))>> = <<b, vc>>
                                  /\ <<b, vc>> # <<a', sc'>>
                     /\ Exchange(k) => /\ Jumps[Reverse(k)].i = b'
                                       /\ <<Jumps[Reverse(k)].j, Add(vc', Shift(Reverse(k)))>> = <<a', sc'>>]_vars
\* the quotient is well defined: what a state can do depends on <<a, b, Rel>> only (VIEW State in the cfg
\* makes TLC explore the quotient; the absolute cells are then unobserved history)
=============================================================================
