----------------------------- MODULE Check_C11 -----------------------------
(***************************************************************************)
(* C11: the derivative outputs of the interstitial calculator are true     *)
(* derivatives, and dipoles are populated by symmetric projection on the   *)
(* representative and carried by the group operations.                     *)
(*                                                                         *)
(* A case is                                                               *)
(*   [w       |-> world read back from the implementation,                  *)
(*    chem    |-> species (1-based) of the diffuser,                        *)
(*    one     |-> <<q1, q0>>: the integer 1 in transport units, i.e.        *)
(*                q1*10^5 + q0 = 10^10 / scale (dipole cases use a scale    *)
(*                2^k so that this is an integer; <<0,0>> otherwise),       *)
(*    tensors |-> [name |-> d x d matrix of Fx numbers, contravariant       *)
(*                 LATTICE components, common scale],                       *)
(*    strains |-> sequence of <<label, E>>, E integer covariant strain,     *)
(*    asserts |-> sequence of [name, kind, terms, tol, rep, pin, items]]    *)
(* kinds                                                                   *)
(*  "zero"    sum_n terms[n][1] * tensor(terms[n][2]) = 0 within tol.       *)
(*            The central-difference protocol with the exact step           *)
(*            h = 2^-12 is expressed with it:                               *)
(*              2048 D(beta(1+h)) - 2048 D(beta(1-h)) + Db = 0              *)
(*              2048 D(+h E) - 2048 D(-h E) - sum_kl E_kl dD^{..kl} = 0     *)
(*            (O(h^2) truncation is inside tol; see Tol below).             *)
(*  "sitepop" rep = site index of the representative, pin = its INPUT       *)
(*            dipole (exact integers), items[i] = name of the observed      *)
(*            populated dipole of site i.  Sub-clauses:                     *)
(*              symmetric_projection_on_representative:                     *)
(*                 2|S| Pop(rep) = sum_{g in S} R (pin + pin^T) R^T,        *)
(*                 S = the definitional stabiliser of the site              *)
(*              carried_by_group_operation: for EVERY g of the definitional *)
(*                 group, Pop(g(rep)) = R Pop(rep) R^T                      *)
(*  "jumppop" rep = <<i, j, L>>, items[n] = <<i, j, L, name>> for every     *)
(*            jump the implementation lists in the class; same sub-clauses  *)
(*            with S = operations mapping the jump onto itself or onto its  *)
(*            reverse (one transition state), plus                          *)
(*              listed_jumps_are_equivalent_to_representative,              *)
(*              every_equivalent_jump_has_a_dipole                          *)
(* Model-level lemmas (Dipoles.tla) are evaluated on the same data; a      *)
(* failing lemma is printed as clause "LEMMA" (a defect of the model,       *)
(* treated as a machinery failure by the driver, never as a verdict).      *)
(*                                                                         *)
(* Tol (set by the driver per assertion, units 10^-10 * scale):            *)
(*   derivative clauses 5e-5 (worst residual measured on the unchanged     *)
(*   tree, 3 seeds x 29 networks x 4 data sets: 9.2e-7 at h = 2^-12, of     *)
(*   which 2e-7 is transport rounding; truncation scales as h^2; the two    *)
(*   genuine defects found exceed 1e-2);                                    *)
(*   population clauses 1e-8 (measured 2e-16; transport rounding 5e-11).    *)
(***************************************************************************)
EXTENDS Dipoles, Fx, Json, IOUtils

Cases == JsonDeserialize(IOEnv.CASE_FILE)
VARIABLE k

Comb(c, a) == FxMatLin([n \in 1..Len(a.terms) |-> <<a.terms[n][1], c.tensors[a.terms[n][2]]>>])

IntFxMat(one, X) == [i \in DOMAIN X |-> [j \in DOMAIN X[i] |-> <<X[i][j] * one[1], X[i][j] * one[2]>>]]
\* observed = num / den (exact integers num, den) within tol
EqRat(c, obs, num, den, tol) ==
  FxMatAbsLe(FxMatLin(<< <<den, obs>>, <<-1, IntFxMat(c.one, num)>> >>), tol * den)
\* R a R^T = b within tol
EqConj(R, a, b, tol) == FxMatAbsLe(FxMatLin(<< <<1, FxConj(R, a)>>, <<-1, b>> >>), tol)

If(b, name) == IF b THEN {} ELSE {name}

\* printed sub-clause codes (kept short: TLC wraps long tuples over several lines); the driver expands them
ProjectionClause == "proj"       \* symmetric_projection_on_representative
CarriedClause == "carried"       \* carried_by_group_operation
ListedClause == "listed"         \* listed_jumps_are_equivalent_to_representative
CoveredClause == "covered"       \* every_equivalent_jump_has_a_dipole
LemmaClause == "LEMMA"           \* a model-level lemma fails (machinery failure, not a verdict)

\* every evaluation returns [f |-> set of failing sub-clauses ("" = the assertion itself),
\*                           facts |-> <<order of the stabiliser, number of reversing operations,
\*                                       dimension of the invariant symmetric tensors>>  (vacuity accounting)]
\* ST = {<<E, StrainStab(G, E)>>} for the strains of the case (computed once per case)
Lemmas(G, S, N, ST) ==
  /\ ProjectionLemma(S, N)
  /\ LET car == Carried(G, N) IN \A p \in ST : CouplingLemma(p[2], car, p[1])

SiteEval(c, a, G, ST) ==
  LET w == c.w
      S == SiteStab(w, G, c.chem, a.rep)
      N == Reynolds(S, SymPart2(a.pin))
      rep == c.tensors[a.items[a.rep]]
  IN [f |-> If(EqRat(c, rep, N, 2 * Cardinality(S), a.tol), ProjectionClause)
            \cup If(\A g \in G : EqConj(g[1], rep, c.tensors[a.items[SiteImg(w, c.chem, g, a.rep)]], 10 * a.tol),
                    CarriedClause)
            \cup If(Lemmas(G, S, N, ST), LemmaClause),
      facts |-> <<Cardinality(S), 0, DimFixSymTensor(RotsOf(S))>>]

ItemJump(it) == <<it[1], it[2], it[3]>>
JumpEval(c, a, G, ST) ==
  LET w == c.w
      J0 == ItemJump(a.rep)
      imgs == {<<g, JumpImg(w, c.chem, g, J0)>> : g \in G}       \* <<operation, image of the representative>>
      S == {p[1] : p \in {q \in imgs : SameTS(q[2], J0)}}        \* = JumpStab(w, G, c.chem, J0)
      rev == {p \in imgs : p[2] = RevJump(J0) /\ J0 # RevJump(J0)}
      N == Reynolds(S, SymPart2(a.pin))
      listed == {ItemJump(a.items[n]) : n \in DOMAIN a.items}
      reps == {n \in DOMAIN a.items : ItemJump(a.items[n]) = J0}
  IN [f |-> If(\A n \in reps : EqRat(c, c.tensors[a.items[n][4]], N, 2 * Cardinality(S), a.tol) /\ reps # {},
               ProjectionClause)
            \cup If(\A p \in imgs : \A n \in DOMAIN a.items : \A m \in reps :
                       SameTS(ItemJump(a.items[n]), p[2]) =>
                          EqConj(p[1][1], c.tensors[a.items[m][4]], c.tensors[a.items[n][4]], 10 * a.tol),
                    CarriedClause)
            \cup If(\A J \in listed : \E p \in imgs : SameTS(J, p[2]), ListedClause)
            \cup If(\A p \in imgs : p[2] \in listed /\ RevJump(p[2]) \in listed, CoveredClause)
            \cup If(Lemmas(G, S, N, ST), LemmaClause),
      facts |-> <<Cardinality(S), Cardinality(rev), DimFixSymTensor(RotsOf(S))>>]

Eval(c, a, G, ST) ==
  CASE a.kind = "zero"    -> [f |-> If(FxMatAbsLe(Comb(c, a), a.tol), ""), facts |-> <<0, 0, 0>>]
    [] a.kind = "sitepop" -> SiteEval(c, a, G, ST)
    [] a.kind = "jumppop" -> JumpEval(c, a, G, ST)
    [] OTHER -> [f |-> {"UNKNOWN_KIND"}, facts |-> <<0, 0, 0>>]

Init == k = 0
Next == /\ k < Len(Cases)
        /\ k' = k + 1
        /\ LET c == Cases[k']
               \* the definitional space group is only needed by the population clauses
               G == IF \E n \in DOMAIN c.asserts : c.asserts[n].kind # "zero" THEN OpsRT(c.w, 1) ELSE {}
               ST == {<<c.strains[s][2], StrainStab(G, c.strains[s][2])>> : s \in DOMAIN c.strains}
           IN /\ \A n \in DOMAIN c.asserts :
                    LET a == c.asserts[n]
                        e == Eval(c, a, G, ST)
                    IN /\ \A s \in e.f : PrintT(<<"FAIL", k', IF s = "" THEN a.name ELSE a.name \o "/" \o s>>)
                       /\ (a.kind = "zero" \/ PrintT(<<"INFO", k', "facts:" \o ToString(n), e.facts>>))
              /\ PrintT(<<"INFO", k', "grouporder", Cardinality(G)>>)
              /\ PrintT(<<"INFO", k', "strainstab",
                          [s \in DOMAIN c.strains |-> Cardinality(StrainStab(G, c.strains[s][2]))]>>)
        /\ (k' = Len(Cases) => PrintT(<<"DONE", k'>>))
=============================================================================
