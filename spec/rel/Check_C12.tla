----------------------------- MODULE Check_C12 -----------------------------
(***************************************************************************)
(* C12: the internal-friction loss tensors of Interstitial.losstensors.    *)
(*                                                                         *)
(* A case is                                                               *)
(*   [dim     |-> d,                                                        *)
(*    nz      |-> how many independent strain components may be non-zero    *)
(*                in the PSD test directions (2 quick, d(d+1)/2 thorough),  *)
(*    tensors |-> [name |-> matrix of Fx numbers]: 1 x 1 for scalars (mode  *)
(*                rates, reference eigenvalues, traces), d^2 x d^2 for      *)
(*                rank-4 tensors X^{ab cd} (row (a-1)d+b, column (c-1)d+d,  *)
(*                contravariant lattice components).  Rates are divided by  *)
(*                a power of two 2^kr, rank-4 tensors by 2^kL, products by   *)
(*                2^(kr+kL) (exact), so that one transport scale 1 serves,   *)
(*    asserts |-> sequence of [name, kind, terms, tol, xs, ys, e]]           *)
(* kinds                                                                   *)
(*  "zero"       sum_n terms[n][1] * tensor(terms[n][2]) = 0 within tol     *)
(*               (sum rule: sum_m L_m - (<PP> - <P><P>) = 0; first moment:  *)
(*               sum_m lambda_m L_m - 1/2 sum rho_i w_ij dP dP = 0; the      *)
(*               right-hand sides are exact rational bilinear forms of the  *)
(*               dyadic inputs)                                             *)
(*  "pos"        the scalar sum_n terms... is > 0 (a reported rate)         *)
(*  "member"     every x in xs is within tol of SOME y in ys                 *)
(*               (a reported rate is a non-zero eigenvalue of the           *)
(*               symmetrised rate matrix assembled from the definition)     *)
(*  "cover"      every y in ys is within tol of some x in xs                *)
(*               (every non-zero eigenvalue class is reported)              *)
(*  "compliance" X^{ab cd} = X^{ba cd} = X^{ab dc} = X^{cd ab}              *)
(*  "psd4"       sum X^{ab cd} e_ab e_cd >= -tol for all symmetric integer  *)
(*               strains e with entries in -1..1 and at most nz independent *)
(*               non-zero components, and for the certificate strain a.e    *)
(*               (the harness's guess of the most negative direction)       *)
(* Assertions whose name starts with "CERT" validate the harness's          *)
(* reference spectrum against exact traces of the generator                 *)
(* (sum mu = -tr Q, sum mu^2 = tr Q^2); the driver treats their failure as  *)
(* a machinery failure, never as a verdict.                                 *)
(*                                                                         *)
(* Tol (units 10^-10, set by the driver): identities 1e-8 (measured 3e-16   *)
(* on the unchanged tree; transport rounding 5e-11 per term), member 1e-9,  *)
(* cover 2e-5 + 1e-9 (the implementation merges modes whose rates agree to  *)
(* 1e-5 relative, which the property does not forbid).                      *)
(***************************************************************************)
EXTENDS Fx, FiniteSets, FiniteSetsExt, TLC, Json, IOUtils

Cases == JsonDeserialize(IOEnv.CASE_FILE)
VARIABLE k

Comb(c, a) == FxMatLin([n \in 1..Len(a.terms) |-> <<a.terms[n][1], c.tensors[a.terms[n][2]]>>])
Scalar(c, nm) == c.tensors[nm][1][1]
Diff(x, y) == FxAdd(x, FxScale(-1, y))
FxPositive(x) == LET y == FxNorm(x) IN y[1] > 0 \/ (y[1] = 0 /\ y[2] > 0)

Ix(d, a, b) == (a - 1) * d + b
Compliance(m, d, tol) ==
  \A a \in 1..d, b \in 1..d, cc \in 1..d, dd \in 1..d :
     /\ FxAbsLe(Diff(m[Ix(d, a, b)][Ix(d, cc, dd)], m[Ix(d, b, a)][Ix(d, cc, dd)]), tol)
     /\ FxAbsLe(Diff(m[Ix(d, a, b)][Ix(d, cc, dd)], m[Ix(d, a, b)][Ix(d, dd, cc)]), tol)
     /\ FxAbsLe(Diff(m[Ix(d, a, b)][Ix(d, cc, dd)], m[Ix(d, cc, dd)][Ix(d, a, b)]), tol)

\* symmetric integer strains: entries -1..1, between 1 and nz independent components non-zero
Upper(d) == {p \in (1..d) \X (1..d) : p[1] <= p[2]}
SymDirs(d, nz) ==
  {[a \in 1..d |-> [b \in 1..d |-> IF a <= b THEN f[<<a, b>>] ELSE f[<<b, a>>]]] :
      f \in {g \in [Upper(d) -> -1..1] : Cardinality({p \in Upper(d) : g[p] # 0}) \in 1..nz}}
Quad4(e, m, d) ==
  FoldSet(LAMBDA p, acc : FxAdd(acc, FxScale(e[p[1]][p[2]] * e[p[3]][p[4]], m[Ix(d, p[1], p[2])][Ix(d, p[3], p[4])])),
          FxZero,
          {p \in (1..d) \X (1..d) \X (1..d) \X (1..d) : e[p[1]][p[2]] # 0 /\ e[p[3]][p[4]] # 0})

Holds(c, a, dirs) ==
  CASE a.kind = "zero"       -> FxMatAbsLe(Comb(c, a), a.tol)
    [] a.kind = "pos"        -> FxPositive(Comb(c, a)[1][1])
    [] a.kind = "member"     -> \A x \in DOMAIN a.xs : \E y \in DOMAIN a.ys :
                                   FxAbsLe(Diff(Scalar(c, a.xs[x]), Scalar(c, a.ys[y])), a.tol)
    [] a.kind = "cover"      -> \A y \in DOMAIN a.ys : \E x \in DOMAIN a.xs :
                                   FxAbsLe(Diff(Scalar(c, a.xs[x]), Scalar(c, a.ys[y])), a.tol)
    [] a.kind = "compliance" -> Compliance(Comb(c, a), c.dim, a.tol)
    [] a.kind = "psd4"       -> LET m == Comb(c, a) IN
                                  /\ \A e \in dirs : FxGeMinus(Quad4(e, m, c.dim), 40 * a.tol)
                                  /\ (Len(a.e) > 0 => FxGeMinus(Quad4(a.e, m, c.dim), 1000 * a.tol))
    [] OTHER -> FALSE

Init == k = 0
Next == /\ k < Len(Cases)
        /\ k' = k + 1
        /\ LET c == Cases[k']
               dirs == SymDirs(c.dim, c.nz)
           IN /\ \A n \in DOMAIN c.asserts :
                    Holds(c, c.asserts[n], dirs) \/ PrintT(<<"FAIL", k', c.asserts[n].name>>)
              /\ PrintT(<<"INFO", k', "directions", Cardinality(dirs)>>)
        /\ (k' = Len(Cases) => PrintT(<<"DONE", k'>>))
=============================================================================
