--------------------------------- MODULE Fx ---------------------------------
(***************************************************************************)
(* Exact fixed-point numbers inside 32-bit TLC integers.                   *)
(*                                                                         *)
(* An observation x (a float produced by the implementation) is shipped as *)
(* the integer n = round(x / scale * 10^10) split into two limbs           *)
(*    <<a, b>>  with  n = a * 10^5 + b,  |b| < 10^5, sign(a) = sign(b),    *)
(* where `scale` is the largest magnitude in the case, so |a| <= 10^5.     *)
(* Integer-linear combinations are formed limb-wise without overflow and   *)
(* compared with a tolerance given in the same units (10^-10 * scale).     *)
(***************************************************************************)
EXTENDS Integers, Sequences, SequencesExt

Base == 100000

FxZero == <<0, 0>>
FxAdd(x, y) == <<x[1] + y[1], x[2] + y[2]>>
FxScale(c, x) == <<c * x[1], c * x[2]>>
\* sum_k coef[k] * xs[k]   (terms: sequence of <<coef, fx>>)
FxLin(terms) == FoldLeft(LAMBDA acc, t : FxAdd(acc, FxScale(t[1], t[2])), FxZero, terms)

Abs(n) == IF n < 0 THEN -n ELSE n
\* carry the low limb into the high limb (needed before comparing)
FxNorm(x) == LET q == IF x[2] >= 0 THEN x[2] \div Base ELSE -((-x[2]) \div Base)
             IN <<x[1] + q, x[2] - q * Base>>
\* |x| <= tol   (tol < 10^9 in units of 10^-10 scale)
FxAbsLe(x, tol) == LET y == FxNorm(x) IN Abs(y[1]) < 10000 /\ Abs(y[1] * Base + y[2]) <= tol
\* x >= -tol
FxGeMinus(x, tol) == LET y == FxNorm(x) IN y[1] >= 10000 \/ (y[1] > -10000 /\ y[1] * Base + y[2] >= -tol)

\* matrices of Fx numbers: sequences of rows
FxMatLin(terms) ==      \* terms: sequence of <<coef, matrix>>, all matrices of equal shape
  LET m == terms[1][2] IN
  [i \in 1..Len(m) |-> [j \in 1..Len(m[1]) |->
      FxLin([k \in 1..Len(terms) |-> <<terms[k][1], terms[k][2][i][j]>>])]]
FxMatAbsLe(m, tol) == \A i \in DOMAIN m : \A j \in DOMAIN m[i] : FxAbsLe(m[i][j], tol)
FxMatSym(m, tol) == \A i \in DOMAIN m : \A j \in DOMAIN m[i] :
                        FxAbsLe(FxAdd(m[i][j], FxScale(-1, m[j][i])), tol)
\* (R T R^T)_{ab} = sum_ij R_ai R_bj T_ij   for an integer matrix R
FxConj(R, m) == [a \in DOMAIN m |-> [b \in DOMAIN m |->
      FxLin([n \in 1..(Len(m) * Len(m)) |->
               LET i == ((n - 1) \div Len(m)) + 1  j == ((n - 1) % Len(m)) + 1
               IN <<R[a][i] * R[b][j], m[i][j]>>])]]
FxMatInv(R, m, tol) == FxMatAbsLe(FxMatLin(<<<<1, FxConj(R, m)>>, <<-1, m>>>>), tol)
\* quadratic form e^T m e for an integer vector e
FxQuad(e, m) == FxLin([n \in 1..(Len(m) * Len(m)) |->
               LET i == ((n - 1) \div Len(m)) + 1  j == ((n - 1) % Len(m)) + 1
               IN <<e[i] * e[j], m[i][j]>>])
=============================================================================
