----------------------------- MODULE Trace_C35 -----------------------------
(* Validates histories recorded from a real compiled MonteCarloSampler_jit   *)
(* (start / update / MCmoves, API only) against SamplerJit: arrays, index    *)
(* table, counters, energy, trial energy change and the transition table.    *)
EXTENDS SamplerJit, Json, IOUtils

Traces == JsonDeserialize(IOEnv.TRACE_FILE)

VARIABLES tid, l
tvars == <<jvars, tid, l>>

Empty == [i \in Site |-> IF i = Vac THEN -1 ELSE 0]
TInit == /\ tid \in 1..Len(Traces)
         /\ l = 1
         /\ occ = Empty /\ cnt = CntOf(Empty)
         /\ occset = {} /\ unoccset = {i \in Site : i # Vac}
         /\ obs = ObsOf(Empty, CntOf(Empty))
         /\ oarr = ArraysOf(Empty).oarr /\ uarr = ArraysOf(Empty).uarr /\ idx = ArraysOf(Empty).idx

TNext == /\ l <= Len(Traces[tid])
         /\ LET e == Traces[tid][l] IN
              /\ CASE e.ev = "JStart"   -> JStart(e.o)
                   [] e.ev = "JUpdate"  -> JUpdate(e.a, e.b) /\ e.dE = obs'.E - obs.E /\ e.dE = JDeltaE(cnt, e.a, e.b)
                   [] e.ev = "JMCmoves" -> JMCmoves(e.batch)
                   [] OTHER -> FALSE
              /\ occ' = e.occ /\ cnt' = e.cnt
              /\ oarr' = e.oarr /\ uarr' = e.uarr /\ idx' = e.idx
              /\ obs'.E = e.E
              /\ JTransitions(occ', cnt') = e.T
         /\ l' = l + 1
         /\ UNCHANGED tid
         /\ (l' > Len(Traces[tid]) => PrintT(<<"ACCEPT", tid, l>>))
         /\ (IOEnv.TRACE_VERBOSE = "1" => PrintT(<<"STEP", tid, l>>))
=============================================================================
