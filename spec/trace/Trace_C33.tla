----------------------------- MODULE Trace_C33 -----------------------------
(* Validates histories recorded from a real MonteCarloSampler against Sampler: *)
(* each event must be a step of Start / Update / UpdateErr, the logged state   *)
(* must equal the action's result, the logged energy must equal the model's   *)
(* energy, and the logged trial energy change must equal the energy step.      *)
EXTENDS Sampler, Json, IOUtils

Traces == JsonDeserialize(IOEnv.TRACE_FILE)

VARIABLES tid, l
tvars == <<vars, tid, l>>

TInit == /\ tid \in 1..Len(Traces)
         /\ l = 1
         /\ occ = [i \in Site |-> IF i = Vac THEN -1 ELSE 0]
         /\ cnt = CntOf(occ)
         /\ occset = {} /\ unoccset = {i \in Site : i # Vac}
         /\ obs = ObsOf(occ, cnt)

TNext == /\ l <= Len(Traces[tid])
         /\ LET e == Traces[tid][l] IN
              /\ CASE e.ev = "Start"  -> ~e.raised /\ Start(e.o)
                   [] e.ev = "Update" -> IF e.raised THEN UpdateErr(e.os, e.us) ELSE Update(e.os, e.us)
                   [] OTHER -> FALSE
              /\ occ' = e.occ
              /\ cnt' = e.cnt
              /\ occset' = ToSet(e.occset)
              /\ unoccset' = ToSet(e.unoccset)
              /\ obs'.E = e.E
              /\ (e.ev = "Update" /\ ~e.raised) => e.dE = obs'.E - obs.E
         /\ l' = l + 1
         /\ UNCHANGED tid
         /\ (l' > Len(Traces[tid]) => PrintT(<<"ACCEPT", tid, l>>))
         /\ (IOEnv.TRACE_VERBOSE = "1" => PrintT(<<"STEP", tid, l>>))
=============================================================================
