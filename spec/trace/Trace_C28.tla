----------------------------- MODULE Trace_C28 -----------------------------
(* Validates histories recorded from real onsager.supercell.Supercell objects *)
(* against SupercellOcc: every event must be a step of the named action and   *)
(* the logged full state must equal the action's result.                      *)
EXTENDS SupercellOcc, Json, IOUtils

Traces == JsonDeserialize(IOEnv.TRACE_FILE)   \* sequence of traces; a trace is a sequence of events

VARIABLES tid, l
tvars == <<occ, order, tid, l>>

TInit == /\ Init
         /\ tid \in 1..Len(Traces)
         /\ l = 1

Act(e) ==
  CASE e.ev = "SetOcc"   -> IF e.raised THEN SetOccErr(e.o, e.i, e.c) ELSE SetOcc(e.o, e.i, e.c)
    [] e.ev = "Fill"     -> ~e.raised /\ Fill(e.o, e.k)
    [] e.ev = "Reorder"  -> IF e.raised THEN ReorderErr(e.o, e.c, e.p) ELSE Reorder(e.o, e.c, e.p)
    [] e.ev = "ApplyG"   -> ~e.raised /\ ApplyG(e.o, e.g)
    [] e.ev = "Copy"     -> ~e.raised /\ Copy(e.o, e.b)
    [] e.ev = "RoundTrip" -> ~e.raised /\ RoundTrip(e.o)
    [] e.ev = "ReadPoscar" -> ~e.raised /\ ReadPoscar(e.o, e.k, e.empty)
    [] OTHER -> FALSE

TNext == /\ l <= Len(Traces[tid])
         /\ LET e == Traces[tid][l] IN
              /\ Act(e)
              /\ occ' = e.occ
              /\ order' = e.order
              /\ e.sane
         /\ l' = l + 1
         /\ UNCHANGED tid
         /\ (l' > Len(Traces[tid]) => PrintT(<<"ACCEPT", tid, l>>))
         /\ (IOEnv.TRACE_VERBOSE = "1" => PrintT(<<"STEP", tid, l>>))

TSpec == TInit /\ [][TNext]_tvars
=============================================================================
