------------------------------ MODULE Dipoles ------------------------------
(***************************************************************************)
(* Definitional model of "populating" elastic dipoles on the sites and     *)
(* jumps of one species of a world (C11), in exact integer arithmetic.     *)
(*                                                                         *)
(* Rank-2 tensors are d x d integer matrices of CONTRAVARIANT lattice      *)
(* components (T_latt = A^-1 T_cart A^-T): a space-group operation with    *)
(* integer rotation R acts as T |-> R T R^T.  Strains are COVARIANT        *)
(* (E = A^T eps A): R acts as E |-> R^-T E R^-1, and P:eps = sum P_kl E_kl. *)
(*                                                                         *)
(* A jump of species c is <<i, j, L>>: from site i (cell 0) to site j in   *)
(* the cell with integer lattice vector L.  The transition state of a jump *)
(* is shared with the reverse jump, so the symmetry of a transition state  *)
(* is the set of operations mapping the jump onto itself OR its reverse.   *)
(*                                                                         *)
(* The symmetric projection of an arbitrary input tensor P for a site/jump *)
(* with stabiliser S is the Reynolds average of its symmetric part         *)
(*     Pop = (1 / 2|S|) * sum_{g in S} R_g (P + P^T) R_g^T ;               *)
(* the spec keeps the integer numerator Reynolds(S, P + P^T).              *)
(***************************************************************************)
EXTENDS World

MZeroI(d) == [i \in 1..d |-> [j \in 1..d |-> 0]]
MAddI(a, b) == [i \in 1..Len(a) |-> [j \in 1..Len(a[1]) |-> a[i][j] + b[i][j]]]
MScaleI(n, a) == [i \in 1..Len(a) |-> [j \in 1..Len(a[1]) |-> n * a[i][j]]]
ConjI(R, X) == MM(R, MM(X, MT(R)))                       \* R X R^T
ContractI(X, E) == FoldLeft(LAMBDA s, i : s + Dot(X[i], E[i]), 0, Idx(Len(X)))
SymPart2(X) == MAddI(X, MT(X))                           \* twice the symmetric part

\* sites
SiteImg(w, c, g, i) == CHOOSE i2 \in DOMAIN w.basis[c] : ImgGrid(w, g[1], g[2], w.basis[c][i]) = w.basis[c][i2]
SiteStab(w, G, c, i) == {g \in G : SiteImg(w, c, g, i) = i}

\* jumps
JumpImg(w, c, g, J) ==
  LET p1 == ActPos(w, g[1], g[2], <<c, J[1]>>, VZero(w.dim))
      p2 == ActPos(w, g[1], g[2], <<c, J[2]>>, J[3])
  IN <<p1[1][2], p2[1][2], VSub(p2[2], p1[2])>>
RevJump(J) == <<J[2], J[1], VNeg(J[3])>>
SameTS(J1, J2) == J1 = J2 \/ J1 = RevJump(J2)            \* same transition state
JumpStab(w, G, c, J) == {g \in G : SameTS(JumpImg(w, c, g, J), J)}
ReversingOps(w, G, c, J) == {g \in G : JumpImg(w, c, g, J) = RevJump(J) /\ J # RevJump(J)}

\* numerator of the Reynolds average over a set S of operations
Reynolds(S, X) == FoldSet(LAMBDA g, acc : MAddI(acc, ConjI(g[1], X)), MZeroI(Len(X)), S)

\* ---- model-level lemmas (theorems of the model, checked on every case before the implementation is judged)
\* the projection is symmetric, invariant under the stabiliser and idempotent
ProjectionLemma(S, N) ==       \* N = Reynolds(S, SymPart2(P))
  /\ N = MT(N)
  /\ \A h \in S : ConjI(h[1], N) = N
  /\ Reynolds(S, N) = MScaleI(Cardinality(S), N)
\* a stabiliser is a group, and images of the representative under a coset are well defined
StabIsGroup(w, S) == IsGroup(w, S)

\* the operations that leave a strain E invariant
StrainStab(G, E) == {g \in G : MM(MT(g[1]), MM(E, g[1])) = E}
\* the coupling P:eps of the carried dipole is constant on the orbits of the strain's stabiliser, so that
\* "energy - P:eps" is a class function of the strained crystal (whose group is contained in StrainStab)
\* N = Reynolds numerator on the representative; Carried = numerators of the dipoles of all equivalent sites / jumps;
\* SS = StrainStab(G, E)
Carried(G, N) == {ConjI(h[1], N) : h \in G}
CouplingLemma(SS, carried, E) ==
  \A g \in SS, X \in carried : ContractI(ConjI(g[1], X), E) = ContractI(X, E)
=============================================================================
