----------------------------- MODULE Check_C21 -----------------------------
(* C21: jump networks are complete, closed and obstruction-aware.                    *)
(*                                                                                   *)
(* One case = one observed integer world `w` (read back from a constructed Crystal)   *)
(* and a list of queries; query q:                                                    *)
(*   chem      species (1-based)                                                      *)
(*   cut2x2    2 * cutoff^2 in grid units (chosen midway between two shells)          *)
(*   rad       per species <<rn, rd>>: obstruction radius^2 = rn/rd (grid units); for *)
(*             a scalar closestdistance all entries are equal; entry `chem` ignored   *)
(*   band      b: tie guard, radius^2 widened / narrowed by (b+1)/b, (b-1)/b           *)
(*   classes   what Crystal.jumpnetwork returned: classes of <<i, j, x>>, x = the      *)
(*             displacement projected to grid units                                   *)
(*   lattice   what Crystal.jumpnetwork2lattice returned: classes of <<i, j, L>>       *)
(* The jump set, the obstruction test and the symmetry classes are DEFINED in Jumps;  *)
(* the reported network must lie between the allowed sets of the most and the least   *)
(* obstructive reading of "obstructed" (they coincide unless the radius sits on a     *)
(* tie, which the driver designs out; INFO "exact" says whether they coincided).      *)
EXTENDS Jumps, Json, IOUtils

Cases == JsonDeserialize(IOEnv.CASE_FILE)

AsJump(e) == <<e[1], e[2], e[3]>>
ClassSet(cl) == {AsJump(cl[n]) : n \in DOMAIN cl}
Flat(q) == UNION {ClassSet(q.classes[m]) : m \in DOMAIN q.classes}
Count(q) == FoldLeft(LAMBDA s, m : s + Len(q.classes[m]), 0, Idx(Len(q.classes)))

\* each clause: <<name, holds>>
\* csets[m] = the m-th reported class as a set (computed once, by the action StSets)
Clauses(w, S0, q, jset, amin, amax, csets) ==
  LET c == q.chem
      rep == UNION {csets[m] : m \in DOMAIN csets}
  IN <<
   \* every reported jump joins two sites of the chosen species by a displacement that is a lattice vector apart
   <<"jump_connects_its_sites", \A jmp \in rep : Connects(w, c, jmp)>>,
   \* "exactly the jumps shorter than the cutoff ..."
   <<"no_jump_beyond_cutoff", \A jmp \in rep : Len2(w, jmp[3]) > 0 /\ 2 * Len2(w, jmp[3]) < q.cut2x2>>,
   \* "... that are not obstructed by other species closer than the requested distance"
   <<"no_obstructed_jump", \A jmp \in rep : jmp \in jset => jmp \in amax>>,
   <<"no_missing_jump", amin \subseteq rep>>,
   \* "each jump appears once"
   <<"each_jump_once", Cardinality(rep) = Count(q)>>,
   \* "every class is closed under the space group and under reversal"
   <<"class_closed_under_space_group",
       \A m \in DOMAIN csets : \A jmp \in csets[m] : \A g \in S0 :
           Connects(w, c, jmp) => ActJump(w, g, c, jmp) \in csets[m]>>,
   <<"class_closed_under_reversal",
       \A m \in DOMAIN csets : \A jmp \in csets[m] : Rev(jmp) \in csets[m]>>,
   \* classes are the symmetry-unique transitions: one orbit each, none empty
   <<"class_is_one_orbit",
       \A m \in DOMAIN q.classes :
           /\ Len(q.classes[m]) > 0
           /\ (Connects(w, c, AsJump(q.classes[m][1])) =>
                 csets[m] \subseteq JumpOrbit(w, S0, c, AsJump(q.classes[m][1])))>>,
   \* "the lattice form of the network encodes the same jumps"
   <<"lattice_form_same_jumps",
       /\ Len(q.lattice) = Len(q.classes)
       /\ \A m \in DOMAIN q.classes :
            /\ Len(q.lattice[m]) = Len(q.classes[m])
            /\ \A n \in DOMAIN q.classes[m] :
                 LET e == q.classes[m][n] l == q.lattice[m][n] IN
                 /\ l[1] = e[1] /\ l[2] = e[2]
                 /\ (Connects(w, c, AsJump(e)) => Disp(w, c, e[1], e[2], l[3]) = e[3])>>
  >>

\* model-level lemmas the verdict relies on (never a verdict about the library)
\* (the closure lemmas cost |jumps| x |group| evaluations; they are checked for the queries the driver marks
\*  with q.lemma -- the first query of every world/species -- the cheap ones for every query)
ModelSane(w, S0, q, jset, amin, amax, near) ==
  /\ q.lemma =>
       /\ \A jmp \in jset : Rev(jmp) \in jset /\ \A g \in S0 : ActJump(w, g, q.chem, jmp) \in jset     \* jump set closed
       /\ \A jmp \in amin : Rev(jmp) \in amin /\ \A g \in S0 : ActJump(w, g, q.chem, jmp) \in amin     \* obstruction invariant
       /\ \A jmp \in amax : Rev(jmp) \in amax /\ \A g \in S0 : ActJump(w, g, q.chem, jmp) \in amax
  /\ amin \subseteq amax
  /\ Cardinality(JumpSet(w, q.chem, q.cut2x2 + 1)) = Cardinality(jset)                              \* cutoff not on a shell
  \* the library's documented reading lies between the least and the most obstructive one
  /\ \A jmp \in jset : LET doc == BlockedDoc(w, q.chem, jmp, q.rad, near) IN
        (jmp \notin amax => doc) /\ (doc => jmp \notin amin)

VARIABLES k, qi, phase, grp, jset, near, amin, amax, csets, res
Cur == Cases[k]
Q == Cases[k].queries[qi]
Name(s) == ToString(qi) \o "|" \o s

Init == k = 0 /\ qi = 0 /\ phase = "load" /\ grp = {} /\ jset = {} /\ near = <<>> /\ amin = {} /\ amax = {} /\ csets = <<>> /\ res = <<>>
\* each expensive value is computed by one action and then read back as a plain value
Load == /\ phase = "load" /\ k < Len(Cases)
        /\ k' = k + 1 /\ qi' = 1 /\ grp' = OpsRT(Cases[k'].w, 2) /\ phase' = "jumps"
        /\ UNCHANGED <<jset, near, amin, amax, csets, res>>
StJumps == /\ phase = "jumps"
           /\ jset' = JumpSet(Cur.w, Q.chem, Q.cut2x2) /\ phase' = "near"
           /\ UNCHANGED <<k, qi, grp, near, amin, amax, csets, res>>
StNear == /\ phase = "near"
          /\ near' = NearTable(Cur.w, Q.chem, Q.cut2x2, Q.rad, Q.band) /\ phase' = "allow"
          /\ UNCHANGED <<k, qi, grp, jset, amin, amax, csets, res>>
StAllow == /\ phase = "allow"
           /\ amin' = {jmp \in jset : ~BlockedMost(Cur.w, Q.chem, jmp, Q.rad, Q.band, near)}
           /\ amax' = {jmp \in jset : ~BlockedLeast(Cur.w, Q.chem, jmp, Q.rad, Q.band, near)}
           /\ phase' = "sets" /\ UNCHANGED <<k, qi, grp, jset, near, csets, res>>
StSets == /\ phase = "sets"
          /\ csets' = [m \in DOMAIN Q.classes |-> ClassSet(Q.classes[m])] /\ phase' = "eval"
          /\ UNCHANGED <<k, qi, grp, jset, near, amin, amax, res>>
StEval == /\ phase = "eval"
          /\ res' = Clauses(Cur.w, grp, Q, jset, amin, amax, csets) /\ phase' = "report"
          /\ UNCHANGED <<k, qi, grp, jset, near, amin, amax, csets>>
Report ==
  /\ phase = "report"
  /\ \A j \in DOMAIN res : IF res[j][2] THEN TRUE ELSE PrintT(<<"FAIL", k, Name(res[j][1])>>)
  /\ PrintT(<<"INFO", k, Name("reported"), Cardinality(Flat(Q))>>)
  /\ PrintT(<<"INFO", k, Name("classes"), Len(Q.classes)>>)
  /\ PrintT(<<"INFO", k, Name("candidates"), Cardinality(jset)>>)
  /\ PrintT(<<"INFO", k, Name("obstructed"), Cardinality(jset) - Cardinality(amax)>>)
  /\ PrintT(<<"INFO", k, Name("shells"), Cardinality(Shells(Cur.w, jset))>>)
  /\ PrintT(<<"INFO", k, Name("exact"), amin = amax>>)
  /\ PrintT(<<"INFO", k, Name("model_sane"), ModelSane(Cur.w, grp, Q, jset, amin, amax, near)>>)
  /\ PrintT(<<"INFO", k, Name("order"), Cardinality(grp)>>)
  /\ (IF qi = Len(Cur.queries) /\ k = Len(Cases) THEN PrintT(<<"DONE", k>>) ELSE TRUE)
  /\ IF qi < Len(Cur.queries)
     THEN qi' = qi + 1 /\ phase' = "jumps" /\ UNCHANGED <<k, grp>>
     ELSE qi' = 0 /\ phase' = "load" /\ grp' = {} /\ UNCHANGED k
  /\ jset' = {} /\ near' = <<>> /\ amin' = {} /\ amax' = {} /\ csets' = <<>> /\ res' = <<>>
Next == Load \/ StJumps \/ StNear \/ StAllow \/ StSets \/ StEval \/ Report
=============================================================================
