----------------------------- MODULE Check_C23 -----------------------------
(* C23: coordinate conversions round-trip; every provided route for applying a *)
(* symmetry operation to sites, points, directions, tensors, pair states and   *)
(* cluster sites gives THE geometric result (Geom.tla); g*h, g.inv(), g+L are   *)
(* composition, inverse and lattice translation of the maps.                    *)
(*                                                                              *)
(* A case = observed world w, operations g, h (projected from the real          *)
(* GroupOps, translation exact), the projected g*h, g.inv(), g+L0, and probe     *)
(* lists.  Each probe carries its integer input and, per quantity, a list of    *)
(* observations <<route name, value>> computed by the real code through          *)
(* different routes; ALL of them must equal the model value computed here.       *)
EXTENDS Geom, Json, IOUtils

Cases == JsonDeserialize(IOEnv.CASE_FILE)
VARIABLE k

\* names (prefixed by the clause) of the routes whose observation differs from the model value
Diff(clause, obs, val) == {clause \o obs[n][1] : n \in {m \in DOMAIN obs : obs[m][2] # val}}
Site(s) == <<s[1], s[2]>>

\* the projected fields of an operation object equal the model map m (and its geometric permutation)
FieldDiff(clause, w, o, m) ==
     (IF o.rot = m.rot THEN {} ELSE {clause \o "rot"})
  \cup (IF o.t = m.t THEN {} ELSE {clause \o "trans"})
  \cup (IF o.crot = m.rot THEN {} ELSE {clause \o "cartrot"})
  \cup (IF IsSymmetry(w, m) /\ SamePerm(w, o.perm, GeomPerm(w, m)) THEN {} ELSE {clause \o "indexmap"})

PosBad(c, pr) ==
  LET w == c.w  g == c.g  h == c.h
      a == pr.a  L == pr.L
      img == ImgSite(w, g, a, L)
      himg == ImgSite(w, h, a, L)
  IN   Diff("convert: ", pr.x, SiteGrid(w, a, L))
  \cup Diff("convert: ", pr.back, <<a, L>>)
  \cup Diff("act on site: ", pr.img, img)
  \cup Diff("act on site: ", pr.imgx, ImgSiteGrid(w, g, a, L))
  \cup Diff("compose: ", pr.comp, ImgSite(w, g, himg[1], himg[2]))
  \cup Diff("inverse: ", pr.inv, <<a, L>>)
  \cup (IF IsInverse(w, g, c.ginv) /\ IsSymmetry(w, c.ginv)
        THEN Diff("inverse: ", pr.invimg, ImgSite(w, c.ginv, a, L)) ELSE {})
  \cup Diff("translate: ", pr.trl, <<img[1], VAdd(img[2], c.L0)>>)

PtBad(c, pr) ==
  LET w == c.w  g == c.g  N == w.D * c.K
      q == ImgPoint(g, c.K, pr.p)
  IN   Diff("convert: ", pr.x, pr.p)
  \cup Diff("convert: ", pr.split, Split(N, pr.p))
  \cup Diff("act on point: ", pr.img, Split(N, q))
  \cup Diff("act on point: ", pr.imgx, q)

DirBad(c, pr) == Diff("act on direction: ", pr.img, ImgDir(c.g, pr.v))
TensBad(c, pr) == Diff("act on tensor: ", pr.img, ImgTensor(c.g, pr.T))

PairBad(c, pr) ==
  LET w == c.w  g == c.g
      a == PS(pr.ps[1], pr.ps[2], pr.ps[3])
      b == ImgPS(w, pr.c, g, a)
  IN   Diff("pair state: ", pr.made, pr.ps)
  \cup Diff("pair state: ", pr.madedx, PSdx(w, pr.c, a))
  \cup Diff("act on pair state: ", pr.img, <<b.i, b.j, b.R>>)
  \cup Diff("act on pair state: ", pr.imgdx, ImgDir(g, PSdx(w, pr.c, a)))
  \* model-level lemma: the image's own separation is the rotated separation
  \cup (IF PSdx(w, pr.c, b) = ImgDir(g, PSdx(w, pr.c, a)) THEN {} ELSE {"MODEL: pair image separation"})

Over(f(_, _), c, lst) == UNION {f(c, lst[n]) : n \in DOMAIN lst}

Bad(c) ==
  LET w == c.w  g == c.g  h == c.h IN
  IF ~(IsSymmetry(w, g) /\ IsSymmetry(w, h))
  THEN {"input: reported operation is not a symmetry of the observed crystal"}
  ELSE   FieldDiff("compose: (g*h).", w, c.gh, ComposeX(g, h))
    \cup (IF IsInverse(w, g, c.ginv) THEN {} ELSE {"inverse: g.inv() composed with g is not the identity map"})
    \cup (IF c.ginv.crot = c.ginv.rot THEN {} ELSE {"inverse: g.inv().cartrot"})
    \cup (IF IsSymmetry(w, c.ginv) /\ SamePerm(w, c.ginv.perm, GeomPerm(w, c.ginv)) THEN {}
          ELSE {"inverse: g.inv().indexmap"})
    \cup FieldDiff("translate: (g+L).", w, c.gL, TranslateX(w, g, c.L0))
    \cup Over(PosBad, c, c.pos) \cup Over(PtBad, c, c.pts) \cup Over(DirBad, c, c.dirs)
    \cup Over(TensBad, c, c.tens) \cup Over(PairBad, c, c.pairs)

Init == k = 0
Next == /\ k < Len(Cases)
        /\ k' = k + 1
        /\ LET c == Cases[k'] bad == Bad(c) IN
             /\ \A name \in bad : PrintT(<<"FAIL", k', name>>)
             /\ PrintT(<<"INFO", k', "identity", SameMap(c.g, IdentityX(c.w))>>)
        /\ (k' = Len(Cases) => PrintT(<<"DONE", k'>>))
=============================================================================
