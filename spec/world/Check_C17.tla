----------------------------- MODULE Check_C17 -----------------------------
(* C17: change of variables and inversion of Taylor expansions are exact.            *)
(*                                                                                    *)
(* kind "rot":  a parity-consistent integer expansion T (every stored monomial of the  *)
(*   term n has degree = n mod 2, <= n), an invertible NON-orthogonal integer matrix M *)
(*   and an integer point p with integer norm.  With f_n(r) = r^n the term n of T is   *)
(*   the homogeneous polynomial  H_n(q) = SUM_e c_e q^e (q.q)^((n - deg e)/2), so      *)
(*   T(M p) is an exact integer (PEvalHom) -- the definition of "T o M at p".         *)
(*   Observed (per n, as <<I,F,G>>): rotate(M) at p, the in-place twin at p, the       *)
(*   original at M p (M p has integer norm too), the original at M p AFTER rotating,   *)
(*   and rotate(M) then rotate(M2) at p (must be T at M M2 p).                         *)
(* kind "inv":  T = A r^n0 + B1 r^(n0+1) + B2 r^(n0+2), A invertible (l = 0), integer  *)
(*   coefficients; X = T.inv(Nmax).  Observed per n at Pythagorean unit vectors (over  *)
(*   d^Lmax): X*T, T*X, X, and T after the calls.  X*T and T*X must be the identity in *)
(*   order 0 and vanish in orders 1..Nmax+n0.  When A is unimodular the truncated      *)
(*   geometric series is an integer expansion computed here exactly: it is checked to  *)
(*   be an inverse (model theorem) and X must evaluate to it.                          *)
EXTENDS Poly, Json, IOUtils

Cases == JsonDeserialize(IOEnv.CASE_FILE)
VARIABLE k

\* expansion from its JSON form: sequence of [n, l, mono (sequence of exponent tuples), coef (sequence of matrices)]
EFromJson(ts) ==
  [n \in {ts[i].n : i \in DOMAIN ts} |->
     LET t == ts[CHOOSE i \in DOMAIN ts : ts[i].n = n]
     IN ETerm(t.l, PCanon([e \in {t.mono[j] : j \in DOMAIN t.mono} |->
                              t.coef[CHOOSE j \in DOMAIN t.mono : t.mono[j] = e]]))]

Det(M) == IF Len(M) = 1 THEN M[1][1]
          ELSE IF Len(M) = 2 THEN M[1][1] * M[2][2] - M[1][2] * M[2][1]
          ELSE M[1][1] * (M[2][2] * M[3][3] - M[2][3] * M[3][2])
             - M[1][2] * (M[2][1] * M[3][3] - M[2][3] * M[3][1])
             + M[1][3] * (M[2][1] * M[3][2] - M[2][2] * M[3][1])
Transpose(M) == [i \in DOMAIN M[1] |-> [j \in DOMAIN M |-> M[j][i]]]
IsScalarMatrix(G) == \A i \in DOMAIN G : \A j \in DOMAIN G : G[i][j] = IF i = j THEN G[1][1] ELSE 0
RowSumMax(M) == Max({SumSeq([j \in DOMAIN M[i] |-> PAbs(M[i][j])]) : i \in DOMAIN M})
CoefSum(P) == FoldSet(LAMBDA e, acc : acc + MMaxAbs(P[e]), 0, DOMAIN P)

\* observations at a point: sequence of [n, v (matrix of <<I,F,G>>)]
ObsN(obs, n, r, c) == IF \E i \in DOMAIN obs : obs[i].n = n THEN obs[CHOOSE i \in DOMAIN obs : obs[i].n = n].v
                      ELSE [i \in 1..r |-> [j \in 1..c |-> <<0, 0, 0>>]]
\* every term of E, observed at an integer point whose image under M is q, has the exact value H_n(q)
HomMatch(E, obs, q, scale, r, c) ==
  /\ Cardinality({obs[i].n : i \in DOMAIN obs}) = Len(obs)
  /\ \A n \in (DOMAIN E) \cup {obs[i].n : i \in DOMAIN obs} :
        MatMatch(ObsN(obs, n, r, c), PEvalHom(EPoly(E, n), q, n, r, c), IPow(scale, n) * CoefSum(EPoly(E, n)))
\* two observations agree with each other
SameObs(o1, o2, E, scale, r, c) ==
  \A n \in DOMAIN E : \A i \in 1..r : \A j \in 1..c :
     LET a == ObsN(o1, n, r, c)[i][j]  b == ObsN(o2, n, r, c)[i][j]
     IN a[1] = b[1] /\ PAbs(a[2] - b[2]) <= 2 * ObsTol(IPow(scale, n) * CoefSum(EPoly(E, n)))

RotClauses(c) ==
  LET E == EFromJson(c.E)
      q == MV(c.M, c.p)
      q2 == MV(c.M, MV(c.M2, c.p))
      scale == RowSumMax(c.M) * c.np            \* |M p| <= scale ; rotated coefficients grow like RowSumMax^n
      scale2 == RowSumMax(c.M) * RowSumMax(c.M2) * c.np
  IN <<
   <<"case is inside the property (parity-consistent, M invertible and not orthogonal, integer norms)",
       /\ \A n \in DOMAIN E : ParityConsistent(E[n].p, n) /\ n \in 0..4
       /\ Det(c.M) # 0 /\ Det(c.M2) # 0
       /\ ~IsScalarMatrix(MMul(Transpose(c.M), c.M))
       /\ Dot(c.p, c.p) = c.np * c.np /\ Dot(q, q) = c.nq * c.nq>>,
   <<"the original expansion evaluates to its exact value at M p", HomMatch(E, c.orig, q, scale, c.r, c.c)>>,
   <<"rotate(M) evaluated at p is the original at M p", HomMatch(E, c.rot, q, scale, c.r, c.c)>>,
   <<"rotate(M) at p and the original at M p agree as computed", SameObs(c.rot, c.orig, E, scale, c.r, c.c)>>,
   <<"irotate(M) evaluated at p is the original at M p", HomMatch(E, c.irot, q, scale, c.r, c.c)>>,
   <<"rotate(M) leaves the original expansion unchanged", HomMatch(E, c.orig_after, q, scale, c.r, c.c)>>,
   <<"rotate(M) then rotate(M2) at p is the original at M M2 p", HomMatch(E, c.rot2, q2, scale2, c.r, c.c)>>
  >>

\* ---- inversion
Adj(A) == IF Len(A) = 1 THEN <<<<1>>>>
          ELSE IF Len(A) = 2 THEN <<<<A[2][2], -A[1][2]>>, <<-A[2][1], A[1][1]>>>>
          ELSE [i \in 1..3 |-> [j \in 1..3 |->
                 LET rs == <<2, 3, 1>>  ps == <<3, 1, 2>>       \* cofactor C[j][i] through cyclic indices
                 IN A[rs[j]][rs[i]] * A[ps[j]][ps[i]] - A[rs[j]][ps[i]] * A[ps[j]][rs[i]]]]
Shift(E, s) == [n \in {m + s : m \in DOMAIN E} |-> E[n - s]]
\* truncated geometric series for a unimodular leading matrix:
\*   T = r^n0 (A + B),  T^-1 = r^-n0 SUM_k (-A^-1 B)^k A^-1,  kept through relative order K = Nmax + n0
ModelInverse(E, n0, K, sc, r) ==
  LET A == E[n0].p[ZeroMono(Len(CHOOSE e \in DOMAIN E[n0].p : TRUE))]
      dim == Len(CHOOSE e \in DOMAIN E[n0].p : TRUE)
      Ai == MScale(Det(A), Adj(A))                                      \* A^-1 for det = +-1
      Times(X, Y) == MMul(X, Y)          \* (scalar-valued expansions are carried as 1 x 1 matrices)
      B == Shift([n \in (DOMAIN E) \ {n0} |-> E[n]], -n0)
      W == EMap(B, LAMBDA M : MScale(-1, Times(Ai, M)))                   \* -A^-1 B
      One == [n \in {0} |-> ETerm(0, PConst(dim, MIdent(r)))]
      S1 == ETrunc(W, K)
      S2 == ETrunc(EMul(S1, W, Times, r, r), K)
      Sum == EAdd(EAdd(One, S1, r, r), S2, r, r)
  IN Shift(EMap(Sum, LAMBDA M : Times(M, Ai)), -n0)
\* exact product of two expansions evaluated at a point (numerators over d^(2L)), order m
ProdAt(X, T, m, tab, sc, r) ==
  FoldSet(LAMBDA nx, acc :
            IF (m - nx) \in DOMAIN T
            THEN MAdd(acc, LET a == PEvalT(X[nx].p, tab, r, r)  b == PEvalT(T[m - nx].p, tab, r, r)
                           IN MMul(a, b))
            ELSE acc,
          MZero(r, r), DOMAIN X)
\* an observed product is the identity through order K.  Tolerance: 1e-8 absolute on the O(1) product value
\* (10^4 d^L in ObsTol's scale).  Measured on the unchanged tree over 400 cases: worst residual 2.2e-14
\* (3x3 leading matrices of condition number ~100); a wrong series term changes the value by O(0.1 .. 1).
IdentityThrough(obs, K, dLs, r) ==
  \A j \in DOMAIN obs : \A m \in 0..K :
     MatMatch(ObsAt(obs[j], m, 1, r, r), MScale(IF m = 0 THEN dLs[j] ELSE 0, MIdent(r)), 10000 * dLs[j])

InvClauses(c) ==
  LET E == EFromJson(c.E)
      K == c.Nmax + c.n0
      tabs == [j \in DOMAIN c.pts |-> MonoTable(c.pts[j], c.dim, c.L)]
      dLs == [j \in DOMAIN c.pts |-> IPow(c.pts[j].d, c.L)]
      A == E[c.n0].p[ZeroMono(c.dim)]
      uni == Det(A) \in {1, -1}
      X == ModelInverse(E, c.n0, K, c.sc, c.r)
      \* observations: c.left[j] etc. (one per point j) are sequences of [n, v |-> <<matrix of <<I,F,G>> >>]
  IN <<
   <<"case is inside the property (invertible isotropic leading term, higher orders follow, within Lmax)",
       /\ c.n0 \in DOMAIN E /\ \A n \in DOMAIN E : n >= c.n0
       /\ E[c.n0].l = 0 /\ Det(A) # 0 /\ K \in 0..2
       /\ \A n \in DOMAIN E : E[n].l <= n - c.n0 /\ E[n].l <= 2
       /\ K + Max({E[n].l : n \in DOMAIN E}) <= c.L>>,
   <<"model theorem: the truncated geometric series is an inverse through the requested order",
       \* (both factors have degree <= 2: numerators over d^2 each, the product over d^4)
       uni => \A j \in DOMAIN c.pts : \A m \in 0..K :
                 LET t2 == MonoTable(c.pts[j], c.dim, 2)  one == MScale(IF m = 0 THEN IPow(c.pts[j].d, 4) ELSE 0, MIdent(c.r))
                 IN ProdAt(X, E, m, t2, c.sc, c.r) = one /\ ProdAt(E, X, m, t2, c.sc, c.r) = one>>,
   <<"inv(Nmax) * original is the identity through order Nmax", IdentityThrough(c.left, K, dLs, c.r)>>,
   <<"original * inv(Nmax) is the identity through order Nmax", IdentityThrough(c.right, K, dLs, c.r)>>,
   <<"inv(Nmax) evaluates to the exact truncated series (unimodular leading matrix)",
       uni => \A j \in DOMAIN c.pts : EMatch(X, c.inv[j], <<tabs[j]>>, <<dLs[j]>>, c.r, c.r)>>,
   <<"inv(Nmax) has no terms beyond order Nmax",
       \A j \in DOMAIN c.pts : \A i \in DOMAIN c.inv[j] : c.inv[j][i].n <= c.Nmax>>,
   <<"inv() leaves the original expansion unchanged",
       \A j \in DOMAIN c.pts : EMatch(E, c.after[j], <<tabs[j]>>, <<dLs[j]>>, c.r, c.r)>>
  >>

Init == k = 0
Next == /\ k < Len(Cases)
        /\ k' = k + 1
        /\ LET c == Cases[k'] cl == IF c.kind = "rot" THEN RotClauses(c) ELSE InvClauses(c) IN
             \A j \in DOMAIN cl : cl[j][2] \/ PrintT(<<"FAIL", k', cl[j][1]>>)
        /\ (k' = Len(Cases) => PrintT(<<"DONE", k'>>))
=============================================================================
