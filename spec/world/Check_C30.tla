----------------------------- MODULE Check_C30 -----------------------------
(* C30: the automation archive written for a calculator's supercell dictionary  *)
(* is complete and self-consistent.                                            *)
(*                                                                           *)
(* One case = one real call  automator.supercelltar(tar, superdict, ...) whose   *)
(* archive was built in memory, extracted, and exercised:                       *)
(*   w, S, sites, kind, chem, nchem   the setting (SetupW)                      *)
(*   states [tag, occ, order], trans [tag, a, b, tm: [none, st]], hasref, ref   *)
(*          the supercell dictionary that was GIVEN to supercelltar             *)
(*   dirs, files, tagmap, rules     the archive (Archive.tla); rules = make's   *)
(*          own data base for the extracted Makefile (after CONTCARs exist)     *)
(*   poscars [path, ok, occ, order]  every POSCAR-format file of the archive     *)
(*          read back with Supercell.POSCAR_occ into an empty supercell         *)
(*   transfiles [path, relax, rot, t, map]   every transformation file parsed   *)
(*          (t in super-grid units, map as written: counted from 0)             *)
(*   runs [target, trans, contcar, rc, inpos, outpos, counts, ok, occ, order]    *)
(*          for every Makefile rule that makes an endpoint: the bundled script   *)
(*          really run (perl) on the rule's prerequisites, CONTCAR = the state's *)
(*          POSCAR; positions of input and output on the super grid, the output  *)
(*          read back with POSCAR_occ                                           *)
(*   makerc, makemissing   a dry run of make and its "No rule to make target"    *)
(* Output: <<"FAIL", case, "clause">> (archive), "clause@s<j>" (state j),        *)
(* "clause@t<j>i" / "clause@t<j>f" (initial / final endpoint of transition j).   *)
(* NOTE: TLC wraps printed tuples longer than 80 characters, and a wrapped       *)
(* line is not read back: clause names stay below 52 characters.                *)
EXTENDS SetupW, Archive, Json, IOUtils

Cases == JsonDeserialize(IOEnv.CASE_FILE)
VARIABLE k

HasRead(c, path) == \E n \in DOMAIN c.poscars : c.poscars[n].path = path
ReadOf(c, path) == c.poscars[CHOOSE n \in DOMAIN c.poscars : c.poscars[n].path = path]
ReadsBackTo(c, path, st) ==
  /\ path \in Files(c)
  /\ HasRead(c, path)
  /\ ReadOf(c, path).ok
  /\ SameState(ReadOf(c, path), st)

\* positions of the atoms of a supercell in presentation order (the lines of its POSCAR)
Presentation(c, st) == LET flat == FlattenSeq(st.order) IN [n \in DOMAIN flat |-> c.sites[flat[n]]]

HasTransFile(c, path) == \E n \in DOMAIN c.transfiles : c.transfiles[n].path = path
TransFileOf(c, path) == c.transfiles[CHOOSE n \in DOMAIN c.transfiles : c.transfiles[n].path = path]
HasRun(c, target) == \E n \in DOMAIN c.runs : c.runs[n].target = target
RunOf(c, target) == c.runs[CHOOSE n \in DOMAIN c.runs : c.runs[n].target = target]

StateTags(c) == {c.states[j].tag : j \in DOMAIN c.states}
TransTags(c) == {c.trans[j].tag : j \in DOMAIN c.trans}

StateClauses(c, j) ==
  LET s == c.states[j]
      tag(n) == n \o "@s" \o ToString(j)
  IN <<
    <<tag("state_POSCAR_reads_back_to_the_given_supercell"),
        HasDir(c, s.tag) => ReadsBackTo(c, Path(DirOf(c, s.tag), "POSCAR"), s)>>
  >>

\* endpoint `which` ("init" / "final") of transition j: the given supercell ep, the recorded entry e
EndpointClauses(c, j, which, e, ep) ==
  LET t == c.trans[j]
      tag(n) == n \o "@t" \o ToString(j) \o (IF which = "init" THEN "i" ELSE "f")
      has == HasDir(c, t.tag)
      dir == DirOf(c, t.tag)
      mapped == ~e.none /\ e.st \in DOMAIN c.states
      stored == Path(dir, (IF e.none THEN "POSCAR." ELSE "POS.") \o which)
      target == Path(dir, "POSCAR." \o which)
      tfpath == Path(dir, "trans." \o which)
      st == c.states[e.st]
      relax == DirOf(c, st.tag)
      wired == has /\ mapped /\ HasDir(c, st.tag) /\ HasTransFile(c, tfpath)
      tf == TransFileOf(c, tfpath)
      N == Dn(c)
      ran == wired /\ HasRun(c, target)
      run == RunOf(c, target)
  IN <<
    <<tag("endpoint_file_reads_back_to_the_given_supercell"), has => ReadsBackTo(c, stored, ep)>>,
    <<tag("only_unrelaxed_endpoints_are_stored_ready_made"), has => (target \in Files(c)) = e.none>>,
    <<tag("transformation_file_names_the_relaxed_state"),
        (has /\ mapped) => (wired /\ tfpath \in Files(c) /\ tf.relax = relax)>>,
    <<tag("rule_builds_endpoint_from_trans_file_and_CONTCAR"),
        wired => HasRule(c, target, <<tfpath, Path(relax, "CONTCAR")>>)>>,
    <<tag("trans_file_maps_relaxed_state_onto_endpoint"),
        wired => /\ Len(tf.map) = Len(FlattenSeq(ep.order))
                 /\ MapInRange(tf, Presentation(c, st))
                 /\ Counts(st) = Counts(ep)
                 /\ ApplyTrans(tf, Presentation(c, st), N) = Presentation(c, ep)>>,
    <<tag("bundled_script_runs_on_the_rule_prerequisites"),
        wired => (ran /\ run.rc = 0 /\ run.trans = tfpath /\ run.contcar = Path(relax, "CONTCAR"))>>,
    <<tag("bundled_script_applies_the_transformation_file"),
        (ran /\ run.rc = 0) => (MapInRange(tf, run.inpos) /\ run.outpos = ApplyTrans(tf, run.inpos, N))>>,
    <<tag("script_output_reproduces_the_transition_endpoint"),
        (ran /\ run.rc = 0) => /\ run.outpos = Presentation(c, ep)
                               /\ run.counts = Counts(ep)
                               /\ run.ok
                               /\ SameState(run, ep)>>
  >>

TransClauses(c, j) ==
  LET t == c.trans[j] IN
  IF t.ntm = 2
  THEN EndpointClauses(c, j, "init", t.tm[1], t.a) \o EndpointClauses(c, j, "final", t.tm[2], t.b)
  ELSE << <<"transmapping_has_one_entry_per_endpoint@t" \o ToString(j), FALSE>> >>

ArchiveClauses(c) ==
  <<
    <<"archive_members_are_unique", MembersUnique(c) /\ c.outside = 0>>,
    <<"tag_map_is_a_bijection_onto_the_directories", TagBijection(c, StateTags(c), TransTags(c))>>,
    <<"reference_POSCAR_reads_back_to_the_given_supercell", c.hasref => ReadsBackTo(c, "POSCAR", c.ref)>>,
    <<"every_makefile_dependency_exists_or_is_produced", Len(c.rules) > 0 /\ DepsResolvable(c)>>,
    <<"first_image_rule_exists_for_every_transition",
        \A j \in DOMAIN c.trans : HasDir(c, c.trans[j].tag) =>
           LET d == DirOf(c, c.trans[j].tag) IN
           HasRule(c, Path(d, "01/POSCAR"), <<Path(d, "POSCAR.init"), Path(d, "POSCAR.final")>>)>>,
    <<"make_dry_run_finds_every_dependency", c.makeran => (c.makerc = 0 /\ Len(c.makemissing) = 0)>>,
    <<"every_transformation_rule_was_exercised",
        \A n \in DOMAIN c.transfiles : \E m \in DOMAIN c.runs : c.runs[m].trans = c.transfiles[n].path>>
  >>

CaseEval(c) ==
  ArchiveClauses(c)
    \o FlattenSeq([j \in DOMAIN c.states |-> StateClauses(c, j)])
    \o FlattenSeq([j \in DOMAIN c.trans |-> TransClauses(c, j)])

Init == k = 0
Next == /\ k < Len(Cases)
        /\ k' = k + 1
        /\ LET c == Cases[k'] cl == CaseEval(c) IN
             /\ \A j \in DOMAIN cl : cl[j][2] \/ PrintT(<<"FAIL", k', cl[j][1]>>)
             /\ PrintT(<<"INFO", k', "clauses", Len(cl)>>)
        /\ (k' = Len(Cases) => PrintT(<<"DONE", k'>>))
=============================================================================
