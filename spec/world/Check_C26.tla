----------------------------- MODULE Check_C26 -----------------------------
(***************************************************************************)
(* C26: omega1 / omega2 jump networks classify every transition once.      *)
(* One case = one crystal + sublattice + jump network (jn: classes of pair  *)
(* states <<i, j, R>>) and a list of recorded networks (variants):           *)
(*   kind "starset": StarSet(N, originstates).jumpnetwork_omega1/omega2()    *)
(*        expected omega1 = all vacancy jumps between non-zero states of the *)
(*        star set, omega2 = all exchanges;                                  *)
(*   kind "calc":    VacancyMediated(Nthermo).om1_jn / om2_jn / omegalist()  *)
(*        expected omega1 = vacancy jumps that start or end in the           *)
(*        thermodynamic range Reach(Nthermo), omega2 = all exchanges.        *)
(* A recorded class is a sequence of <<s, f, dx>> (pair states of the        *)
(* endpoints, displacement in grid units); jt = 1-based class of jn.         *)
(***************************************************************************)
EXTENDS Omega, Json, IOUtils

Cases == JsonDeserialize(IOEnv.CASE_FILE)
VARIABLE k

SeqSet(s) == {s[m] : m \in DOMAIN s}
Tr(x) == <<x[1], x[2]>>
ClassSet(cl) == {Tr(cl[m]) : m \in DOMAIN cl}
SumLen(ss) == FoldLeft(LAMBDA acc, x : acc + Len(x), 0, ss)

\* clauses for one recorded network; which = 1 (omega1) or 2 (omega2); E = the expected set of transitions
NetClauses(tag, w, c, G, jnsets, netArg, jtArg, EArg, which) ==
  LET net == netArg
      jt == jtArg
      E == EArg
      sets == Force([m \in DOMAIN net |-> ClassSet(net[m])])
      all == UNION {sets[m] : m \in DOMAIN net}
      orbit == Force([m \in DOMAIN net |-> IF net[m] = <<>> THEN {} ELSE OrbitT(w, c, G, Tr(net[m][1]))])
      single == \A m \in DOMAIN net : sets[m] = orbit[m]
      disp(t) == IF which = 1 THEN Disp1(w, c, t) ELSE Disp2(w, c, t)
      jump(t) == IF which = 1 THEN JumpOf1(t) ELSE JumpOf2(t)
  IN <<
   <<tag \o "_lists_every_transition", E \subseteq all>>,
   <<tag \o "_lists_only_transitions", all \subseteq E>>,
   <<tag \o "_each_transition_exactly_once", SumLen(net) = Cardinality(all)>>,
   <<tag \o "_classes_nonempty", \A m \in DOMAIN net : net[m] # <<>>>>,
   <<tag \o "_class_is_one_symmetry_orbit", single>>,
   <<tag \o "_class_closed_under_group_and_reversal",
        single \/ \A m \in DOMAIN net : ClosedT(w, c, G, sets[m])>>,
   <<tag \o "_displacement_is_vacancy_displacement",
        \A m \in DOMAIN net : \A n \in DOMAIN net[m] : net[m][n][3] = disp(Tr(net[m][n]))>>,
   <<tag \o "_jumptype_is_class_of_the_vacancy_jump",
        /\ Len(jt) = Len(net)
        /\ \A m \in DOMAIN net : /\ jt[m] \in DOMAIN jnsets
                                 /\ \A n \in DOMAIN net[m] : jump(Tr(net[m][n])) \in jnsets[jt[m]]>>
  >>

ListClauses(tag, netArg, jtArg, olArg, ojtArg) ==
  LET net == netArg  ol == olArg IN
  << <<tag \o "_omegalist_names_one_transition_per_class",
        /\ Len(ol) = Len(net) /\ ojtArg = jtArg
        /\ \A m \in DOMAIN net : <<ol[m][1], ol[m][2]>> \in ClassSet(net[m])>> >>

Eval(kk, cArg) ==
  LET c == cArg
      w == c.w
      cc == c.c
      G == OpsRT(w, 2)
      jnsets == Force([m \in DOMAIN c.jn |-> SeqSet(c.jn[m])])
      J == UNION {jnsets[m] : m \in DOMAIN c.jn}
      T == Force([n \in 0..c.maxn |-> Reach(J, n)])
      model == << <<"jump_network_symmetric", NetworkOK(w, cc, G, J)>>,
                  <<"omega1_of_range_lies_in_kinetic_shell",
                      \A n \in 0..(c.maxn - 1) : \A t \in J1S(T[n], J) : t[1] \in T[n + 1] /\ t[2] \in T[n + 1]>> >>
      VarClauses(vArg) ==
        LET v == vArg
            S == IF v.kind = "starset" THEN T[v.n] \cup (IF v.og THEN Zeros(w, cc) ELSE {}) ELSE T[v.n + 1]
            E1 == IF v.kind = "starset" THEN J1Within(S, J) ELSE J1S(T[v.n], J)
            E2 == J2(S, J)
        IN NetClauses("omega1", w, cc, G, jnsets, v.om1, v.jt1, E1, 1)
           \o NetClauses("omega2", w, cc, G, jnsets, v.om2, v.jt2, E2, 2)
           \o (IF v.kind = "calc"
               THEN ListClauses("omega1", v.om1, v.jt1, v.ol1, v.ojt1) \o ListClauses("omega2", v.om2, v.jt2, v.ol2, v.ojt2)
               ELSE <<>>)
  IN
  /\ \A j \in DOMAIN model : model[j][2] \/ PrintT(<<"FAIL", kk, <<"model", 0, model[j][1]>>>>)
  /\ \A vi \in DOMAIN c.variants :
       LET cl == VarClauses(c.variants[vi]) IN
         \A j \in DOMAIN cl : cl[j][2] \/ PrintT(<<"FAIL", kk, <<"variant", vi, cl[j][1]>>>>)
  /\ PrintT(<<"INFO", kk, "group_order", Cardinality(G)>>)
  /\ PrintT(<<"INFO", kk, "classes_with_several_jumps",
              [vi \in DOMAIN c.variants |->
                 Cardinality({m \in DOMAIN c.variants[vi].om1 : Len(c.variants[vi].om1[m]) > 2})]>>)

Init == k = 0
Next == /\ k < Len(Cases)
        /\ k' = k + 1
        /\ Eval(k', Cases[k'])
        /\ (k' = Len(Cases) => PrintT(<<"DONE", k'>>))
=============================================================================
