----------------------------- MODULE Check_C29 -----------------------------
(* C29: the supercells a calculator sets up for the atomistic calculations    *)
(* contain the right defects, pair up into single-atom transitions, and carry  *)
(* mappings that really transform a relaxed state into a transition endpoint.  *)
(*                                                                           *)
(* One case = one real call  calc.makesupercells(S):                           *)
(*   w, S, sites, kind, chem, nchem   the setting (see SetupW)                 *)
(*   states  [tag, defs (the defects the tag names), occ, order]               *)
(*   trans   [tag, typ, ini, fin (named defects of the two ends), a, b (the    *)
(*            two supercells), ntm (length of the transmapping tuple),         *)
(*            tm: per recorded entry [none, st (index of the named state in    *)
(*            states, 0 = the tag is not a state), op, map]]                   *)
(*   kin     pair states of the kinetic range [i, dX] (vacancy calculator)     *)
(*   nwarn   number of "too small" warnings the call issued                    *)
(*   classes [type, idx, rep]   the calculator's classes and representative    *)
(*           tags;  indices [tag, type, idx]  the returned 'indices'           *)
(*   hasref, ref   the defect-free reference (vacancy calculator)              *)
(* Output: <<"FAIL", case, "clause">> (setting level), "clause@s<j>" (state j), *)
(* "clause@t<j>" (transition j), "clause@t<j>i" / "clause@t<j>f" (the recorded  *)
(* mapping of its initial / final endpoint); INFO lines with measured facts.    *)
(* NOTE: TLC wraps printed tuples longer than 80 characters, and a wrapped      *)
(* line is not read back: clause names stay below 52 characters.               *)
EXTENDS SetupW, Json, IOUtils

Cases == JsonDeserialize(IOEnv.CASE_FILE)
VARIABLE k

StateTypes == {"states", "vacancy", "solute", "solute-vacancy"}
WellFormedState(q, defs) ==
  IF q.kind = "interstitial" THEN TypesOf(defs) = <<"i">>
  ELSE TypesOf(defs) \in {<<"v">>, <<"s">>, <<"s", "v">>}

\* ---- one state supercell
StateClauses(q, j) ==
  LET s == q.states[j]
      st == [occ |-> s.occ, order |-> s.order]
      tag(n) == n \o "@s" \o ToString(j)
      wf == WellFormedState(q, s.defs)
      fits == wf /\ DistinctInSupercell(q, s.defs)
  IN <<
    <<tag("state_tag_names_its_defects"), wf>>,
    <<tag("state_supercell_is_consistent"), Len(s.occ) = Len(q.sites) /\ Sane(st, NumSpecies(q))>>,
    <<tag("named_positions_are_on_the_diffusing_sublattice"), wf => NamedOnSublattice(q, s.defs)>>,
    <<tag("state_has_exactly_the_named_defects_at_named_sites"), fits => s.occ = ExpectedOcc(q, s.defs)>>
  >>

\* ---- one recorded (state, operation, mapping) entry e for endpoint ep of transition j (which = "i" / "f")
EntryClauses(q, G, ix, j, which, e, ep) ==
  LET tag(n) == n \o "@t" \o ToString(j) \o which
      known == ~e.none /\ e.st \in DOMAIN q.states
      s == q.states[e.st]
      st == [occ |-> s.occ, order |-> s.order]
      sane == Len(ep.occ) = Len(q.sites) /\ Sane(ep, NumSpecies(q))
  IN <<
    <<tag("recorded_mapping_names_a_state_supercell"), e.none \/ known>>,
    <<tag("recorded_operation_is_a_symmetry_of_the_supercell"),
        known => (OpIsGeometric(q, e.op) /\ <<e.op.rot, e.op.t>> \in G)>>,
    <<tag("mapping_transforms_relaxed_state_into_endpoint"),
        (known /\ sane) => MappingTransforms(e.op, st, e.map, ep)>>,
    <<tag("unmapped_endpoint_has_no_equivalent_relaxed_state"),
        (e.none /\ sane) =>
           \A n \in {m \in DOMAIN q.states : SameContent(q.states[m].occ, ep.occ)} :
               ~EquivalentOcc(q, ix, G, q.states[n].occ, ep.occ)>>,
    \* model-level theorem (small supercells): the equivalence used above is SuperW's Equivalent
    <<tag("model_equivalence_is_SuperW_Equivalent"),
        (sane /\ Len(q.sites) <= 12 /\ (e.none \/ j <= 3)) =>
           LET perms == {SitePerm(Dn(q), q.sites, g[1], g[2]) : g \in G} IN
           \A n \in {m \in DOMAIN q.states : SameContent(q.states[m].occ, ep.occ)} :
               EquivalentOcc(q, ix, G, q.states[n].occ, ep.occ) = Equivalent(perms, q.states[n].occ, ep.occ)>>
  >>

\* ---- one transition pair
TransClauses(q, G, ix, j) ==
  LET t == q.trans[j]
      tag(n) == n \o "@t" \o ToString(j)
      wf == WellFormedTransition(t.typ, t.ini, t.fin) /\ (t.typ = "omega2" => Omega2Frame(q, t.ini, t.fin))
      fin == FinalDefects(t.typ, t.ini, t.fin)
      fits == wf /\ DistinctInSupercell(q, AllPoints(t.typ, t.ini, t.fin))
      sane == /\ Len(t.a.occ) = Len(q.sites) /\ Len(t.b.occ) = Len(q.sites)
              /\ Sane(t.a, NumSpecies(q)) /\ Sane(t.b, NumSpecies(q))
      paired == sane /\ SameCounts(t.a, t.b)
      mv == Moved(t.a, t.b)
      one == paired /\ Cardinality(mv) = 1
      ci == CHOOSE x \in mv : TRUE
      entries == IF t.ntm = 2
                 THEN EntryClauses(q, G, ix, j, "i", t.tm[1], t.a) \o EntryClauses(q, G, ix, j, "f", t.tm[2], t.b)
                 ELSE <<>>
  IN <<
    <<tag("transition_tag_names_its_end_states"), wf>>,
    <<tag("endpoint_supercells_are_consistent"), sane>>,
    <<tag("named_positions_are_on_the_diffusing_sublattice"), wf => NamedOnSublattice(q, AllPoints(t.typ, t.ini, t.fin))>>,
    <<tag("initial_endpoint_has_exactly_the_named_defects"), fits => t.a.occ = ExpectedOcc(q, t.ini)>>,
    <<tag("final_endpoint_has_exactly_the_named_defects"), fits => t.b.occ = ExpectedOcc(q, fin)>>,
    <<tag("endpoints_differ_by_a_single_moving_atom"), fits => one>>,
    <<tag("moving_atom_is_the_jumping_species"), (fits /\ one) => ci[1] = MovingSpecies(q, t.typ)>>,
    <<tag("moving_atom_displacement_matches_the_jump"),
        (fits /\ one) => Displacement(q, t.a, t.b, ci) = SitePoint(q, AtomJump(t.typ, t.ini, t.fin))>>,
    <<tag("transmapping_has_one_entry_per_endpoint"), t.ntm = 2>>
  >> \o entries

\* ---- the setting as a whole
\* records whose named defects are distinct sites of the supercell (the content clauses are demanded of these)
FitStates(q) == {j \in DOMAIN q.states : WellFormedState(q, q.states[j].defs) /\ DistinctInSupercell(q, q.states[j].defs)}
FitTrans(q) == {j \in DOMAIN q.trans :
                  LET t == q.trans[j] IN
                  /\ WellFormedTransition(t.typ, t.ini, t.fin)
                  /\ DistinctInSupercell(q, AllPoints(t.typ, t.ini, t.fin))}

\* too small: (interstitial) the two ends of a representative jump are one and the same site of the supercell;
\* (vacancy) two pair states of the kinetic range are one and the same configuration of the supercell.  Every state
\* or transition record of a vacancy calculator is made of pair states of the kinetic range, so a record whose
\* defects coincide is covered by the second case.
TooSmall(q) ==
  IF q.kind = "interstitial"
  THEN \E j \in DOMAIN q.trans :
          LET t == q.trans[j] IN
          WellFormedTransition(t.typ, t.ini, t.fin) /\ ~DistinctInSupercell(q, AllPoints(t.typ, t.ini, t.fin))
  ELSE KineticAliased(q, q.kin)

SettingClauses(q) ==
  LET reps(T) == {q.classes[n].rep : n \in {m \in DOMAIN q.classes : (q.classes[m].type \in StateTypes) = T}}
      stags == {q.states[j].tag : j \in DOMAIN q.states}
      ttags == {q.trans[j].tag : j \in DOMAIN q.trans}
  IN <<
    <<"sites_are_the_sites_of_the_supercell", SitesCorrect(q.w, q.S, q.sites)>>,
    <<"one_state_supercell_per_state_class", stags = reps(TRUE) /\ Cardinality(stags) = Len(q.states)>>,
    <<"one_transition_pair_per_jump_class", ttags = reps(FALSE) /\ Cardinality(ttags) = Len(q.trans)>>,
    <<"indices_name_the_class_of_every_supercell",
        /\ {q.indices[n].tag : n \in DOMAIN q.indices} = stags \cup ttags
        /\ \A n \in DOMAIN q.indices : \E m \in DOMAIN q.classes :
              /\ q.classes[m].rep = q.indices[n].tag
              /\ q.classes[m].type = q.indices[n].type
              /\ q.classes[m].idx = q.indices[n].idx>>,
    <<"reference_supercell_is_defect_free",
        q.hasref => (Len(q.ref.occ) = Len(q.sites) /\ Sane(q.ref, NumSpecies(q)) /\ q.ref.occ = ExpectedOcc(q, <<>>))>>,
    <<"too_small_supercell_warns", TooSmall(q) => q.nwarn > 0>>
  >>

CaseEval(q) ==
  IF ~SitesCorrect(q.w, q.S, q.sites)
  THEN << <<"sites_are_the_sites_of_the_supercell", FALSE>> >>
  ELSE LET G == Group(q)
           ix == SiteIndexOf(q) IN
       SettingClauses(q)
         \o FlattenSeq([j \in DOMAIN q.states |-> StateClauses(q, j)])
         \o FlattenSeq([j \in DOMAIN q.trans |-> TransClauses(q, G, ix, j)])

Init == k = 0
Next == /\ k < Len(Cases)
        /\ k' = k + 1
        /\ LET q == Cases[k'] cl == CaseEval(q) IN
             /\ \A j \in DOMAIN cl : cl[j][2] \/ PrintT(<<"FAIL", k', cl[j][1]>>)
             /\ PrintT(<<"INFO", k', "toosmall", TooSmall(q)>>)
             /\ PrintT(<<"INFO", k', "aliased", q.kind = "vacancy" /\ KineticAliasedAtAll(q, q.kin)>>)
             /\ PrintT(<<"INFO", k', "fits", Cardinality(FitStates(q)) + Cardinality(FitTrans(q))>>)
             /\ PrintT(<<"INFO", k', "clauses", Len(cl)>>)
        /\ (k' = Len(Cases) => PrintT(<<"DONE", k'>>))
=============================================================================
