------------------------------- MODULE SetupW -------------------------------
(***************************************************************************)
(* Calculation-setup supercells, definitionally (properties C29 / C30).     *)
(*                                                                         *)
(* A "setting" q is a record                                                *)
(*   [w     : the crystal (world),                                          *)
(*    S     : the supercell matrix,                                         *)
(*    sites : the supercell's site positions (super-grid integers),         *)
(*    kind  : "interstitial" | "vacancy",                                   *)
(*    chem  : the species (1-based) of the diffusing sublattice,            *)
(*    nchem : number of species of the crystal (the substitutional solute   *)
(*            is species nchem + 1; 0 = vacant site)]                        *)
(* A tag NAMES defects: a sequence of [t |-> "i" | "v" | "s", X |-> point of *)
(* the primitive grid (D * unit-cell coordinates, NOT reduced modulo the     *)
(* cell)].  What a state supercell must contain is said outright:            *)
(*   interstitial calculator: every site of the other species carries its    *)
(*     own species, the diffuser sublattice is empty except for the named    *)
(*     site, which carries the diffuser;                                     *)
(*   vacancy calculator: every site carries its own species except the       *)
(*     named vacancy (empty) and the named solute (species nchem + 1).       *)
(* A transition is a pair of such contents that, read in presentation order  *)
(* (atom by atom, as an NEB run does), differ in exactly one atom, which is   *)
(* displaced by the jump (interstitial) or by minus the vacancy's            *)
(* displacement (omega0/1/2), modulo the supercell lattice.                  *)
(* Nothing here mirrors makesupercells.                                      *)
(***************************************************************************)
EXTENDS SuperW, OccOps

Dn(q) == SuperD(q.w, q.S)
SitePoint(q, X) == VMod(ToSuper(q.S, X), Dn(q))          \* primitive-grid point -> super grid, modulo the supercell

\* the named points are distinct sites of the supercell (false in a supercell that is too small for the record)
Points(defs) == {defs[n].X : n \in DOMAIN defs}
DistinctInSupercell(q, defs) == Cardinality({SitePoint(q, X) : X \in Points(defs)}) = Cardinality(Points(defs))

\* every named point is a site of the diffusing sublattice and occurs in the site list
NamedOnSublattice(q, defs) ==
  \A n \in DOMAIN defs :
     /\ IsSiteOf(q.w, q.S, SitePoint(q, defs[n].X), q.chem)
     /\ \E k \in DOMAIN q.sites : q.sites[k] = SitePoint(q, defs[n].X)

DefectValue(q, t) == IF t = "v" THEN 0 ELSE IF t = "s" THEN q.nchem + 1 ELSE q.chem

\* the occupation (over q.sites) of the supercell that contains exactly the named defects
ExpectedOcc(q, defs) ==
  [k \in DOMAIN q.sites |->
     LET named == {n \in DOMAIN defs : SitePoint(q, defs[n].X) = q.sites[k]}
         sp == SpeciesOfSite(q.w, q.S, q.sites[k])
     IN IF named # {} THEN DefectValue(q, defs[CHOOSE n \in named : TRUE].t)
        ELSE IF q.kind = "interstitial" /\ sp = q.chem THEN 0
        ELSE sp]

NumSpecies(q) == IF q.kind = "vacancy" THEN q.nchem + 1 ELSE q.nchem

TypesOf(defs) == [n \in DOMAIN defs |-> defs[n].t]
PosOf(defs, t) == defs[CHOOSE n \in DOMAIN defs : defs[n].t = t].X

---------------------------------------------------------------------------
\* transitions.  typ \in {"i", "omega0", "omega1", "omega2"}; ini / fin = the defects named for the two ends
WellFormedTransition(typ, ini, fin) ==
  CASE typ = "i"      -> TypesOf(ini) = <<"i">> /\ TypesOf(fin) = <<"i">>
    [] typ = "omega0" -> TypesOf(ini) = <<"v">> /\ TypesOf(fin) = <<"v">>
    [] typ = "omega1" -> TypesOf(ini) = <<"s", "v">> /\ TypesOf(fin) = <<"s", "v">>
    [] typ = "omega2" -> TypesOf(ini) = <<"s", "v">> /\ TypesOf(fin) = <<"s", "v">>
    [] OTHER -> FALSE

\* an omega2 tag names its final complex with the solute back in the home cell: the named pair is the exchanged
\* pair moved by one lattice vector T
Omega2Frame(q, ini, fin) ==
  LET T == VSub(PosOf(fin, "s"), PosOf(ini, "v")) IN
  /\ Divisible(T, q.w.D)
  /\ VSub(PosOf(fin, "v"), PosOf(ini, "s")) = T

\* the contents of the final end in the frame of the initial one
FinalDefects(typ, ini, fin) ==
  IF typ = "omega2" THEN << [t |-> "s", X |-> PosOf(ini, "v")], [t |-> "v", X |-> PosOf(ini, "s")] >> ELSE fin

\* displacement of the diffusing defect (interstitial atom / vacancy), primitive grid
DefectJump(typ, ini, fin) ==
  CASE typ = "i"      -> VSub(PosOf(fin, "i"), PosOf(ini, "i"))
    [] typ = "omega2" -> VSub(PosOf(ini, "s"), PosOf(ini, "v"))
    [] OTHER          -> VSub(PosOf(fin, "v"), PosOf(ini, "v"))
\* ... and of the ATOM that moves
AtomJump(typ, ini, fin) == IF typ = "i" THEN DefectJump(typ, ini, fin) ELSE VNeg(DefectJump(typ, ini, fin))
MovingSpecies(q, typ) == IF typ = "omega2" THEN q.nchem + 1 ELSE q.chem

AllPoints(typ, ini, fin) == ini \o FinalDefects(typ, ini, fin)

\* the atoms (species c, place i in the presentation order) that sit on different sites in the two ends
Moved(a, b) == {ci \in UNION {{<<c, i>> : i \in DOMAIN a.order[c]} : c \in DOMAIN a.order} :
                   a.order[ci[1]][ci[2]] # b.order[ci[1]][ci[2]]}
SameCounts(a, b) == Len(a.order) = Len(b.order) /\ \A c \in DOMAIN a.order : Len(a.order[c]) = Len(b.order[c])

\* displacement (super grid, modulo the supercell lattice) of atom ci between the two ends
Displacement(q, a, b, ci) ==
  VMod(VSub(q.sites[b.order[ci[1]][ci[2]]], q.sites[a.order[ci[1]][ci[2]]]), Dn(q))

---------------------------------------------------------------------------
\* recorded (state, operation, mapping) triples
OpIsGeometric(q, op) ==
  /\ op.crot = op.rot
  /\ Len(op.perm) = Len(q.sites)
  /\ \A s \in DOMAIN q.sites : /\ op.perm[s] \in DOMAIN q.sites
                               /\ q.sites[op.perm[s]] = SiteImage(Dn(q), op.rot, op.t, q.sites[s])

MappingTransforms(op, st, map, endpoint) ==
  /\ IsPermutationOf(op.perm, Len(st.occ))
  /\ ValidMap(st, map)
  /\ SameState(Reordered(GApply(op.perm, st), map), endpoint)

\* the group of the supercell (SuperW): pairs <<rotation, translation>> on the super grid
Group(q) == SuperOps(q.w, q.S, q.sites)

\* two occupations are equivalent iff some element of the group carries one onto the other (SuperW's
\* Equivalent, said without first tabulating every induced permutation).  ix = SiteIndexOf(q): point -> index.
SiteIndexOf(q) == [P \in {q.sites[n] : n \in DOMAIN q.sites} |-> CHOOSE n \in DOMAIN q.sites : q.sites[n] = P]
ImageIndex(q, ix, g, n) == ix[SiteImage(Dn(q), g[1], g[2], q.sites[n])]
CarriedBy(q, ix, g, a, b) == \A n \in DOMAIN a : b[ImageIndex(q, ix, g, n)] = a[n]
\* a site whose occupant is the rarest one: g can only carry a onto b if it sends that site to a site of b with
\* the same occupant (a necessary condition, used to avoid testing every operation on every site)
RarestSite(a) ==
  LET vals == {a[n] : n \in DOMAIN a}
      cnt(v) == Cardinality({n \in DOMAIN a : a[n] = v})
      v0 == CHOOSE v \in vals : \A u \in vals : cnt(v) <= cnt(u)
  IN CHOOSE n \in DOMAIN a : a[n] = v0
EquivalentOcc(q, ix, G, a, b) ==
  LET n0 == RarestSite(a) IN
  \E g \in G : b[ImageIndex(q, ix, g, n0)] = a[n0] /\ CarriedBy(q, ix, g, a, b)

\* same multiset of species: a cheap necessary condition for equivalence
SameContent(a, b) == \A v \in {a[k] : k \in DOMAIN a} \cup {b[k] : k \in DOMAIN b} :
                        Cardinality({k \in DOMAIN a : a[k] = v}) = Cardinality({k \in DOMAIN b : b[k] = v})

---------------------------------------------------------------------------
\* too-small supercells.  kin = the solute-vacancy pair states within the kinetic range, [i, dX] (solute site,
\* separation on the primitive grid): the supercell is too small as soon as two of them are the same
\* configuration of the supercell, or the vacancy of one falls on (an image of) the solute
\* Ties are designed out: two aliased states that BOTH lie in the closed half cell (supercell coordinates of the
\* separation all within [-1/2, 1/2]) differ by +-1 exactly on the cell boundary; whether such a pair counts is a
\* matter of rounding and is not demanded.  An aliased pair counts when one of its members lies strictly outside.
OutsideHalfCell(q, dX) == LET P == ToSuper(q.S, dX) IN \E a \in DOMAIN P : 2 * Abs(P[a]) > Dn(q)
KineticAliased(q, kin) ==
  LET key == [n \in DOMAIN kin |-> <<kin[n].i, SitePoint(q, kin[n].dX)>>]
      out == {n \in DOMAIN kin : OutsideHalfCell(q, kin[n].dX)}
  IN \/ \E n \in DOMAIN kin : kin[n].dX # VZero(q.w.dim) /\ SitePoint(q, kin[n].dX) = VZero(q.w.dim)
     \/ \E n \in out : \E m \in DOMAIN kin : m # n /\ key[m] = key[n]
\* (any aliasing at all, ties included: reported as a measured fact only)
KineticAliasedAtAll(q, kin) ==
  Cardinality({<<kin[n].i, SitePoint(q, kin[n].dX)>> : n \in DOMAIN kin}) < Len(kin)
=============================================================================
