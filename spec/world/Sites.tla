------------------------------- MODULE Sites -------------------------------
(***************************************************************************)
(* Site symmetry in the exact integer crystal model: what a site's point    *)
(* group, the Wyckoff sets, the equivalent positions of an arbitrary point  *)
(* and the invariant vector / symmetric-tensor spaces of a site ARE.        *)
(* Everything is stated in lattice coordinates, where every symmetry        *)
(* operation is a small integer matrix, so invariance of a (fixed-point)    *)
(* vector or tensor is decided with exact integer arithmetic.               *)
(*                                                                         *)
(* Also: the subgroup lattice of a holohedry (all subgroups, conjugacy      *)
(* classes) for the exhaustive site-symmetry sweep, and the crystal "one    *)
(* atom at the origin + the H-orbit of a generic point" whose origin has    *)
(* site symmetry exactly H.                                                 *)
(***************************************************************************)
EXTENDS World

Abs(x) == IF x < 0 THEN -x ELSE x

\* ------------------------------------------------------------------ orbits of arbitrary points
\* a point given on the finer grid 1/(kk*D): its image under <<R, t>> (t in units 1/D), modulo the lattice
ImgFine(w, g, u, kk) == VMod(VAdd(MV(g[1], u), VScale(kk, g[2])), kk * w.D)
OrbitOfFine(w, S, u, kk) == {ImgFine(w, g, u, kk) : g \in S}

\* ------------------------------------------------------------------ fixed-point invariance
\* v: a vector in lattice coordinates scaled by some S and rounded; R v = v up to tol units
VecInvariant(R, v, tol) == LET Rv == MV(R, v) IN \A i \in DOMAIN v : Abs(Rv[i] - v[i]) <= tol
\* T: a contravariant tensor in lattice coordinates (A^-1 T A^-T), scaled and rounded; R T R^T = T up to tol
TensorImage(R, T) == MM(R, MM(T, MT(R)))
TensorInvariant(R, T, tol) ==
  LET RT == TensorImage(R, T) IN \A i \in DOMAIN T : \A j \in DOMAIN T[i] : Abs(RT[i][j] - T[i][j]) <= tol
TensorSymmetric(T, tol) == \A i \in DOMAIN T : \A j \in DOMAIN T[i] : Abs(T[i][j] - T[j][i]) <= tol
\* gram: matrix of inner products scaled by `one`; identity up to tol
GramIsIdentity(gram, one, tol) ==
  \A i \in DOMAIN gram : \A j \in DOMAIN gram[i] : Abs(gram[i][j] - (IF i = j THEN one ELSE 0)) <= tol

\* a signature of a finite matrix group that does not depend on the choice of lattice vectors:
\* how many elements have each <<trace, determinant>>
ClassSigOf(P) == {<<p[1], p[2], Cardinality({R \in P : <<Trace(R), Det(R)>> = p})>> : p \in {<<Trace(R), Det(R)>> : R \in P}}

\* ------------------------------------------------------------------ subgroup lattice of a point group
\* P: a sequence of the distinct matrices of a finite matrix group
IndexIn(P, m) == CHOOSE i \in DOMAIN P : P[i] = m
MulTable(P) == [i \in DOMAIN P |-> [j \in DOMAIN P |-> IndexIn(P, MM(P[i], P[j]))]]
\* below, group elements are indices into P, `mul` is MulTable(P), `e` the index of the identity and `inv` the
\* table of inverses (passed in, so that they are computed once)
IdIndex(mul) == CHOOSE e \in DOMAIN mul : \A i \in DOMAIN mul : mul[e][i] = i
InvTable(mul, e) == [i \in DOMAIN mul |-> CHOOSE j \in DOMAIN mul : mul[i][j] = e]
RECURSIVE CloseUnder(_, _, _)
CloseUnder(mul, gens, S) ==       \* smallest superset of S closed under left multiplication by gens
  LET S2 == S \cup {mul[g][s] : g \in gens, s \in S} IN IF S2 = S THEN S ELSE CloseUnder(mul, gens, S2)
\* in a finite group the closure of {e} under left multiplication by gens is the subgroup they generate
Generated(mul, e, gens) == CloseUnder(mul, gens, {e})
IsSubgroup(mul, e, H) == e \in H /\ \A a \in H, b \in H : mul[a][b] \in H
Conjugate(mul, inv, H, g) == {mul[mul[g][h]][inv[g]] : h \in H}
ConjClass(mul, inv, H) == {Conjugate(mul, inv, H, g) : g \in DOMAIN mul}
ConjClasses(mul, inv, Hs) == {ConjClass(mul, inv, H) : H \in Hs}

\* the crystal "species 1: one atom at the origin; species 2: the H-orbit of the generic grid point u"
\* on lattice `lat` (a world with any basis), grid D.  H: a set of integer matrices.
SweepWorld(lat, D, H, u) ==
  [dim |-> lat.dim, M |-> lat.M, D |-> D,
   basis |-> << <<VZero(lat.dim)>>, SetToSeq({VMod(MV(R, u), D) : R \in H}) >>]
\* the point acts freely: no non-trivial operation of the full point group P fixes it modulo the lattice
IsGeneric(P, D, u) == \A i \in DOMAIN P : (VMod(MV(P[i], u), D) = VMod(u, D)) => P[i] = IdMat(Len(u))
=============================================================================
