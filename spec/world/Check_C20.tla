----------------------------- MODULE Check_C20 -----------------------------
(* C20: site symmetry analysis gives exact orbits and invariant bases.            *)
(*                                                                                *)
(* One case = one observed integer world `w` (read back from constructed Crystal   *)
(* objects) plus what the library reported for it in one or more realisations      *)
(* (random Cartesian orientations of the same world):                              *)
(*   c.usedef : TRUE  -> the reference group is the DEFINITIONAL group OpsRT(w,2)   *)
(*              FALSE -> (noreduce on a non-primitive cell: the library documents   *)
(*                        one translation per rotation) the reference group is the  *)
(*                        reported one, c.real[r].G; the gap is reported as INFO    *)
(*   c.real[r].G            reported space group, [rot, t] (t = D*trans, raw)        *)
(*   c.real[r].wyckoff      reported Wyckoff sets, sets of <<c, i>>                 *)
(*   c.real[r].sites[s]     [a |-> <<c,i>>, pg |-> reported point group ops,        *)
(*                           vb/vgram, tb/tgram |-> reported bases, fixed point:   *)
(*                           lattice coordinates scaled by S (vectors A^-1 v,       *)
(*                           tensors A^-1 T A^-T), Gram matrices scaled by `one`]   *)
(*   c.real[r].wpos[q]      [kk, u, out]: Wyckoffpos of the point u/(kk*D)          *)
(*   c.real[r].addb[q]      [kk, u, order, rots, natoms]: Crystal.addbasis of the   *)
(*                           reported equivalent positions of u                     *)
(*   c.sweep, c.H           sweep worlds (GenSiteSym): the subgroup of the holohedry *)
(*                           the origin's site symmetry was constructed to be       *)
(* The stabilisers, orbits and invariant-space dimensions are computed here from    *)
(* the definitions in World / Sites; the library's values are only compared.        *)
EXTENDS Sites, Json, IOUtils

Cases == JsonDeserialize(IOEnv.CASE_FILE)
VARIABLE k

VTOL == 8            \* units of 1/S: rounding of the fixed-point representation (|R| entries <= 2)
GTOL == 100          \* units of 1/one (one = 10^8): orthonormal to 1e-6

RTm(w, g) == <<g.rot, VMod(g.t, w.D)>>
Reported(w, r) == {RTm(w, r.G[n]) : n \in DOMAIN r.G}
Ref(c, S0, r) == IF c.usedef THEN S0 ELSE Reported(c.w, r)
AsAtom(a) == <<a[1], a[2]>>
AsSet(seq) == {seq[n] : n \in DOMAIN seq}

\* pairs <<r, s>> of realisation / site, <<r, q>> of realisation / query
RS(c) == UNION {{<<r, s>> : s \in DOMAIN c.real[r].sites} : r \in DOMAIN c.real}
RW(c) == UNION {{<<r, q>> : q \in DOMAIN c.real[r].wpos} : r \in DOMAIN c.real}
RA(c) == UNION {{<<r, q>> : q \in DOMAIN c.real[r].addb} : r \in DOMAIN c.real}
Site(c, p) == c.real[p[1]].sites[p[2]]
StabOf(c, S0, p) == Stab(c.w, Ref(c, S0, c.real[p[1]]), AsAtom(Site(c, p).a))
StabRots(c, S0, p) == RotsOf(StabOf(c, S0, p))

\* each clause: <<name, set of offending places>>; the clause holds iff the set is empty
Offenders(c, S0) ==
  LET w == c.w IN <<
   \* "each site's point group fixes that site" -- exactly, without a lattice translation
   <<"pointG_fixes_site",
     {p \in RS(c) : ~ \A n \in DOMAIN Site(c, p).pg :
         LET g == Site(c, p).pg[n] u == Pos(w, AsAtom(Site(c, p).a)) IN VAdd(MV(g.rot, u), g.t) = u}>>,
   \* ... and it is the whole stabiliser of the site in the space group
   <<"pointG_is_stabiliser",
     {p \in RS(c) : {RTm(w, Site(c, p).pg[n]) : n \in DOMAIN Site(c, p).pg} # StabOf(c, S0, p)}>>,
   <<"pointG_ops_distinct",
     {p \in RS(c) : Cardinality({RTm(w, Site(c, p).pg[n]) : n \in DOMAIN Site(c, p).pg}) # Len(Site(c, p).pg)}>>,
   \* "the Wyckoff sets are exactly the symmetry orbits of atoms"
   <<"wyckoff_sets_are_orbits",
     {<<r, 0>> : r \in {r \in DOMAIN c.real :
         {{AsAtom(c.real[r].wyckoff[m][n]) : n \in DOMAIN c.real[r].wyckoff[m]} : m \in DOMAIN c.real[r].wyckoff}
            # Orbits(w, Ref(c, S0, c.real[r]))}}>>,
   \* "generating equivalent positions returns the complete orbit without duplicates"
   <<"wyckoffpos_complete_orbit",
     {p \in RW(c) : LET q == c.real[p[1]].wpos[p[2]] IN
         {VMod(q.out[n], q.kk * w.D) : n \in DOMAIN q.out} # OrbitOfFine(w, Ref(c, S0, c.real[p[1]]), q.u, q.kk)}>>,
   <<"wyckoffpos_no_duplicates",
     {p \in RW(c) : LET q == c.real[p[1]].wpos[p[2]] IN
         Cardinality({VMod(q.out[n], q.kk * w.D) : n \in DOMAIN q.out}) # Len(q.out)}>>,
   \* "vector basis = orthonormal basis of exactly the invariant vectors"
   <<"vector_basis_dimension", {p \in RS(c) : Len(Site(c, p).vb) # DimFixVec(StabRots(c, S0, p))}>>,
   <<"vector_basis_invariant",
     {p \in RS(c) : ~ \A n \in DOMAIN Site(c, p).vb : \A R \in StabRots(c, S0, p) : VecInvariant(R, Site(c, p).vb[n], VTOL)}>>,
   <<"vector_basis_orthonormal", {p \in RS(c) : ~ GramIsIdentity(Site(c, p).vgram, Site(c, p).one, GTOL)}>>,
   \* "symmetric tensor basis = orthonormal basis of exactly the invariant symmetric tensors"
   <<"tensor_basis_dimension", {p \in RS(c) : Len(Site(c, p).tb) # DimFixSymTensor(StabRots(c, S0, p))}>>,
   <<"tensor_basis_symmetric",
     {p \in RS(c) : ~ \A n \in DOMAIN Site(c, p).tb : TensorSymmetric(Site(c, p).tb[n], VTOL)}>>,
   <<"tensor_basis_invariant",
     {p \in RS(c) : ~ \A n \in DOMAIN Site(c, p).tb : \A R \in StabRots(c, S0, p) : TensorInvariant(R, Site(c, p).tb[n], VTOL)}>>,
   <<"tensor_basis_orthonormal", {p \in RS(c) : ~ GramIsIdentity(Site(c, p).tgram, Site(c, p).one, GTOL)}>>,
   \* "adding a full orbit of new sites leaves the original symmetry intact"
   <<"addbasis_adds_full_orbit",
     {p \in RA(c) : LET q == c.real[p[1]].addb[p[2]] IN
         q.natoms # Cardinality(AtomSet(w)) + Cardinality(OrbitOfFine(w, Ref(c, S0, c.real[p[1]]), q.u, q.kk))}>>,
   <<"addbasis_keeps_group_order", {p \in RA(c) : c.real[p[1]].addb[p[2]].order # Len(c.real[p[1]].G)}>>,
   <<"addbasis_keeps_rotations",
     {p \in RA(c) : AsSet(c.real[p[1]].addb[p[2]].rots) # {c.real[p[1]].G[n].rot : n \in DOMAIN c.real[p[1]].G}}>>,
   \* sweep worlds: the origin (species 1, atom 1) was constructed to have site symmetry exactly H; the constructor
   \* may have relabelled the lattice vectors, so H is compared up to that choice (order and trace/det class counts)
   <<"sweep_site_symmetry_is_H",
     IF ~ c.sweep THEN {}
     ELSE {p \in RS(c) : Site(c, p).a = <<1, 1>> /\
              ClassSigOf({Site(c, p).pg[n].rot : n \in DOMAIN Site(c, p).pg}) # ClassSigOf(AsSet(c.H))}>>
  >>

\* measured facts
MaxStab(c, S0) == LET r == c.real[1] IN
  FoldSet(LAMBDA a, m : LET n == Cardinality(Stab(c.w, Ref(c, S0, r), a)) IN IF n > m THEN n ELSE m, 0, AtomSet(c.w))
Gap(c, S0) == \E r \in DOMAIN c.real : Reported(c.w, c.real[r]) # S0
ModelSane(c, S) ==     \* model-level lemmas the verdict relies on: the reference is a group, orbits partition the atoms
  /\ IsGroup(c.w, S)
  /\ UNION Orbits(c.w, S) = AtomSet(c.w)
  /\ \A o1 \in Orbits(c.w, S), o2 \in Orbits(c.w, S) : o1 = o2 \/ o1 \cap o2 = {}
  /\ \A a \in AtomSet(c.w) : Cardinality(Stab(c.w, S, a)) * Cardinality(OrbitOf(c.w, S, a)) = Cardinality(S)
  /\ (c.sweep => ClassSigOf(RotsOf(Stab(c.w, S, <<1, 1>>))) = ClassSigOf(AsSet(c.H)))

\* signature of a point group that does not depend on the choice of lattice vectors: {<<trace, det, count>>}
ClassSig(P) == ClassSigOf(P)
SiteClauses == {"pointG_fixes_site", "pointG_is_stabiliser", "pointG_ops_distinct", "vector_basis_dimension",
                "vector_basis_invariant", "vector_basis_orthonormal", "tensor_basis_dimension", "tensor_basis_symmetric",
                "tensor_basis_invariant", "tensor_basis_orthonormal", "sweep_site_symmetry_is_H"}
SigAt(c, S0, p) == IF p[2] \in DOMAIN c.real[p[1]].sites THEN ClassSig(StabRots(c, S0, p)) ELSE {}

\* the definitional group of the current case is computed ONCE, in its own step, and held in a variable
\* (TLC re-evaluates operator applications and LET bodies at every use, so the group and the clause results are
\*  each computed once by an action of their own and then read back as plain values.)
VARIABLES phase, grp, res
Init == k = 0 /\ phase = "load" /\ grp = {} /\ res = <<>>
Load == /\ phase = "load" /\ k < Len(Cases)
        /\ k' = k + 1 /\ grp' = OpsRT(Cases[k'].w, 2) /\ phase' = "eval" /\ res' = <<>>
Eval == /\ phase = "eval"
        /\ res' = Offenders(Cases[k], grp)
        /\ phase' = "report" /\ UNCHANGED <<k, grp>>
Report ==
  /\ phase = "report"
  /\ \A j \in DOMAIN res :       \* IF, not \/ : at action level TLC explores both sides of a disjunction
        IF res[j][2] = {} THEN TRUE
        ELSE LET where == CHOOSE x \in res[j][2] : TRUE IN
             /\ PrintT(<<"FAIL", k, res[j][1]>>)
             /\ PrintT(<<"INFO", k, "where_" \o res[j][1], where>>)
             \* the point-group class of the offending site, one short line per <<trace, det>> (TLC wraps long lines)
             /\ \A s \in (IF res[j][1] \in SiteClauses THEN SigAt(Cases[k], grp, where) ELSE {}) :
                   PrintT(<<"INFO", k, "g_" \o res[j][1] \o "|" \o ToString(s[1]) \o "|" \o ToString(s[2]), s[3]>>)
  /\ PrintT(<<"INFO", k, "order", Cardinality(grp)>>)
  /\ PrintT(<<"INFO", k, "maxstab", MaxStab(Cases[k], grp)>>)
  /\ PrintT(<<"INFO", k, "gap", Gap(Cases[k], grp)>>)
  /\ PrintT(<<"INFO", k, "model_sane", ModelSane(Cases[k], grp)>>)
  /\ (IF k = Len(Cases) THEN PrintT(<<"DONE", k>>) ELSE TRUE)
  /\ phase' = "load" /\ grp' = {} /\ res' = <<>> /\ UNCHANGED k
Next == Load \/ Eval \/ Report
=============================================================================
