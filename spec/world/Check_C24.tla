----------------------------- MODULE Check_C24 -----------------------------
(***************************************************************************)
(* C24: star sets.  One case = one crystal + sublattice + jump network:     *)
(*   w, c       the world read back from the Crystal, the species (1-based) *)
(*   jn         the jump network (classes of pair states <<i, j, R>>)        *)
(*   maxn       largest range that occurs                                    *)
(*   descs      descriptors (see Stars!Den) that occur as expectations       *)
(*   sets       the distinct state SETS observed (sequences of <<i,j,R>>)    *)
(*   obs        the distinct full projections of real StarSet objects:       *)
(*              [set, n, nstates, nstars, states (<<i,j,R,dx>>), stars,      *)
(*               index, dict (<<ps, xi, si>>), sidx, stidx, has, probes]      *)
(*   edges      replayed steps of spec/obj/StarSetObj (and direct calls):    *)
(*              [must, raised, slots (obs index per object),                 *)
(*               cands (alternatives: descriptor index per object)]          *)
(* Everything the driver observed is judged here against the definitional   *)
(* sets of Stars.tla.  Output lines:                                        *)
(*   <<"FAIL", k, <<"model", clause>>>>        input/model theorem fails     *)
(*   <<"FAIL", k, <<"obs", m, clause>>>>       projection m is inconsistent   *)
(*   <<"FAIL", k, <<"edge", e, slot, clause>>>> object `slot` after step e    *)
(***************************************************************************)
EXTENDS Stars, Json, IOUtils

Cases == JsonDeserialize(IOEnv.CASE_FILE)
VARIABLE k

SeqSet(s) == {s[m] : m \in DOMAIN s}
PSOf(x) == <<x[1], x[2], x[3]>>
Flat(ss) == FoldLeft(LAMBDA acc, x : acc \o x, <<>>, ss)
IsPermOf(s, n) == Len(s) = n /\ SeqSet(s) = 1..n

\* ---- clauses that concern one projection alone (no expectation needed) -------------------------
\* (TLC re-evaluates operator arguments at every use: bind them once with LET)
ObsClauses(w, c, oArg, SArg, orbitsArg) ==
  LET o == oArg
      S == SArg
      orbits == orbitsArg
      st == Force([m \in DOMAIN o.states |-> PSOf(o.states[m])])
      pos(p) == IF p \in S THEN CHOOSE m \in DOMAIN st : st[m] = p ELSE 0      \* 0 = "None"
      wellformed == /\ \A m \in DOMAIN st : IsPS(w, c, st[m])
                    /\ o.nstates = Len(st) /\ o.nstars = Len(o.stars) /\ Len(o.index) = Len(st)
                    /\ \A si \in DOMAIN o.stars : \A n \in DOMAIN o.stars[si] : o.stars[si][n] \in DOMAIN st
  IN <<
   <<"states_wellformed_and_counted", wellformed>>,
   <<"states_listed_once", wellformed => (SeqSet(st) = S /\ Cardinality(S) = Len(st))>>,
   <<"state_displacement_matches_sites", wellformed => \A m \in DOMAIN st : o.states[m][4] = PSDx(w, c, st[m])>>,
   <<"stars_partition_states", wellformed => IsPermOf(Flat(o.stars), Len(st))>>,
   <<"stars_are_complete_orbits",
       wellformed => {{st[o.stars[si][n]] : n \in DOMAIN o.stars[si]} : si \in {x \in DOMAIN o.stars : o.stars[x] # <<>>}}
                       = orbits>>,
   <<"index_matches_stars",
       wellformed => \A si \in DOMAIN o.stars : \A n \in DOMAIN o.stars[si] : o.index[o.stars[si][n]] = si>>,
   <<"indexdict_matches_states",
       wellformed => SeqSet(o.dict) = {<<st[m], m, o.index[m]>> : m \in DOMAIN st}>>,
   <<"lookup_of_members",
       wellformed => \A m \in DOMAIN st : o.sidx[m] = m /\ o.stidx[m] = o.index[m] /\ o.has[m]>>,
   <<"lookup_of_probes",
       wellformed => \A q \in DOMAIN o.probes :
           LET p == o.probes[q] m == pos(p[1]) IN
             /\ p[2] = m
             /\ p[3] = (IF m = 0 THEN 0 ELSE o.index[m])
             /\ p[4] = (m # 0)>>
  >>

\* ---- why does object projection o not denote descriptor d ? ---------------------------------------
Mismatch(o, S, d, D) ==
  IF o.n # d.n THEN "nshells_attribute"
  ELSE IF S = D THEN "ok"
  ELSE IF d.kind = "reach"
       THEN (IF ~(D \subseteq S) THEN "states_missing_reachable" ELSE "states_beyond_reachable")
       ELSE (IF ~(D \subseteq S) THEN "diff_misses_endpoint_difference" ELSE "diff_has_other_states")

Eval(kk, cArg) ==
  LET c == cArg
      w == c.w
      cc == c.c
      G == OpsRT(w, 2)
      J == UNION {SeqSet(c.jn[m]) : m \in DOMAIN c.jn}
      T == Force([n \in 0..c.maxn |-> Reach(J, n)])
      den == Force([d \in DOMAIN c.descs |-> DenT(w, cc, T, c.descs[d])])
      sets == Force([m \in DOMAIN c.sets |-> SeqSet(c.sets[m])])
      orb == Force([m \in DOMAIN c.sets |-> OrbitPartition(w, cc, G, sets[m])])
      \* descriptors whose denotation is the m-th observed set
      match == Force([m \in DOMAIN c.sets |-> {d \in DOMAIN c.descs : sets[m] = den[d]}])
      \* descriptors that the oi-th projection denotes (range attribute and state set)
      ok == Force([oi \in DOMAIN c.obs |-> {d \in match[c.obs[oi].set] : c.obs[oi].n = c.descs[d].n}])
      edges == c.edges
      model == <<
        <<"jump_network_symmetric", NetworkOK(w, cc, G, J)>>,
        <<"reach_definitions_agree", \A n \in 0..c.maxn : T[n] = ReachAvoid(J, n)>>,
        <<"sum_of_reach_sets_is_reach_set",
            \A n1 \in 0..c.maxn : \A n2 \in 0..(c.maxn - n1) : AddSets(T[n1], T[n2]) = T[n1 + n2]>>,
        \* (implied by the first clause; costs |set| x |G| images per descriptor, so only on request)
        <<"expected_sets_closed", c.deep => \A d \in DOMAIN c.descs : Closed(w, cc, G, den[d])>> >>
  IN
  /\ \A j \in DOMAIN model : model[j][2] \/ PrintT(<<"FAIL", kk, <<"model", model[j][1]>>>>)
  /\ \A oi \in DOMAIN c.obs :
       LET cl == ObsClauses(w, cc, c.obs[oi], sets[c.obs[oi].set], orb[c.obs[oi].set]) IN
         \A j \in DOMAIN cl : cl[j][2] \/ PrintT(<<"FAIL", kk, <<"obs", oi, cl[j][1]>>>>)
  /\ \A e \in DOMAIN edges :
       LET ed == edges[e] IN
         \* a call that raises although it must not (or the reverse) leaves no defined state to compare
         IF ed.must # ed.raised
         THEN PrintT(<<"FAIL", kk, <<"edge", e, 0, IF ed.must THEN "must_raise" ELSE "must_not_raise">>>>)
         ELSE \/ \E a \in DOMAIN ed.cands : \A s \in DOMAIN ed.slots : ed.cands[a][s] \in ok[ed.slots[s]]
              \/ \A s \in DOMAIN ed.slots :
                    LET oi == ed.slots[s]  d == ed.cands[1][s]
                        why == Mismatch(c.obs[oi], sets[c.obs[oi].set], c.descs[d], den[d])
                    IN why = "ok" \/ PrintT(<<"FAIL", kk, <<"edge", e, s, why>>>>)
  /\ PrintT(<<"INFO", kk, "group_order", Cardinality(G)>>)
  /\ PrintT(<<"INFO", kk, "max_star", FoldLeft(LAMBDA acc, m : FoldSet(LAMBDA O, a2 : IF Cardinality(O) > a2 THEN Cardinality(O) ELSE a2, acc, orb[m]),
                                                0, [m \in DOMAIN c.sets |-> m])>>)
  /\ PrintT(<<"INFO", kk, "stars_with_several_states",
              [m \in DOMAIN c.sets |-> Cardinality({O \in orb[m] : Cardinality(O) > 1})]>>)

Init == k = 0
Next == /\ k < Len(Cases)
        /\ k' = k + 1
        /\ Eval(k', Cases[k'])
        /\ (k' = Len(Cases) => PrintT(<<"DONE", k'>>))
=============================================================================
