-------------------------------- MODULE Geom --------------------------------
(***************************************************************************)
(* Definitional geometry on top of World: what the image of a site, a      *)
(* point, a direction, a tensor, a pair state or a cluster site under a    *)
(* space-group operation IS, what composition / inversion of operations    *)
(* ARE (as maps), and the pair-state algebra.  Everything is exact integer *)
(* arithmetic in lattice / grid coordinates; nothing mirrors the           *)
(* implementation's algorithms (in particular the image atom is found      *)
(* from the geometry, never from a stored index map).                      *)
(*                                                                         *)
(* An operation is a record [rot, t, perm, ...]:                            *)
(*   rot  integer matrix (rows) acting on lattice coordinates,              *)
(*   t    translation in grid units 1/w.D, EXACT (not reduced modulo the    *)
(*        lattice: g and g + lattice vector are different maps),            *)
(*   perm perm[c][i] = index of the atom that atom i of species c is        *)
(*        carried onto (1-based).                                           *)
(* Atoms are <<c, i>> (1-based); a site is <<atom, L>> with L the integer   *)
(* lattice vector of its cell.                                              *)
(***************************************************************************)
EXTENDS World

\* the operation is a symmetry of the world at all (guards every CHOOSE below)
IsSymmetry(w, g) == IsIsometry(w, g.rot) /\ MapsAtoms(w, g.rot, g.t)

\* position of a site in grid units
SiteGrid(w, a, L) == VAdd(VScale(w.D, L), Pos(w, a))
\* image of a site, as a grid point and as a site
ImgSiteGrid(w, g, a, L) == VAdd(MV(g.rot, SiteGrid(w, a, L)), g.t)
ImgSite(w, g, a, L) == ActPos(w, g.rot, g.t, a, L)
\* the geometric permutation of an operation
GeomPerm(w, g) == PermOf(w, g.rot, g.t)
SamePerm(w, p, q) ==
  /\ Len(p) = Len(w.basis)
  /\ \A c \in DOMAIN w.basis : Len(p[c]) = Len(w.basis[c]) /\ \A i \in DOMAIN w.basis[c] : p[c][i] = q[c][i]

\* arbitrary points on a refined grid: p in units 1/(w.D * K)
ImgPoint(g, K, p) == VAdd(MV(g.rot, p), VScale(K, g.t))
Split(N, p) == <<VDiv(p, N), VMod(p, N)>>          \* <<cell (lattice vector), position inside the cell [0,N)>>

\* directions and second-rank tensors in lattice coordinates
ImgDir(g, v) == MV(g.rot, v)
ImgTensor(g, T) == MM(g.rot, MM(T, MT(g.rot)))

\* operations as maps: composition (g after h), identity, lattice translation
ComposeX(g, h) == [rot |-> MM(g.rot, h.rot), t |-> VAdd(MV(g.rot, h.t), g.t)]
IdentityX(w) == [rot |-> IdMat(w.dim), t |-> VZero(w.dim)]
TranslateX(w, g, L0) == [rot |-> g.rot, t |-> VAdd(g.t, VScale(w.D, L0))]
SameMap(g, h) == g.rot = h.rot /\ g.t = h.t
IsInverse(w, g, h) == SameMap(ComposeX(g, h), IdentityX(w)) /\ SameMap(ComposeX(h, g), IdentityX(w))

---------------------------------------------------------------------------
\* pair states of species c: [i, j, R] = site i in cell 0 and site j in cell R, modulo a common lattice translation.
\* i = j = 0 with R = 0 is the library's universal ("wild") zero.
PS(i, j, R) == [i |-> i, j |-> j, R |-> R]
PSzero(n, d) == PS(n, n, VZero(d))
PSwild(a) == a.i = 0 /\ a.j = 0 /\ a.R = VZero(Len(a.R))
PSisZero(a) == a.i = a.j /\ a.R = VZero(Len(a.R))
PSneg(a) == PS(a.j, a.i, VNeg(a.R))
PSaddDef(a, b) == PSwild(a) \/ PSwild(b) \/ a.j = b.i
PSadd(a, b) == IF PSwild(a) THEN b ELSE IF PSwild(b) THEN a ELSE PS(a.i, b.j, VAdd(a.R, b.R))
PSsubDef(a, b) == PSaddDef(a, PSneg(b))
PSsub(a, b) == PSadd(a, PSneg(b))
PSxorDef(a, b) == a.i = b.i
PSxor(a, b) == PS(b.j, a.j, VSub(a.R, b.R))
\* separation vector of a (non-wild) pair state, grid units
PSdx(w, c, a) == IF a.i = 0 THEN VZero(w.dim)
                 ELSE VAdd(VScale(w.D, a.R), VSub(Pos(w, <<c, a.j>>), Pos(w, <<c, a.i>>)))
\* image of a pair state: image of both sites, re-based so that the first one is in cell 0
ImgPS(w, c, g, a) ==
  LET pi == ImgSite(w, g, <<c, a.i>>, VZero(w.dim))
      pj == ImgSite(w, g, <<c, a.j>>, a.R)
  IN PS(pi[1][2], pj[1][2], VSub(pj[2], pi[2]))
=============================================================================
