----------------------------- MODULE Check_C19 -----------------------------
(* C19: constructing a crystal from ANY supercell description (reduction      *)
(* enabled) recovers the same crystal.                                        *)
(*                                                                           *)
(* One case = one base world w (the description the supercells are made of)   *)
(* and a list of runs.  Run r: integer matrix S (|det| = 2..6), the exact      *)
(* supercell description sw = Super(w, S) that was handed to Crystal() (atom   *)
(* order shuffled, jitter <= 1e-10, lattice = A.S in a random orientation),   *)
(* and what came back: raised (exception class or ""), rh (det(lattice) > 0), *)
(* nG (number of reported operations) and o, an index into `obs`, the list of *)
(* DISTINCT constructed crystals read back as integer worlds (metric in units *)
(* of 1/q of the base world's unit).                                          *)
(*                                                                           *)
(* Invariants of "the crystal" are computed from w by the definitional model  *)
(* (World.OpsRT): kk = number of pure translations of w (kk > 1 iff w itself  *)
(* is a non-primitive description), atoms per primitive cell = atoms / kk,    *)
(* volume per atom from det M, and - when w is primitive - the order of the   *)
(* space group modulo the lattice.                                            *)
EXTENDS SuperW, Json, IOUtils

Cases == JsonDeserialize(IOEnv.CASE_FILE)
VARIABLE k

Pow(b, e) == FoldLeft(LAMBDA s, i : s * b, 1, Idx(e))
PureTranslations(w, G) == Cardinality({g \in G : g[1] = IdMat(w.dim)})

\* minlattice's stated goal: vectors ordered by length, every pair of vectors Gauss-reduced
PairwiseReduced(M) ==
  /\ \A i \in 1..(Len(M) - 1) : M[i][i] <= M[i + 1][i + 1]
  /\ \A i \in 1..Len(M) : \A j \in (i + 1)..Len(M) : 2 * Abs(M[i][j]) <= M[i][i]

\* "length of each lattice vector is minimal" (Minkowski reduction; in 2D/3D coefficients -1..1 suffice):
\* no lattice vector whose last non-zero coefficient sits at position i is shorter than a_i
LastNonZero(x) == CHOOSE i \in DOMAIN x : x[i] # 0 /\ \A j \in DOMAIN x : j > i => x[j] = 0
VectorsMinimal(M) ==
  \A x \in Box(Len(M), 1) : (x = VZero(Len(M))) \/ Quad(M, x, x) >= M[LastNonZero(x)][LastNonZero(x)]

\* definitional invariants of one constructed crystal (computed once per distinct observed world)
ObsFacts(o) ==
  LET G == OpsRT(o, 2) IN [order |-> Cardinality(G), kk |-> PureTranslations(o, G), natoms |-> NAtoms(o)]

RunClauses(w, w0, obsf, obs, r, j) ==
  LET tag(s) == s \o "@" \o ToString(j)
      ok == r.raised = ""
      o == obs[r.o]
      f == obsf[r.o]
  IN <<
   <<tag("harness_supercell_description_exact"), IsSuperDescription(w, r.S, r.sw) /\ SIndex(r.S) \in 2..6>>,
   <<tag("construction_succeeds"), ok>>,
   <<tag("volume_per_atom_preserved"),
        ok => Det(o.M) * w0.natoms * w0.natoms = Det(w.M) * Pow(o.q, w.dim) * f.natoms * f.natoms>>,
   <<tag("atoms_per_primitive_cell_per_species_preserved"),
        ok => /\ Len(o.basis) = Len(w.basis)
              /\ \A c \in DOMAIN w.basis : Len(o.basis[c]) * w0.kk = Len(w.basis[c])>>,
   <<tag("result_is_a_primitive_cell"), ok => f.kk = 1>>,
   <<tag("lattice_right_handed"), ok => r.rh>>,
   <<tag("lattice_reduced"), ok => PairwiseReduced(o.M)>>,
   <<tag("lattice_vectors_minimal"), ok => VectorsMinimal(o.M)>>,
   <<tag("group_order_equals_primitive_description"), (ok /\ w0.kk = 1) => r.nG = w0.order>>,
   <<tag("group_order_equals_definitional_order_of_result"), ok => r.nG = f.order>>,
   <<tag("result_has_the_symmetry_of_the_primitive_description"), (ok /\ w0.kk = 1) => f.order = w0.order>>
  >>

CaseEval(c) ==
  LET w == c.w
      G0 == OpsRT(w, 2)
      w0 == [order |-> Cardinality(G0), kk |-> PureTranslations(w, G0), natoms |-> NAtoms(w)]
      obsf == FoldLeft(LAMBDA acc, i : Append(acc, ObsFacts(c.obs[i])), <<>>, Idx(Len(c.obs)))
  IN [cl |-> FlattenSeq([j \in DOMAIN c.runs |-> RunClauses(w, w0, obsf, c.obs, c.runs[j], j)]),
      kk |-> w0.kk, order |-> w0.order \div w0.kk]

Init == k = 0
Next == /\ k < Len(Cases)
        /\ k' = k + 1
        /\ LET r == CaseEval(Cases[k']) IN
             /\ \A j \in DOMAIN r.cl : r.cl[j][2] \/ PrintT(<<"FAIL", k', r.cl[j][1]>>)
             /\ PrintT(<<"INFO", k', "kk", r.kk>>)
             /\ PrintT(<<"INFO", k', "order", r.order>>)
        /\ (k' = Len(Cases) => PrintT(<<"DONE", k'>>))
=============================================================================
