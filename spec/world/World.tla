------------------------------- MODULE World -------------------------------
(***************************************************************************)
(* An exact integer model of a crystal ("world") and the discrete          *)
(* structures Onsager derives from one.                                    *)
(*                                                                         *)
(* A world is a record                                                     *)
(*   [dim  |-> 2 or 3,                                                     *)
(*    M    |-> integer metric tensor (a_i . a_j in a unit making it         *)
(*             integral), as a sequence of rows,                            *)
(*    D    |-> grid denominator: atom positions are u/D, u integer,         *)
(*    basis|-> sequence over species of sequences of integer vectors u      *)
(*             (components in 0..D-1)]                                      *)
(* All operators take the world as a parameter, so a single TLC run can     *)
(* handle many worlds read from JSON.  Everything here is definitional:     *)
(* "the set of all integer isometries of the metric that map atoms onto     *)
(* atoms of the same species", "orbits", "jumps shorter than the cutoff",   *)
(* ... -- no algorithm of the implementation is mirrored.                   *)
(***************************************************************************)
EXTENDS Integers, Sequences, FiniteSets, SequencesExt, FiniteSetsExt, TLC

---------------------------------------------------------------------------
\* small linear algebra on sequences (vectors) and sequences of rows (matrices)
Idx(n) == [k \in 1..n |-> k]
Dot(a, b) == FoldLeft(LAMBDA s, k : s + a[k] * b[k], 0, Idx(Len(a)))
VAdd(a, b) == [k \in 1..Len(a) |-> a[k] + b[k]]
VSub(a, b) == [k \in 1..Len(a) |-> a[k] - b[k]]
VNeg(a) == [k \in 1..Len(a) |-> -a[k]]
VScale(n, a) == [k \in 1..Len(a) |-> n * a[k]]
VZero(d) == [k \in 1..d |-> 0]
VMod(a, D) == [k \in 1..Len(a) |-> a[k] % D]
VDiv(a, D) == [k \in 1..Len(a) |-> (a[k] - (a[k] % D)) \div D]     \* floor division, exact
Col(m, j) == [i \in 1..Len(m) |-> m[i][j]]
MV(m, v) == [i \in 1..Len(m) |-> Dot(m[i], v)]
MM(a, b) == [i \in 1..Len(a) |-> [j \in 1..Len(b[1]) |-> Dot(a[i], Col(b, j))]]
MT(a) == [i \in 1..Len(a[1]) |-> Col(a, i)]
Trace(a) == FoldLeft(LAMBDA s, k : s + a[k][k], 0, Idx(Len(a)))
IdMat(d) == [i \in 1..d |-> [j \in 1..d |-> IF i = j THEN 1 ELSE 0]]
Quad(M, u, v) == Dot(u, MV(M, v))
Det(a) == IF Len(a) = 2 THEN a[1][1] * a[2][2] - a[1][2] * a[2][1]
          ELSE a[1][1] * (a[2][2] * a[3][3] - a[2][3] * a[3][2])
             - a[1][2] * (a[2][1] * a[3][3] - a[2][3] * a[3][1])
             + a[1][3] * (a[2][1] * a[3][2] - a[2][2] * a[3][1])

---------------------------------------------------------------------------
\* atoms: <<c, i>> species c, index i within the species
AtomSet(w) == UNION {{<<c, i>> : i \in DOMAIN w.basis[c]} : c \in DOMAIN w.basis}
Pos(w, a) == w.basis[a[1]][a[2]]

\* integer isometries of the metric with entries in -B..B, built column by column
Box(d, B) == [1..d -> (-B)..B]
ColCands(w, j, B) == {v \in Box(w.dim, B) : Quad(w.M, v, v) = w.M[j][j]}
RECURSIVE ColTuples(_, _, _)
ColTuples(w, j, B) ==      \* sequences of j columns with the right mutual metric
  IF j = 0 THEN {<<>>}
  ELSE {q \in {Append(p, c) : p \in ColTuples(w, j - 1, B), c \in ColCands(w, j, B)} :
            \A i \in 1..(j - 1) : Quad(w.M, q[i], q[j]) = w.M[i][j]}
Rots(w, B) == {MT(cols) : cols \in ColTuples(w, w.dim, B)}    \* MT: list of columns -> rows
IsIsometry(w, R) == MM(MT(R), MM(w.M, R)) = w.M

\* the image of grid point u under (R, t), modulo the lattice
ImgGrid(w, R, t, u) == VMod(VAdd(MV(R, u), t), w.D)

\* (R, t) maps every atom onto an atom of the same species
MapsAtoms(w, R, t) ==
  \A c \in DOMAIN w.basis : \A i \in DOMAIN w.basis[c] :
     \E i2 \in DOMAIN w.basis[c] : ImgGrid(w, R, t, w.basis[c][i]) = w.basis[c][i2]
PermOf(w, R, t) ==
  [c \in DOMAIN w.basis |-> [i \in DOMAIN w.basis[c] |->
     CHOOSE i2 \in DOMAIN w.basis[c] : ImgGrid(w, R, t, w.basis[c][i]) = w.basis[c][i2]]]

\* candidate translations for R: carry the first atom of the smallest species onto any atom of that species
SmallestSpecies(w) == CHOOSE c \in DOMAIN w.basis : \A c2 \in DOMAIN w.basis : Len(w.basis[c]) <= Len(w.basis[c2])
TransCands(w, R) ==
  LET c == SmallestSpecies(w) IN
  {VMod(VSub(w.basis[c][i], MV(R, w.basis[c][1])), w.D) : i \in DOMAIN w.basis[c]}

\* the space group modulo lattice translations, definitional: pairs <<R, t>>, t in (0..D-1)^dim
OpsRT(w, B) == {<<R, t>> \in UNION {{<<R, t>> : t \in TransCands(w, R)} : R \in Rots(w, B)} : MapsAtoms(w, R, t)}

Compose(w, g, h) == <<MM(g[1], h[1]), VMod(VAdd(MV(g[1], h[2]), g[2]), w.D)>>      \* g after h
IdentityRT(w) == <<IdMat(w.dim), VZero(w.dim)>>

\* group axioms modulo lattice translations for a set S of <<R, t>> pairs
IsGroup(w, S) ==
  /\ IdentityRT(w) \in S
  /\ \A g \in S, h \in S : Compose(w, g, h) \in S
  /\ \A g \in S : \E h \in S : Compose(w, g, h) = IdentityRT(w)

---------------------------------------------------------------------------
\* action on positions <<atom, lattice vector>> keeping track of the cell
ActPos(w, R, t, a, L) ==
  LET x == VAdd(MV(R, VAdd(VScale(w.D, L), Pos(w, a))), t)      \* exact image in grid units
      a2 == <<a[1], CHOOSE i2 \in DOMAIN w.basis[a[1]] : VMod(x, w.D) = w.basis[a[1]][i2]>>
  IN <<a2, VDiv(VSub(x, Pos(w, a2)), w.D)>>

\* stabiliser of atom a (operations, modulo lattice, that fix the site up to a lattice vector)
Stab(w, S, a) == {g \in S : ImgGrid(w, g[1], g[2], Pos(w, a)) = Pos(w, a)}
OrbitOf(w, S, a) == {<<a[1], CHOOSE i2 \in DOMAIN w.basis[a[1]] :
                          ImgGrid(w, g[1], g[2], Pos(w, a)) = w.basis[a[1]][i2]>> : g \in S}
Orbits(w, S) == {OrbitOf(w, S, a) : a \in AtomSet(w)}

\* dimensions of invariant spaces of a point group P (a set of integer matrices), by character formulas
DimFixVec(P) == FoldSet(LAMBDA R, s : s + Trace(R), 0, P) \div Cardinality(P)
DimFixSymTensor(P) ==
  FoldSet(LAMBDA R, s : s + Trace(R) * Trace(R) + Trace(MM(R, R)), 0, P) \div (2 * Cardinality(P))
RotsOf(S) == {g[1] : g \in S}
=============================================================================
