------------------------------- MODULE SuperW -------------------------------
(***************************************************************************)
(* Supercells of a world, definitionally.                                   *)
(*                                                                         *)
(* A supercell of world w is given by an integer matrix S (columns = the    *)
(* new lattice vectors in the old lattice coordinates), n = |det S| cells.  *)
(* Two coordinate systems on the same points:                               *)
(*   primitive grid : integer vector X, the point is X / D  (old lattice)   *)
(*   super grid     : integer vector P, the point is P / (D n) (new latt.)  *)
(* related by  X = S P / n   and   P = n S^-1 X = sgn(det S) adj(S) X.      *)
(* Points are identified modulo the supercell lattice, i.e. P modulo D n.   *)
(*                                                                         *)
(* The SITES of the supercell are the atom positions of the infinite        *)
(* crystal modulo the supercell lattice; the GROUP of the supercell is the  *)
(* set of space-group operations of the crystal (definitional OpsRT of      *)
(* World, combined with every lattice translation) whose rotation maps the  *)
(* supercell lattice onto itself, taken modulo the supercell lattice; each  *)
(* acts on the sites as the permutation "where does the point go".  Two     *)
(* occupations are Equivalent iff some group element carries one onto the   *)
(* other.  Nothing here mirrors Supercell.gengroup / equivalencemap.        *)
(***************************************************************************)
EXTENDS World

Abs(x) == IF x < 0 THEN -x ELSE x
SIndex(S) == Abs(Det(S))
SSign(S) == IF Det(S) > 0 THEN 1 ELSE -1

\* adjugate (transpose of the cofactor matrix), 2x2 and 3x3
Adj(S) ==
  IF Len(S) = 2 THEN << <<S[2][2], -S[1][2]>>, <<-S[2][1], S[1][1]>> >>
  ELSE << << S[2][2] * S[3][3] - S[2][3] * S[3][2], S[1][3] * S[3][2] - S[1][2] * S[3][3], S[1][2] * S[2][3] - S[1][3] * S[2][2] >>,
          << S[2][3] * S[3][1] - S[2][1] * S[3][3], S[1][1] * S[3][3] - S[1][3] * S[3][1], S[1][3] * S[2][1] - S[1][1] * S[2][3] >>,
          << S[2][1] * S[3][2] - S[2][2] * S[3][1], S[1][2] * S[3][1] - S[1][1] * S[3][2], S[1][1] * S[2][2] - S[1][2] * S[2][1] >> >>

Divisible(v, n) == \A i \in DOMAIN v : v[i] % n = 0
ExactDiv(v, n) == [i \in DOMAIN v |-> v[i] \div n]             \* only used when Divisible(v, n)

\* primitive grid -> super grid (always integral), and back (integral iff the point is on the primitive grid)
ToSuper(S, X) == VScale(SSign(S), MV(Adj(S), X))
OnPrimGrid(S, P) == Divisible(MV(S, P), SIndex(S))
ToPrim(S, P) == ExactDiv(MV(S, P), SIndex(S))

SuperMetric(w, S) == MM(MT(S), MM(w.M, S))
SuperD(w, S) == w.D * SIndex(S)

\* P (super grid) is the position of an atom of species c of the crystal
IsSiteOf(w, S, P, c) ==
  /\ OnPrimGrid(S, P)
  /\ \E i \in DOMAIN w.basis[c] : VMod(ToPrim(S, P), w.D) = w.basis[c][i]
IsSite(w, S, P) == \E c \in DOMAIN w.basis : IsSiteOf(w, S, P, c)
SpeciesOfSite(w, S, P) == CHOOSE c \in DOMAIN w.basis : IsSiteOf(w, S, P, c)
NAtoms(w) == FoldLeft(LAMBDA s, c : s + Len(w.basis[c]), 0, Idx(Len(w.basis)))

\* a sequence of super-grid points is a complete, repetition-free list of the supercell's sites
SitesCorrect(w, S, sites) ==
  LET Dn == SuperD(w, S) IN
  /\ Len(sites) = SIndex(S) * NAtoms(w)
  /\ \A k \in DOMAIN sites : /\ Len(sites[k]) = w.dim
                             /\ \A i \in 1..w.dim : sites[k][i] \in 0..(Dn - 1)
                             /\ IsSite(w, S, sites[k])
  /\ Cardinality({sites[k] : k \in DOMAIN sites}) = Len(sites)

\* sw is an exact supercell description (a world) of w by S
IsSuperDescription(w, S, sw) ==
  /\ sw.dim = w.dim
  /\ sw.M = SuperMetric(w, S)
  /\ sw.D = SuperD(w, S)
  /\ Len(sw.basis) = Len(w.basis)
  /\ \A c \in DOMAIN w.basis :
        /\ Len(sw.basis[c]) = SIndex(S) * Len(w.basis[c])
        /\ Cardinality({sw.basis[c][i] : i \in DOMAIN sw.basis[c]}) = Len(sw.basis[c])
        /\ \A i \in DOMAIN sw.basis[c] : IsSiteOf(w, S, sw.basis[c][i], c)

---------------------------------------------------------------------------
\* rotations: R (primitive lattice coordinates) maps the supercell lattice onto itself iff S^-1 R S is integral
ConjNum(S, R) == MM(Adj(S), MM(R, S))                      \* = det(S) * S^-1 R S
PreservesSuper(S, R) == \A i \in DOMAIN R : Divisible(ConjNum(S, R)[i], SIndex(S))
RotSuper(S, R) == LET m == ConjNum(S, R) IN [i \in DOMAIN m |-> VScale(SSign(S), ExactDiv(m[i], SIndex(S)))]

\* the images (super grid) of all lattice translations of the primitive cell: differences of sites that
\* sit on the same atom of the primitive cell
SameAtom(w, S, P, Q) == VMod(ToPrim(S, P), w.D) = VMod(ToPrim(S, Q), w.D)
CosetTrans(w, S, sites) ==
  {VMod(VSub(sites[k], sites[1]), SuperD(w, S)) : k \in {j \in DOMAIN sites : SameAtom(w, S, sites[j], sites[1])}}

\* the supercell's group: pairs <<rotation, translation>> in super-grid coordinates, translation modulo D n
SuperOps(w, S, sites) ==
  LET Dn == SuperD(w, S)
      LT == CosetTrans(w, S, sites)
      P0 == {g \in OpsRT(w, 2) : PreservesSuper(S, g[1])}
  IN UNION {{<<RotSuper(S, g[1]), VMod(VAdd(ToSuper(S, g[2]), l), Dn)>> : l \in LT} : g \in P0}

\* action on the sites
SiteImage(Dn, Rs, ts, P) == VMod(VAdd(MV(Rs, P), ts), Dn)
MapsSites(Dn, sites, Rs, ts) == \A k \in DOMAIN sites : \E k2 \in DOMAIN sites : sites[k2] = SiteImage(Dn, Rs, ts, sites[k])
SitePerm(Dn, sites, Rs, ts) ==
  [k \in DOMAIN sites |-> CHOOSE k2 \in DOMAIN sites : sites[k2] = SiteImage(Dn, Rs, ts, sites[k])]
IsPerm(p, n) == Len(p) = n /\ {p[i] : i \in 1..n} = 1..n

\* occupations are sequences over the sites; p carries a onto b
Carries(p, a, b) == \A k \in DOMAIN a : b[p[k]] = a[k]
Equivalent(perms, a, b) == \E p \in perms : Carries(p, a, b)
=============================================================================
