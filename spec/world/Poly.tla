-------------------------------- MODULE Poly --------------------------------
(***************************************************************************)
(* Exact polynomial algebra behind onsager.PowerExpansion (C16, C17).      *)
(*                                                                         *)
(* A Taylor3D / Taylor2D object denotes, for every radial order n, a       *)
(* function on the unit sphere (circle) given by a polynomial in the       *)
(* direction cosines with matrix coefficients:                             *)
(*      T(u) = SUM_n f_n(|u|) * SUM_e c[n][e] * uhat^e                     *)
(* Here a monomial is its exponent tuple e (length dim), a polynomial is a *)
(* finite function  exponent tuple -> integer matrix  (sparse: absent = 0, *)
(* stored entries are non-zero), an expansion is a function                *)
(*      n -> [l |-> bound on the degree, p |-> polynomial].                *)
(* Everything is DEFINITIONAL: sums add coefficients, products convolve    *)
(* exponents, evaluation substitutes an exact rational unit vector         *)
(* (Pythagorean: integer components v, integer norm d); nothing refers to  *)
(* the implementation's index tables.  The index tables themselves are     *)
(* defined at the end ("what the table must contain").                     *)
(* All numbers are 32-bit integers; rationals are numerators over d^L.     *)
(***************************************************************************)
EXTENDS Integers, Sequences, FiniteSets, FiniteSetsExt, SequencesExt, TLC

SumSeq(s) == FoldLeft(LAMBDA a, x : a + x, 0, s)
PAbs(x) == IF x < 0 THEN -x ELSE x
PMax(a, b) == IF a >= b THEN a ELSE b
RECURSIVE IPow(_, _)
IPow(a, k) == IF k <= 0 THEN 1 ELSE a * IPow(a, k - 1)
RECURSIVE Fact(_)
Fact(n) == IF n <= 1 THEN 1 ELSE n * Fact(n - 1)

-----------------------------------------------------------------------------
\* monomials
Deg(e) == SumSeq(e)
Monos(dim, L) == {e \in [1..dim -> 0..L] : Deg(e) <= L}
MonosOfDeg(dim, l) == {e \in [1..dim -> 0..l] : Deg(e) = l}
MPlus(e, f) == [i \in DOMAIN e |-> e[i] + f[i]]
MMinus(e, f) == [i \in DOMAIN e |-> e[i] - f[i]]
MNonNeg(e) == \A i \in DOMAIN e : e[i] >= 0
Unit(dim, i) == [j \in 1..dim |-> IF j = i THEN 1 ELSE 0]
ZeroMono(dim) == [j \in 1..dim |-> 0]
\* n! / (e_1! ... e_dim!) : number of orderings of a product with these exponents
Multinomial(e) == Fact(Deg(e)) \div FoldLeft(LAMBDA a, x : a * Fact(x), 1, e)

-----------------------------------------------------------------------------
\* integer matrices: sequences of rows
MZero(r, c) == [i \in 1..r |-> [j \in 1..c |-> 0]]
MIdent(r) == [i \in 1..r |-> [j \in 1..r |-> IF i = j THEN 1 ELSE 0]]
MAdd(A, B) == [i \in DOMAIN A |-> [j \in DOMAIN A[i] |-> A[i][j] + B[i][j]]]
MScale(k, A) == [i \in DOMAIN A |-> [j \in DOMAIN A[i] |-> k * A[i][j]]]
MMul(A, B) == [i \in DOMAIN A |-> [j \in DOMAIN B[1] |->
                  IF Len(B) = 1 THEN A[i][1] * B[1][j]
                  ELSE IF Len(B) = 2 THEN A[i][1] * B[1][j] + A[i][2] * B[2][j]
                  ELSE SumSeq([k \in DOMAIN B |-> A[i][k] * B[k][j]])]]
MIsZero(A) == \A i \in DOMAIN A : \A j \in DOMAIN A[i] : A[i][j] = 0
MMaxAbs(A) == FoldLeft(LAMBDA a, row : FoldLeft(LAMBDA b, x : PMax(b, PAbs(x)), a, row), 0, A)
\* sub-block rows r1..r2, columns c1..c2
MBlock(A, r1, r2, c1, c2) == [i \in 1..(r2 - r1 + 1) |-> [j \in 1..(c2 - c1 + 1) |-> A[r1 + i - 1][c1 + j - 1]]]
MSetBlock(A, r1, c1, B) ==
  [i \in DOMAIN A |-> [j \in DOMAIN A[i] |->
     IF i >= r1 /\ i < r1 + Len(B) /\ j >= c1 /\ j < c1 + Len(B[1]) THEN B[i - r1 + 1][j - c1 + 1] ELSE A[i][j]]]

-----------------------------------------------------------------------------
\* polynomials with r x c matrix coefficients
PZero == <<>>                               \* the empty function
PCanon(P) == LET D == {e \in DOMAIN P : ~MIsZero(P[e])} IN [e \in D |-> P[e]]
PGet(P, e, r, c) == IF e \in DOMAIN P THEN P[e] ELSE MZero(r, c)
PConst(dim, A) == PCanon([e \in {ZeroMono(dim)} |-> A])
PAdd(P, Q, r, c) == PCanon([e \in (DOMAIN P) \cup (DOMAIN Q) |-> MAdd(PGet(P, e, r, c), PGet(Q, e, r, c))])
PMap(P, F(_)) == PCanon([e \in DOMAIN P |-> F(P[e])])
PScale(k, P) == PMap(P, LAMBDA A : MScale(k, A))
\* product; Times(A,B) is the coefficient product (matrix product, or scalar times matrix), r x c its shape
PMul(P, Q, Times(_, _), r, c) ==
  LET dom == {MPlus(ea, eb) : ea \in DOMAIN P, eb \in DOMAIN Q}
  IN PCanon([e \in dom |->
        FoldSet(LAMBDA ea, acc : LET eb == MMinus(e, ea)
                                 IN IF eb \in DOMAIN Q THEN MAdd(acc, Times(P[ea], Q[eb])) ELSE acc,
                MZero(r, c), DOMAIN P)])
PDeg(P) == IF DOMAIN P = {} THEN 0 ELSE Max({Deg(e) : e \in DOMAIN P})
\* the linear form v . x with coefficient matrix A, and its n-th power times A (A (v.x)^n), n-fold product
PLinear(dim, v) == PCanon([e \in {Unit(dim, i) : i \in 1..dim} |->
                            <<<<v[CHOOSE i \in 1..dim : e = Unit(dim, i)]>>>>])
RECURSIVE PLinPow(_, _, _)
PLinPow(dim, v, n) ==       \* (v.x)^n as a polynomial with 1x1 coefficients
  IF n = 0 THEN PConst(dim, <<<<1>>>>)
  ELSE PMul(PLinPow(dim, v, n - 1), PLinear(dim, v), LAMBDA A, B : <<<<A[1][1] * B[1][1]>>>>, 1, 1)

\* exact evaluation at the rational unit vector pt.v / pt.d : numerator over pt.d^L  (L >= degree)
MonoNum(pt, e, L) == FoldLeft(LAMBDA a, i : a * IPow(pt.v[i], e[i]), 1, [i \in DOMAIN e |-> i])
                       * IPow(pt.d, L - Deg(e))
PEval(P, pt, L, r, c) ==
  FoldSet(LAMBDA e, acc : MAdd(acc, MScale(MonoNum(pt, e, L), P[e])), MZero(r, c), DOMAIN P)
\* sum of |terms| : the scale against which a floating-point evaluation is accurate
PAbsEval(P, pt, L) ==
  FoldSet(LAMBDA e, acc : acc + PAbs(MonoNum(pt, e, L)) * MMaxAbs(P[e]), 0, DOMAIN P)
\* the same through a table of the monomial values of one point (computed once per point)
MonoTable(pt, dim, L) == [e \in Monos(dim, L) |-> MonoNum(pt, e, L)]
PEvalT(P, tab, r, c) == FoldSet(LAMBDA e, acc : MAdd(acc, MScale(tab[e], P[e])), MZero(r, c), DOMAIN P)
\* cheap bound of the same scale: |uhat^e| <= 1, so every term is at most d^L * max|coefficient|
PAbsBound(P, dL) == dL * FoldSet(LAMBDA e, acc : acc + MMaxAbs(P[e]), 0, DOMAIN P)
\* evaluation at an INTEGER vector q of the homogeneous degree-n polynomial that a parity-consistent
\* term denotes:  SUM_e c_e q^e (q.q)^((n - deg e)/2)   (times f_n = |q|^n this is the term's value at q)
Dot(a, b) == SumSeq([i \in DOMAIN a |-> a[i] * b[i]])
MV(M, p) == [i \in DOMAIN M |-> Dot(M[i], p)]
PEvalHom(P, q, n, r, c) ==
  FoldSet(LAMBDA e, acc :
            MAdd(acc, MScale(FoldLeft(LAMBDA a, i : a * IPow(q[i], e[i]), 1, [i \in DOMAIN e |-> i])
                               * IPow(Dot(q, q), (n - Deg(e)) \div 2), P[e])),
          MZero(r, c), DOMAIN P)
ParityConsistent(P, n) == \A e \in DOMAIN P : Deg(e) <= n /\ (n - Deg(e)) % 2 = 0

-----------------------------------------------------------------------------
\* expansions:  n -> [l, p]
ETerm(l, p) == [l |-> l, p |-> p]
ENs(E) == DOMAIN E
EPoly(E, n) == IF n \in DOMAIN E THEN E[n].p ELSE PZero
EAdd(A, B, r, c) ==
  [n \in (DOMAIN A) \cup (DOMAIN B) |->
     IF n \notin DOMAIN B THEN A[n] ELSE IF n \notin DOMAIN A THEN B[n]
     ELSE ETerm(PMax(A[n].l, B[n].l), PAdd(A[n].p, B[n].p, r, c))]
EMap(A, F(_)) == [n \in DOMAIN A |-> ETerm(A[n].l, PMap(A[n].p, F))]
EScale(k, A) == EMap(A, LAMBDA M : MScale(k, M))
ETrunc(A, N) == [n \in {m \in DOMAIN A : m <= N} |-> A[n]]
EMul(A, B, Times(_, _), r, c) ==
  LET ns == {na + nb : na \in DOMAIN A, nb \in DOMAIN B}
      pairs(n) == {na \in DOMAIN A : (n - na) \in DOMAIN B}
  IN [n \in ns |->
        ETerm(Max({A[na].l + B[n - na].l : na \in pairs(n)}),
              FoldSet(LAMBDA na, acc : PAdd(acc, PMul(A[na].p, B[n - na].p, Times, r, c), r, c),
                      PZero, pairs(n)))]
\* largest combined angular order a product would need
EMulL(A, B) == IF DOMAIN A = {} \/ DOMAIN B = {} THEN 0
               ELSE Max({A[na].l : na \in DOMAIN A}) + Max({B[nb].l : nb \in DOMAIN B})
\* sum over a basis of (matrix, vector) pairs of pre[n] * matrix * (vector . x)^n, n = 0..N
EConstruct(dim, basis, N, pre, r, c) ==
  [n \in 0..N |->
     ETerm(n, FoldLeft(LAMBDA acc, b :
                         PAdd(acc, PMap(PLinPow(dim, b.v, n), LAMBDA A : MScale(pre[n + 1] * A[1][1], b.m)), r, c),
                       PZero, basis))]

-----------------------------------------------------------------------------
\* what the class-wide index tables must contain (code index i <-> position i+1 of a sequence)
\* ind2pow enumerates every monomial of degree <= L exactly once, by non-decreasing degree
IsGradedEnumeration(ind2pow, dim, L) ==
  /\ Len(ind2pow) = Cardinality(Monos(dim, L))
  /\ {ind2pow[i] : i \in DOMAIN ind2pow} = Monos(dim, L)
  /\ \A i \in 1..(Len(ind2pow) - 1) : Deg(ind2pow[i]) <= Deg(ind2pow[i + 1])
\* powlrange[l] = number of monomials of degree <= l ; the extra last entry (index -1 in the code) is 0
PowlrangeOK(powlrange, dim, L) ==
  /\ Len(powlrange) = L + 2
  /\ \A l \in 0..L : powlrange[l + 1] = Cardinality(Monos(dim, l))
  /\ powlrange[L + 2] = 0
\* nested lookup table T[e_1][e_2]...  (0-based exponents -> 1-based positions)
Lookup(T, e) == FoldLeft(LAMBDA t, x : t[x + 1], T, e)
Pow2indOK(pow2ind, ind2pow, dim, L) ==
  \A e \in [1..dim -> 0..L] :
     IF Deg(e) <= L THEN Lookup(pow2ind, e) \in 0..(Len(ind2pow) - 1) /\ ind2pow[Lookup(pow2ind, e) + 1] = e
     ELSE Lookup(pow2ind, e) = -1
DirectmultOK(directmult, ind2pow, L) ==
  \A p \in DOMAIN ind2pow : \A q \in DOMAIN ind2pow :
     LET e == MPlus(ind2pow[p], ind2pow[q]) IN
     IF Deg(e) <= L THEN directmult[p][q] \in 0..(Len(ind2pow) - 1) /\ ind2pow[directmult[p][q] + 1] = e
     ELSE directmult[p][q] = -1
PowercoeffOK(powercoeff, ind2pow, L) ==
  /\ Len(powercoeff) = L + 1
  /\ \A n \in 0..L : \A p \in DOMAIN ind2pow :
        powercoeff[n + 1][p] = IF Deg(ind2pow[p]) = n THEN Multinomial(ind2pow[p]) ELSE 0

\* ---- L-projections.  Q[k][p][p'] = D * Lproj[k][p][p'] as integers (k = 1..L+1 for l = 0..L, k = L+2 the sum)
\* column p' of Q[k]: the polynomial (times D) that the l-component of monomial p' is written as
ProjColumn(Q, k, pp, ind2pow) ==
  [e \in {ind2pow[p] : p \in {x \in DOMAIN ind2pow : Q[k][x][pp] # 0}} |->
      Q[k][CHOOSE p \in DOMAIN ind2pow : ind2pow[p] = e][pp]]
\* (x.x)^k as a scalar polynomial: SUM over exponent tuples g of degree k of multinomial(g) x^(2g)
\* scalar polynomials here: exponent tuple -> integer
SGet(P, e) == IF e \in DOMAIN P THEN P[e] ELSE 0
SCanon(P) == LET D == {e \in DOMAIN P : P[e] # 0} IN [e \in D |-> P[e]]
\* multiply the monomials of a scalar polynomial up to the common degree H with powers of r^2 = x.x
Homogenise(P, dim, H) ==
  LET terms == {<<e, g>> \in (DOMAIN P) \X Monos(dim, H) :
                    2 * Deg(g) = H - Deg(e)}
      target == {MPlus(t[1], [i \in 1..dim |-> 2 * t[2][i]]) : t \in terms}
  IN SCanon([f \in target |->
        FoldSet(LAMBDA t, acc :
                  IF MPlus(t[1], [i \in 1..dim |-> 2 * t[2][i]]) = f THEN acc + P[t[1]] * Multinomial(t[2]) ELSE acc,
                0, terms)])
HomogenisableTo(P, H) == \A e \in DOMAIN P : Deg(e) <= H /\ (H - Deg(e)) % 2 = 0
\* r^2 * Laplacian of a homogeneous scalar polynomial of degree H
Laplacian(G, dim) ==
  LET dom == {MMinus(e, [j \in 1..dim |-> IF j = i THEN 2 ELSE 0]) : e \in DOMAIN G, i \in 1..dim}
      ok == {e \in dom : MNonNeg(e)}
  IN SCanon([e \in ok |-> SumSeq([i \in 1..dim |->
                 (e[i] + 2) * (e[i] + 1) * SGet(G, MPlus(e, [j \in 1..dim |-> IF j = i THEN 2 ELSE 0]))])])
TimesR2(K, dim) ==
  LET dom == {MPlus(e, [j \in 1..dim |-> IF j = i THEN 2 ELSE 0]) : e \in DOMAIN K, i \in 1..dim}
  IN SCanon([f \in dom |-> SumSeq([i \in 1..dim |->
                 LET e == MMinus(f, [j \in 1..dim |-> IF j = i THEN 2 ELSE 0])
                 IN IF MNonNeg(e) THEN SGet(K, e) ELSE 0])])
SScale(k, P) == SCanon([e \in DOMAIN P |-> k * P[e]])
\* G (homogeneous of degree H) restricted to the sphere is a pure degree-l harmonic:
\*   Laplace-Beltrami eigenvalue -l(l+dim-2)  <=>  r^2 Lap G = (H-l)(H+l+dim-2) G
PureHarmonic(G, dim, H, l) == TimesR2(Laplacian(G, dim), dim) = SScale((H - l) * (H + l + dim - 2), G)
\* the common degree to homogenise functions of parity l to
TopDeg(L, l) == IF (L - l) % 2 = 0 THEN L ELSE L - 1

-----------------------------------------------------------------------------
\* observations of real objects.  A float x that must equal the exact integer N (a numerator over d^L)
\* is shipped as <<I, F, G>> : I = nearest integer of Re x, F = round((Re x - I) * 10^9), G = round(Im x * 10^9)
\* (coefficients are stored as complex numbers).  It matches N iff I = N and |F|, |G| are within the
\* floating-point accuracy of an evaluation whose terms sum to `abs` in magnitude: 1e-12 relative to that
\* scale plus 1e-7 absolute (units of F, G: 1e-9).  Measured on the unchanged tree: |F| <= 1 unit over the
\* ~7500 histories of the quick object-machine runs, <= 72 units for rotated expansions (scale 1e5..1e8);
\* the smallest effect of a wrong integer coefficient is 1 in I.
ObsTol(abs) == 100 + abs \div 1000
NumMatch(o, exact, abs) == o[1] = exact /\ PAbs(o[2]) <= ObsTol(abs) /\ PAbs(o[3]) <= ObsTol(abs)
MatMatch(ob, exact, abs) ==
  /\ Len(ob) = Len(exact)
  /\ \A i \in DOMAIN exact : /\ Len(ob[i]) = Len(exact[i])
                             /\ \A j \in DOMAIN exact[i] : NumMatch(ob[i][j], exact[i][j], abs)
\* obs: sequence of [n |-> radial order, v |-> sequence over the points of matrices of <<I,F>>]
\* (the implementation's terms summed per n).  The object denotes E iff for every n of either side and
\* every point the observed value is the exact value of E's polynomial (absent = 0).
ObsNs(obs) == {obs[i].n : i \in DOMAIN obs}
ObsAt(obs, n, k, r, c) ==
  IF n \in ObsNs(obs) THEN obs[CHOOSE i \in DOMAIN obs : obs[i].n = n].v[k]
  ELSE [i \in 1..r |-> [j \in 1..c |-> <<0, 0, 0>>]]
\* tabs: one MonoTable per point (numerators over d^L), dLs: d^L per point
EMatch(E, obs, tabs, dLs, r, c) ==
  /\ Cardinality(ObsNs(obs)) = Len(obs)
  /\ \A n \in (DOMAIN E) \cup ObsNs(obs) : \A k \in DOMAIN tabs :
        MatMatch(ObsAt(obs, n, k, r, c), PEvalT(EPoly(E, n), tabs[k], r, c),
                 PAbsBound(EPoly(E, n), dLs[k]))
=============================================================================
