------------------------------ MODULE VecStars ------------------------------
(***************************************************************************)
(* Vector stars (property C25), definitional part.                         *)
(*                                                                         *)
(* A vector star is a symmetry-equivariant vector field on one star (orbit *)
(* of pair states):  v(g s) = R_g v(s)  for every space-group operation    *)
(* g = (R_g, t_g).  Such a field is fixed by its value at one state s0,    *)
(* and that value may be any vector invariant under the stabiliser of s0.  *)
(* The number of linearly independent vector stars on a star is therefore  *)
(* the dimension of the invariant vector space of Stab(s0), which the      *)
(* character formula gives as an integer: (1/|Stab|) sum_g tr R_g          *)
(* (basis independent, so the integer lattice-coordinate matrices do).     *)
(* Origin states <<i, i, 0>> are covered: their stabiliser is the site's.  *)
(***************************************************************************)
EXTENDS Stars, Fx

StabOfState(w, c, G, s) == {g \in G : ActPS(w, c, g, s) = s}
\* character formula over the group ELEMENTS (not the set of their rotation parts)
DimFix(stab) == FoldSet(LAMBDA g, acc : acc + Trace(g[1]), 0, stab) \div Cardinality(stab)
DimFixExact(stab) == FoldSet(LAMBDA g, acc : acc + Trace(g[1]), 0, stab) % Cardinality(stab) = 0
NProper(stab) == Cardinality({g \in stab : Det(g[1]) = 1})
InvariantDim(w, c, G, s) == DimFix(StabOfState(w, c, G, s))
\* expected number of vector stars of a star set given one representative per star
ExpectedCount(w, c, G, reps) ==
  FoldLeft(LAMBDA acc, s : acc + InvariantDim(w, c, G, s), 0, reps)

\* R v = v2 for an integer matrix R and vectors of fixed-point numbers in LATTICE coordinates (contravariant
\* components transform with the integer matrix of the operation), within tol units
RotatesTo(R, v, v2, tol) ==
  \A i \in DOMAIN v2 :
     FxAbsLe(FxLin([j \in 1..(Len(v) + 1) |-> IF j <= Len(v) THEN <<R[i][j], v[j]>> ELSE <<-1, v2[i]>>]), tol)
\* a vector at s0 that can seed a vector star: invariant under the stabiliser
InvariantUnder(stab, v, tol) == \A g \in stab : RotatesTo(g[1], v, v, tol)
=============================================================================
