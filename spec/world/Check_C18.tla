----------------------------- MODULE Check_C18 -----------------------------
(* C18: the reported symmetry operations form a group of self-isometries.     *)
(* Each case: the world read back from a constructed Crystal (with spins) and *)
(* the projected operations [rot, t, perm, crot].  Completeness (does the     *)
(* reported group equal the definitional one?) is computed and reported as    *)
(* INFO; it is decided by C19/C20, not here.                                  *)
EXTENDS World, Json, IOUtils

Cases == JsonDeserialize(IOEnv.CASE_FILE)
VARIABLE k

\* spins: <<>> none, <<s>> scalar (transforms with the determinant), <<x,y,z>> vector in lattice coordinates
SpinImage(R, s) == IF Len(s) = 0 THEN s ELSE IF Len(s) = 1 THEN <<Det(R) * s[1]>> ELSE MV(R, s)
\* the operation maps spins onto spins up to ONE global real phase (the library's documented semantics)
SpinOK(w, R, perm) ==
  \E p \in {1, -1} : \A c \in DOMAIN w.basis : \A i \in DOMAIN w.basis[c] :
      VScale(p, SpinImage(R, w.spin[c][i])) = w.spin[c][perm[c][i]]

RT(g) == <<g.rot, g.t>>
IsPermutation(p, n) == Len(p) = n /\ {p[i] : i \in 1..n} = 1..n

Clauses(c) ==
  LET w == c.w
      S == {RT(c.ops[n]) : n \in DOMAIN c.ops}
  IN <<
   <<"isometry", \A n \in DOMAIN c.ops : IsIsometry(w, c.ops[n].rot) /\ Det(c.ops[n].rot) \in {1, -1}>>,
   <<"cartesian_rotation_matches_lattice_rotation", \A n \in DOMAIN c.ops : c.ops[n].crot = c.ops[n].rot>>,
   <<"indexmap_is_permutation",
       \A n \in DOMAIN c.ops : /\ Len(c.ops[n].perm) = Len(w.basis)
                               /\ \A s \in DOMAIN w.basis : IsPermutation(c.ops[n].perm[s], Len(w.basis[s]))>>,
   <<"indexmap_matches_geometry",
       \A n \in DOMAIN c.ops : \A s \in DOMAIN w.basis : \A i \in DOMAIN w.basis[s] :
           ImgGrid(w, c.ops[n].rot, c.ops[n].t, w.basis[s][i]) = w.basis[s][c.ops[n].perm[s][i]]>>,
   <<"spin_compatible", \A n \in DOMAIN c.ops : SpinOK(w, c.ops[n].rot, c.ops[n].perm)>>,
   <<"operations_distinct", Cardinality(S) = Len(c.ops)>>,
   <<"group_modulo_lattice", IsGroup(w, S)>>,
   <<"nosym_is_identity",
       c.nosym => /\ Len(c.ops) = 1
                  /\ RT(c.ops[1]) = IdentityRT(w)
                  /\ \A s \in DOMAIN w.basis : c.ops[1].perm[s] = Idx(Len(w.basis[s]))>>
  >>

Complete(c) ==
  LET w == c.w
      S == {RT(c.ops[n]) : n \in DOMAIN c.ops}
      Def == {g \in OpsRT(w, 2) : SpinOK(w, g[1], PermOf(w, g[1], g[2]))}
  IN IF c.nosym THEN TRUE ELSE S = Def

Init == k = 0
Next == /\ k < Len(Cases)
        /\ k' = k + 1
        /\ LET c == Cases[k'] cl == Clauses(c) IN
             /\ \A j \in DOMAIN cl : cl[j][2] \/ PrintT(<<"FAIL", k', cl[j][1]>>)
             /\ PrintT(<<"INFO", k', "complete", Complete(c)>>)
             /\ PrintT(<<"INFO", k', "order", Len(c.ops)>>)
        /\ (k' = Len(Cases) => PrintT(<<"DONE", k'>>))
=============================================================================
