----------------------------- MODULE Check_C36 -----------------------------
(* C36: value types obey equality / hashing / arithmetic laws.                    *)
(*                                                                                *)
(* kind "eq": a pool of instances of one type (GroupOp, PairState, ClusterSite,   *)
(*   Cluster, vacancyThermoKinetics) with the recorded tables of every ==, != and  *)
(*   hash; EqLaws decides the laws and reports one witness pair per broken law.    *)
(* kind "ps": a pool of pair states of one species of an observed world, the      *)
(*   projected symmetry operations, and every recorded arithmetic evaluation       *)
(*   (-a, a+b, a-b, a^b, the documented identities, g(a) and both sides of         *)
(*   "arithmetic commutes with symmetry"); the pair-state algebra of Geom.tla      *)
(*   decides which evaluations must be defined and what their value is.            *)
(* c.lemma = 1 additionally re-proves the model-level lemmas on that pool (the    *)
(*   laws hold on the relation induced by the values; the algebra's identities).   *)
EXTENDS Geom, EqLaws, Json, IOUtils

Cases == JsonDeserialize(IOEnv.CASE_FILE)
VARIABLE k

---------------------------------------------------------------------------
EqFails(c) ==
  LET l == Laws(c.eq, c.ne, c.hash, c.val, c.far, c.n) IN
  {<<l[m][1], CHOOSE p \in l[m][2] : TRUE>> : m \in {m2 \in DOMAIN l : l[m2][2] # {}}}
  \* a Python set of the pool has exactly one member per class of the recorded == (values that MAY compare either
  \* way -- near-equal cache keys -- make the number of classes a matter of the table, not of val)
  \cup (IF c.setsize < 0 \/ c.setsize = Cardinality({{j \in 1..c.n : c.eq[i][j] = 1} : i \in 1..c.n}) THEN {}
        ELSE {<<"a set keeps exactly one instance per value", <<1, 1>>>>})
  \cup (IF c.lemma = 0 \/ LawsHoldOnInduced(c.val, c.n) THEN {} ELSE {<<"MODEL: laws on the induced relation", <<1, 1>>>>})

---------------------------------------------------------------------------
\* pair-state evaluations: e = [name, expr, a, b, g, r = [ok, f, dx], flags]
Tup(a) == <<a.i, a.j, a.R>>
Mk(f) == PS(f[1], f[2], f[3])

\* <<defined, value>> demanded by the algebra for evaluation e
Model(c, e) ==
  LET w == c.w
      A == Mk(c.ps[e.a])
      B == IF e.b > 0 THEN Mk(c.ps[e.b]) ELSE A
      g == IF e.g > 0 THEN c.ops[e.g] ELSE c.ops[1]
      x == e.expr
      Img(s) == ImgPS(w, c.c, g, s)
  IN CASE x = "neg" -> <<TRUE, PSneg(A)>>
       [] x = "add" -> <<PSaddDef(A, B), PSadd(A, B)>>
       [] x = "sub" -> <<PSsubDef(A, B), PSsub(A, B)>>
       [] x = "xor" -> <<PSxorDef(A, B), PSxor(A, B)>>
       [] x = "a+(-a)" -> <<TRUE, PSzero(A.i, w.dim)>>
       [] x = "(-a)+a" -> <<TRUE, PSzero(A.j, w.dim)>>
       [] x = "-(-a)" -> <<TRUE, A>>
       [] x = "(a-b)+b" -> <<PSsubDef(A, B), A>>
       [] x = "b+(a^b)" -> <<PSxorDef(A, B), A>>
       [] x = "0+a" -> <<TRUE, A>>
       [] x = "a+0" -> <<TRUE, A>>
       [] x = "g(a)" -> <<TRUE, Img(A)>>
       [] x = "g(-a)" -> <<TRUE, Img(PSneg(A))>>
       [] x = "-g(a)" -> <<TRUE, PSneg(Img(A))>>
       [] x = "g(a+b)" -> <<PSaddDef(A, B), Img(PSadd(A, B))>>
       [] x = "g(a)+g(b)" -> <<PSaddDef(A, B), PSadd(Img(A), Img(B))>>
       [] x = "g(a-b)" -> <<PSsubDef(A, B), Img(PSsub(A, B))>>
       [] x = "g(a)-g(b)" -> <<PSsubDef(A, B), PSsub(Img(A), Img(B))>>
       [] x = "g(a^b)" -> <<PSxorDef(A, B), Img(PSxor(A, B))>>
       [] x = "g(a)^g(b)" -> <<PSxorDef(A, B), PSxor(Img(A), Img(B))>>

EvalOK(c, e) ==
  LET m == Model(c, e) IN
  IF m[1] THEN /\ e.r.ok = 1
               /\ e.r.f = Tup(m[2])
               /\ e.r.dx = PSdx(c.w, c.c, m[2])
               /\ \A n \in DOMAIN e.flags : e.flags[n] = 1
  ELSE e.r.ok = 0

\* the algebra's own theorems on this pool (a failure is a specification error, not a verdict)
PoolLemmas(c) ==
  LET w == c.w  P == {Mk(c.ps[n]) : n \in DOMAIN c.ps} IN
  /\ \A a \in P : PSisZero(PSadd(a, PSneg(a))) /\ PSisZero(PSadd(PSneg(a), a)) /\ PSneg(PSneg(a)) = a
  /\ \A a \in P, b \in P :
       /\ PSsubDef(a, b) => PSaddDef(PSsub(a, b), b) /\ PSadd(PSsub(a, b), b) = a
       /\ PSxorDef(a, b) => PSaddDef(b, PSxor(a, b)) /\ PSadd(b, PSxor(a, b)) = a
       /\ \A n \in DOMAIN c.ops :
            LET g == c.ops[n] IN
            /\ PSaddDef(a, b) => ImgPS(w, c.c, g, PSadd(a, b)) = PSadd(ImgPS(w, c.c, g, a), ImgPS(w, c.c, g, b))
            /\ PSxorDef(a, b) => ImgPS(w, c.c, g, PSxor(a, b)) = PSxor(ImgPS(w, c.c, g, a), ImgPS(w, c.c, g, b))
            /\ ImgPS(w, c.c, g, PSneg(a)) = PSneg(ImgPS(w, c.c, g, a))
            /\ PSdx(w, c.c, ImgPS(w, c.c, g, a)) = ImgDir(g, PSdx(w, c.c, a))

PsFails(c) ==
  IF ~(\A n \in DOMAIN c.ops : IsSymmetry(c.w, c.ops[n]))
  THEN {<<"input: reported operation is not a symmetry of the observed crystal", <<1, 1>>>>}
  ELSE {<<c.evals[n].name, <<c.evals[n].a, c.evals[n].b>>>> : n \in {m \in DOMAIN c.evals : ~EvalOK(c, c.evals[m])}}
       \cup {<<"separation dx of a constructed pair state", <<n, n>>>> :
                 n \in {m \in DOMAIN c.ps : c.dx[m] # PSdx(c.w, c.c, Mk(c.ps[m]))}}
       \cup (IF c.lemma = 0 \/ PoolLemmas(c) THEN {} ELSE {<<"MODEL: pair-state algebra lemmas", <<1, 1>>>>})

Fails(c) == IF c.kind = "eq" THEN EqFails(c) ELSE PsFails(c)
\* one witness per clause name
Names(F) == {f[1] : f \in F}
Witness(F, name) == (CHOOSE f \in F : f[1] = name)[2]

Init == k = 0
Next == /\ k < Len(Cases)
        /\ k' = k + 1
        /\ LET c == Cases[k'] F == Fails(c) IN
             \A name \in Names(F) : /\ PrintT(<<"FAIL", k', name>>)
                                    /\ PrintT(<<"INFO", k', "wit:" \o name, Witness(F, name)>>)
        /\ (k' = Len(Cases) => PrintT(<<"DONE", k'>>))
=============================================================================
