----------------------------- MODULE Check_C15 -----------------------------
(***************************************************************************)
(* C15: tags map exactly onto symmetry classes.                            *)
(*                                                                         *)
(* Three kinds of cases (one calculator = Interstitial or VacancyMediated  *)
(* on a crystal read back as the world w, sublattice c):                   *)
(*                                                                         *)
(* "bind"  tags <-> classes by geometry.  types[t] = [name, geo, classes,  *)
(*         tagged]: `classes` are the calculator's own class lists (the    *)
(*         lists its parameter arrays are indexed by: sitelist, stars,     *)
(*         jump networks) and `tagged` the objects NAMED by the tag        *)
(*         strings (parsed by the harness: positions on the grid).  geo:   *)
(*         "site" i | "pair" <<i,j,R>> | "jump" <<i,j,R>> (with reversal)  *)
(*         | "trans" <<PS1, PS2>> (with reversal).  tags[t][c][m] are the  *)
(*         strings, tagdict a list of <<string, t, c>>.                    *)
(* "cover" the scenarios of one calculator: count vectors (0, 1 or 2 member *)
(*         tags per class) + salts.  TagMap.Scenario DEFINES the user      *)
(*         dictionary of a (count vector, salt); for the structures        *)
(*         declared exhaustive TLC enumerates all admissible count vectors *)
(*         and requires the proposed list to be exactly that set.          *)
(* "scen"  the answers of tags2preene(VERBOSE) to a chunk of scenarios:    *)
(*         arrays (integers: log2 of the prefactor, energy level) and the  *)
(*         three reports; compared with TagMap's Routed / reports.  The    *)
(*         LIMB references of the omega1 / omega2 classes are derived here *)
(*         from the geometry of the classes.                               *)
(***************************************************************************)
EXTENDS Omega, TagMap, Json, IOUtils

Cases == JsonDeserialize(IOEnv.CASE_FILE)
VARIABLE k

\* ------------------------------------------------------------------ geometry of classes
OrbitG(w, c, G, geo, x) ==
  IF geo = "site" THEN {a[2] : a \in OrbitOf(w, G, <<c, x>>)}
  ELSE IF geo = "pair" THEN Orbit(w, c, G, x)
  ELSE IF geo = "jump" THEN Orbit(w, c, G, x) \cup Orbit(w, c, G, PSNeg(x))
  ELSE OrbitT(w, c, G, <<x[1], x[2]>>)
ValidG(w, c, geo, x) ==
  IF geo = "site" THEN x \in DOMAIN w.basis[c]
  ELSE IF geo = "trans" THEN IsPS(w, c, x[1]) /\ IsPS(w, c, x[2])       \* (an exchange moves the solute)
  ELSE IsPS(w, c, x)

\* LIMB reference of an omega1 (t = 5) / omega2 (t = 6) transition x, from the geometry of the other classes
ClassIndex(cls, x) == IF \E m \in DOMAIN cls : x \in SeqToSet(cls[m])
                      THEN CHOOSE m \in DOMAIN cls : x \in SeqToSet(cls[m]) ELSE 0
RefOfTrans(types, t, x) ==
  LET jump == IF t = 5 THEN JumpOf1(<<x[1], x[2]>>) ELSE JumpOf2(<<x[1], x[2]>>) IN
  [jt |-> ClassIndex(types[4].classes, jump),
   si |-> ClassIndex(types[2].classes, x[1][1]), ti |-> ClassIndex(types[3].classes, x[1]),
   sf |-> ClassIndex(types[2].classes, x[2][1]), tf |-> ClassIndex(types[3].classes, x[2])]
RefTable(types) ==
  Force([t \in DOMAIN types |-> [m \in DOMAIN types[t].classes |->
            IF t \in {5, 6} THEN RefOfTrans(types, t, types[t].classes[m][1]) ELSE <<>>]])
RefDefined(r) == r = <<>> \/ (r.jt > 0 /\ r.si > 0 /\ r.sf > 0)
\* a class contains every transition together with its reverse: the reference is the same up to the order of the
\* two endpoints (the LIMB value is symmetric in them)
RefSwap(r) == [jt |-> r.jt, si |-> r.sf, ti |-> r.tf, sf |-> r.si, tf |-> r.ti]
RefSame(a, b) == a = b \/ RefSwap(a) = b

\* ------------------------------------------------------------------ "bind"
BindClauses(cArg) ==
  LET c == cArg
      w == c.w
      cc == c.c
      G == OpsRT(w, 2)
      T == c.types
      alltags == UNION {UNION {SeqToSet(c.tags[t][m]) : m \in DOMAIN c.tags[t]} : t \in DOMAIN c.tags}
      ntags == FoldLeft(LAMBDA acc, t : acc + FoldLeft(LAMBDA a2, cl : a2 + Len(cl), 0, c.tags[t]), 0,
                        [t \in DOMAIN c.tags |-> t])
      fromtags == UNION {UNION {{<<c.tags[t][m][n], t, m>> : n \in DOMAIN c.tags[t][m]} : m \in DOMAIN c.tags[t]}
                         : t \in DOMAIN c.tags}
      orbit == Force([t \in DOMAIN T |-> [m \in DOMAIN T[t].classes |->
                  IF T[t].classes[m] = <<>> \/ ~ValidG(w, cc, T[t].geo, T[t].classes[m][1]) THEN {}
                  ELSE OrbitG(w, cc, G, T[t].geo, T[t].classes[m][1])]])
  IN <<
   <<"every_tag_is_unique", Cardinality(alltags) = ntags>>,
   <<"tagdict_maps_every_tag_to_its_type_and_class",
        /\ SeqToSet(c.tagdict) = fromtags /\ Len(c.tagdict) = ntags>>,
   <<"one_tag_list_per_class",
        /\ Len(c.tags) = Len(T)
        /\ \A t \in DOMAIN T : /\ Len(c.tags[t]) = Len(T[t].classes) /\ Len(T[t].tagged) = Len(T[t].classes)
                               /\ \A m \in DOMAIN T[t].classes : Len(c.tags[t][m]) = Len(T[t].classes[m])>>,
   <<"tag_names_a_member_of_the_class_at_its_index",
        \A t \in DOMAIN T : \A m \in DOMAIN T[t].classes :
            m \in DOMAIN T[t].tagged /\ SeqToSet(T[t].tagged[m]) = SeqToSet(T[t].classes[m])>>,
   <<"each_member_named_once",
        \A t \in DOMAIN T : \A m \in DOMAIN T[t].tagged : Cardinality(SeqToSet(T[t].tagged[m])) = Len(T[t].tagged[m])>>,
   <<"classes_nonempty_and_well_formed",
        \A t \in DOMAIN T : \A m \in DOMAIN T[t].classes :
            T[t].classes[m] # <<>> /\ \A n \in DOMAIN T[t].classes[m] : ValidG(w, cc, T[t].geo, T[t].classes[m][n])>>,
   <<"class_is_one_symmetry_class",
        \A t \in DOMAIN T : \A m \in DOMAIN T[t].classes : SeqToSet(T[t].classes[m]) \subseteq orbit[t][m]>>,
   <<"different_classes_are_not_equivalent",
        \A t \in DOMAIN T : \A m \in DOMAIN T[t].classes : \A m2 \in DOMAIN T[t].classes :
            (m < m2 /\ T[t].classes[m2] # <<>>) => T[t].classes[m2][1] \notin orbit[t][m]>>,
   <<"model_limb_reference_is_a_function_of_the_class",
        c.limb => \A t \in {5, 6} : \A m \in DOMAIN T[t].classes :
            /\ RefDefined(RefOfTrans(T, t, T[t].classes[m][1]))
            /\ \A n \in DOMAIN T[t].classes[m] :
                  RefSame(RefOfTrans(T, t, T[t].classes[m][n]), RefOfTrans(T, t, T[t].classes[m][1]))>>
  >>

EvalBind(kk, c) ==
  LET cl == BindClauses(c) IN
  /\ \A j \in DOMAIN cl : cl[j][2] \/ PrintT(<<"FAIL", kk, <<cl[j][1], 0>>>>)
  /\ PrintT(<<"INFO", kk, "classes_with_several_members",
              FoldLeft(LAMBDA acc, t : acc + Cardinality({m \in DOMAIN c.types[t].classes : Len(c.types[t].classes[m]) > 1}),
                       0, [t \in DOMAIN c.types |-> t])>>)

\* ------------------------------------------------------------------ "cover"
\* The harness proposes the scenarios (count vector + salt); TagMap defines them.  For a structure declared
\* exhaustive the proposed count vectors must be ALL admissible ones (0, 1 or 2 member tags per class), each with
\* the salt the spec assigns to it.
NBogus(salt) == salt % 3
EvalCover(kk, c) ==
  LET cs == [sizes |-> c.sizes]
      got == {c.list[j][1] : j \in DOMAIN c.list}
      all == {[n \in 1..Len(ClassSeq(cs)) |-> f[n]] : f \in AllCnt(cs)}
      cl == << <<"model_member_permutations", PermOK(cs, c.perm)>>,
               <<"model_count_vectors_admissible", \A j \in DOMAIN c.list : CntOK(cs, c.list[j][1])>>,
               <<"model_exhaustive_enumeration_is_complete",
                   c.exhaustive => /\ got = all /\ Len(c.list) = Cardinality(all)
                                   /\ \A j \in DOMAIN c.list : c.list[j][2] = SaltOf(c.list[j][1])>> >>
  IN /\ \A n \in DOMAIN cl : cl[n][2] \/ PrintT(<<"FAIL", kk, <<cl[n][1], 0>>>>)
     /\ PrintT(<<"INFO", kk, "scenarios", Len(c.list)>>)
     /\ PrintT(<<"INFO", kk, "admissible_count_vectors", IF c.exhaustive THEN Cardinality(all) ELSE 0>>)

\* ------------------------------------------------------------------ "scen"
BogusTag(b) == <<0, 0, b>>
ScenClauses(cs, ref, perm, s) ==
  LET sup == Scenario(cs, perm, s.cnt, s.salt)
      o == s.obs
      arr == [pre |-> o.pre, ene |-> o.ene]
      len == LengthsOK(cs, arr)
  IN <<
   \* the dictionary the harness fed (s.fed = <<t, c, m, pre, ene>> entries, s.nbogus bogus tags) IS the scenario
   <<"model_fed_dictionary_is_the_scenario", s.fed = sup /\ s.nbogus = NBogus(s.salt)>>,
   <<"model_dictionary_well_formed", WellFormed(cs, sup) /\ Len(sup) < 509>>,
   <<"model_report_partition", ReportPartition(cs, sup)>>,
   <<"model_values_distinct_and_nonzero",
        /\ Cardinality({sup[n][5] : n \in DOMAIN sup}) = Len(sup)
        /\ \A n \in DOMAIN sup : sup[n][5] # 0>>,
   <<"array_lengths_equal_number_of_classes", len>>,
   <<"supplied_data_at_the_index_of_its_class", SuppliedRouted(cs, sup, arr)>>,
   <<"defaults_for_classes_without_data", DefaultsElsewhere(cs, ref, sup, arr, FALSE)>>,
   <<"limb_default_for_unspecified_omega1_omega2", len => DefaultsElsewhere(cs, ref, sup, arr, TRUE)>>,
   <<"report_lists_exactly_the_classes_without_data",
        SeqToSet(o.missing) = Missing(cs, sup) /\ Len(o.missing) = Cardinality(Missing(cs, sup))>>,
   <<"report_lists_exactly_the_classes_given_more_than_once",
        /\ {SeqToSet(o.dup[n]) : n \in DOMAIN o.dup} = DuplicateReport(cs, sup)
        /\ Len(o.dup) = Cardinality(DuplicateReport(cs, sup))
        /\ \A n \in DOMAIN o.dup : Cardinality(SeqToSet(o.dup[n])) = Len(o.dup[n])>>,
   <<"report_lists_exactly_the_unrecognised_tags",
        SeqToSet(o.bad) = {BogusTag(b) : b \in 1..NBogus(s.salt)} /\ Len(o.bad) = NBogus(s.salt)>>
  >>

EvalScen(kk, c) ==
  LET cs == [sizes |-> c.sizes]
      ref == IF c.limb THEN RefTable(c.types) ELSE [t \in DOMAIN c.sizes |-> [m \in DOMAIN c.sizes[t] |-> <<>>]]
  IN /\ \A j \in DOMAIN c.scen :
          LET cl == ScenClauses(cs, ref, c.perm, c.scen[j]) IN
            \A n \in DOMAIN cl : cl[n][2] \/ PrintT(<<"FAIL", kk, <<cl[n][1], c.scen[j].id>>>>)
     /\ PrintT(<<"INFO", kk, "scenarios", Len(c.scen)>>)

Init == k = 0
Next == /\ k < Len(Cases)
        /\ k' = k + 1
        /\ LET c == Cases[k'] IN
             CASE c.kind = "bind" -> EvalBind(k', c)
               [] c.kind = "cover" -> EvalCover(k', c)
               [] c.kind = "scen" -> EvalScen(k', c)
        /\ (k' = Len(Cases) => PrintT(<<"DONE", k'>>))
=============================================================================
