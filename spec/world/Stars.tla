------------------------------- MODULE Stars -------------------------------
(***************************************************************************)
(* Solute-vacancy pair states, reach sets and stars (properties C24, C26). *)
(*                                                                         *)
(* A pair state is <<i, j, R>>: the solute sits on site i (index into      *)
(* w.basis[c]) of cell 0, the vacancy on site j of cell R (integer lattice *)
(* vector).  A jump of the vacancy network is the pair state <<i, j, R>>   *)
(* "from site i of cell 0 to site j of cell R".  Everything is             *)
(* definitional and parameterised by the world w, the species c of the     *)
(* sublattice, and the jump set J (a set of pair states).                  *)
(***************************************************************************)
EXTENDS World

\* TLC evaluates [x \in S |-> e] lazily: e is re-evaluated at EVERY application.  Comparing the function with
\* itself converts it into an explicit table once; wrap every table whose entries are expensive.
Force(f) == IF f = f THEN f ELSE f

PSZero(i, d) == <<i, i, VZero(d)>>
PSIsZero(s) == s[1] = s[2] /\ \A k \in DOMAIN s[3] : s[3][k] = 0
PSAdd(a, b) == <<a[1], b[2], VAdd(a[3], b[3])>>          \* meaningful iff a[2] = b[1]
PSNeg(a) == <<a[2], a[1], VNeg(a[3])>>
PSSub(a, b) == PSAdd(a, PSNeg(b))                          \* meaningful iff a[2] = b[2]
PSXor(a, b) == <<b[2], a[2], VSub(a[3], b[3])>>            \* meaningful iff a[1] = b[1]: from b's vacancy to a's vacancy

\* separation vector of the pair (vacancy minus solute) in grid units
PSDx(w, c, s) == VAdd(VScale(w.D, s[3]), VSub(w.basis[c][s[2]], w.basis[c][s[1]]))
PSDist2(w, c, s) == Quad(w.M, PSDx(w, c, s), PSDx(w, c, s))

IsPS(w, c, s) == /\ Len(s) = 3 /\ s[1] \in DOMAIN w.basis[c] /\ s[2] \in DOMAIN w.basis[c]
                 /\ Len(s[3]) = w.dim

\* space-group action: both members are carried along, the solute's new cell is the new origin.
\* (Written with explicit component arithmetic because TLC evaluates it tens of thousands of times;
\* ActPSRef is the same thing through World!ActPos, and ActPSAgrees is checked by the object-model run.)
SDot(a, b) == IF Len(a) = 2 THEN a[1] * b[1] + a[2] * b[2] ELSE a[1] * b[1] + a[2] * b[2] + a[3] * b[3]
ActSite(w, c, g, i, L) ==      \* image of site i in cell L: <<site, cell>>
  LET u == w.basis[c][i]
      x == [k \in 1..w.dim |-> SDot(g[1][k], [m \in 1..w.dim |-> w.D * L[m] + u[m]]) + g[2][k]]
      xm == [k \in 1..w.dim |-> x[k] % w.D]
      i2 == CHOOSE n \in DOMAIN w.basis[c] : w.basis[c][n] = xm
  IN <<i2, [k \in 1..w.dim |-> (x[k] - w.basis[c][i2][k]) \div w.D]>>
ActPS(w, c, g, s) ==
  LET pi == ActSite(w, c, g, s[1], [k \in 1..w.dim |-> 0])
      pj == ActSite(w, c, g, s[2], s[3])
  IN <<pi[1], pj[1], [k \in 1..w.dim |-> pj[2][k] - pi[2][k]]>>
ActPSRef(w, c, g, s) ==
  LET pi == ActPos(w, g[1], g[2], <<c, s[1]>>, VZero(w.dim))
      pj == ActPos(w, g[1], g[2], <<c, s[2]>>, s[3])
  IN <<pi[1][2], pj[1][2], VSub(pj[2], pi[2])>>
ActPSAgrees(w, c, G, S) == LET GG == G IN \A s \in S : \A g \in GG : ActPS(w, c, g, s) = ActPSRef(w, c, g, s)

Orbit(w, c, G, s) == {ActPS(w, c, g, s) : g \in G}
Closed(w, c, G, S) == LET GG == G SS == S IN \A s \in SS : \A g \in GG : ActPS(w, c, g, s) \in SS
StarsOf(w, c, G, S) == LET GG == G IN {Orbit(w, c, GG, s) : s \in S}
\* the same partition computed orbit by orbit (needs |stars| x |G| images instead of |S| x |G|);
\* equal to StarsOf when S is closed under G
RECURSIVE OrbitPartition(_, _, _, _)
OrbitPartition(w, c, G, S) ==
  LET SS == S GG == G IN
  IF SS = {} THEN {}
  ELSE LET s == CHOOSE x \in SS : TRUE
           O == Orbit(w, c, GG, s)
       IN {O} \cup OrbitPartition(w, c, GG, SS \ O)

Zeros(w, c) == {PSZero(i, w.dim) : i \in DOMAIN w.basis[c]}
NonZero(S) == {s \in S : ~PSIsZero(s)}

\* all defined sums s1 + s2
Sum(S1, S2) == LET T2 == S2 IN UNION {{PSAdd(a, b) : b \in {b2 \in T2 : b2[1] = a[2]}} : a \in S1}
\* all defined endpoint differences s2 ^ s1 (from the vacancy of s1 to the vacancy of s2, same solute site)
DiffSet(S1, S2) == LET T2 == S2 IN UNION {{PSXor(s2, s1) : s2 \in {x \in T2 : x[1] = s1[1]}} : s1 \in S1}

\* pair states after exactly k jumps of the vacancy, starting next to ... the solute's own site
RECURSIVE Walk(_, _)
Walk(J, k) == IF k <= 0 THEN {} ELSE IF k = 1 THEN J ELSE LET JJ == J IN Sum(Walk(JJ, k - 1), JJ)
\* the non-zero pair states reachable by one to N jumps
Reach(J, N) == NonZero(UNION {Walk(J, k) : k \in 1..N})
\* the same, but along walks that never put the vacancy on the solute's site (must be the same set)
RECURSIVE WalkAvoid(_, _)
WalkAvoid(J, k) == IF k <= 0 THEN {} ELSE IF k = 1 THEN NonZero(J) ELSE NonZero(Sum(WalkAvoid(J, k - 1), J))
ReachAvoid(J, N) == UNION {WalkAvoid(J, k) : k \in 1..N}

ReachO(w, c, J, N, og) == Reach(J, N) \cup (IF og THEN Zeros(w, c) ELSE {})

\* star-set descriptors: [kind |-> "reach", n, og]  or  [kind |-> "diff", a |-> <<N1, og1>>, b |-> <<N2, og2>>]
Den(w, c, J, d) ==
  IF d.kind = "reach" THEN ReachO(w, c, J, d.n, d.og)
  ELSE DiffSet(ReachO(w, c, J, d.a[1], d.a[2]), ReachO(w, c, J, d.b[1], d.b[2]))

\* the same from a table T of reach sets (T[n] = Reach(J, n)); lets callers compute the walks once
DenT(w, c, T, d) ==
  LET O(og) == IF og THEN Zeros(w, c) ELSE {} IN
  IF d.kind = "reach" THEN T[d.n] \cup O(d.og)
  ELSE DiffSet(T[d.a[1]] \cup O(d.a[2]), T[d.b[1]] \cup O(d.b[2]))

\* the sum of two star sets as sets of states (origin states handled by the caller)
AddSets(S1, S2) == NonZero(S1 \cup S2 \cup Sum(S1, S2))

\* jumps must be a symmetric network: closed under the group and under reversal
NetworkOK(w, c, G, J) ==
  LET JJ == J IN
    /\ \A s \in JJ : (IsPS(w, c, s) /\ ~PSIsZero(s))
    /\ Closed(w, c, G, JJ)
    /\ \A s2 \in JJ : PSNeg(s2) \in JJ
=============================================================================
