----------------------------- MODULE Check_C22 -----------------------------
(* C22: every point of a generated k-point mesh lies in the Brillouin zone; the symmetry-reduced   *)
(* mesh has positive weights summing to one and gives, for every space-group-invariant, lattice-   *)
(* periodic function, exactly the average over the full mesh.                                      *)
(*                                                                                                 *)
(* A case is one crystal read back as an integer world `w` with several meshes.  For each mesh:    *)
(*   N    divisions,                                                                               *)
(*   full the points returned by fullkptmesh, m_i = 2 N_i kappa_i (integers),                      *)
(*   red  the points returned by reducekptmesh on the common grid p = L kappa, L = lcm(2 N_i),     *)
(*   cnt  their weights times Nkpt (integers; integrality is asserted by the driver).              *)
(* `sq`, `B`: certificate for the finite set of reciprocal lattice vectors that decides membership  *)
(* in the Brillouin zone (verified here, KMesh!BoxSufficient).                                     *)
(*                                                                                                 *)
(* "Integrates every invariant periodic function exactly": two mesh points must carry the same     *)
(* function value iff one is the image of the other under a point operation followed by a          *)
(* reciprocal lattice translation; bump functions on these classes are invariant and periodic, so  *)
(* the reduced mesh is exact for all such functions iff for every class O (orbit on the torus       *)
(* intersected with the mesh)  sum {cnt_r : r a reduced point in the torus orbit of O} = |O|.      *)
EXTENDS KMesh, Json, IOUtils

Cases == JsonDeserialize(IOEnv.CASE_FILE)
VARIABLE k

MeshClauses(w, Q, PT, GT0, sq, ms) ==
  LET N == ms.N
      L == MeshL(N)
      Nk == ProdSeq(N)
      fullp == [j \in DOMAIN ms.full |-> ToCommon(N, ms.full[j])]          \* exact positions, grid 1/L
      \* only G with |G| < 2|k| can put k outside the zone: drop the others once per mesh
      kmax4 == FoldLeft(LAMBDA s, j : LET q == 4 * Quad(Q, fullp[j], fullp[j]) IN IF q > s THEN q ELSE s,
                        FoldLeft(LAMBDA s, j : LET q == 4 * Quad(Q, ms.red[j], ms.red[j]) IN IF q > s THEN q ELSE s,
                                 0, Idx(Len(ms.red))),
                        Idx(Len(fullp)))
      GT == {g \in GT0 : L * L * g[2] < kmax4}
      K == {VMod(fullp[j], L) : j \in DOMAIN fullp}                        \* classes modulo the reciprocal lattice
      redc == [j \in DOMAIN ms.red |-> VMod(ms.red[j], L)]
      fullset == {fullp[j] : j \in DOMAIN fullp}
      SumCnt(T) == FoldLeft(LAMBDA s, j : IF redc[j] \in T THEN s + ms.cnt[j] ELSE s, 0, Idx(Len(ms.red)))
  IN <<
   <<"full_mesh_is_the_uniform_grid", Len(ms.full) = Nk /\ K = UniformMesh(N) /\ Cardinality(K) = Nk>>,
   <<"full_mesh_points_in_BZ", \A j \in DOMAIN fullp : InBZ(Q, sq, GT, L, fullp[j])>>,
   <<"reduced_points_in_BZ_given_full_in_BZ",
        \A j \in DOMAIN ms.red : ms.red[j] \in fullset \/ InBZ(Q, sq, GT, L, ms.red[j])>>,
   <<"weights_positive", \A j \in DOMAIN ms.cnt : ms.cnt[j] > 0>>,
   <<"weights_sum_to_one", Len(ms.cnt) = Len(ms.red) /\ SumSeq(ms.cnt) = Nk>>,
   <<"reduced_points_belong_to_mesh_classes",
        \A j \in DOMAIN redc : TorusOrbit(PT, L, redc[j]) \cap K # {}>>,
   <<"integrates_invariant_functions_exactly",
        \A p \in K : LET T == TorusOrbit(PT, L, p) IN SumCnt(T) = Cardinality(T \cap K)>>
  >>

MeshInfo(PT, ms) ==
  LET N == ms.N L == MeshL(N)
      K == {VMod(ToCommon(N, ms.full[j]), L) : j \in DOMAIN ms.full}
  IN Cardinality({TorusOrbit(PT, L, p) \cap K : p \in K})

Init == k = 0
Next == /\ k < Len(Cases)
        /\ k' = k + 1
        /\ LET c == Cases[k']
               w == c.w
               Q == RecipForm(w)
               PT == PointT(w)
               GT == GTests(Q, c.B)
           IN /\ (AdjOK(w.M) /\ BoxSufficient(Q, c.sq, c.B)) \/ PrintT(<<"FAIL", k', "MACHINERY_certificate">>)
              /\ PrintT(<<"INFO", k', "pointgroup", Cardinality(PT)>>)
              /\ \A j \in DOMAIN c.meshes :
                    LET cl == MeshClauses(w, Q, PT, GT, c.sq, c.meshes[j]) IN
                    /\ \A i \in DOMAIN cl : cl[i][2] \/ PrintT(<<"FAIL", k', cl[i][1] \o "#" \o ToString(j)>>)
                    /\ PrintT(<<"INFO", k', "classes#" \o ToString(j), MeshInfo(PT, c.meshes[j])>>)
        /\ (k' = Len(Cases) => PrintT(<<"DONE", k'>>))
=============================================================================
