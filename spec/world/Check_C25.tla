----------------------------- MODULE Check_C25 -----------------------------
(***************************************************************************)
(* C25: vector-star bases are orthonormal, symmetry-equivariant, complete, *)
(* and the expansions reproduce the projected state-basis quantities.      *)
(*                                                                         *)
(* One case = one VectorStarSet built on a StarSet of the crystal read     *)
(* back as the world w (sublattice c):                                     *)
(*   states   the star set's pair states <<i, j, R>> (origin states have   *)
(*            i = j, R = 0), stars = sequences of state numbers;           *)
(*   vecpos   per vector star the state numbers it lives on,               *)
(*   vecvec   per vector star the vectors, in LATTICE coordinates          *)
(*            (A^-1 v), as two-limb fixed-point numbers (Fx) of scale      *)
(*            vscale; vtol = tolerance in the same units;                  *)
(*   gram     the Gram matrix  sum_s v_a(s) . v_b(s)  (Cartesian dot       *)
(*            products need the metric, so it is formed by the harness     *)
(*            in floating point and shipped as Fx of scale 1);             *)
(*   pairs    [name, a, b, tol]: an expansion contracted with exact dyadic *)
(*            rates (a) and the directly assembled state-basis quantity    *)
(*            projected on the basis (b), entrywise equal within tol.      *)
(*                                                                         *)
(* Decided here from the definitional group OpsRT(w):                      *)
(*   - the stabiliser of each star's representative and, by the character  *)
(*     formula, the dimension of its invariant vector space; the number of *)
(*     vector stars on the star must equal it (hence the total);           *)
(*   - equivariance R v_a(s) = v_a(g s) for EVERY operation g = (R, t) and *)
(*     every state s, an exact integer-linear identity in lattice          *)
(*     coordinates.                                                        *)
(***************************************************************************)
EXTENDS VecStars, Json, IOUtils

Cases == JsonDeserialize(IOEnv.CASE_FILE)
VARIABLE k

SeqSet(s) == {s[n] : n \in DOMAIN s}
One == <<100000, 0>>           \* 1.0 at scale 1

Eval(kk, cArg) ==
  LET c == cArg
      w == c.w
      cc == c.c
      G == OpsRT(w, 2)
      st == c.states
      NS == Len(st)
      NV == Len(c.vecpos)
      \* image of state number s under g (0 when the image is not a state of the star set)
      \* (tabulated only for the states it is asked for: the representative of every star and the first state of
      \* every vector star)
      rep(m) == c.stars[m][1]
      asked == {c.vecpos[a][1] : a \in {a2 \in 1..Len(c.vecpos) : c.vecpos[a2] # <<>>}}
      img == Force([s \in asked |-> [g \in G |->
                LET x == ActPS(w, cc, g, st[s]) IN
                IF \E n \in 1..NS : st[n] = x THEN CHOOSE n \in 1..NS : st[n] = x ELSE 0]])
      stab == Force([m \in DOMAIN c.stars |-> StabOfState(w, cc, G, st[rep(m)])])
      dim == Force([m \in DOMAIN c.stars |-> DimFix(stab[m])])
      starset == Force([m \in DOMAIN c.stars |-> SeqSet(c.stars[m])])
      vset == Force([a \in 1..NV |-> SeqSet(c.vecpos[a])])
      starof(a) == IF \E m \in DOMAIN c.stars : starset[m] = vset[a]
                   THEN CHOOSE m \in DOMAIN c.stars : starset[m] = vset[a] ELSE 0
      nvs == Force([m \in DOMAIN c.stars |-> Cardinality({a \in 1..NV : vset[a] = starset[m]})])
      total == FoldLeft(LAMBDA acc, m : acc + dim[m], 0, [m \in DOMAIN c.stars |-> m])
      sig(m) == <<Cardinality(stab[m]), NProper(stab[m]), dim[m], nvs[m]>>
      \* R v_a(s) = v_a(g s)
      EquivAt(a, n, g) ==
        LET s2 == img[c.vecpos[a][n]][g]
            v == c.vecvec[a][n]
        IN /\ s2 > 0
           /\ \E n2 \in DOMAIN c.vecpos[a] :
                /\ c.vecpos[a][n2] = s2
                /\ Len(v) = w.dim /\ Len(c.vecvec[a][n2]) = w.dim
                /\ RotatesTo(g[1], v, c.vecvec[a][n2], c.vtol)
      \* G is a group and the vector star lives on ONE orbit (clauses 1, 2), so equivariance at one state s0 for
      \* EVERY g -- which includes well-definedness: g s0 = h s0 => R_g v(s0) = R_h v(s0), i.e. invariance under the
      \* stabiliser -- implies it at every state: v(g h s0) = R_gh v(s0) = R_g v(h s0).
      Equiv(a) == c.vecpos[a] # <<>> /\ \A g \in G : EquivAt(a, 1, g)
      badeq == {a \in 1..NV : ~Equiv(a)}
      cl == <<
        <<"input_stars_are_symmetry_orbits",
            \A m \in DOMAIN c.stars : {st[s] : s \in starset[m]} = Orbit(w, cc, G, st[rep(m)])>>,
        <<"vector_star_lives_on_one_star_each_state_once",
            /\ Len(c.vecvec) = NV
            /\ \A a \in 1..NV : /\ starof(a) > 0 /\ Len(c.vecpos[a]) = Cardinality(vset[a])
                                /\ Len(c.vecvec[a]) = Len(c.vecpos[a])>>,
        \* model-level sanity of the oracle: the character sum is a multiple of the stabiliser's order, the
        \* stabiliser contains the identity, and the dimension lies in 0..dim
        <<"model_character_formula_integral",
            \A m \in DOMAIN c.stars : /\ DimFixExact(stab[m]) /\ IdentityRT(w) \in stab[m]
                                      /\ dim[m] \in 0..w.dim>>,
        <<"number_of_vector_stars_is_sum_of_invariant_dimensions", NV = total>>,
        <<"each_star_carries_dim_of_invariant_space_vector_stars", \A m \in DOMAIN c.stars : nvs[m] = dim[m]>>,
        <<"orthonormal",
            /\ Len(c.gram) = NV
            /\ \A a \in 1..NV : \A b \in 1..NV :
                  FxAbsLe(FxLin(<<<<1, c.gram[a][b]>>, <<(IF a = b THEN -1 ELSE 0), One>>>>), c.gtol)>>,
        <<"equivariant", badeq = {}>>
      >>
  IN /\ \A j \in DOMAIN cl : cl[j][2] \/ PrintT(<<"FAIL", kk, cl[j][1]>>)
     /\ \A p \in DOMAIN c.pairs :
           FxMatAbsLe(FxMatLin(<<<<1, c.pairs[p].a>>, <<-1, c.pairs[p].b>>>>), c.pairs[p].tol)
           \/ PrintT(<<"FAIL", kk, "expansion_" \o c.pairs[p].name>>)
     /\ PrintT(<<"INFO", kk, "count_mismatch", {sig(m) : m \in {m2 \in DOMAIN c.stars : nvs[m2] # dim[m2]}}>>)
     /\ PrintT(<<"INFO", kk, "not_equivariant", {sig(starof(a)) : a \in {a2 \in badeq : starof(a2) > 0}}>>)
     /\ PrintT(<<"INFO", kk, "dims", [m \in DOMAIN c.stars |-> dim[m]]>>)
     /\ PrintT(<<"INFO", kk, "group_order", Cardinality(G)>>)

Init == k = 0
Next == /\ k < Len(Cases)
        /\ k' = k + 1
        /\ Eval(k', Cases[k'])
        /\ (k' = Len(Cases) => PrintT(<<"DONE", k'>>))
=============================================================================
