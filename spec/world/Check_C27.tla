----------------------------- MODULE Check_C27 -----------------------------
(* C27: a supercell's operations are geometric site permutations, and the     *)
(* equivalence search between two occupations is sound and complete.          *)
(*                                                                           *)
(* One case = one real Supercell object:                                      *)
(*   w      the crystal read back as an integer world                         *)
(*   S      the supercell matrix                                              *)
(*   sites  the object's site positions, super-grid integers (pos * D n)      *)
(*   ops    every element of sup.G projected: [rot, t (super grid), perm      *)
(*          (1-based indexmap), crot (cartrot in supercell lattice coords)]   *)
(*   pairs  recorded calls a.equivalencemap(b): the two abstract states       *)
(*          [occ (-1 = vacant), order (chemorder, 1-based sites)], the result *)
(*          (kind "found" / "none" / "raise"; op, map, and the state reached  *)
(*          by really applying the result: (g*a).reorder(map)), the states    *)
(*          after the call, and for pairs built by an in-place/out-of-place   *)
(*          group multiplication the operation used ("via").                  *)
(* The expected answers come from SuperW (definitional group, geometric       *)
(* permutations, Equivalent), never from the implementation's tables.         *)
(* Output: <<"FAIL", case, "clause">> for object-level clauses and            *)
(*         <<"FAIL", case, "clause@j">> for pair j; INFO lines with measured   *)
(*         facts (definitional group order, which pairs are Equivalent).      *)
EXTENDS SuperW, Json, IOUtils

Cases == JsonDeserialize(IOEnv.CASE_FILE)
VARIABLE k

RTs(op) == <<op.rot, op.t>>

\* ---- clauses about the object's group (only evaluated when the site list is right)
GroupClauses(c, Dn, G, perms) ==
  LET sites == c.sites
      SW == [M |-> SuperMetric(c.w, c.S)]
      NS == Len(sites)
  IN <<
   <<"operations_are_isometries_of_the_supercell_lattice",
       \A n \in DOMAIN c.ops : /\ IsIsometry(SW, c.ops[n].rot)
                               /\ Det(c.ops[n].rot) \in {1, -1}
                               /\ c.ops[n].crot = c.ops[n].rot>>,
   <<"indexmap_is_a_permutation", \A n \in DOMAIN c.ops : IsPerm(c.ops[n].perm, NS)>>,
   <<"indexmap_is_the_geometric_site_permutation",
       \A n \in DOMAIN c.ops : /\ Len(c.ops[n].perm) = NS
                               /\ \A s \in 1..NS : /\ c.ops[n].perm[s] \in 1..NS
                                                   /\ sites[c.ops[n].perm[s]] =
                                                        SiteImage(Dn, c.ops[n].rot, c.ops[n].t, sites[s])>>,
   <<"operations_are_symmetries_of_the_crystal", \A n \in DOMAIN c.ops : RTs(c.ops[n]) \in G>>,
   <<"operations_are_distinct", Cardinality({RTs(c.ops[n]) : n \in DOMAIN c.ops}) = Len(c.ops)>>,
   <<"group_is_complete", G \subseteq {RTs(c.ops[n]) : n \in DOMAIN c.ops}>>,
   \* model-level theorems (a failure here is a defect of the model or the harness, not of the code)
   <<"model_induced_maps_are_permutations", \A p \in perms : IsPerm(p, NS)>>,
   <<"model_group_order", Cardinality(G) = Cardinality({g \in OpsRT(c.w, 2) : PreservesSuper(c.S, g[1])}) * SIndex(c.S)
                          \/ Cardinality({g \in OpsRT(c.w, 2) : g[1] = IdMat(c.w.dim)}) > 1>>,
   <<"model_group_axioms", Cardinality(G) > 200 \/ IsGroup([D |-> Dn, dim |-> c.w.dim], G)>>
  >>

\* ---- clauses about one recorded call a.equivalencemap(b)
SameState(x, y) == x.occ = y.occ /\ x.order = y.order
MappingExact(gp, a, b, map) ==
  /\ Len(map) = Len(a.order)
  /\ Len(b.order) = Len(a.order)
  /\ \A ch \in DOMAIN a.order :
        /\ Len(map[ch]) = Len(b.order[ch])
        /\ Len(a.order[ch]) = Len(b.order[ch])
        /\ \A i \in DOMAIN map[ch] : map[ch][i] \in 1..Len(a.order[ch])
        /\ {map[ch][i] : i \in DOMAIN map[ch]} = 1..Len(a.order[ch])
        /\ \A i \in DOMAIN map[ch] : gp[a.order[ch][map[ch][i]]] = b.order[ch][i]

PairEval(c, Dn, G, perms, j) ==
  LET p == c.pairs[j]
      a == p.a
      b == p.b
      eq == Equivalent(perms, a.occ, b.occ)
      found == p.res.kind = "found"
      op == p.res.op
      maps == found /\ MapsSites(Dn, c.sites, op.rot, op.t)
      gp == SitePerm(Dn, c.sites, op.rot, op.t)
      viaok == MapsSites(Dn, c.sites, p.via.op.rot, p.via.op.t)
      tag(s) == s \o "@" \o ToString(j)
  IN [eq |-> eq,
      cl |-> <<
       <<tag("returns_without_exception"), p.res.kind # "raise">>,
       <<tag("reports_none_only_if_no_operation_exists"), p.res.kind = "none" => ~eq>>,
       <<tag("reports_an_operation_only_if_one_exists"), found => eq>>,
       <<tag("returned_operation_is_a_supercell_symmetry"), found => RTs(op) \in G>>,
       <<tag("returned_operation_transforms_the_occupation_exactly"), found => (maps /\ Carries(gp, a.occ, b.occ))>>,
       <<tag("returned_mapping_reorders_exactly"), found => (maps /\ MappingExact(gp, a, b, p.res.map))>>,
       <<tag("applying_the_result_reproduces_the_other_supercell"),
            found => (p.res.applied.err = "" /\ SameState(p.res.applied, b))>>,
       <<tag("arguments_unchanged_by_the_search"), SameState(p.after.a, a) /\ SameState(p.after.b, b)>>,
       <<tag("group_multiplication_moves_the_occupation_geometrically"),
            p.via.has => (viaok /\ Carries(SitePerm(Dn, c.sites, p.via.op.rot, p.via.op.t), p.via.src, p.via.dst))>>
      >>]

CaseEval(c) ==
  IF ~SitesCorrect(c.w, c.S, c.sites)
  THEN [cl |-> << <<"sites_are_the_sites_of_the_supercell", FALSE>> >>, eq |-> <<>>, order |-> 0]
  ELSE
    LET Dn == SuperD(c.w, c.S)
        G == SuperOps(c.w, c.S, c.sites)
        perms == {SitePerm(Dn, c.sites, g[1], g[2]) : g \in G}
        pe == FoldLeft(LAMBDA acc, j : Append(acc, PairEval(c, Dn, G, perms, j)), <<>>, Idx(Len(c.pairs)))
    IN [cl |-> GroupClauses(c, Dn, G, perms) \o FlattenSeq([j \in DOMAIN pe |-> pe[j].cl]),
        eq |-> FoldLeft(LAMBDA acc, j : Append(acc, pe[j].eq), <<>>, Idx(Len(pe))),
        order |-> Cardinality(G)]

\* which pairs are Equivalent, as strings of 0/1 in chunks of 40 pairs (long PrintT values are wrapped by TLC)
Chunk == 40
NChunks(eq) == (Len(eq) + Chunk - 1) \div Chunk
EqChunk(eq, ch) ==
  LET lo == ch * Chunk
      n == IF Len(eq) - lo < Chunk THEN Len(eq) - lo ELSE Chunk
  IN FoldLeft(LAMBDA s, i : s \o (IF eq[lo + i] THEN "1" ELSE "0"), "e", Idx(n))

Init == k = 0
Next == /\ k < Len(Cases)
        /\ k' = k + 1
        /\ LET r == CaseEval(Cases[k']) IN
             /\ \A j \in DOMAIN r.cl : r.cl[j][2] \/ PrintT(<<"FAIL", k', r.cl[j][1]>>)
             /\ \A ch \in 0..(NChunks(r.eq) - 1) : PrintT(<<"INFO", k', "equivalent" \o ToString(ch), EqChunk(r.eq, ch)>>)
             /\ PrintT(<<"INFO", k', "order", r.order>>)
        /\ (k' = Len(Cases) => PrintT(<<"DONE", k'>>))
=============================================================================
