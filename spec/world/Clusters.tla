------------------------------ MODULE Clusters ------------------------------
(***************************************************************************)
(* Clusters of a world, definitionally.                                    *)
(*                                                                         *)
(* A site is <<atom, L>>: atom = <<species, index>>, L a lattice vector;   *)
(* its exact position in grid units is D*L + u_atom.  A cluster is a       *)
(* finite collection of sites considered modulo lattice translations.      *)
(* Four kinds:                                                             *)
(*   "plain"  an unordered set of distinct sites                           *)
(*   "vac"    a distinguished vacancy site + an unordered set of sites     *)
(*   "ts"     an UNORDERED pair of sites (the two ends of a jump; a        *)
(*            transition state and its reversal are the same cluster)      *)
(*            + an unordered set of sites                                  *)
(*   "vts"    an ORDERED pair (vacancy = initial site, final site) + an    *)
(*            unordered set of sites, which may contain the final site     *)
(*            (the atom that is going to jump)                             *)
(* A raw cluster is a sequence of sites, special sites first.              *)
(*                                                                         *)
(* Translation classes: with n sites and c = sum of their lattice vectors, *)
(* the collection {<<atom_i, n L_i - c>>} does not change under a common   *)
(* translation, and two collections with the same image differ by one:     *)
(* n (L_i - L'_i) = c - c' for all i, i.e. L_i - L'_i is the same vector.  *)
(* So Form is a complete invariant of "same sites up to a translation".    *)
(***************************************************************************)
EXTENDS KMesh      \* (which extends World) for Adj

SPos(w, s) == VAdd(VScale(w.D, s[2]), Pos(w, s[1]))
Dist2(w, s, t) == LET dx == VSub(SPos(w, t), SPos(w, s)) IN Quad(w.M, dx, dx)
\* cut2 = sum of two consecutive exact shell values: "within the cutoff" is 2 d^2 < cut2, never an equality
Within(w, cut2, s, t) == 2 * Dist2(w, s, t) < cut2
ValidSite(w, s) == /\ Len(s) = 2 /\ Len(s[1]) = 2 /\ Len(s[2]) = w.dim
                   /\ s[1][1] \in DOMAIN w.basis /\ s[1][2] \in DOMAIN w.basis[s[1][1]]

---------------------------------------------------------------------------
\* canonical forms
Center(d, q) == FoldLeft(LAMBDA acc, i : VAdd(acc, q[i][2]), VZero(d), Idx(Len(q)))
Shifted(d, q) == LET c == Center(d, q) n == Len(q) IN [i \in 1..n |-> <<q[i][1], VSub(VScale(n, q[i][2]), c)>>]
NSpecial(kind) == CASE kind = "plain" -> 0 [] kind = "vac" -> 1 [] kind = "ts" -> 2 [] kind = "vts" -> 2
Form(d, q, kind) ==
  LET sh == Shifted(d, q)
      rest == {sh[i] : i \in (NSpecial(kind) + 1)..Len(q)}
  IN CASE kind = "plain" -> [sp |-> <<>>, rest |-> rest]
       [] kind = "vac"   -> [sp |-> <<sh[1]>>, rest |-> rest]
       [] kind = "ts"    -> [sp |-> {sh[1], sh[2]}, rest |-> rest]
       [] kind = "vts"   -> [sp |-> <<sh[1], sh[2]>>, rest |-> rest]
\* the sites of a raw cluster are distinct where they have to be
WellFormed(w, q, kind) ==
  /\ Len(q) >= (IF kind = "plain" THEN 1 ELSE NSpecial(kind))
  /\ \A i \in 1..Len(q) : ValidSite(w, q[i])
  /\ Cardinality({q[i] : i \in (NSpecial(kind) + 1)..Len(q)}) = Len(q) - NSpecial(kind)
  /\ (NSpecial(kind) = 2 => q[1] # q[2])
  /\ (kind \in {"vac", "vts"} => \A i \in (NSpecial(kind) + 1)..Len(q) : q[i] # q[1])
  /\ (kind = "ts" => \A i \in 3..Len(q) : q[i] # q[1] /\ q[i] # q[2])
SameGeom(d, q1, kind1, q2, kind2) == kind1 = kind2 /\ Len(q1) = Len(q2) /\ Form(d, q1, kind1) = Form(d, q2, kind2)

\* group action and reversal
\* World!ActPos is the definition of the action on a site.  It is affine in the lattice vector:
\*   R (D L + u_a) + t = D (R L) + (R u_a + t),   so   g.<<a, L>> = <<a', R L + S>>  with  <<a', S>> = g.<<a, 0>>.
\* A group is therefore carried as a set of records [R, img] with img[a] = ActPos(.., a, 0), computed once.
GroupTable(w, G) == {[R |-> g[1], img |-> [a \in AtomSet(w) |-> ActPos(w, g[1], g[2], a, VZero(w.dim))]] : g \in G}
\* R L + S written out for dim 2 / 3 (same value as VAdd(MV(R, L), S); explicit arithmetic is much faster in TLC)
AffineImage(R, L, S) ==
  IF Len(L) = 2
  THEN <<R[1][1] * L[1] + R[1][2] * L[2] + S[1], R[2][1] * L[1] + R[2][2] * L[2] + S[2]>>
  ELSE <<R[1][1] * L[1] + R[1][2] * L[2] + R[1][3] * L[3] + S[1],
         R[2][1] * L[1] + R[2][2] * L[2] + R[2][3] * L[3] + S[2],
         R[3][1] * L[1] + R[3][2] * L[2] + R[3][3] * L[3] + S[3]>>
ActT(gt, s) == LET im == gt.img[s[1]] IN <<im[1], AffineImage(gt.R, s[2], im[2])>>
ActSeq(gt, q) == [i \in 1..Len(q) |-> ActT(gt, q[i])]
\* the table form agrees with the definition (checked for every case on two generic lattice vectors per atom)
AffineLemma(w, G) ==
  \A g \in G : \A gt \in {[R |-> g[1], img |-> [a \in AtomSet(w) |-> ActPos(w, g[1], g[2], a, VZero(w.dim))]]} :
    \A a \in AtomSet(w) : \A L \in {[k \in 1..w.dim |-> k], [k \in 1..w.dim |-> 2 - 3 * k]} :
        ActT(gt, <<a, L>>) = ActPos(w, g[1], g[2], a, L)
\* reversal of a transition: the ends are exchanged; for "vts" an occupied final site becomes an occupied initial site
Reversal(q, kind) ==
  [i \in 1..Len(q) |-> IF i = 1 THEN q[2] ELSE IF i = 2 THEN q[1]
                       ELSE IF kind = "vts" /\ q[i] = q[2] THEN q[1] ELSE q[i]]
Orbit(w, GT, q, kind) == {Form(w.dim, ActSeq(gt, q), kind) : gt \in GT}
OrbitRev(w, GT, q, kind) ==
  IF NSpecial(kind) = 2 THEN Orbit(w, GT, q, kind) \cup Orbit(w, GT, Reversal(q, kind), kind) ELSE Orbit(w, GT, q, kind)

---------------------------------------------------------------------------
\* the complete set of plain clusters: at most K sites, none of an excluded species, pairwise within the cutoff
Allowed(w, excl) == {a \in AtomSet(w) : a[1] \notin excl}
\* every site within the cutoff of a site in cell 0 has |L_i| <= B once BoxOK holds:
\* dx_i^2 <= (M^-1)_ii dx.M.dx and |dx_i| >= D|L_i| - (D-1)
BoxOK(w, cut2, B) ==
  LET A == Adj(w.M) dt == Det(w.M) IN
  /\ dt > 0 /\ AdjOK(w.M)
  /\ \A i \in 1..w.dim : A[i][i] > 0 /\ 2 * dt * w.D * w.D * B * B >= A[i][i] * cut2
Nbrs(w, cut2, excl, B, s0) ==
  {s \in Allowed(w, excl) \X Box(w.dim, B) : s # s0 /\ Within(w, cut2, s0, s)}
PairwiseWithin(w, cut2, T) == \A s \in T, t \in T : s = t \/ Within(w, cut2, s, t)
\* all subsets of N with at most m elements that are pairwise within the cutoff.  "Pairwise within" is inherited by
\* subsets, so every such set of size n is a set of size n-1 of the same kind plus one element within the cutoff of
\* all of them: the family is built level by level (m <= 3 here; FiniteSetsExt!kSubset is limited to small N).
RECURSIVE WithinSets(_, _, _, _)
WithinSets(w, cut2, N, m) ==
  IF m = 0 THEN {{}}
  ELSE LET P == WithinSets(w, cut2, N, m - 1)
           top == {T \in P : Cardinality(T) = m - 1}
       IN P \cup UNION {{T \cup {s} : s \in {s \in N \ T : \A t \in T : Within(w, cut2, s, t)}} : T \in top}
RawFrom(w, cut2, excl, B, K, a0) ==
  LET s0 == <<a0, VZero(w.dim)>>
      N == Nbrs(w, cut2, excl, B, s0)
  IN {{s0} \cup T : T \in WithinSets(w, cut2, N, K - 1)}
AllRaw(w, cut2, excl, B, K) == UNION {RawFrom(w, cut2, excl, B, K, a0) : a0 \in Allowed(w, excl)}
\* a set of sites as a raw plain cluster (any order)
AsSeq(S) == SetToSeq(S)
=============================================================================
