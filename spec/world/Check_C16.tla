----------------------------- MODULE Check_C16 -----------------------------
(* C16, index tables: the class-wide tables of Taylor3D / Taylor2D, read from the   *)
(* initialised classes, are compared ENTRY BY ENTRY with what Poly.tla says they    *)
(* must contain, for the fixed maximum order.  One case per class:                  *)
(*   [cls, dim, L, ind2pow, pow2ind, powlrange, directmult,                         *)
(*    powercoeff (entries <<I,F,G>>), D, Lproj (entries <<I,F,G>> of D * Lproj)]    *)
(* The arithmetic of expansion objects is bound by spec/obj/TaylorObj.tla.          *)
EXTENDS Poly, Json, IOUtils

Cases == JsonDeserialize(IOEnv.CASE_FILE)
VARIABLE k

Exact(o) == o[2] = 0 /\ o[3] = 0
IntPart(T3) == [a \in DOMAIN T3 |-> [b \in DOMAIN T3[a] |-> [g \in DOMAIN T3[a][b] |-> T3[a][b][g][1]]]]

Clauses(c) ==
  LET dim == c.dim  L == c.L
      i2p == c.ind2pow
      Np == Len(i2p)
      Q == IntPart(c.Lproj)            \* Q[k][p][p'] = D * Lproj[k-1][p-1][p'-1]; k = L+2 is the code's Lproj[-1]
      D == c.D
      graded == IsGradedEnumeration(i2p, dim, L)
      col(kk, pp) == ProjColumn(Q, kk, pp, i2p)
      rational == \A kk \in DOMAIN c.Lproj : \A p \in 1..Np : \A pp \in 1..Np :
                     PAbs(c.Lproj[kk][p][pp][2]) <= 1000 /\ PAbs(c.Lproj[kk][p][pp][3]) <= 1000
  IN <<
   <<"ind2pow lists every monomial of degree <= Lmax once, by non-decreasing degree", graded>>,
   <<"powlrange[l] counts the monomials of degree <= l (and powlrange[-1] = 0)", PowlrangeOK(c.powlrange, dim, L)>>,
   <<"pow2ind is the inverse of ind2pow (-1 beyond Lmax)", graded => Pow2indOK(c.pow2ind, i2p, dim, L)>>,
   <<"directmult is the index of the product monomial (-1 beyond Lmax)",
       graded => (Len(c.directmult) = Np /\ DirectmultOK(c.directmult, i2p, L))>>,
   <<"powercoeff is the multinomial coefficient of the monomial",
       graded => /\ \A n \in DOMAIN c.powercoeff : \A p \in DOMAIN c.powercoeff[n] : Exact(c.powercoeff[n][p])
                 /\ PowercoeffOK([n \in DOMAIN c.powercoeff |-> [p \in DOMAIN c.powercoeff[n] |-> c.powercoeff[n][p][1]]],
                                 i2p, L)>>,
   <<"Lproj has one Npower x Npower matrix per l and one for the sum",
       Len(Q) = L + 2 /\ \A kk \in DOMAIN Q : Len(Q[kk]) = Np /\ \A p \in 1..Np : Len(Q[kk][p]) = Np>>,
   <<"Lproj entries are the exact rationals of the projection (multiples of 1/D to 1e-6/D)", rational>>,
   <<"Lproj[-1] is the sum of the Lproj[l]",
       \A p \in 1..Np : \A pp \in 1..Np : Q[L + 2][p][pp] = SumSeq([kk \in 1..(L + 1) |-> Q[kk][p][pp]])>>,
   <<"the Lproj[l] are complementary idempotents",
       \A k1 \in 1..(L + 1) : \A k2 \in 1..(L + 1) : \A p \in 1..Np : \A pp \in 1..Np :
          SumSeq([m \in 1..Np |-> Q[k1][p][m] * Q[k2][m][pp]]) = IF k1 = k2 THEN D * Q[k1][p][pp] ELSE 0>>,
   <<"projecting never raises the degree and component l needs degree >= l of the same parity",
       graded => \A kk \in 1..(L + 2) : \A p \in 1..Np : \A pp \in 1..Np :
          Q[kk][p][pp] # 0 => /\ Deg(i2p[p]) <= Deg(i2p[pp])
                              /\ (Deg(i2p[pp]) - Deg(i2p[p])) % 2 = 0
                              /\ kk <= L + 1 => (kk - 1 <= Deg(i2p[pp]) /\ (Deg(i2p[pp]) - (kk - 1)) % 2 = 0)>>,
   <<"Lproj[-1] is the identity on the unit sphere",
       graded => \A pp \in 1..Np :
          LET H == TopDeg(L, Deg(i2p[pp]))  P == col(L + 2, pp) IN
          /\ HomogenisableTo(P, H)
          /\ Homogenise(P, dim, H) = SScale(D, Homogenise([e \in {i2p[pp]} |-> 1], dim, H))>>,
   <<"Lproj[l] maps every monomial onto a harmonic of degree l",
       graded => \A l \in 0..L : \A pp \in 1..Np :
          LET H == TopDeg(L, l)  P == col(l + 1, pp) IN
          /\ HomogenisableTo(P, H)
          /\ PureHarmonic(Homogenise(P, dim, H), dim, H, l)>>
  >>

Init == k = 0
Next == /\ k < Len(Cases)
        /\ k' = k + 1
        /\ LET c == Cases[k'] cl == Clauses(c) IN
             /\ \A j \in DOMAIN cl : cl[j][2] \/ PrintT(<<"FAIL", k', cl[j][1]>>)
             /\ PrintT(<<"INFO", k', "npower", Len(c.ind2pow)>>)
        /\ (k' = Len(Cases) => PrintT(<<"DONE", k'>>))
=============================================================================
