------------------------------- MODULE EqLaws -------------------------------
(***************************************************************************)
(* Laws of a value type's ==, != and hash over a finite pool of instances, *)
(* stated on RECORDED relation tables:                                     *)
(*   eq[i][j], ne[i][j]  1 = True, 0 = False, 2 = raised / not a boolean   *)
(*   hs[i]               hash value (renumbered to small integers), -1 =   *)
(*                       hash() raised                                      *)
(*   val[i]              identifier of the abstract value the instance     *)
(*                       denotes (instances built to denote the same value *)
(*                       -- copies, other construction routes, fields      *)
(*                       differing by <= 1e-13 -- share it)                *)
(*   far[i]              identifier of a coarser value: instances whose    *)
(*                       far-identifiers differ MUST compare different      *)
(*                       (fields differing by >= 1e-3, or discretely)       *)
(* Every law is given as the set of offending index pairs, so that a       *)
(* witness can be reported; the law holds iff the set is empty.            *)
(***************************************************************************)
EXTENDS Integers, Sequences, FiniteSets

Pairs(n) == (1..n) \X (1..n)
IsBool(x) == x \in {0, 1}

NotBool(m, n) == {p \in Pairs(n) : ~IsBool(m[p[1]][p[2]])}
NotReflexive(eq, n) == {p \in Pairs(n) : p[1] = p[2] /\ eq[p[1]][p[1]] # 1}
NotSymmetric(eq, n) == {p \in Pairs(n) : eq[p[1]][p[2]] # eq[p[2]][p[1]]}
\* <<i, j>> such that i = j, j = l for some l but not i = l
NotTransitive(eq, n) == {p \in Pairs(n) : eq[p[1]][p[2]] = 1 /\ \E l \in 1..n : eq[p[2]][l] = 1 /\ eq[p[1]][l] # 1}
NeNotNegation(eq, ne, n) == {p \in Pairs(n) : ~(IsBool(eq[p[1]][p[2]]) /\ IsBool(ne[p[1]][p[2]])
                                                 /\ ne[p[1]][p[2]] = 1 - eq[p[1]][p[2]])}
HashRaised(hs, n) == {p \in Pairs(n) : p[1] = p[2] /\ hs[p[1]] < 0}
EqualButHashDiffers(eq, hs, n) == {p \in Pairs(n) : eq[p[1]][p[2]] = 1 /\ hs[p[1]] # hs[p[2]]}
SameValueNotEqual(eq, val, n) == {p \in Pairs(n) : val[p[1]] = val[p[2]] /\ eq[p[1]][p[2]] # 1}
DifferentValueEqual(eq, far, n) == {p \in Pairs(n) : far[p[1]] # far[p[2]] /\ eq[p[1]][p[2]] # 0}

\* the laws as a sequence of <<name, offending pairs>>
Laws(eq, ne, hs, val, far, n) == <<
  <<"== returns a boolean", NotBool(eq, n)>>,
  <<"!= returns a boolean", NotBool(ne, n)>>,
  <<"== is reflexive", NotReflexive(eq, n)>>,
  <<"== is symmetric", NotSymmetric(eq, n)>>,
  <<"== is transitive", NotTransitive(eq, n)>>,
  <<"!= is the negation of ==", NeNotNegation(eq, ne, n)>>,
  <<"hash is defined", HashRaised(hs, n)>>,
  <<"equal implies equal hash", EqualButHashDiffers(eq, hs, n)>>,
  <<"same value compares equal", SameValueNotEqual(eq, val, n)>>,
  <<"different values compare different", DifferentValueEqual(eq, far, n)>> >>

\* model-level sanity of the law set itself: on the tables induced by val alone every law holds
InducedEq(val, n) == [i \in 1..n |-> [j \in 1..n |-> IF val[i] = val[j] THEN 1 ELSE 0]]
InducedNe(val, n) == [i \in 1..n |-> [j \in 1..n |-> IF val[i] = val[j] THEN 0 ELSE 1]]
LawsHoldOnInduced(val, n) ==
  LET l == Laws(InducedEq(val, n), InducedNe(val, n), val, val, val, n) IN \A m \in DOMAIN l : l[m][2] = {}
=============================================================================
