------------------------------- MODULE Omega -------------------------------
(***************************************************************************)
(* Solute-vacancy jump networks (property C26), definitional.              *)
(*                                                                         *)
(* A transition is a pair <<s, f>> of pair states with the same solute     *)
(* site.  omega1: the vacancy makes a jump of the network J while the      *)
(* solute stays; neither endpoint has the vacancy on the solute's site.    *)
(* omega2: the vacancy jumps onto the solute's site and the solute takes   *)
(* the vacancy's place (exchange), s -> -s.                                *)
(***************************************************************************)
EXTENDS Stars

\* all vacancy jumps with the solute fixed that start in S1 and do not end on the solute
SwingFrom(S1, J) ==
  UNION {{<<s, PSAdd(s, j)>> : j \in {j2 \in J : j2[1] = s[2] /\ ~PSIsZero(PSAdd(s, j2))}} : s \in NonZero(S1)}
Rev(T) == {<<t[2], t[1]>> : t \in T}

\* omega1 transitions among the states of a star set S (what StarSet.jumpnetwork_omega1 must list)
J1Within(S, J) == {t \in SwingFrom(S, J) : t[2] \in S}
\* omega1 transitions of a calculator with thermodynamic range Nth: start or end in the thermodynamic set
J1S(Thermo, J) == LET T == SwingFrom(Thermo, J) IN T \cup Rev(T)
J1(J, Nth) == J1S(Reach(J, Nth), J)
\* omega2 transitions: states from which one jump puts the vacancy on the solute
J2(S, J) == {<<s, PSNeg(s)>> : s \in {x \in NonZero(S) : \E j \in J : j[1] = x[2] /\ PSIsZero(PSAdd(x, j))}}

\* the vacancy's displacement in grid units
Disp1(w, c, t) == VSub(PSDx(w, c, t[2]), PSDx(w, c, t[1]))
Disp2(w, c, t) == VNeg(PSDx(w, c, t[1]))
\* the network jump performed by the vacancy
JumpOf1(t) == PSXor(t[2], t[1])
JumpOf2(t) == PSNeg(t[1])

ActT(w, c, g, t) == <<ActPS(w, c, g, t[1]), ActPS(w, c, g, t[2])>>
OrbitT(w, c, G, t) == LET O == {ActT(w, c, g, t) : g \in G} IN O \cup Rev(O)
ClosedT(w, c, G, T) == /\ \A t \in T : <<t[2], t[1]>> \in T
                       /\ \A t \in T : \A g \in G : ActT(w, c, g, t) \in T
=============================================================================
