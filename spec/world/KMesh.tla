------------------------------- MODULE KMesh -------------------------------
(***************************************************************************)
(* k-point meshes of a world, exactly.                                     *)
(*                                                                         *)
(* Reciprocal space is described in reciprocal-lattice coordinates kappa   *)
(* (k = sum_i kappa_i b_i, a_i . b_j = 2 pi delta_ij).  A mesh with        *)
(* divisions N = <<N_1..N_d>> lives on the grid kappa_i = m_i / (2 N_i)    *)
(* (odd divisions are half-shifted, so the unit is 1/(2N_i)); to let the   *)
(* point group act on anisotropic meshes all points are carried to the     *)
(* common grid  kappa = p / L,  L = lcm_i(2 N_i),  p_i = m_i * L/(2N_i).   *)
(*                                                                         *)
(*   |k|^2  ~  kappa^T M^-1 kappa  ~  kappa^T adj(M) kappa                  *)
(* so every metric statement is an integer statement with Q = adj(M)       *)
(* divided by the gcd of its entries (only ratios of Q matter).            *)
(*                                                                         *)
(* A space-group operation <<R, t>> (x -> R x + t in lattice coordinates)  *)
(* acts on k by the contragredient matrix R^-T; since the point group is   *)
(* closed under inverses the orbit of kappa is {R^T kappa : R in P}.       *)
(***************************************************************************)
EXTENDS World

RECURSIVE GCD(_, _)
GCD(a, b) == IF b = 0 THEN (IF a < 0 THEN -a ELSE a) ELSE GCD(b, a % (IF b < 0 THEN -b ELSE b))
LCM(a, b) == (a * b) \div GCD(a, b)
LCMSeq(s) == FoldLeft(LAMBDA l, k : LCM(l, s[k]), 1, Idx(Len(s)))
ProdSeq(s) == FoldLeft(LAMBDA l, k : l * s[k], 1, Idx(Len(s)))

\* adjugate of a symmetric 2x2 / 3x3 integer matrix:  M * Adj(M) = Det(M) * I
Cyc(i) == (i % 3) + 1
Adj(M) == IF Len(M) = 2 THEN << <<M[2][2], -M[1][2]>>, <<-M[2][1], M[1][1]>> >>
          ELSE [i \in 1..3 |-> [j \in 1..3 |->
                   M[Cyc(j)][Cyc(i)] * M[Cyc(Cyc(j))][Cyc(Cyc(i))] - M[Cyc(j)][Cyc(Cyc(i))] * M[Cyc(Cyc(j))][Cyc(i)]]]
AdjOK(M) == MM(M, Adj(M)) = [i \in 1..Len(M) |-> [j \in 1..Len(M) |-> IF i = j THEN Det(M) ELSE 0]]
MatGCD(A) == FoldLeft(LAMBDA g, i : FoldLeft(LAMBDA h, j : GCD(h, A[i][j]), g, Idx(Len(A))), 0, Idx(Len(A)))
\* the reciprocal metric up to a positive factor
RecipForm(w) == LET A == Adj(w.M) g == MatGCD(A) IN [i \in 1..w.dim |-> [j \in 1..w.dim |-> A[i][j] \div g]]

---------------------------------------------------------------------------
\* the mesh grid
MeshL(N) == LCMSeq([i \in 1..Len(N) |-> 2 * N[i]])
ToCommon(N, m) == LET L == MeshL(N) IN [i \in 1..Len(N) |-> m[i] * (L \div (2 * N[i]))]
MaxN(N) == FoldLeft(LAMBDA l, k : IF N[k] > l THEN N[k] ELSE l, 0, Idx(Len(N)))
\* the uniform mesh with divisions N, as a set of classes modulo the reciprocal lattice (p mod L):
\* m_i runs over the N_i values congruent to N_i modulo 2 in a period of 2 N_i
UniformMesh(N) ==
  LET L == MeshL(N)
      vals(i) == {(N[i] - 2 * j) % (2 * N[i]) : j \in 0..(N[i] - 1)}
  IN {VMod(ToCommon(N, m), L) : m \in {f \in [1..Len(N) -> 0..(2 * MaxN(N))] : \A i \in 1..Len(N) : f[i] \in vals(i)}}

---------------------------------------------------------------------------
\* Brillouin zone (closed Wigner-Seitz cell of the reciprocal lattice): |k| <= |k - G| for all G,
\* i.e. 2 k.G <= G.G.  Only G with |G| < 2|k| can violate it, and every point of the zone satisfies
\* |k| <= (|b_1| + ... + |b_d|) / 2, so it suffices to test the G = sum n_i b_i with |G| < sum |b_i|.
\* With sq[i]^2 >= Q[i][i] (integer upper bounds of |b_i|, supplied and verified) and S = sum sq[i], every
\* such G has n_i^2 <= (Q^-1)_ii |G|^2 < Adj(Q)_ii S^2 / Det(Q): it lies in the box -B..B once BoxSufficient.
SqOK(Q, sq) == \A i \in 1..Len(Q) : sq[i] >= 0 /\ sq[i] * sq[i] >= Q[i][i]
SumSeq(s) == FoldLeft(LAMBDA l, k : l + s[k], 0, Idx(Len(s)))
BoxSufficient(Q, sq, B) ==
  /\ SqOK(Q, sq)
  /\ LET S == SumSeq(sq) A2 == Adj(Q) IN \A i \in 1..Len(Q) : B * B * Det(Q) >= A2[i][i] * S * S
\* the test vectors: <<Q n, n^T Q n>> for n in the box, n # 0
GTests(Q, B) == {<<MV(Q, n), Quad(Q, n, n)>> : n \in Box(Len(Q), B) \ {VZero(Len(Q))}}
\* p on the common grid of unit 1/L
InBZ(Q, sq, GT, L, p) ==
  LET k2x4 == 4 * Quad(Q, p, p) IN
  /\ k2x4 <= L * L * SumSeq(sq) * SumSeq(sq)      \* |k| <= sum|b_i| / 2 (necessary)
  /\ \A g \in GT : (L * L * g[2] < k2x4) => (2 * Dot(p, g[1]) <= L * g[2])     \* only |G| < 2|k| can matter

---------------------------------------------------------------------------
\* point-group orbits on the torus (classes of grid points modulo L) and on the mesh
PointT(w) == {MT(R) : R \in RotsOf(OpsRT(w, 2))}
TorusOrbit(PT, L, p) == {VMod(MV(T, p), L) : T \in PT}
=============================================================================
