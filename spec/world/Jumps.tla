------------------------------- MODULE Jumps -------------------------------
(***************************************************************************)
(* Jump networks in the exact integer crystal model.                        *)
(*                                                                         *)
(* A jump of species c is <<i, j, x>>: from atom i to atom j of that         *)
(* species, with displacement x in grid units (x = D*L + u_j - u_i for a     *)
(* lattice vector L).  Its squared length is x^T M x (units a0^2 / D^2).     *)
(*                                                                         *)
(*  JumpSet      all jumps with 0 < |x|^2 < cutoff^2 -- by definition, over  *)
(*               a box of cells that provably contains every such vector    *)
(*  Blocked...   obstruction of the straight path by an atom of another      *)
(*               species, as a rational point/segment test in integers       *)
(*  ActJump      action of a space-group operation on a jump; Rev reversal   *)
(*                                                                         *)
(* Cutoffs are passed doubled (cut2x2 = 2*cutoff^2) so that a value midway   *)
(* between two integer shells is an integer; obstruction radii squared are   *)
(* rationals <<rn, rd>> in grid units.                                       *)
(***************************************************************************)
EXTENDS World

\* ------------------------------------------------------------------ a box that contains every short vector
\* cofactor of the diagonal entry (i,i) of the metric
CofDiag(M, i) ==
  IF Len(M) = 2 THEN M[3 - i][3 - i]
  ELSE LET a == IF i = 1 THEN 2 ELSE 1
           b == IF i = 3 THEN 2 ELSE 3
       IN M[a][a] * M[b][b] - M[a][b] * M[b][a]
\* any real vector y (lattice coordinates) with y^T M y <= r2 has y_i^2 <= r2 * (M^-1)_ii = r2 * CofDiag / Det
\* largest integer b with b^2 * Det(M) <= r2 * CofDiag(M, i)
RECURSIVE ISqrtBetween(_, _, _)
ISqrtBetween(n, lo, hi) ==      \* largest r in lo..hi with r*r <= n, given lo*lo <= n < (hi+1)^2   (bisection)
  IF lo = hi THEN lo
  ELSE LET mid == (lo + hi + 1) \div 2 IN
       IF mid * mid <= n THEN ISqrtBetween(n, mid, hi) ELSE ISqrtBetween(n, lo, mid - 1)
ISqrt(n) == ISqrtBetween(n, 0, 46340)          \* 46340^2 < 2^31 <= 46341^2
CoordBound(M, r2, i) == ISqrt((r2 * CofDiag(M, i)) \div Det(M))
\* cells L such that D*L + (difference of two positions in the cell) can have squared length <= r2 (grid units)
\* (|x_i| <= bound and |u_j - u_i| < D give |L_i| <= bound \div D + 1; each range is built once)
CellRange(w, r2, i) == LET b == CoordBound(w.M, r2, i) \div w.D + 1 IN (-b)..b
CellBox(w, r2) ==
  IF w.dim = 2 THEN {<<a, b>> : a \in CellRange(w, r2, 1), b \in CellRange(w, r2, 2)}
  ELSE {<<a, b, c>> : a \in CellRange(w, r2, 1), b \in CellRange(w, r2, 2), c \in CellRange(w, r2, 3)}

Len2(w, x) == Quad(w.M, x, x)
Disp(w, c, i, j, L) == VAdd(VScale(w.D, L), VSub(w.basis[c][j], w.basis[c][i]))

\* ------------------------------------------------------------------ the jump set
JumpSet(w, c, cut2x2) ==
  LET cells == CellBox(w, cut2x2 \div 2 + 1)
      n == Len(w.basis[c])
  IN {jmp \in UNION {{<<p[1], p[2], Disp(w, c, p[1], p[2], L)>> : L \in cells} : p \in (1..n) \X (1..n)} :
          Len2(w, jmp[3]) > 0 /\ 2 * Len2(w, jmp[3]) < cut2x2}
\* squared lengths (shells) present in a jump set
Shells(w, J) == {Len2(w, jmp[3]) : jmp \in J}

\* ------------------------------------------------------------------ obstruction
\* An atom at y (grid units, measured from the start site of the jump) and a jump x.  With  y2 = y.y,  s = y.x,
\* x2 = x.x (all integers):  the foot of the perpendicular lies on the path iff 0 <= s <= x2; the squared distance
\* to the line is (y2 x2 - s^2) / x2; the squared distances to the two ends are y2 and y2 - 2 s + x2.
\* radius^2 = rn / rd.
\* "projection of the atom falls on the path and its distance to the path is <= radius"; closed / open in the projection
InCylClosed(y2, s, x2, rn, rd) == 0 <= s /\ s <= x2 /\ (y2 * x2 - s * s) * rd <= rn * x2
InCylOpen(y2, s, x2, rn, rd) == 0 < s /\ s < x2 /\ (y2 * x2 - s * s) * rd <= rn * x2
\* "distance from the atom to the closed segment is <= radius" (adds the two end caps)
InCapsule(y2, s, x2, rn, rd) ==
  \/ InCylClosed(y2, s, x2, rn, rd)
  \/ y2 * rd <= rn
  \/ (y2 - 2 * s + x2) * rd <= rn

\* atoms of species c2 that can matter for a jump from site i of species c: |y| <= |x| + radius, hence
\* y^2 <= 2 x^2 + 2 radius^2 <= r2max.  Each is kept as <<M y, y2>> (then s = (M y) . x).
NearAtoms(w, c, i, c2, r2max) ==
  LET cells == CellBox(w, r2max)
      ys == UNION {{VAdd(VScale(w.D, L), VSub(w.basis[c2][a], w.basis[c][i])) : L \in cells} : a \in DOMAIN w.basis[c2]}
  IN {e \in {<<MV(w.M, y), Len2(w, y)>> : y \in ys} : e[2] <= r2max}

\* rad: per species <<rn, rd>> (radius^2 = rn/rd in grid units); the entry of species c itself is ignored.
\* band b: the radius^2 is widened / narrowed by the factor (b+1)/b, (b-1)/b to make the verdict robust against ties.
\* near[i][c2]: the atoms that can matter for any jump shorter than the cutoff (computed once per query)
R2Max(cut2x2, rad, c2, b) == cut2x2 + 2 + 2 * ((rad[c2][1] * (b + 1)) \div (rad[c2][2] * b) + 1)
NearTable(w, c, cut2x2, rad, b) ==
  [i \in DOMAIN w.basis[c] |-> [c2 \in DOMAIN w.basis |->
      IF c2 = c THEN {} ELSE NearAtoms(w, c, i, c2, R2Max(cut2x2, rad, c2, b))]]
\* obstructed under the MOST obstructive reading: capsule, widened radius
BlockedMost(w, c, jmp, rad, b, near) ==
  LET x2 == Len2(w, jmp[3]) IN
  \E c2 \in DOMAIN w.basis : c2 # c /\
     \E e \in near[jmp[1]][c2] : InCapsule(e[2], Dot(e[1], jmp[3]), x2, rad[c2][1] * (b + 1), rad[c2][2] * b)
\* obstructed under the LEAST obstructive reading: projection strictly inside the path, narrowed radius
BlockedLeast(w, c, jmp, rad, b, near) ==
  LET x2 == Len2(w, jmp[3]) IN
  \E c2 \in DOMAIN w.basis : c2 # c /\
     \E e \in near[jmp[1]][c2] : InCylOpen(e[2], Dot(e[1], jmp[3]), x2, rad[c2][1] * (b - 1), rad[c2][2] * b)
\* the reading documented by the library: projection within the closed path, distance to the path <= radius
BlockedDoc(w, c, jmp, rad, near) ==
  LET x2 == Len2(w, jmp[3]) IN
  \E c2 \in DOMAIN w.basis : c2 # c /\
     \E e \in near[jmp[1]][c2] : InCylClosed(e[2], Dot(e[1], jmp[3]), x2, rad[c2][1], rad[c2][2])

\* ------------------------------------------------------------------ symmetry
\* image of a jump of species c under g = <<R, t>>: sites go to their image sites, the displacement rotates
SiteImage(w, g, c, i) == CHOOSE i2 \in DOMAIN w.basis[c] : ImgGrid(w, g[1], g[2], w.basis[c][i]) = w.basis[c][i2]
ActJump(w, g, c, jmp) == <<SiteImage(w, g, c, jmp[1]), SiteImage(w, g, c, jmp[2]), MV(g[1], jmp[3])>>
Rev(jmp) == <<jmp[2], jmp[1], VNeg(jmp[3])>>
JumpOrbit(w, S, c, jmp) == UNION {{ActJump(w, g, c, jmp), Rev(ActJump(w, g, c, jmp))} : g \in S}
JumpClasses(w, S, c, J) == {JumpOrbit(w, S, c, jmp) \cap J : jmp \in J}
\* a jump really connects its two sites: x = u_j - u_i modulo the lattice
Connects(w, c, jmp) ==
  /\ jmp[1] \in DOMAIN w.basis[c] /\ jmp[2] \in DOMAIN w.basis[c]
  /\ VMod(VSub(jmp[3], VSub(w.basis[c][jmp[2]], w.basis[c][jmp[1]])), w.D) = VZero(w.dim)
=============================================================================
