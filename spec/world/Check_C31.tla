----------------------------- MODULE Check_C31 -----------------------------
(* C31: cluster enumeration is complete and cluster identity is geometric.                          *)
(*                                                                                                   *)
(* Two types of case (field "type").                                                                 *)
(*                                                                                                   *)
(* "enum": one crystal (read back as the integer world w), a cutoff (cut2 = sum of two consecutive   *)
(*   exact shell values of 2*distance^2, so nothing is ever AT the cutoff), maximum order K, excluded *)
(*   species, and what the implementation returned, projected to integer sites <<<<species, index>>,  *)
(*   lattice vector>> (1-based):                                                                      *)
(*     clusters  makeclusters(crys, cutoff, K, exclude): sequence of sets, each a sequence of raw     *)
(*               clusters                                                                             *)
(*     vac       makeVacancyClusters(crys, chem, clusters): vacancy site first                        *)
(*     jumps     the jump network handed to makeTSclusters: <<i, j, R>> = jump of species chem from    *)
(*               atom i in cell 0 to atom j in cell R                                                 *)
(*     ts        makeTSclusters(crys, chem, jumpnetwork, clusters): the two ends first                *)
(*     vts       makeTSclusters(crys, chem, jumpnetwork, vac): vacancy (initial) and final site first *)
(*   The complete cluster set and all orbits are DEFINED here from the world alone (Clusters.tla,     *)
(*   World!OpsRT); the derived expansions are defined from the expansion they were derived from.      *)
(*                                                                                                   *)
(* "eq": a table of Cluster objects built from raw site lists (all orders, translates, near misses,   *)
(*   all kinds) with the recorded results of ==, != and hash (hash values replaced by their rank).    *)
EXTENDS Clusters, Json, IOUtils

Cases == JsonDeserialize(IOEnv.CASE_FILE)
VARIABLE k

---------------------------------------------------------------------------
FormsOfSet(d, set, kind) == {Form(d, set[i], kind) : i \in DOMAIN set}
AllFormsOf(d, sets, kind) == UNION {FormsOfSet(d, sets[j], kind) : j \in DOMAIN sets}
TotalLen(sets) == FoldLeft(LAMBDA s, j : s + Len(sets[j]), 0, Idx(Len(sets)))
AllWellFormed(w, sets, kind) ==
  \A j \in DOMAIN sets : Len(sets[j]) > 0 /\ \A i \in DOMAIN sets[j] : WellFormed(w, sets[j][i], kind)
\* no cluster is listed twice, neither inside a set nor in two sets
Disjoint(d, sets, kind) == TotalLen(sets) = Cardinality(AllFormsOf(d, sets, kind))
\* every image (and reversal, for transitions) of every member is a member of the same set
Closed(w, G, sets, kind) ==
  \A j \in DOMAIN sets : LET F == FormsOfSet(w.dim, sets[j], kind) IN
      \A i \in DOMAIN sets[j] : OrbitRev(w, G, sets[j][i], kind) \subseteq F
\* every set is exactly one orbit
SingleOrbits(w, G, sets, kind) ==
  \A j \in DOMAIN sets : FormsOfSet(w.dim, sets[j], kind) = OrbitRev(w, G, sets[j][1], kind)

SeqWithout(q, P) ==
  LET idx == SetToSortSeq({i \in 1..Len(q) : i \notin P}, LAMBDA a, b : a < b) IN [n \in 1..Len(idx) |-> q[idx[n]]]
AllSeqs(sets) == UNION {{sets[j][i] : i \in DOMAIN sets[j]} : j \in DOMAIN sets}

\* the expansion "one site of species chem vacated", from the plain expansion it was derived from
ExpectedVac(d, sets, chem) ==
  UNION {{Form(d, <<q[p]>> \o SeqWithout(q, {p}), "vac") : p \in {p \in 1..Len(q) : q[p][1][1] = chem}} : q \in AllSeqs(sets)}

IsJump(J, chem, s, t) == s[1][1] = chem /\ t[1][1] = chem /\ <<s[1][2], t[1][2], VSub(t[2], s[2])>> \in J
\* transition-state clusters: a jump of the network between two sites of a cluster of the expansion
ExpectedTS(d, sets, chem, J) ==
  UNION {{Form(d, <<q[pr[1]], q[pr[2]]>> \o SeqWithout(q, {pr[1], pr[2]}), "ts") :
              pr \in {pr \in (1..Len(q)) \X (1..Len(q)) : pr[1] # pr[2] /\ IsJump(J, chem, q[pr[1]], q[pr[2]])}}
         : q \in AllSeqs(sets)}
\* ... and with a vacancy: the vacancy jumps to a site of its cluster; that site is either dropped from the
\* cluster or kept (occupied by the atom about to jump); both, and their reversals
ExpectedVTS(d, vsets, chem, J) ==
  UNION {UNION {LET base == SeqWithout(q, {1, r}) v == q[1] f == q[r] IN
                  {Form(d, <<v, f>> \o base, "vts"), Form(d, <<v, f, f>> \o base, "vts"),
                   Form(d, <<f, v>> \o base, "vts"), Form(d, <<f, v, v>> \o base, "vts")}
                : r \in {r \in 2..Len(q) : IsJump(J, chem, q[1], q[r])}}
         : q \in AllSeqs(vsets)}

\* the jump network handed over is closed under the symmetry group and under reversal (C21's subject;
\* reported as INFO, the transition clauses are only meaningful when it holds)
JumpsClosed(w, G, chem, J) ==
  \A jm \in J :
     /\ <<jm[2], jm[1], VNeg(jm[3])>> \in J
     /\ \A g \in G : LET s == ActPos(w, g[1], g[2], <<chem, jm[1]>>, VZero(w.dim))
                         t == ActPos(w, g[1], g[2], <<chem, jm[2]>>, jm[3])
                     IN <<s[1][2], t[1][2], VSub(t[2], s[2])>> \in J

EnumClauses(c, G) ==
  LET w == c.w
      d == w.dim
      excl == {c.excl[i] : i \in DOMAIN c.excl}
      J == {c.jumps[i] : i \in DOMAIN c.jumps}
      raw == AllRaw(w, c.cut2, excl, c.B, c.K)
      DefForms == {Form(d, SetToSeq(S), "plain") : S \in raw}
      Impl == AllFormsOf(d, c.clusters, "plain")
      wf == /\ AllWellFormed(w, c.clusters, "plain") /\ AllWellFormed(w, c.vac, "vac")
            /\ AllWellFormed(w, c.ts, "ts") /\ AllWellFormed(w, c.vts, "vts")
  IN IF ~wf THEN     \* malformed output (unknown atom, repeated site, empty set): nothing else can be evaluated
     <<
   <<"clusters_well_formed", AllWellFormed(w, c.clusters, "plain")>>,
   <<"vacancy_clusters_well_formed", AllWellFormed(w, c.vac, "vac")>>,
   <<"ts_clusters_well_formed", AllWellFormed(w, c.ts, "ts") /\ AllWellFormed(w, c.vts, "vts")>>
     >>
     ELSE <<
   <<"clusters_well_formed", AllWellFormed(w, c.clusters, "plain")>>,
   <<"no_cluster_beyond_cutoff_order_or_of_excluded_species", Impl \subseteq DefForms>>,
   <<"every_cluster_within_cutoff_is_generated", DefForms \subseteq Impl>>,
   <<"cluster_sets_are_disjoint", Disjoint(d, c.clusters, "plain")>>,
   <<"cluster_sets_are_symmetry_orbits",
        Closed(w, G, c.clusters, "plain") /\ SingleOrbits(w, G, c.clusters, "plain")>>,
   <<"vacancy_clusters_well_formed", AllWellFormed(w, c.vac, "vac")>>,
   <<"vacancy_sets_closed_under_symmetry", Closed(w, G, c.vac, "vac")>>,
   <<"vacancy_sets_are_disjoint_orbits", Disjoint(d, c.vac, "vac") /\ SingleOrbits(w, G, c.vac, "vac")>>,
   <<"vacancy_clusters_are_the_expansion_with_one_site_vacated",
        AllFormsOf(d, c.vac, "vac") = ExpectedVac(d, c.clusters, c.chem)>>,
   <<"ts_clusters_well_formed", AllWellFormed(w, c.ts, "ts") /\ AllWellFormed(w, c.vts, "vts")>>,
   <<"ts_sets_closed_under_symmetry_and_reversal", Closed(w, G, c.ts, "ts") /\ Closed(w, G, c.vts, "vts")>>,
   <<"ts_sets_are_disjoint_orbits",
        /\ Disjoint(d, c.ts, "ts") /\ SingleOrbits(w, G, c.ts, "ts")
        /\ Disjoint(d, c.vts, "vts") /\ SingleOrbits(w, G, c.vts, "vts")>>,
   <<"ts_clusters_are_the_jumps_inside_clusters",
        /\ AllFormsOf(d, c.ts, "ts") = ExpectedTS(d, c.clusters, c.chem, J)
        /\ AllFormsOf(d, c.vts, "vts") = ExpectedVTS(d, c.vac, c.chem, J)>>
  >>

EnumInfo(c, G) ==
  LET d == c.w.dim
      sizes == {Len(c.clusters[j]) : j \in DOMAIN c.clusters}
  IN <<
   <<"ops", Cardinality(G)>>,
   <<"nclusters", TotalLen(c.clusters)>>,
   <<"norbits", Len(c.clusters)>>,
   <<"maxorbit", IF sizes = {} THEN 0 ELSE CHOOSE m \in sizes : \A n \in sizes : n <= m>>,
   <<"nvac", TotalLen(c.vac)>>, <<"nts", TotalLen(c.ts)>>, <<"nvts", TotalLen(c.vts)>>,
   <<"jumps_closed", JumpsClosed(c.w, G, c.chem, {c.jumps[i] : i \in DOMAIN c.jumps})>>
  >>

---------------------------------------------------------------------------
EqClauses(c) ==
  LET d == c.w.dim
      n == Len(c.items)
      F == [a \in 1..n |-> Form(d, c.items[a].sites, c.items[a].kind)]
      same(a, b) == /\ c.items[a].kind = c.items[b].kind
                    /\ Len(c.items[a].sites) = Len(c.items[b].sites)
                    /\ F[a] = F[b]
  IN <<
   <<"translated_or_reordered_clusters_are_equal", \A a \in 1..n, b \in 1..n : same(a, b) => c.eq[a][b] = 1>>,
   <<"equal_clusters_have_the_same_geometry", \A a \in 1..n, b \in 1..n : c.eq[a][b] = 1 => same(a, b)>>,
   <<"equal_clusters_have_equal_hash", \A a \in 1..n, b \in 1..n : c.eq[a][b] = 1 => c.hid[a] = c.hid[b]>>,
   <<"inequality_is_the_negation_of_equality", \A a \in 1..n, b \in 1..n : c.ne[a][b] = 1 - c.eq[a][b]>>
  >>
EqInfo(c) ==
  LET d == c.w.dim
      n == Len(c.items)
      F == [a \in 1..n |-> <<c.items[a].kind, Len(c.items[a].sites), Form(d, c.items[a].sites, c.items[a].kind)>>]
  IN <<
   <<"classes", Cardinality({F[a] : a \in 1..n})>>,
   <<"items", n>>
  >>

Init == k = 0
Next == /\ k < Len(Cases)
        /\ k' = k + 1
        /\ LET c == Cases[k'] IN
           IF c.type = "enum"
           THEN LET G == OpsRT(c.w, 2)
                    cl == EnumClauses(c, G)
                    inf == EnumInfo(c, G)
                IN /\ BoxOK(c.w, c.cut2, c.B) \/ PrintT(<<"FAIL", k', "MACHINERY_box">>)
                   /\ \A j \in DOMAIN cl : cl[j][2] \/ PrintT(<<"FAIL", k', cl[j][1]>>)
                   /\ \A j \in DOMAIN inf : PrintT(<<"INFO", k', inf[j][1], inf[j][2]>>)
           ELSE LET cl == EqClauses(c)
                    inf == EqInfo(c)
                IN /\ \A j \in DOMAIN cl : cl[j][2] \/ PrintT(<<"FAIL", k', cl[j][1]>>)
                   /\ \A j \in DOMAIN inf : PrintT(<<"INFO", k', inf[j][1], inf[j][2]>>)
        /\ (k' = Len(Cases) => PrintT(<<"DONE", k'>>))
=============================================================================
