----------------------------- MODULE Check_C31 -----------------------------
(* C31: cluster enumeration is complete and cluster identity is geometric.                          *)
(*                                                                                                   *)
(* Two types of case (field "type").                                                                 *)
(*                                                                                                   *)
(* "enum": one crystal (read back as the integer world w), a cutoff (cut2 = sum of two consecutive   *)
(*   exact shell values of 2*distance^2, so nothing is ever AT the cutoff), maximum order K, excluded *)
(*   species, and what the implementation returned, projected to integer sites <<<<species, index>>,  *)
(*   lattice vector>> (1-based):                                                                      *)
(*     clusters  makeclusters(crys, cutoff, K, exclude): sequence of sets, each a sequence of raw     *)
(*               clusters                                                                             *)
(*     vac       makeVacancyClusters(crys, chem, clusters): vacancy site first                        *)
(*     jumps     the jump network handed to makeTSclusters: <<i, j, R>> = jump of species chem from    *)
(*               atom i in cell 0 to atom j in cell R                                                 *)
(*     ts        makeTSclusters(crys, chem, jumpnetwork, clusters): the two ends first                *)
(*     vts       makeTSclusters(crys, chem, jumpnetwork, vac): vacancy (initial) and final site first *)
(*   The complete cluster set and all orbits are DEFINED here from the world alone (Clusters.tla,     *)
(*   World!OpsRT); the derived expansions are defined from the expansion they were derived from.      *)
(*                                                                                                   *)
(* "eq": a table of Cluster objects built from raw site lists (all orders, translates, near misses,   *)
(*   all kinds) with the recorded results of ==, != and hash (hash values replaced by their rank).    *)
EXTENDS Clusters, Json, IOUtils

Cases == JsonDeserialize(IOEnv.CASE_FILE)
VARIABLE k

---------------------------------------------------------------------------
FormsOfSet(d, set, kind) == {Form(d, set[i], kind) : i \in DOMAIN set}
AllFormsOf(d, sets, kind) == UNION {FormsOfSet(d, sets[j], kind) : j \in DOMAIN sets}
TotalLen(sets) == FoldLeft(LAMBDA s, j : s + Len(sets[j]), 0, Idx(Len(sets)))
AllWellFormed(w, sets, kind) ==
  \A j \in DOMAIN sets : Len(sets[j]) > 0 /\ \A i \in DOMAIN sets[j] : WellFormed(w, sets[j][i], kind)
\* no cluster is listed twice, neither inside a set nor in two sets
Disjoint(d, sets, kind) == TotalLen(sets) = Cardinality(AllFormsOf(d, sets, kind))
\* Per set j of a family: <<single, closed>>.
\*   single: the set is exactly the orbit of its first member under the group (and reversal, for transitions);
\*   closed: every image (and reversal) of every member is a member of the same set.
\* The definitional group IS a group (checked for every case, GroupLemma) and reversal commutes with it, so an
\* orbit is closed: `closed` is only evaluated member by member when the set is not a single orbit.
\* (a variable bound over a singleton set is evaluated exactly once)
FullyClosed(w, GT, set, kind) ==
  \A F \in {FormsOfSet(w.dim, set, kind)} : \A i \in DOMAIN set : OrbitRev(w, GT, set[i], kind) \subseteq F
Family(w, GT, sets, kind) ==
  [j \in DOMAIN sets |->
     CHOOSE r \in {<<s, s \/ FullyClosed(w, GT, sets[j], kind)>> :
                      s \in {FormsOfSet(w.dim, sets[j], kind) = OrbitRev(w, GT, sets[j][1], kind)}} : TRUE]
AllSingle(fam) == \A j \in DOMAIN fam : fam[j][1]
AllClosed(fam) == \A j \in DOMAIN fam : fam[j][2]
GroupLemma(w, G) == IsGroup(w, G) /\ AffineLemma(w, G)

SeqWithout(q, P) ==
  LET idx == SetToSortSeq({i \in 1..Len(q) : i \notin P}, LAMBDA a, b : a < b) IN [n \in 1..Len(idx) |-> q[idx[n]]]
AllSeqs(sets) == UNION {{sets[j][i] : i \in DOMAIN sets[j]} : j \in DOMAIN sets}

\* the expansion "one site of species chem vacated", from the plain expansion it was derived from
ExpectedVac(d, sets, chem) ==
  UNION {{Form(d, <<q[p]>> \o SeqWithout(q, {p}), "vac") : p \in {p \in 1..Len(q) : q[p][1][1] = chem}} : q \in AllSeqs(sets)}

IsJump(J, chem, s, t) == s[1][1] = chem /\ t[1][1] = chem /\ <<s[1][2], t[1][2], VSub(t[2], s[2])>> \in J
\* transition-state clusters: a jump of the network between two sites of a cluster of the expansion
ExpectedTS(d, sets, chem, J) ==
  UNION {{Form(d, <<q[pr[1]], q[pr[2]]>> \o SeqWithout(q, {pr[1], pr[2]}), "ts") :
              pr \in {pr \in (1..Len(q)) \X (1..Len(q)) : pr[1] # pr[2] /\ IsJump(J, chem, q[pr[1]], q[pr[2]])}}
         : q \in AllSeqs(sets)}
\* ... and with a vacancy: the vacancy jumps to a site of its cluster; that site is either dropped from the
\* cluster or kept (occupied by the atom about to jump); both, and their reversals
ExpectedVTS(d, vsets, chem, J) ==
  UNION {UNION {LET base == SeqWithout(q, {1, r}) v == q[1] f == q[r] IN
                  {Form(d, <<v, f>> \o base, "vts"), Form(d, <<v, f, f>> \o base, "vts"),
                   Form(d, <<f, v>> \o base, "vts"), Form(d, <<f, v, v>> \o base, "vts")}
                : r \in {r \in 2..Len(q) : IsJump(J, chem, q[1], q[r])}}
         : q \in AllSeqs(vsets)}

\* the jump network handed over is closed under the symmetry group and under reversal (C21's subject;
\* reported as INFO, the transition clauses are only meaningful when it holds)
JumpsClosed(w, G, chem, J) ==
  \A jm \in J :
     /\ <<jm[2], jm[1], VNeg(jm[3])>> \in J
     /\ \A g \in G : LET s == ActPos(w, g[1], g[2], <<chem, jm[1]>>, VZero(w.dim))
                         t == ActPos(w, g[1], g[2], <<chem, jm[2]>>, jm[3])
                     IN <<s[1][2], t[1][2], VSub(t[2], s[2])>> \in J

DefinedForms(c) ==
  LET excl == {c.excl[i] : i \in DOMAIN c.excl}
  IN {Form(c.w.dim, SetToSeq(S), "plain") : S \in AllRaw(c.w, c.cut2, excl, c.B, c.K)}

\* GT = GroupTable(w, G), DefForms = DefinedForms(c), Impl = the implementation's plain forms, J = the jumps:
\* passed in as already evaluated values
EnumClauses(c, GT, DefForms, Impl, J) ==
  LET w == c.w
      d == w.dim
      fp == Family(w, GT, c.clusters, "plain")
      fv == Family(w, GT, c.vac, "vac")
      ft == Family(w, GT, c.ts, "ts")
      fvt == Family(w, GT, c.vts, "vts")
      wf ==/\ AllWellFormed(w, c.clusters, "plain") /\ AllWellFormed(w, c.vac, "vac")
            /\ AllWellFormed(w, c.ts, "ts") /\ AllWellFormed(w, c.vts, "vts")
  IN IF ~wf THEN     \* malformed output (unknown atom, repeated site, empty set): nothing else can be evaluated
     <<
   <<"clusters_well_formed", AllWellFormed(w, c.clusters, "plain")>>,
   <<"vacancy_clusters_well_formed", AllWellFormed(w, c.vac, "vac")>>,
   <<"ts_clusters_well_formed", AllWellFormed(w, c.ts, "ts") /\ AllWellFormed(w, c.vts, "vts")>>
     >>
     ELSE <<
   <<"clusters_well_formed", AllWellFormed(w, c.clusters, "plain")>>,
   <<"no_cluster_beyond_cutoff_order_or_of_excluded_species", Impl \subseteq DefForms>>,
   <<"every_cluster_within_cutoff_is_generated", DefForms \subseteq Impl>>,
   <<"cluster_sets_are_disjoint", Disjoint(d, c.clusters, "plain")>>,
   <<"cluster_sets_are_symmetry_orbits", AllSingle(fp)>>,
   <<"vacancy_clusters_well_formed", AllWellFormed(w, c.vac, "vac")>>,
   <<"vacancy_sets_closed_under_symmetry", AllClosed(fv)>>,
   <<"vacancy_sets_are_disjoint_orbits", Disjoint(d, c.vac, "vac") /\ AllSingle(fv)>>,
   <<"vacancy_clusters_are_the_expansion_with_one_site_vacated",
        AllFormsOf(d, c.vac, "vac") = ExpectedVac(d, c.clusters, c.chem)>>,
   <<"ts_clusters_well_formed", AllWellFormed(w, c.ts, "ts") /\ AllWellFormed(w, c.vts, "vts")>>,
   <<"ts_sets_closed_under_symmetry_and_reversal", AllClosed(ft) /\ AllClosed(fvt)>>,
   <<"ts_sets_are_disjoint_orbits",
        /\ Disjoint(d, c.ts, "ts") /\ AllSingle(ft)
        /\ Disjoint(d, c.vts, "vts") /\ AllSingle(fvt)>>,
   <<"ts_clusters_are_the_jumps_inside_clusters",
        /\ AllFormsOf(d, c.ts, "ts") = ExpectedTS(d, c.clusters, c.chem, J)
        /\ AllFormsOf(d, c.vts, "vts") = ExpectedVTS(d, c.vac, c.chem, J)>>
  >>

EnumInfo(c, G) ==
  LET d == c.w.dim
      sizes == {Len(c.clusters[j]) : j \in DOMAIN c.clusters}
  IN <<
   <<"ops", Cardinality(G)>>,
   <<"nclusters", TotalLen(c.clusters)>>,
   <<"norbits", Len(c.clusters)>>,
   <<"maxorbit", IF sizes = {} THEN 0 ELSE CHOOSE m \in sizes : \A n \in sizes : n <= m>>,
   <<"nvac", TotalLen(c.vac)>>, <<"nts", TotalLen(c.ts)>>, <<"nvts", TotalLen(c.vts)>>,
   <<"jumps_closed", JumpsClosed(c.w, G, c.chem, {c.jumps[i] : i \in DOMAIN c.jumps})>>
  >>

---------------------------------------------------------------------------
EqClauses(c) ==
  LET d == c.w.dim
      n == Len(c.items)
      F == [a \in 1..n |-> Form(d, c.items[a].sites, c.items[a].kind)]
      same(a, b) == /\ c.items[a].kind = c.items[b].kind
                    /\ Len(c.items[a].sites) = Len(c.items[b].sites)
                    /\ F[a] = F[b]
      KindSeq == <<"plain", "vac", "ts", "vts">>
      Of(kd) == {a \in 1..n : c.items[a].kind = kd}
      \* the four laws, reported per kind of the left-hand cluster: entries 4 (i - 1) + 1 .. 4 i belong to KindSeq[i]
      Law(kd, m) ==
        CASE m = 1 -> <<"translated_or_reordered_clusters_are_equal@" \o kd,
                        \A a \in Of(kd), b \in 1..n : same(a, b) => c.eq[a][b] = 1>>
          [] m = 2 -> <<"equal_clusters_have_the_same_geometry@" \o kd,
                        \A a \in Of(kd), b \in 1..n : c.eq[a][b] = 1 => same(a, b)>>
          [] m = 3 -> <<"equal_clusters_have_equal_hash@" \o kd,
                        \A a \in Of(kd), b \in 1..n : c.eq[a][b] = 1 => c.hid[a] = c.hid[b]>>
          [] m = 4 -> <<"inequality_is_the_negation_of_equality@" \o kd,
                        \A a \in Of(kd), b \in 1..n : c.ne[a][b] = 1 - c.eq[a][b]>>
  IN [j \in 1..16 |-> Law(KindSeq[((j - 1) \div 4) + 1], ((j - 1) % 4) + 1)]
EqInfo(c) ==
  LET d == c.w.dim
      n == Len(c.items)
      F == [a \in 1..n |-> <<c.items[a].kind, Len(c.items[a].sites), Form(d, c.items[a].sites, c.items[a].kind)>>]
  IN <<
   <<"classes", Cardinality({F[a] : a \in 1..n})>>,
   <<"items", n>>
  >>

Init == k = 0
Next == /\ k < Len(Cases)
        /\ k' = k + 1
        /\ LET c == Cases[k'] IN
           IF c.type = "enum"
           THEN \A G \in {OpsRT(c.w, 2)} : \A GT \in {GroupTable(c.w, G)} :
                \A DefForms \in {DefinedForms(c)} : \A Impl \in {AllFormsOf(c.w.dim, c.clusters, "plain")} :
                \A J \in {{c.jumps[i] : i \in DOMAIN c.jumps}} :
                \A cl \in {EnumClauses(c, GT, DefForms, Impl, J)} : \A inf \in {EnumInfo(c, G)} :
                   /\ BoxOK(c.w, c.cut2, c.B) \/ PrintT(<<"FAIL", k', "MACHINERY_box">>)
                   /\ GroupLemma(c.w, G) \/ PrintT(<<"FAIL", k', "MACHINERY_group">>)
                   /\ \A j \in DOMAIN cl : cl[j][2] \/ PrintT(<<"FAIL", k', cl[j][1]>>)
                   /\ \A j \in DOMAIN inf : PrintT(<<"INFO", k', inf[j][1], inf[j][2]>>)
           ELSE \A cl \in {EqClauses(c)} : \A inf \in {EqInfo(c)} :
                   /\ \A j \in DOMAIN cl : cl[j][2] \/ PrintT(<<"FAIL", k', cl[j][1]>>)
                   /\ \A j \in DOMAIN inf : PrintT(<<"INFO", k', inf[j][1], inf[j][2]>>)
        /\ (k' = Len(Cases) => PrintT(<<"DONE", k'>>))
=============================================================================
