----------------------------- MODULE StarSetObj -----------------------------
(***************************************************************************)
(* onsager.crystalStars.StarSet as a mutable object (property C24).        *)
(*                                                                         *)
(* Per object o: desc[o], a symbolic descriptor of what the object must    *)
(* hold,                                                                   *)
(*   [kind |-> "reach", n, og]      states reachable by 1..n jumps (+ the  *)
(*                                  origin states iff og)                  *)
(*   [kind |-> "diff", n, a, b]     endpoint differences of two reach sets *)
(* and st[o], the explicit set of pair states obtained by SET ALGEBRA      *)
(* (sums, endpoint differences) on the operands' explicit sets.  The       *)
(* invariant Refines says the two agree: in particular "adding two star    *)
(* sets equals generating with the summed range".  One action per public   *)
(* call.  The code's guard "generate(N) with N = current Nshells does       *)
(* nothing" (even when the originstates flag differs, and even on a         *)
(* difference set) is modelled as the code has it: RegenerateSameN.         *)
(* When the operands of an addition disagree on origin states the          *)
(* property does not say what the sum holds: the model allows either.      *)
(***************************************************************************)
EXTENDS Stars

CONSTANTS W,      \* world
          C,      \* species (1-based) of the sublattice
          J,      \* jump set (set of pair states)
          NObj,   \* number of object slots
          GenN,   \* set of Nshells values tried by Generate
          MaxN,   \* additions / differences only while the summed range stays <= MaxN
          G       \* the space group modulo lattice translations: OpsRT(W, 2), passed in so that it is computed once

VARIABLES desc, st,
          mem     \* never changes: the table of reach sets (TLC does not cache constant definitions)
vars == <<desc, st, mem>>
Obj == 1..NObj

ReachD(n, og) == [kind |-> "reach", n |-> n, og |-> og, a |-> <<0, FALSE>>, b |-> <<0, FALSE>>]
DiffD(da, db) == [kind |-> "diff", n |-> da.n + db.n, og |-> FALSE, a |-> <<da.n, da.og>>, b |-> <<db.n, db.og>>]
OrigSet(og) == IF og THEN Zeros(W, C) ELSE {}
ReachTab == mem
DenD(d) == DenT(W, C, ReachTab, d)

Init == /\ desc = [o \in Obj |-> ReachD(0, FALSE)]
        /\ st = [o \in Obj |-> {}]
        /\ mem = [n \in 0..MaxN |-> Reach(J, n)]

\* StarSet.generate(N, originstates=og)
\* (a call with the range the object already has is a no-op ONLY if the origin states are present / absent as requested)
HasOrigin(o) == OrigSet(TRUE) \subseteq st[o]
Generate(o, N, og) ==
  /\ (N # desc[o].n \/ og # HasOrigin(o))
  /\ desc' = [desc EXCEPT ![o] = ReachD(N, og)]
  /\ st' = [st EXCEPT ![o] = ReachTab[N] \cup OrigSet(og)]
  /\ UNCHANGED mem
RegenerateSameN(o, N, og) == N = desc[o].n /\ og = HasOrigin(o) /\ UNCHANGED vars

Summable(a, b) == /\ desc[a].kind = "reach" /\ desc[b].kind = "reach"
                  /\ desc[a].n + desc[b].n <= MaxN
SumInto(a, b, c) ==
  \E og \in {desc[a].og, desc[b].og} :
     /\ desc' = [desc EXCEPT ![c] = ReachD(desc[a].n + desc[b].n, og)]
     /\ st' = [st EXCEPT ![c] = AddSets(st[a], st[b]) \cup OrigSet(og)]
     /\ UNCHANGED mem
\* objs[c] = objs[a] + objs[b]
Add(a, b, c) == Summable(a, b) /\ SumInto(a, b, c)
\* objs[a] += objs[b]
IAdd(a, b) == Summable(a, b) /\ SumInto(a, b, a)

\* objs[b] = objs[a].copy() / .copy(empty=True)
Copy(a, b) == /\ a # b
              /\ desc' = [desc EXCEPT ![b] = desc[a]]
              /\ st' = [st EXCEPT ![b] = st[a]]
              /\ UNCHANGED mem
CopyEmpty(a, b) == /\ a # b
                   /\ desc' = [desc EXCEPT ![b] = ReachD(0, FALSE)]
                   /\ st' = [st EXCEPT ![b] = {}]
                   /\ UNCHANGED mem

\* objs[c].diffgenerate(objs[a], objs[b])
DiffGenerate(a, b, c) ==
  /\ desc[a].kind = "reach" /\ desc[b].kind = "reach"
  /\ desc[a].n >= 1 /\ desc[b].n >= 1
  /\ desc[a].n + desc[b].n <= MaxN
  /\ desc' = [desc EXCEPT ![c] = DiffD(desc[a], desc[b])]
  /\ st' = [st EXCEPT ![c] = DiffSet(st[a], st[b])]
  /\ UNCHANGED mem
\* ... must raise (ValueError) when an operand has no shells; nothing changes
DiffGenerateErr(a, b, c) ==
  /\ desc[a].n < 1 \/ desc[b].n < 1
  /\ UNCHANGED vars

Next ==
  \/ \E o \in Obj, N \in GenN, og \in BOOLEAN : Generate(o, N, og) \/ RegenerateSameN(o, N, og)
  \/ \E a \in Obj, b \in Obj, c \in Obj : Add(a, b, c) \/ DiffGenerate(a, b, c) \/ DiffGenerateErr(a, b, c)
  \/ \E a \in Obj, b \in Obj : IAdd(a, b) \/ Copy(a, b) \/ CopyEmpty(a, b)

Spec == Init /\ [][Next]_vars

-----------------------------------------------------------------------------
TypeOK == \A o \in Obj : /\ desc[o].kind \in {"reach", "diff"}
                         /\ desc[o].n \in 0..MaxN
                         /\ \A s \in st[o] : IsPS(W, C, s)

\* the input is a symmetric jump network (else no star set can be right)
InputOK == NetworkOK(W, C, G, J)

\* C24: states = Reach(N) (+ origin states); a sum equals generation with the summed range;
\* a difference set holds every endpoint difference
Refines == \A o \in Obj : st[o] = DenD(desc[o])

\* C24: the states are a union of complete symmetry orbits, so the orbits partition them
StarsPartition == \A o \in Obj : Closed(W, C, G, st[o])

\* constant-level theorems (checked once, as ASSUMEs of the generated MC module) -----------------
\* every descriptor the machine can reach
AllDescs ==
  LET RD == {ReachD(n, og) : n \in 0..MaxN, og \in BOOLEAN}
      DD == {DiffD(da, db) : da \in {d \in RD : d.n >= 1}, db \in {d \in RD : d.n >= 1}}
  IN RD \cup {d \in DD : d.n <= MaxN}
\* the tabulated denotation is the definitional one of Stars
Theorems ==
  LET T == Force([n \in 0..MaxN |-> Reach(J, n)])
      GG == G
      DT == Force([d \in AllDescs |-> DenT(W, C, T, d)])
  IN /\ NetworkOK(W, C, GG, J)                                             \* InputOK
     /\ \A d \in AllDescs : DT[d] = Den(W, C, J, d)                        \* DenotationAgrees
     /\ \A d \in AllDescs : Closed(W, C, GG, DT[d])                        \* AllDenotationsClosed
     /\ \A d \in AllDescs : OrbitPartition(W, C, GG, DT[d]) = StarsOf(W, C, GG, DT[d])   \* PartitionsAgree
     /\ \A N \in 0..MaxN : T[N] = ReachAvoid(J, N)                          \* ReachDefinitionsAgree
     /\ ActPSAgrees(W, C, GG, T[MaxN] \cup Zeros(W, C))                     \* ActionAgrees
=============================================================================
