----------------------------- MODULE SamplerJit -----------------------------
(***************************************************************************)
(* onsager.cluster.MonteCarloSampler_jit (numba) as a refinement of        *)
(* Sampler (C35).  The compiled sampler keeps the occupied / unoccupied    *)
(* sites in arrays with an index table (oarr, uarr, idx) instead of sets,  *)
(* only supports single swaps, and runs batches of Metropolis moves.       *)
(* The abstract variables of Sampler are kept alongside; every action is   *)
(* the conjunction of the reference action and the array manipulation the  *)
(* compiled code performs, so the refinement mapping is checked by plain   *)
(* invariants.                                                             *)
(***************************************************************************)
EXTENDS Sampler

CONSTANTS Swaps,    \* set of <<a, b>> : occupy a, unoccupy b (only valid ones are enabled)
          Batches   \* set of sequences of <<oc, uc, k>> : MCmoves(occchoices, unoccchoices, kTlogu), 1-based choices

VARIABLES oarr, uarr, idx     \* occupied_set[:Nocc], unoccupied_set[:Nunocc], index

jvars == <<vars, oarr, uarr, idx>>

SitesWhere(P(_)) == SelectSeq([i \in Site |-> i], P)
PosIn(s, x) == CHOOSE k \in DOMAIN s : s[k] = x

ArraysOf(o) ==
  LET oa == SitesWhere(LAMBDA i : o[i] = 1)
      ua == SitesWhere(LAMBDA i : o[i] = 0)
  IN [oarr |-> oa, uarr |-> ua,
      idx |-> [i \in Site |-> IF o[i] = 1 THEN PosIn(oa, i) ELSE IF o[i] = 0 THEN PosIn(ua, i) ELSE 0]]

\* deltaE_trial(occsite, unoccsite) of the compiled sampler: note the early exit at the first
\* non-energy interaction (it relies on the per-site interaction lists being sorted)
EnergyPrefix(i) ==
  LET bad == {q \in DOMAIN SI[i] : SI[i][q] > NE}
      stop == IF bad = {} THEN Len(SI[i]) + 1 ELSE CHOOSE q \in bad : \A r \in bad : q <= r
  IN SubSeq(SI[i], 1, stop - 1)
JDeltaE(c, a, b) ==
  LET pa == EnergyPrefix(a)
      pb == EnergyPrefix(b)
      zero == [m \in 1..NE |-> 0]
      d1 == FoldLeft(LAMBDA f, m : [f EXCEPT ![m] = @ + 1], zero, pa)     \* the dcluster array
      d  == FoldLeft(LAMBDA f, m : [f EXCEPT ![m] = @ - 1], d1, pb)
      touched == SetToSeq(ToSet(pa) \cup ToSet(pb))
  IN FoldLeft(LAMBDA acc, m : acc + (IF d[m] = 0 THEN 0 ELSE IF c[m] = 0 THEN -Val[m]
                                     ELSE IF c[m] = d[m] THEN Val[m] ELSE 0), 0, touched)

\* transitions() of the compiled sampler: every jump is listed, forbidden ones are marked
JAllowed(o, n) == o[Jumps[n].i] = -1 \/ (o[Jumps[n].i] = 1 /\ o[Jumps[n].j] = 0)
JTransitions(o, c) == [n \in DOMAIN Jumps |-> IF JAllowed(o, n) THEN <<1, Barrier(c, n)>> ELSE <<0, 0>>]

\* one swap on a full state record
JRec == [occ |-> occ, cnt |-> cnt, oset |-> occset, uset |-> unoccset, oarr |-> oarr, uarr |-> uarr, idx |-> idx]
JSwap(st, a, b) ==
  LET base == After([occ |-> st.occ, cnt |-> st.cnt, oset |-> st.oset, uset |-> st.uset], <<a>>, <<b>>)
      i == st.idx[a]      \* position of a in the unoccupied array
      j == st.idx[b]      \* position of b in the occupied array
  IN [occ |-> base.occ, cnt |-> base.cnt, oset |-> base.oset, uset |-> base.uset,
      oarr |-> [st.oarr EXCEPT ![j] = a], uarr |-> [st.uarr EXCEPT ![i] = b],
      idx |-> [st.idx EXCEPT ![a] = j, ![b] = i]]
JMove(st, mv) ==     \* one Metropolis move <<oc, uc, k>>
  LET a == st.uarr[mv[1]]
      b == st.oarr[mv[2]]
  IN IF JDeltaE(st.cnt, a, b) < mv[3] THEN JSwap(st, a, b) ELSE st
ValidBatch(st, batch) ==   \* choices index into the arrays; the lengths never change under swaps
  \A k \in DOMAIN batch : batch[k][1] \in 1..Len(st.uarr) /\ batch[k][2] \in 1..Len(st.oarr)

SetJ(st) == /\ occ' = st.occ /\ cnt' = st.cnt /\ occset' = st.oset /\ unoccset' = st.uset
            /\ obs' = ObsOf(st.occ, st.cnt)
            /\ oarr' = st.oarr /\ uarr' = st.uarr /\ idx' = st.idx

-----------------------------------------------------------------------------
JInit == /\ Init
         /\ oarr = ArraysOf(occ).oarr /\ uarr = ArraysOf(occ).uarr /\ idx = ArraysOf(occ).idx

JStart(o) == /\ Start(o)
             /\ oarr' = ArraysOf(o).oarr /\ uarr' = ArraysOf(o).uarr /\ idx' = ArraysOf(o).idx

JUpdate(a, b) == /\ occ[a] = 0 /\ occ[b] = 1
                 /\ SetJ(JSwap(JRec, a, b))

JMCmoves(batch) == /\ ValidBatch(JRec, batch)
                   /\ SetJ(FoldLeft(JMove, JRec, batch))

JNext == \/ \E o \in StartSet : JStart(o)
         \/ \E sw \in Swaps : JUpdate(sw[1], sw[2])
         \/ \E b \in Batches : JMCmoves(b)

JSpec == JInit /\ [][JNext]_jvars

-----------------------------------------------------------------------------
\* refinement: the arrays describe the reference sampler's sets, and the index table inverts them
IndexConsistent ==
  /\ ToSet(oarr) = occset /\ ToSet(uarr) = unoccset
  /\ Len(oarr) = Cardinality(occset) /\ Len(uarr) = Cardinality(unoccset)
  /\ \A i \in occset : oarr[idx[i]] = i
  /\ \A i \in unoccset : uarr[idx[i]] = i
\* the compiled trial energy change equals the reference one, for every valid swap
JDeltaEqRef == \A a \in unoccset, b \in occset : JDeltaE(cnt, a, b) = DeltaE(occ, cnt, <<a>>, <<b>>)
\* the compiled transition table marks exactly the transitions the reference sampler does not list
JTransEqRef == JTransitions(occ, cnt) = Transitions(occ, cnt)
\* a batch equals applying the Metropolis rule move by move (each accepted move is a reference update)
BatchIsStepwise ==
  [][\A b \in Batches : JMCmoves(b) =>
        LET final == FoldLeft(JMove, JRec, b) IN
          /\ occ' = final.occ
          /\ cnt' = CntOf(final.occ)]_jvars
=============================================================================
