----------------------------- MODULE TagMapObj -----------------------------
(***************************************************************************)
(* The user's tag dictionary as an object with a history (property C15):   *)
(*   Supply(tag)           a member tag of a class that has no data yet,   *)
(*   SupplyDuplicate(tag)  a further member tag of a class that has data,  *)
(*   SupplyBogus(b)        a tag the calculator does not know;             *)
(* a Query (tags2preene, VERBOSE) is possible in every state and its       *)
(* answer is given by the operators of TagMap.  TLC explores every         *)
(* dictionary over a small class structure (constants below) and checks    *)
(* the model-level lemmas in every state:                                  *)
(*   MReportPartition  missing / singly covered / duplicated classes       *)
(*                     partition the classes and account for every tag,    *)
(*   MRouted           the model's own parameter set satisfies Routed,     *)
(*   MLimbIntegral     the LIMB default never leaves the integers (even    *)
(*                     levels, prefactors powers of 4),                    *)
(*   MMemberIrrelevant the parameter set depends on the dictionary only    *)
(*                     through <<class, datum>> (any ONE member will do).  *)
(***************************************************************************)
EXTENDS TagMap

CONSTANTS CS, REF, MaxBogus
VARIABLES dict, bogus
vars == <<dict, bogus>>

\* a small structure with all six types: sizes 1, 2 and 3, two omega1 classes (one reaching outside the
\* thermodynamic range: ti / tf = 0) and one omega2 class
MCCS == [sizes |-> << <<1>>, <<1, 1>>, <<2>>, <<1>>, <<2, 1>>, <<1>> >>]
MCREF == << << <<>> >>, << <<>>, <<>> >>, << <<>> >>, << <<>> >>,
            << [jt |-> 1, si |-> 1, ti |-> 1, sf |-> 1, tf |-> 0], [jt |-> 1, si |-> 2, ti |-> 1, sf |-> 2, tf |-> 1] >>,
            << [jt |-> 1, si |-> 1, ti |-> 1, sf |-> 2, tf |-> 1] >> >>
\* the larger structure of the thorough tier (2^14 dictionaries)
MCCSBig == [sizes |-> << <<1, 1>>, <<1, 1>>, <<2>>, <<2>>, <<2, 1>>, <<2>> >>]
MCREFBig == << << <<>>, <<>> >>, << <<>>, <<>> >>, << <<>> >>, << <<>> >>,
            << [jt |-> 1, si |-> 1, ti |-> 1, sf |-> 1, tf |-> 0], [jt |-> 1, si |-> 2, ti |-> 1, sf |-> 2, tf |-> 1] >>,
            << [jt |-> 1, si |-> 1, ti |-> 1, sf |-> 2, tf |-> 1] >> >>

\* the datum depends on the class only up to the member: member m of class q carries a value that differs
\* from every other tag's
ValueFor(tag) == <<2 * (tag[1] * 100 + tag[2] * 10 + tag[3]), 2 * (tag[1] * 100 + tag[2] * 10 + tag[3]) + 2>>
Entry(tag) == <<tag[1], tag[2], tag[3], ValueFor(tag)[1], ValueFor(tag)[2]>>

Init == dict = <<>> /\ bogus = {}
Supply(tag) == /\ Given(dict, <<tag[1], tag[2]>>) = {}
               /\ dict' = Append(dict, Entry(tag)) /\ UNCHANGED bogus
SupplyDuplicate(tag) == /\ Given(dict, <<tag[1], tag[2]>>) # {}
                        /\ tag \notin {TagOf(dict[n]) : n \in DOMAIN dict}
                        /\ dict' = Append(dict, Entry(tag)) /\ UNCHANGED bogus
SupplyBogus(b) == /\ b \notin bogus /\ bogus' = bogus \cup {b} /\ UNCHANGED dict
Next == \/ \E tag \in TagIds(CS) : Supply(tag) \/ SupplyDuplicate(tag)
        \/ \E b \in 1..MaxBogus : SupplyBogus(b)
\* the order in which the user typed the dictionary is irrelevant
View == <<SeqToSet(dict), bogus>>

MWellFormed == WellFormed(CS, dict)
MReportPartition == ReportPartition(CS, dict)
MRouted == Routed(CS, REF, dict, ModelArrays(CS, REF, dict))
MLimbIntegral ==
  LET a == ModelArrays(CS, REF, dict) IN
  \A q \in ClassIds(CS) : REF[q[1]][q[2]] # <<>> =>
      LimbIntegral(a.pre, REF[q[1]][q[2]]) /\ LimbIntegral(a.ene, REF[q[1]][q[2]])
\* replacing every supplied tag by the FIRST member of its class (same datum) leaves the parameter set unchanged
\* when no class is duplicated
MMemberIrrelevant ==
  Duplicated(CS, dict) = {} =>
     LET moved == [n \in DOMAIN dict |-> <<dict[n][1], dict[n][2], 1, dict[n][4], dict[n][5]>>]
     IN ModelArrays(CS, REF, moved) = ModelArrays(CS, REF, dict)
=============================================================================
