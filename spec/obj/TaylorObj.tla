------------------------------ MODULE TaylorObj ------------------------------
(***************************************************************************)
(* A pool of Taylor3D / Taylor2D expansion objects under the public        *)
(* arithmetic (property C16).                                              *)
(*                                                                         *)
(* Abstract state of an object = the expansion it DENOTES (Poly.tla):      *)
(*   n -> polynomial in the direction cosines with integer matrix          *)
(*   coefficients,                                                         *)
(* plus what the guards of the public calls depend on: the coefficient     *)
(* shape (sc = scalar-valued, else r x c), the bound l on the angular      *)
(* order kept with each n, `ex` (one stored term per n and l is exactly    *)
(* the stored label -- what item assignment needs), `full` / `wr` (created *)
(* by zeros(): every (n,l) present; blocks already assigned).              *)
(* `view[o]` is an alias group: a slice shares memory with its parent      *)
(* (documented), so in-place calls are only issued on objects that are     *)
(* alone in their group.                                                   *)
(*                                                                         *)
(* Every action says what the pool must denote afterwards: the written     *)
(* slot gets the result, EVERY OTHER SLOT IS UNCHANGED (a + b must not     *)
(* modify b, acc += b must not tie acc to b).  `hist` is the call history; *)
(* with observations of the real objects loaded (UseObs) the invariant     *)
(* Conforms compares, after every step of every history, every object of   *)
(* the real pool evaluated at the Pythagorean points with the exact value  *)
(* of the expansion the model says it denotes.                             *)
(***************************************************************************)
EXTENDS Poly, Json, IOUtils

CONSTANTS Dim, Lmax,   \* 3 or 2 ; maximum angular order of the class
          NObj,        \* pool size
          Depth,       \* length of the call histories explored
          Inits,       \* sequence of initial pools (sequence over slots of objects / None)
          Scalars,     \* set of integer scalar factors
          Mats,        \* sequence of integer matrices for ldot / rdot
          Consts,      \* sequence of integer matrices added as constants (a + array)
          TruncNs,     \* set of truncation orders
          Keys,        \* sequence of [r1, r2, c1, c2, sc] : item keys (sc: integer indices -> scalar valued)
          Bases,       \* sequence of [basis |-> <<[m, v]..>>, N, pre, r, c] for constructexpansion
          ZShapes,     \* sequence of <<r, c>> : shapes for zeros(ZMin, ZMax, shape)
          ZMin, ZMax,
          Pts,         \* Pythagorean evaluation points [v |-> integer vector, d |-> its norm]
          ThmPts,      \* points used for the model-level theorems (small d: products need d^(2 Lmax))
          Menu,        \* names of the calls issued (a subset keeps the quick tier small)
          AllTargets,  \* results may be bound to any slot (else: the lowest free slot, or the last)
          UseObs       \* observations of the real objects are loaded from IOEnv.OBS_FILE

VARIABLES pool, view, hist, d
vars == <<pool, view, hist, d>>
Shown == <<pool, view>>          \* VIEW for the graph run (hist/d hidden)

Obj == 1..NObj
None == [k |-> "none"]
Val(sc, r, c, ex, full, wr, E) ==
  [k |-> "val", sc |-> sc, r |-> r, c |-> c, ex |-> ex, full |-> full, wr |-> wr, E |-> E]
IsVal(o) == pool[o].k = "val"
Like(x, ex, E) == Val(x.sc, x.r, x.c, ex, FALSE, {}, E)
SameShape(x, y) == x.sc = y.sc /\ x.r = y.r /\ x.c = y.c

JoinInts(args) == FoldLeft(LAMBDA s, i : IF i = 1 THEN ToString(args[i]) ELSE s \o "," \o ToString(args[i]),
                           "", [i \in DOMAIN args |-> i])
Lbl(name, args) == name \o "(" \o JoinInts(args) \o ")"

Init == \E i \in DOMAIN Inits :
          /\ pool = Inits[i]
          /\ view = [o \in Obj |-> 0]
          /\ hist = "I" \o ToString(i)
          /\ d = 0

Tg == IF AllTargets THEN Obj
      ELSE {IF \E o \in Obj : ~IsVal(o) THEN Min({o \in Obj : ~IsVal(o)}) ELSE NObj}
Step(name, args) == name \in Menu /\ d < Depth /\ d' = d + 1 /\ hist' = hist \o "/" \o Lbl(name, args)
\* bind a freshly created object to slot t
Put(t, obj, name, args) == /\ t \in Tg
                           /\ Step(name, args)
                    /\ pool' = [pool EXCEPT ![t] = obj]
                    /\ view' = [view EXCEPT ![t] = 0]
\* objects whose arrays nobody else shares may be modified in place
NoAlias(a) == view[a] = 0 \/ \A o \in Obj \ {a} : IsVal(o) => view[o] # view[a]
InPlace(a, obj, name, args) == /\ NoAlias(a)
                               /\ Step(name, args)
                        /\ pool' = [pool EXCEPT ![a] = obj]
                        /\ UNCHANGED view

\* coefficient products
TimesOf(x, y) == IF x.sc THEN 1 ELSE IF y.sc THEN 2 ELSE 3
CoefTimes(x, y, A, B) == CASE TimesOf(x, y) = 1 -> MScale(A[1][1], B)
                       [] TimesOf(x, y) = 2 -> MScale(B[1][1], A)
                       [] OTHER -> MMul(A, B)
MulCompat(x, y) == x.sc \/ y.sc \/ x.c = y.r
MulShape(x, y) == IF x.sc THEN <<y.sc, y.r, y.c>> ELSE IF y.sc THEN <<x.sc, x.r, x.c>> ELSE <<FALSE, x.r, y.c>>
Product(x, y) == LET sh == MulShape(x, y)
                 IN EMul(x.E, y.E, LAMBDA A, B : CoefTimes(x, y, A, B), sh[2], sh[3])

-----------------------------------------------------------------------------
\* binary arithmetic, result in a new object
Add(a, b, t) == /\ IsVal(a) /\ IsVal(b) /\ SameShape(pool[a], pool[b])
                /\ Put(t, Like(pool[a], pool[a].ex /\ pool[b].ex,
                               EAdd(pool[a].E, pool[b].E, pool[a].r, pool[a].c)), "Add", <<a, b, t>>)
Sub(a, b, t) == /\ IsVal(a) /\ IsVal(b) /\ SameShape(pool[a], pool[b])
                /\ Put(t, Like(pool[a], pool[a].ex /\ pool[b].ex,
                               EAdd(pool[a].E, EScale(-1, pool[b].E), pool[a].r, pool[a].c)),
                       "Sub", <<a, b, t>>)
Mul(a, b, t) == /\ IsVal(a) /\ IsVal(b) /\ MulCompat(pool[a], pool[b])
                /\ EMulL(pool[a].E, pool[b].E) <= Lmax      \* combined angular order within the supported maximum
                /\ LET sh == MulShape(pool[a], pool[b])
                   IN Put(t, Val(sh[1], sh[2], sh[3], pool[a].ex /\ pool[b].ex, FALSE, {},
                                 Product(pool[a], pool[b])), "Mul", <<a, b, t>>)
\* in-place twins
IAdd(a, b) == /\ IsVal(a) /\ IsVal(b) /\ SameShape(pool[a], pool[b])
              /\ InPlace(a, Like(pool[a], pool[a].ex /\ pool[b].ex,
                                 EAdd(pool[a].E, pool[b].E, pool[a].r, pool[a].c)), "IAdd", <<a, b>>)
ISub(a, b) == /\ IsVal(a) /\ IsVal(b) /\ SameShape(pool[a], pool[b])
              /\ InPlace(a, Like(pool[a], pool[a].ex /\ pool[b].ex,
                                 EAdd(pool[a].E, EScale(-1, pool[b].E), pool[a].r, pool[a].c)),
                         "ISub", <<a, b>>)

\* unary
Neg(a, t) == IsVal(a) /\ Put(t, Like(pool[a], pool[a].ex, EScale(-1, pool[a].E)), "Neg", <<a, t>>)
Scalar(a, s, t) == IsVal(a) /\ Put(t, Like(pool[a], pool[a].ex, EScale(s, pool[a].E)), "Scalar", <<a, s, t>>)
IScalar(a, s) == IsVal(a) /\ InPlace(a, [pool[a] EXCEPT !.E = EScale(s, pool[a].E)], "IScalar", <<a, s>>)
AddConst(a, k, t) ==
  /\ IsVal(a) /\ Len(Consts[k]) = pool[a].r /\ Len(Consts[k][1]) = pool[a].c
  /\ \E n \in DOMAIN pool[a].E : DOMAIN pool[a].E[n].p # {}     \* (an object without terms has no shape to add to)
  /\ Put(t, Like(pool[a], pool[a].ex,
                 EAdd(pool[a].E, [n \in {0} |-> ETerm(0, PConst(Dim, Consts[k]))], pool[a].r, pool[a].c)),
         "AddConst", <<a, k, t>>)
LDotE(x, k) == EMap(x.E, LAMBDA M : MMul(Mats[k], M))
RDotE(x, k) == EMap(x.E, LAMBDA M : MMul(M, Mats[k]))
LDot(a, k, t) == /\ IsVal(a) /\ ~pool[a].sc /\ Len(Mats[k][1]) = pool[a].r
                 /\ Put(t, Val(FALSE, Len(Mats[k]), pool[a].c, pool[a].ex, FALSE, {}, LDotE(pool[a], k)),
                        "LDot", <<a, k, t>>)
RDot(a, k, t) == /\ IsVal(a) /\ ~pool[a].sc /\ Len(Mats[k]) = pool[a].c
                 /\ Put(t, Val(FALSE, pool[a].r, Len(Mats[k][1]), pool[a].ex, FALSE, {}, RDotE(pool[a], k)),
                        "RDot", <<a, k, t>>)
ILDot(a, k) == /\ IsVal(a) /\ ~pool[a].sc /\ Len(Mats[k][1]) = pool[a].r
               /\ InPlace(a, Val(FALSE, Len(Mats[k]), pool[a].c, pool[a].ex, FALSE, {}, LDotE(pool[a], k)),
                          "ILDot", <<a, k>>)
IRDot(a, k) == /\ IsVal(a) /\ ~pool[a].sc /\ Len(Mats[k]) = pool[a].c
               /\ InPlace(a, Val(FALSE, pool[a].r, Len(Mats[k][1]), pool[a].ex, FALSE, {}, RDotE(pool[a], k)),
                          "IRDot", <<a, k>>)
Copy(a, t) == IsVal(a) /\ t # a /\ Put(t, pool[a], "Copy", <<a, t>>)
Truncate(a, N, t) == IsVal(a) /\ Put(t, Like(pool[a], pool[a].ex, ETrunc(pool[a].E, N)), "Truncate", <<a, N, t>>)
ITruncate(a, N) == IsVal(a) /\ InPlace(a, Like(pool[a], pool[a].ex, ETrunc(pool[a].E, N)), "ITruncate", <<a, N>>)
\* reduce() and separate() re-express every term through its angular components: the denoted functions
\* on the sphere do not change (stored labels may)
Reduce(a) == IsVal(a) /\ InPlace(a, Like(pool[a], FALSE, pool[a].E), "Reduce", <<a>>)
Separate(a) == IsVal(a) /\ InPlace(a, Like(pool[a], FALSE, pool[a].E), "Separate", <<a>>)

\* item access
KeyFits(key, x) == ~x.sc /\ key.r2 <= x.r /\ key.c2 <= x.c
KeyRows(key) == key.r2 - key.r1 + 1
KeyCols(key) == key.c2 - key.c1 + 1
Overlap(k1, k2) == ~(k1.r2 < k2.r1 \/ k2.r2 < k1.r1 \/ k1.c2 < k2.c1 \/ k2.c2 < k1.c1)
FreshGroup == CHOOSE g \in 1..(NObj + 1) : \A o \in Obj : view[o] # g
Slice(a, k, t) ==
  LET key == Keys[k]
      g == IF view[a] # 0 THEN view[a] ELSE FreshGroup
  IN /\ IsVal(a) /\ KeyFits(key, pool[a]) /\ t \in Tg
     /\ Step("Slice", <<a, k, t>>)
     /\ pool' = [pool EXCEPT ![t] = Val(key.sc, KeyRows(key), KeyCols(key), pool[a].ex, FALSE, {},
                                        EMap(pool[a].E, LAMBDA M : MBlock(M, key.r1, key.r2, key.c1, key.c2)))]
     /\ view' = [o \in Obj |-> IF o = t \/ o = a THEN g ELSE view[o]]
SetBlockPoly(P, Q, key, x, y) ==
  PCanon([e \in (DOMAIN P) \cup (DOMAIN Q) |->
            MSetBlock(PGet(P, e, x.r, x.c), key.r1, key.c1, PGet(Q, e, y.r, y.c))])
SetSlice(a, k, b) ==
  LET key == Keys[k]  x == pool[a]  y == pool[b] IN
  /\ IsVal(a) /\ IsVal(b) /\ a # b /\ KeyFits(key, x)
  /\ y.sc = key.sc /\ y.r = KeyRows(key) /\ y.c = KeyCols(key)
  /\ \/ /\ x.full /\ \A w \in x.wr : ~Overlap(key, Keys[w])          \* fresh zeros(), block not yet assigned
        /\ DOMAIN y.E \subseteq DOMAIN x.E
     \/ /\ x.ex /\ y.ex                                              \* same (n,l) labels, one term per n
        /\ \A n \in DOMAIN y.E : n \in DOMAIN x.E /\ x.E[n].l = y.E[n].l
  /\ InPlace(a, [x EXCEPT !.wr = IF x.full THEN x.wr \cup {k} ELSE {},
                          !.E = [n \in DOMAIN x.E |->
                                   IF n \in DOMAIN y.E
                                   THEN ETerm(x.E[n].l, SetBlockPoly(x.E[n].p, y.E[n].p, key, x, y))
                                   ELSE x.E[n]]],
             "SetSlice", <<a, k, b>>)

\* creation
Zeros(k, t) == /\ k \in DOMAIN ZShapes
               /\ Put(t, Val(FALSE, ZShapes[k][1], ZShapes[k][2], FALSE, TRUE, {},
                             [n \in ZMin..ZMax |-> ETerm(Lmax, PZero)]), "Zeros", <<k, t>>)
ConstructE(k) == EConstruct(Dim, Bases[k].basis, Bases[k].N, Bases[k].pre, Bases[k].r, Bases[k].c)
Construct(k, t) == /\ k \in DOMAIN Bases
                   /\ Put(t, Val(FALSE, Bases[k].r, Bases[k].c, TRUE, FALSE, {}, ConstructE(k)),
                          "Construct", <<k, t>>)

Next ==
  \/ \E a \in Obj, b \in Obj, t \in Obj : Add(a, b, t) \/ Sub(a, b, t) \/ Mul(a, b, t)
  \/ \E a \in Obj, b \in Obj : IAdd(a, b) \/ ISub(a, b)
  \/ \E a \in Obj, b \in Obj, k \in DOMAIN Keys : SetSlice(a, k, b)
  \/ \E a \in Obj, t \in Obj : Neg(a, t) \/ Copy(a, t)
  \/ \E a \in Obj, s \in Scalars, t \in Obj : Scalar(a, s, t)
  \/ \E a \in Obj, s \in Scalars : IScalar(a, s)
  \/ \E a \in Obj, k \in DOMAIN Consts, t \in Obj : AddConst(a, k, t)
  \/ \E a \in Obj, k \in DOMAIN Mats, t \in Obj : LDot(a, k, t) \/ RDot(a, k, t)
  \/ \E a \in Obj, k \in DOMAIN Mats : ILDot(a, k) \/ IRDot(a, k)
  \/ \E a \in Obj, N \in TruncNs, t \in Obj : Truncate(a, N, t)
  \/ \E a \in Obj, N \in TruncNs : ITruncate(a, N)
  \/ \E a \in Obj : Reduce(a) \/ Separate(a)
  \/ \E a \in Obj, k \in DOMAIN Keys, t \in Obj : Slice(a, k, t)
  \/ \E k \in DOMAIN ZShapes, t \in Obj : Zeros(k, t)
  \/ \E k \in DOMAIN Bases, t \in Obj : Construct(k, t)

Spec == Init /\ [][Next]_vars

-----------------------------------------------------------------------------
\* model-level theorems (checked by TLC before the model is bound to the code; the homomorphism theorems on
\* every pool reachable with at most one call -- their operands include every single-call result)
Vals == {o \in Obj : IsVal(o)}
Tabs == [k \in DOMAIN Pts |-> MonoTable(Pts[k], Dim, Lmax)]          \* monomial values of the evaluation points
ThmTabs == [k \in DOMAIN ThmPts |-> MonoTable(ThmPts[k], Dim, Lmax)]
\* stored polynomials respect their labels
WellFormed == \A o \in Vals : \A n \in DOMAIN pool[o].E :
                 /\ pool[o].E[n].l \in 0..Lmax
                 /\ PDeg(pool[o].E[n].p) <= pool[o].E[n].l
                 /\ \A e \in DOMAIN pool[o].E[n].p : Len(pool[o].E[n].p[e]) = pool[o].r
                                                     /\ Len(pool[o].E[n].p[e][1]) = pool[o].c
\* the table is the definition
TablesAreEvaluation == \A k \in DOMAIN ThmPts : \A o \in Vals : \A n \in DOMAIN pool[o].E :
   PEvalT(pool[o].E[n].p, ThmTabs[k], pool[o].r, pool[o].c) = PEval(pool[o].E[n].p, ThmPts[k], Lmax, pool[o].r, pool[o].c)
\* evaluation is additive ...
AddHom == d <= 1 => \A a \in Vals, b \in Vals : SameShape(pool[a], pool[b]) =>
   LET x == pool[a]  y == pool[b]  S == EAdd(x.E, y.E, x.r, x.c) IN
   \A n \in DOMAIN S : \A k \in DOMAIN ThmPts :
      PEvalT(S[n].p, ThmTabs[k], x.r, x.c)
        = MAdd(PEvalT(EPoly(x.E, n), ThmTabs[k], x.r, x.c), PEvalT(EPoly(y.E, n), ThmTabs[k], x.r, x.c))
\* ... and multiplicative, radial orders adding up (numerators: d^Lmax * (product over d^Lmax) = product of numerators)
MulHom == d <= 1 => \A a \in Vals, b \in Vals :
   (MulCompat(pool[a], pool[b]) /\ EMulL(pool[a].E, pool[b].E) <= Lmax) =>
   LET x == pool[a]  y == pool[b]  sh == MulShape(x, y)  S == Product(x, y) IN
   \A n \in DOMAIN S : \A k \in DOMAIN ThmPts :
      MScale(IPow(ThmPts[k].d, Lmax), PEvalT(S[n].p, ThmTabs[k], sh[2], sh[3]))
        = FoldSet(LAMBDA na, acc :
                    IF (n - na) \in DOMAIN y.E
                    THEN MAdd(acc, CoefTimes(x, y, PEvalT(x.E[na].p, ThmTabs[k], x.r, x.c),
                                                   PEvalT(y.E[n - na].p, ThmTabs[k], y.r, y.c)))
                    ELSE acc,
                  MZero(sh[2], sh[3]), DOMAIN x.E)
\* constructexpansion: SUM_b pre[n] m_b (v_b . u)^n  -- the direct power series, evaluated exactly
ConstructIsPowerSeries ==
  \A k \in DOMAIN Bases : \A n \in 0..Bases[k].N : \A j \in DOMAIN Pts :
     PEval(ConstructE(k)[n].p, Pts[j], Lmax, Bases[k].r, Bases[k].c)
       = FoldLeft(LAMBDA acc, b : MAdd(acc, MScale(Bases[k].pre[n + 1] * IPow(Dot(b.v, Pts[j].v), n)
                                                    * IPow(Pts[j].d, Lmax - n), b.m)),
                  MZero(Bases[k].r, Bases[k].c), Bases[k].basis)
ASSUME ConstructIsPowerSeries

-----------------------------------------------------------------------------
\* binding to the implementation: observations keyed by history
ObsAll == IF UseObs THEN JsonDeserialize(IOEnv.OBS_FILE) ELSE [none |-> 0]
\* an observed object: [sh |-> <<-1>> no object | <<-2>> object without terms | <<0>> scalar valued | <<r, c>>,
\*                      t |-> per-n observations]
ShapeOK(x, ob) == IF x.k = "none" THEN ob.sh = <<-1>>
                  ELSE ob.sh = <<-2>> \/ ob.sh = (IF x.sc THEN <<0>> ELSE <<x.r, x.c>>)
DLs == [k \in DOMAIN Pts |-> IPow(Pts[k].d, Lmax)]
Denotes(x, ob) == x.k = "none" \/ EMatch(x.E, ob.t, Tabs, DLs, x.r, x.c)
Conforms ==
  ~UseObs \/
  IF hist \notin DOMAIN ObsAll THEN PrintT(<<"FAIL", hist, 0, "unobserved">>)
  ELSE LET ob == ObsAll[hist] IN
       ob.skip \/
       \A o \in Obj :
          /\ ShapeOK(pool[o], ob.objs[o]) \/ PrintT(<<"FAIL", hist, o, "shape">>)
          /\ (~ShapeOK(pool[o], ob.objs[o])) \/ Denotes(pool[o], ob.objs[o]) \/ PrintT(<<"FAIL", hist, o, "value">>)
=============================================================================
