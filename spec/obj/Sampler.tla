------------------------------ MODULE Sampler ------------------------------
(***************************************************************************)
(* onsager.cluster.MonteCarloSampler (reference, pure Python) as a state   *)
(* machine over the interaction tables of a concrete sampler (C32-C34).    *)
(*                                                                         *)
(* Constants are extracted from a real sampler object (SI, Val, NE, Jumps) *)
(* except Inst, the list of cluster instances of the supercell, which the  *)
(* harness enumerates from geometry alone: it defines the brute-force      *)
(* energy the tables must reproduce.  Sites are 1..NS; Vac = 0 means no    *)
(* vacancy.  occ[i] = 1 occupied, 0 unoccupied, -1 the fixed vacancy.      *)
(* Each action mirrors the algorithm of the corresponding method.          *)
(***************************************************************************)
EXTENDS Integers, Sequences, FiniteSets, SequencesExt, TLC

CONSTANTS NS,     \* number of mobile sites
          NI,     \* number of interactions (energy + jump interactions)
          NE,     \* interactions 1..NE contribute to the energy
          SI,     \* SI[i] : sequence of interaction ids site i takes part in (with multiplicity)
          Mem,    \* Mem[m] : sequence of member sites of interaction m (the inverse table of SI)
          Val,    \* Val[m] : integer value of interaction m
          Vac,    \* vacancy site or 0
          Jumps,  \* sequence of [i, j, lo, hi, rev] : transition i->j sums interactions lo+1..hi; rev = reverse jump
          Inst,   \* sequence of [sites |-> Seq(site), val |-> Int] : brute-force cluster instances
          Moves,  \* set of <<occsites, unoccsites>> (sequences) tried as trial moves / updates
          Starts, \* set of occupations (Seq) used by Start; {} means all
          Alt     \* vacancy mode: Alt[n] = tables [Mem, Val, NE, Jumps, r] of the sampler whose vacancy sits at the
                  \* end point of jump n, r = index of the reverse jump in those tables; <<>> when unused

VARIABLES occ, cnt, occset, unoccset, obs

vars == <<occ, cnt, occset, unoccset, obs>>
Site == 1..NS
Sum(s) == FoldLeft(LAMBDA a, b : a + b, 0, s)

-----------------------------------------------------------------------------
\* sums over finite index sets, written as folds over 1..n
SumTo(n, f(_)) == FoldLeft(LAMBDA a, k : a + f(k), 0, [k \in 1..n |-> k])

Mult(i, m) == Cardinality({q \in DOMAIN Mem[m] : Mem[m][q] = i})
\* Mem is the inverse of SI (checked once by TLC when the tables are small enough)
MemConsistent == \A i \in Site, m \in 1..NI :
                    Cardinality({q \in DOMAIN SI[i] : SI[i][q] = m}) = Mult(i, m)

AllOcc == {o \in [Site -> {-1, 0, 1}] : \A i \in Site : (o[i] = -1) <=> (i = Vac)}
StartSet == IF Starts = {} THEN AllOcc ELSE Starts

\* clustercount of an occupation: number of unoccupied member sites of each interaction
CntOf(o) == [m \in 1..NI |-> Cardinality({q \in DOMAIN Mem[m] : o[Mem[m][q]] = 0})]

Energy(c) == SumTo(NE, LAMBDA m : IF c[m] = 0 THEN Val[m] ELSE 0)

\* brute force: sum over all cluster instances whose sites are all occupied
BruteE(o) == SumTo(Len(Inst), LAMBDA k :
                IF \A q \in DOMAIN Inst[k].sites : o[Inst[k].sites[q]] = 1 THEN Inst[k].val ELSE 0)

\* transitions(): allowed jumps with their barriers
Allowed(o, n) == IF Vac = 0 THEN o[Jumps[n].i] = 1 /\ o[Jumps[n].j] = 0 ELSE TRUE
Barrier(c, n) == FoldLeft(LAMBDA a, m : a + (IF c[m] = 0 THEN Val[m] ELSE 0), 0,
                          [k \in 1..(Jumps[n].hi - Jumps[n].lo) |-> Jumps[n].lo + k])
Transitions(o, c) == [n \in DOMAIN Jumps |-> IF Allowed(o, n) THEN <<1, Barrier(c, n)>> ELSE <<0, 0>>]

ObsOf(o, c) == [E |-> Energy(c), T |-> Transitions(o, c)]

\* deltaE_trial: the method's algorithm
\* (the dictionary dclustercount of the code is the function d below, restricted to the touched entries)
Bump(f, i, by) == FoldLeft(LAMBDA g, m : [g EXCEPT ![m] = @ + by], f, SI[i])
DeltaE(o, c, os, us) ==
  LET zero == [m \in 1..NI |-> 0]
      d1 == FoldLeft(LAMBDA f, i : IF o[i] = 0 THEN Bump(f, i, 1) ELSE f, zero, os)
      d  == FoldLeft(LAMBDA f, i : IF o[i] = 1 THEN Bump(f, i, -1) ELSE f, d1, us)
      touched == SetToSeq({m \in UNION {ToSet(SI[os[k]]) : k \in DOMAIN os}
                                 \cup UNION {ToSet(SI[us[k]]) : k \in DOMAIN us} : m <= NE})
  IN FoldLeft(LAMBDA acc, m : acc + (IF d[m] = 0 THEN 0
                                     ELSE IF c[m] = 0 THEN -Val[m]
                                     ELSE IF c[m] = d[m] THEN Val[m] ELSE 0), 0, touched)

\* update: sites are processed one at a time, occupations first
Occupy(st, i) ==
  IF st.occ[i] # 0 THEN st
  ELSE [occ |-> [st.occ EXCEPT ![i] = 1],
        cnt |-> FoldLeft(LAMBDA c, m : [c EXCEPT ![m] = @ - 1], st.cnt, SI[i]),
        oset |-> st.oset \cup {i}, uset |-> st.uset \ {i}]
Unoccupy(st, i) ==
  IF st.occ[i] # 1 THEN st
  ELSE [occ |-> [st.occ EXCEPT ![i] = 0],
        cnt |-> FoldLeft(LAMBDA c, m : [c EXCEPT ![m] = @ + 1], st.cnt, SI[i]),
        oset |-> st.oset \ {i}, uset |-> st.uset \cup {i}]
Cur == [occ |-> occ, cnt |-> cnt, oset |-> occset, uset |-> unoccset]
After(st, os, us) == FoldLeft(Unoccupy, FoldLeft(Occupy, st, os), us)

HasVac(os, us) == /\ Vac # 0
                  /\ \/ \E k \in DOMAIN os : os[k] = Vac
                     \/ \E k \in DOMAIN us : us[k] = Vac

-----------------------------------------------------------------------------
Init == \E o \in StartSet :
          /\ occ = o /\ cnt = CntOf(o)
          /\ occset = {i \in Site : o[i] = 1} /\ unoccset = {i \in Site : o[i] = 0}
          /\ obs = ObsOf(o, CntOf(o))

Start(o) == /\ occ' = o /\ cnt' = CntOf(o)
            /\ occset' = {i \in Site : o[i] = 1} /\ unoccset' = {i \in Site : o[i] = 0}
            /\ obs' = ObsOf(o, CntOf(o))

Update(os, us) ==
  /\ ~HasVac(os, us)
  /\ LET st == After(Cur, os, us) IN
       /\ occ' = st.occ /\ cnt' = st.cnt /\ occset' = st.oset /\ unoccset' = st.uset
       /\ obs' = ObsOf(st.occ, st.cnt)
UpdateErr(os, us) == HasVac(os, us) /\ UNCHANGED vars

Next == \/ \E o \in StartSet : Start(o)
        \/ \E mv \in Moves : Update(mv[1], mv[2]) \/ UpdateErr(mv[1], mv[2])

Spec == Init /\ [][Next]_vars

-----------------------------------------------------------------------------
\* C33: the sampler state is a function of the occupation
CntIsFunctionOfOcc == cnt = CntOf(occ)
SetsPartition == /\ occset = {i \in Site : occ[i] = 1}
                 /\ unoccset = {i \in Site : occ[i] = 0}
ObsIsFunctionOfOcc == obs = ObsOf(occ, CntOf(occ))
\* C33: every trial energy change equals the energy difference produced by performing the update
DeltaEExact == \A mv \in Moves : ~HasVac(mv[1], mv[2]) =>
                 DeltaE(occ, cnt, mv[1], mv[2]) = Energy(After(Cur, mv[1], mv[2]).cnt) - Energy(cnt)
\* C32: the interaction-list energy equals the brute-force sum over cluster instances
EnergyIsBrute == Energy(cnt) = BruteE(occ)
\* C34 (no vacancy): barrier forward - barrier reverse from the final configuration = E(final) - E(initial)
DetailedBalance ==
  Vac = 0 =>
    \A n \in DOMAIN Jumps : Allowed(occ, n) =>
       LET st == After(Cur, <<Jumps[n].j>>, <<Jumps[n].i>>)
           r == Jumps[n].rev
       IN /\ r \in DOMAIN Jumps
          /\ Jumps[r].i = Jumps[n].j /\ Jumps[r].j = Jumps[n].i
          /\ Allowed(st.occ, r)
          /\ Barrier(cnt, n) - Barrier(st.cnt, r) = Energy(st.cnt) - Energy(cnt)

\* ---- the same evaluation rules on an arbitrary table record (used for the moved-vacancy samplers)
CntOfT(T, o) == [m \in 1..Len(T.Mem) |-> Cardinality({q \in DOMAIN T.Mem[m] : o[T.Mem[m][q]] = 0})]
EnergyT(T, c) == SumTo(T.NE, LAMBDA m : IF c[m] = 0 THEN T.Val[m] ELSE 0)
BarrierT(T, c, n) == FoldLeft(LAMBDA a, m : a + (IF c[m] = 0 THEN T.Val[m] ELSE 0), 0,
                              [k \in 1..(T.Jumps[n].hi - T.Jumps[n].lo) |-> T.Jumps[n].lo + k])

\* C34 (vacancy): the vacancy at Vac exchanges with the atom at j; the final configuration is described
\* by the sampler built with the vacancy at j
DetailedBalanceVac ==
  Vac # 0 =>
    \A n \in DOMAIN Jumps :
       LET T == Alt[n]
           j == Jumps[n].j
           o2 == [occ EXCEPT ![Vac] = occ[j], ![j] = -1]
           c2 == CntOfT(T, o2)
       IN /\ Jumps[n].i = Vac
          /\ T.r \in DOMAIN T.Jumps
          /\ T.Jumps[T.r].i = j /\ T.Jumps[T.r].j = Vac
          /\ Barrier(cnt, n) - BarrierT(T, c2, T.r) = EnergyT(T, c2) - Energy(cnt)
=============================================================================
