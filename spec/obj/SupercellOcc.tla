---------------------------- MODULE SupercellOcc ----------------------------
(***************************************************************************)
(* Occupancy bookkeeping of onsager.supercell.Supercell (property C28).    *)
(*                                                                         *)
(* Abstract state per object o: occ[o] : Site -> 0..NC  (0 = vacancy = the  *)
(* implementation's -1; species s = implementation chemistry index s-1)     *)
(* and order[o] : 1..NC -> Seq(Site) (the implementation's chemorder).      *)
(* One action per public call; "...Err" actions are calls that must raise   *)
(* and leave the object unchanged.  Site-level structure of the supercell   *)
(* (Wyckoff fills, symmetry permutations, sample POSCAR orderings) enters   *)
(* as constants extracted from the geometry.                                *)
(***************************************************************************)
EXTENDS Integers, Sequences, FiniteSets, SequencesExt, TLC

CONSTANTS NS,      \* number of sites
          NC,      \* number of declared species (crystal species + solutes)
          NObj,    \* number of supercell objects alive (copies)
          Fills,   \* sequence of [chem |-> 1..NC, sites |-> Seq(Site)] : fillperiodic calls
          GPerms,  \* sequence of permutations (Seq over Site) : symmetry operations (indexmap, 1-based)
          Poscars, \* sequence of orderings (1..NC -> Seq(Site)), contents of POSCAR files to read
          CLo, CHi \* range of species arguments tried by SetOcc (includes invalid ones)

VARIABLES occ, order

vars == <<occ, order>>
Site == 1..NS
Chem == 1..NC
Obj  == 1..NObj
Valid(c) == c \in 0..NC

EmptyState == [occ |-> [i \in Site |-> 0], order |-> [c \in Chem |-> <<>>]]
StateOf(o) == [occ |-> occ[o], order |-> order[o]]

RemoveFrom(s, x) == SelectSeq(s, LAMBDA y : y # x)

\* the effect of one elementary occupation change (Supercell.setocc) on a state record
Put(st, i, c) ==
  IF st.occ[i] = c THEN st
  ELSE LET c0 == st.occ[i]
           o1 == IF c0 > 0 THEN [st.order EXCEPT ![c0] = RemoveFrom(@, i)] ELSE st.order
           o2 == IF c > 0 THEN [o1 EXCEPT ![c] = Append(@, i)] ELSE o1
       IN [occ |-> [st.occ EXCEPT ![i] = c], order |-> o2]

PutAll(st, sites, c) == FoldLeft(LAMBDA acc, i : Put(acc, i, c), st, sites)

\* reading a POSCAR whose per-species position lists are `ord`
ReadInto(st, ord) ==
  FoldLeft(LAMBDA acc, c : PutAll(acc, ord[c], c), st, [c \in Chem |-> c])

Set(o, st) == /\ occ' = [occ EXCEPT ![o] = st.occ]
              /\ order' = [order EXCEPT ![o] = st.order]

IsPerm(p, n) == /\ Len(p) = n
                /\ \A k \in 1..n : p[k] \in 1..n
                /\ \A k, l \in 1..n : p[k] = p[l] => k = l
Maps(n) == [1..n -> 1..n]
AllMaps == UNION {Maps(n) : n \in 0..NS}   \* candidate reorder mappings of every length

-----------------------------------------------------------------------------
Init == /\ occ = [o \in Obj |-> EmptyState.occ]
        /\ order = [o \in Obj |-> EmptyState.order]

SetOcc(o, i, c) == Valid(c) /\ Set(o, Put(StateOf(o), i, c))
SetOccErr(o, i, c) == ~Valid(c) /\ UNCHANGED vars

Fill(o, k) == /\ k \in DOMAIN Fills
              /\ Set(o, PutAll(StateOf(o), Fills[k].sites, Fills[k].chem))

Reorder(o, c, p) ==
  /\ IsPerm(p, Len(order[o][c]))
  /\ order' = [order EXCEPT ![o][c] = [k \in 1..Len(p) |-> order[o][c][p[k]]]]
  /\ UNCHANGED occ
ReorderErr(o, c, p) == /\ Len(p) = Len(order[o][c])
                       /\ ~IsPerm(p, Len(order[o][c]))
                       /\ UNCHANGED vars

ApplyG(o, g) ==
  LET pi == GPerms[g] IN
  /\ occ' = [occ EXCEPT ![o] = [j \in Site |-> LET i == CHOOSE i \in Site : pi[i] = j IN occ[o][i]]]
  /\ order' = [order EXCEPT ![o] = [c \in Chem |-> [k \in 1..Len(order[o][c]) |-> pi[order[o][c][k]]]]]

Copy(a, b) == a # b /\ occ' = [occ EXCEPT ![b] = occ[a]] /\ order' = [order EXCEPT ![b] = order[a]]

\* POSCAR(o) followed by POSCAR_occ on the same object: must be the identity
RoundTrip(o) == /\ o \in Obj
                /\ Set(o, ReadInto(EmptyState, order[o]))
\* reading a foreign POSCAR k with / without emptying first
ReadPoscar(o, k, empty) ==
  /\ k \in DOMAIN Poscars
  /\ Set(o, ReadInto(IF empty THEN EmptyState ELSE StateOf(o), Poscars[k]))

Next ==
  \E o \in Obj :
     \/ \E i \in Site, c \in CLo..CHi : SetOcc(o, i, c) \/ SetOccErr(o, i, c)
     \/ \E k \in DOMAIN Fills : Fill(o, k)
     \/ \E c \in Chem : \E p \in AllMaps : Reorder(o, c, p) \/ ReorderErr(o, c, p)
     \/ \E g \in DOMAIN GPerms : ApplyG(o, g)
     \/ \E b \in Obj : Copy(o, b)
     \/ RoundTrip(o)
     \/ \E k \in DOMAIN Poscars, e \in BOOLEAN : ReadPoscar(o, k, e)

Spec == Init /\ [][Next]_vars

-----------------------------------------------------------------------------
\* C28, first clause: occupation and ordering describe the same configuration
SaneObj(o) ==
  /\ \A i \in Site : occ[o][i] \in 0..NC
  /\ \A c \in Chem :
       /\ \A k, l \in 1..Len(order[o][c]) : order[o][c][k] = order[o][c][l] => k = l
       /\ \A i \in Site : (occ[o][i] = c) <=> (\E k \in 1..Len(order[o][c]) : order[o][c][k] = i)
Sane == \A o \in Obj : SaneObj(o)

\* C28, second clause: every declared species can be placed anywhere, from any state
Placeable == \A o \in Obj, i \in Site, c \in 0..NC : ENABLED SetOcc(o, i, c)

\* C28, third clause: POSCAR write + read is the identity on (occ, order)
RoundTripIdentity == [][\A o \in Obj : RoundTrip(o) => UNCHANGED vars]_vars

\* reading with emptying reproduces exactly the file's ordering
ReadExact == [][\A o \in Obj, k \in DOMAIN Poscars :
                   ReadPoscar(o, k, TRUE) => order'[o] = Poscars[k]]_vars

\* a symmetry operation permutes sites: composition with the inverse is the identity
ApplyGInvertible ==
  \A o \in Obj, g \in DOMAIN GPerms :
     LET pi == GPerms[g]
         occ2 == [j \in Site |-> occ[o][CHOOSE i \in Site : pi[i] = j]]
     IN  \A i \in Site : occ2[pi[i]] = occ[o][i]
=============================================================================
