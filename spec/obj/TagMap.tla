------------------------------- MODULE TagMap -------------------------------
(***************************************************************************)
(* Tags, symmetry classes and the user's tag dictionary (property C15).    *)
(*                                                                         *)
(* Abstract class structure  cs = [sizes |-> S]  where S[t][c] is the      *)
(* number of member tags of class c of type t (types are numbered; for the *)
(* vacancy-mediated calculator 1 vacancy, 2 solute, 3 solute-vacancy,      *)
(* 4 omega0, 5 omega1, 6 omega2).  A tag is <<t, c, m>>.                   *)
(*                                                                         *)
(* The user's dictionary is  sup = a sequence of <<t, c, m, pre, ene>>     *)
(* (no tag twice) plus a set of bogus tags.  Data are integers: `ene` is   *)
(* an energy level, `pre` the base-2 logarithm of the prefactor; all       *)
(* supplied values are EVEN (prefactors are powers of 4) so that the       *)
(* square roots and halves of the LIMB default stay integral.              *)
(*                                                                         *)
(* What the generated parameter set must be (Routed):                      *)
(*   - every array has one entry per class of its type;                    *)
(*   - a class given under exactly one member tag carries exactly that     *)
(*     datum; a class given under several member tags carries the datum of *)
(*     one of them (which one is not specified);                           *)
(*   - a class without data carries the default: (pre 1, ene 0) for the    *)
(*     thermodynamic types and omega0, and for omega1 / omega2 the LIMB    *)
(*     value  preT = preT0 * sqrt(preSV_i * preSV_f),                      *)
(*            eneT = eneT0 + (eneSV_i + eneSV_f) / 2                       *)
(*     where T0 is the omega0 class of the vacancy jump and SV_x is the    *)
(*     solute + binding datum of the endpoint x (binding only inside the   *)
(*     thermodynamic range).                                               *)
(* What the verbose report must be: the classes without data, the classes  *)
(* given more than once (with the tags used), the unrecognised tags.       *)
(***************************************************************************)
EXTENDS Integers, Sequences, FiniteSets, SequencesExt, FiniteSetsExt, TLC

SeqToSet(s) == {s[n] : n \in DOMAIN s}
\* TLC evaluates [x \in S |-> e] lazily (e is re-evaluated at every application); comparing a function with
\* itself turns it into an explicit table once
Tabulate(f) == IF f = f THEN f ELSE f

Types(cs) == DOMAIN cs.sizes
ClassIds(cs) == UNION {{<<t, c>> : c \in DOMAIN cs.sizes[t]} : t \in Types(cs)}
TagIds(cs) == UNION {{<<q[1], q[2], m>> : m \in 1..cs.sizes[q[1]][q[2]]} : q \in ClassIds(cs)}
\* classes in a fixed order (type, then index)
ClassSeq(cs) ==
  FoldLeft(LAMBDA acc, t : acc \o [c \in DOMAIN cs.sizes[t] |-> <<t, c>>], <<>>, [t \in 1..Len(cs.sizes) |-> t])
SizeOf(cs, q) == cs.sizes[q[1]][q[2]]

---------------------------------------------------------------------------
\* the user's dictionary
TagOf(s) == <<s[1], s[2], s[3]>>
IsTag(cs, tag) == /\ tag[1] \in DOMAIN cs.sizes /\ tag[2] \in DOMAIN cs.sizes[tag[1]]      \* = tag \in TagIds(cs)
                  /\ tag[3] \in 1..cs.sizes[tag[1]][tag[2]]
ClassOfEntry(s) == <<s[1], s[2]>>
WellFormed(cs, sup) ==
  /\ \A n \in DOMAIN sup : IsTag(cs, TagOf(sup[n]))
  /\ Cardinality({TagOf(sup[n]) : n \in DOMAIN sup}) = Len(sup)          \* a dictionary has each key once
  /\ \A n \in DOMAIN sup : sup[n][4] % 2 = 0 /\ sup[n][5] % 2 = 0
Given(sup, q) == {s \in SeqToSet(sup) : ClassOfEntry(s) = q}

\* ------------------------------------------------------------------ the report
Missing(cs, sup) == {q \in ClassIds(cs) : Given(sup, q) = {}}
Single(cs, sup) == {q \in ClassIds(cs) : Cardinality(Given(sup, q)) = 1}
Duplicated(cs, sup) == {q \in ClassIds(cs) : Cardinality(Given(sup, q)) > 1}
\* the duplicate report: for every class given more than once, the set of tags it was given under
DuplicateReport(cs, sup) == {{TagOf(s) : s \in Given(sup, q)} : q \in Duplicated(cs, sup)}

\* model-level lemma: the three kinds of classes partition the classes
ReportPartition(cs, sup) ==
  LET Mi == Missing(cs, sup) Si == Single(cs, sup) Du == Duplicated(cs, sup) IN
  /\ Mi \cup Si \cup Du = ClassIds(cs)
  /\ Mi \cap Si = {} /\ Mi \cap Du = {} /\ Si \cap Du = {}
  /\ Cardinality(Mi) + Cardinality(Si) + Cardinality(Du) = Cardinality(ClassIds(cs))
  \* every supplied tag is accounted for exactly once: in a singly covered class or in one duplicate group
  /\ Cardinality(Si) + FoldSet(LAMBDA g, acc : acc + Cardinality(g), 0, DuplicateReport(cs, sup)) = Len(sup)

\* ------------------------------------------------------------------ the parameter set
\* arr = [pre |-> P, ene |-> E], P[t] / E[t] sequences over the classes of type t.
\* ref[t][c] = <<>> for a type whose default is (1, 0); otherwise the LIMB reference of the class:
\*   [jt |-> omega0 class of the vacancy jump, si, sf |-> solute classes of the two endpoints,
\*    ti, tf |-> solute-vacancy classes of the two endpoints, 0 outside the thermodynamic range]
Half(n) == n \div 2
LimbOf(x, r) ==      \* x[t] = one of the two families of arrays
  LET sv(s, t) == x[2][s] + (IF t = 0 THEN 0 ELSE x[3][t]) IN
  x[4][r.jt] + Half(sv(r.si, r.ti) + sv(r.sf, r.tf))
LimbIntegral(x, r) ==
  LET sv(s, t) == x[2][s] + (IF t = 0 THEN 0 ELSE x[3][t]) IN (sv(r.si, r.ti) + sv(r.sf, r.tf)) % 2 = 0
DefaultOf(ref, arr, q) ==
  IF ref[q[1]][q[2]] = <<>> THEN <<0, 0>>
  ELSE <<LimbOf(arr.pre, ref[q[1]][q[2]]), LimbOf(arr.ene, ref[q[1]][q[2]])>>

LengthsOK(cs, arr) ==
  /\ Len(arr.pre) = Len(cs.sizes) /\ Len(arr.ene) = Len(cs.sizes)
  /\ \A t \in Types(cs) : Len(arr.pre[t]) = Len(cs.sizes[t]) /\ Len(arr.ene[t]) = Len(cs.sizes[t])
InRange(arr, q) == /\ q[1] \in DOMAIN arr.pre /\ q[1] \in DOMAIN arr.ene
                   /\ q[2] \in DOMAIN arr.pre[q[1]] /\ q[2] \in DOMAIN arr.ene[q[1]]
At(arr, q) == <<arr.pre[q[1]][q[2]], arr.ene[q[1]][q[2]]>>

SuppliedRouted(cs, sup, arr) ==
  \A q \in ClassIds(cs) : Given(sup, q) # {} =>
      InRange(arr, q) /\ \E s \in Given(sup, q) : At(arr, q) = <<s[4], s[5]>>
DefaultsElsewhere(cs, ref, sup, arr, limb) ==
  \A q \in Missing(cs, sup) : ((ref[q[1]][q[2]] # <<>>) = limb) =>
      InRange(arr, q) /\ At(arr, q) = DefaultOf(ref, arr, q)
Routed(cs, ref, sup, arr) ==
  /\ LengthsOK(cs, arr) /\ SuppliedRouted(cs, sup, arr)
  /\ DefaultsElsewhere(cs, ref, sup, arr, FALSE) /\ DefaultsElsewhere(cs, ref, sup, arr, TRUE)

\* the parameter set of the model itself when every class is given at most once (then it is unique)
ModelArrays(cs, ref, sup) ==
  LET val(q) == IF Given(sup, q) = {} THEN <<0, 0>>
                ELSE LET s == CHOOSE s \in Given(sup, q) : TRUE IN <<s[4], s[5]>>
      base == Tabulate([pre |-> [t \in Types(cs) |-> [c \in DOMAIN cs.sizes[t] |-> val(<<t, c>>)[1]]],
                        ene |-> [t \in Types(cs) |-> [c \in DOMAIN cs.sizes[t] |-> val(<<t, c>>)[2]]]])
      fill(q) == IF Given(sup, q) = {} THEN DefaultOf(ref, base, q) ELSE val(q)
  IN Tabulate([pre |-> [t \in Types(cs) |-> [c \in DOMAIN cs.sizes[t] |-> fill(<<t, c>>)[1]]],
               ene |-> [t \in Types(cs) |-> [c \in DOMAIN cs.sizes[t] |-> fill(<<t, c>>)[2]]]])

---------------------------------------------------------------------------
\* scenario generator: which members the user supplies.  cnt[n] in 0..2 = number of member tags given for
\* the n-th class of ClassSeq; perm[n] = a permutation of the members of that class (seeded, from the
\* harness); the members used and all values are functions of (cnt, salt), distinct per tag, never (0, 0).
CntOK(cs, cnt) == LET Q == ClassSeq(cs) IN
  Len(cnt) = Len(Q) /\ \A n \in DOMAIN Q : cnt[n] \in 0..2 /\ cnt[n] <= SizeOf(cs, Q[n])
AllCnt(cs) == LET Q == ClassSeq(cs) IN
  {f \in [DOMAIN Q -> 0..2] : \A n \in DOMAIN Q : f[n] <= SizeOf(cs, Q[n])}
SaltOf(cnt) == FoldLeft(LAMBDA acc, n : (acc * 3 + cnt[n] + n) % 1009, 0, [n \in 1..Len(cnt) |-> n])
EneOf(n, salt) == 2 * (1 + ((5 * n + salt) % 509))               \* distinct for n < 509, never 0
PreOf(n, salt) == 2 * (((11 * n + 3 * salt) % 127) - 63)         \* log2 of a power of 4 in 4^-63 .. 4^63
Scenario(cs, perm, cnt, salt) ==
  LET Q == ClassSeq(cs)
      members(n) == LET sz == SizeOf(cs, Q[n])
                        a == 1 + ((salt + 3 * n) % sz)
                        b == 1 + (a % sz)
                    IN IF cnt[n] = 0 THEN <<>> ELSE IF cnt[n] = 1 THEN <<perm[n][a]>> ELSE <<perm[n][a], perm[n][b]>>
      add(acc, n) == LET ms == members(n) IN
                       acc \o [j \in DOMAIN ms |->
                                 <<Q[n][1], Q[n][2], ms[j], PreOf(Len(acc) + j, salt), EneOf(Len(acc) + j, salt)>>]
  IN FoldLeft(add, <<>>, [n \in 1..Len(Q) |-> n])
PermOK(cs, perm) == LET Q == ClassSeq(cs) IN
  Len(perm) = Len(Q) /\ \A n \in DOMAIN Q : /\ Len(perm[n]) = SizeOf(cs, Q[n])
                                            /\ SeqToSet(perm[n]) = 1..SizeOf(cs, Q[n])

=============================================================================
