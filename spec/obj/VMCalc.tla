------------------------------- MODULE VMCalc -------------------------------
(***************************************************************************)
(* VacancyMediated as an object with history (C13, C14).                   *)
(*                                                                         *)
(* Intended behaviour: the calculator is a pure function F(range, input);  *)
(* the cache, arrays handed back to the caller, regeneration of the range, *)
(* and a save / reload cycle must never change what a later call returns.  *)
(* The state records only what a history can differ in:                    *)
(*   cache   : inputs whose Green-function values are cached,              *)
(*   range   : current thermodynamic range,                                *)
(*   handed  : inputs whose returned arrays the caller still holds and may *)
(*             overwrite in place,                                         *)
(*   loaded  : the object went through HDF5 save/reload,                   *)
(*   expect  : after Lij(k), the value F(range, k) the call must return    *)
(*             (<<0, 0>> when the last action was not a calculation).      *)
(* TLC enumerates all histories up to MaxDepth; each path of the state     *)
(* graph is replayed on a real calculator and every Lij result is compared *)
(* with a fresh calculator's value for (range, k).                         *)
(***************************************************************************)
EXTENDS Integers, FiniteSets, TLC

CONSTANTS Inputs, Ranges, MaxDepth

VARIABLES cache, range, handed, loaded, expect, depth
vars == <<cache, range, handed, loaded, expect, depth>>

Init == /\ cache = {} /\ range = CHOOSE r \in Ranges : \A q \in Ranges : r <= q
        /\ handed = {} /\ loaded = FALSE /\ expect = <<0, 0>> /\ depth = 0

Step == depth < MaxDepth /\ depth' = depth + 1

Lij(k) == /\ Step
          /\ cache' = cache \cup {k}
          /\ handed' = handed \cup {k}
          /\ expect' = <<range, k>>
          /\ UNCHANGED <<range, loaded>>

\* the caller overwrites, in place, every array returned by an earlier call for input k
Scribble(k) == /\ Step /\ k \in handed
               /\ handed' = handed \ {k}
               /\ expect' = <<0, 0>>
               /\ UNCHANGED <<cache, range, loaded>>

ClearCache == /\ Step /\ cache # {}
              /\ cache' = {} /\ expect' = <<0, 0>>
              /\ UNCHANGED <<range, handed, loaded>>

\* generate(n) + generatematrices() + generatetags(): the cache is emptied by the package
Regenerate(n) == /\ Step /\ n # range
                 /\ range' = n /\ cache' = {} /\ expect' = <<0, 0>>
                 /\ UNCHANGED <<handed, loaded>>

\* addhdf5 to an in-memory file, loadhdf5 back; the reloaded object replaces the original
SaveLoad == /\ Step
            /\ loaded' = TRUE /\ handed' = {} /\ expect' = <<0, 0>>
            /\ UNCHANGED <<cache, range>>

Next == \/ \E k \in Inputs : Lij(k) \/ Scribble(k)
        \/ ClearCache
        \/ \E n \in Ranges : Regenerate(n)
        \/ SaveLoad
Spec == Init /\ [][Next]_vars

\* sanity of the protocol itself
TypeOK == cache \subseteq Inputs /\ handed \subseteq Inputs /\ range \in Ranges
ExpectIsFunctionOfRangeAndInput ==
  expect # <<0, 0>> => expect[1] = range /\ expect[2] \in cache
=============================================================================
