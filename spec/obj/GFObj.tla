------------------------------- MODULE GFObj -------------------------------
(***************************************************************************)
(* The lattice Green function calculator (GFCrystalcalc) as an object:     *)
(* what it answers depends on the LAST SetRates input only.                *)
(*                                                                         *)
(*   SetRates(k)  installs input k (site/transition prefactors, energies)  *)
(*   Eval         G(i, j, dx) at the probe points, the diffusivity D and   *)
(*                the bias correction: must equal F(k) for the last k      *)
(*   SaveLoad     addhdf5 / loadhdf5: the topology and the Taylor          *)
(*                expansion survive, the rates do NOT (the documented      *)
(*                contract: SetRates must be called on the loaded object)  *)
(*   Copy         a deep copy is an independent calculator in the same     *)
(*                state (the driver continues on the copy)                 *)
(*                                                                         *)
(* hist is a history variable used only to state the lemma LastInputWins;  *)
(* the driver replays every path of the state graph on a real calculator   *)
(* and Check_Rel decides  observed = F(expect)  at every Eval.             *)
(***************************************************************************)
EXTENDS Integers, Sequences, TLC

CONSTANTS Inputs, MaxDepth

VARIABLES cur,      \* input installed in the object (0 = none)
          loaded,   \* the object has been through SaveLoad
          expect,   \* input whose answers the last Eval must have produced (0 = last step was not Eval)
          hist      \* sequence of actions so far: input ids (positive), EVAL, SAVELOAD, COPY
vars == <<cur, loaded, expect, hist>>
EVAL == -1
SAVELOAD == -2
COPY == -3
ASSUME Inputs \subseteq (Nat \ {0})

Init == cur = 0 /\ loaded = FALSE /\ expect = 0 /\ hist = <<>>

SetRates(k) == /\ Len(hist) < MaxDepth
               /\ cur' = k /\ expect' = 0 /\ hist' = Append(hist, k)
               /\ UNCHANGED loaded

Eval == /\ Len(hist) < MaxDepth
        /\ cur # 0                        \* evaluating without rates is outside the contract
        /\ expect' = cur /\ hist' = Append(hist, EVAL)
        /\ UNCHANGED <<cur, loaded>>

SaveLoad == /\ Len(hist) < MaxDepth
            /\ ~loaded
            /\ cur' = 0 /\ loaded' = TRUE /\ expect' = 0 /\ hist' = Append(hist, SAVELOAD)

Copy == /\ Len(hist) < MaxDepth
        /\ cur # 0
        /\ Len(hist) > 0 /\ hist[Len(hist)] # COPY
        /\ expect' = 0 /\ hist' = Append(hist, COPY)
        /\ UNCHANGED <<cur, loaded>>

Next == \/ \E k \in Inputs : SetRates(k)
        \/ Eval
        \/ SaveLoad
        \/ Copy
Spec == Init /\ [][Next]_vars

---------------------------------------------------------------------------
RECURSIVE LastInput(_)
LastInput(h) == IF h = <<>> THEN 0
                ELSE LET x == h[Len(h)] IN
                     IF x = SAVELOAD THEN 0
                     ELSE IF x \in Inputs THEN x
                     ELSE LastInput(SubSeq(h, 1, Len(h) - 1))

\* the installed input is the last SetRates since the last SaveLoad, whatever happened before
LastInputWins == cur = LastInput(hist)
\* an Eval is only ever expected to answer for the installed input
EvalAnswersInstalled == expect # 0 => expect = cur
=============================================================================
